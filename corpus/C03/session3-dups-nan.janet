# C03 session 3: insertion sequences with duplicate keys (first key object stays, last value wins; struct/proto-flatten keeps
# the first value), -0 / +0 and equal tuples as duplicates of each other, NaN keys (ignored), tuples holding NaN as keys
# (accepted), NaN patterns.  Same content must be `=`, hash alike and lie in identical slot arrays (python content oracle),
# and every value goes through the Lean model.
(def pool @[])
(defn P [x] (array/push pool x))
(P (struct :a 1 :b 2 :a 3)) (P (struct :a 1 :a 3 :b 2)) (P (struct :b 2 :a 3)) (P {:a 3 :b 2}) (P (struct :a 1 :b 2))
(P (struct :a 1 :a 2 :a 3 :a 4 :a 5)) (P {:a 5})
(P (struct 0 1 -0 2)) (P (struct -0 1 0 2)) (P {0 2}) (P {-0 2}) (P (struct (nb 0x80000000 0) 1 0 2 (nb 0x80000000 0) 3)) (P {0 3})
(P (struct [1 2] :x (tuple 1 2) :y)) (P {[1 2] :y}) (P (struct [0] 1 [-0] 2 :k nil nil 3)) (P {[0] 2})
(P (struct "aa" 1 "b@" 2 :aa 3 :b@ 4 "aa" 5 :b@ 6 'aa 7)) (P (struct 'aa 7 :b@ 6 "aa" 5 :aa 3 "b@" 2))
(P (struct/proto-flatten (struct/with-proto {:a 1 :b 2} :a 3))) (P (struct/proto-flatten (struct/with-proto {:b 2} :a 3))) (P {:a 3 :b 2})
(P (struct/proto-flatten (struct/with-proto (struct/with-proto {:a 1 :c 9} :a 2 :b 5) :a 3))) (P {:a 3 :b 5 :c 9})
(P (table/to-struct (let [t @{}] (put t :a 1) (put t :b 2) (put t :a 3) t)))
(P (struct math/nan 1 :a 2)) (P (struct :a 2 (- math/nan) 1)) (P (struct :a 1 math/nan 7 :a 2)) (P {:a 2})
(P (struct math/nan 1)) (P {}) (P (table/to-struct (let [t @{}] (put t math/nan 1) t)))
(P (struct [math/nan] 1)) (P (struct [math/nan] 1 :b 2)) (P {:v math/nan}) (P [math/nan]) (P math/nan) (P (- math/nan))
(P (nb 0x7FF00000 1)) (P (nb 0x7FF80000 0x123)) (P (nb 0xFFF00000 0x7FFF))
pool
