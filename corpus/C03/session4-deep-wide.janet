# C03 session 4: deep and wide nested tuples / structs for the explicit traversal stack of janet_equals / janet_compare
# (value.c push_traversal_node / traversal_next; the stack starts at 128 nodes and is grown by realloc).  Every value goes
# through the laws, the content oracle, the recursive model AND the iterative model (Value/Traverse.lean, `iterrow`).
(def pool @[])
(defn P [x] (array/push pool x))
# alternating tuple / bracket tuple / struct value / struct key / prototype, `d` levels, leaf at the bottom
(defn nest [d leaf]
  (var x leaf)
  (for i 0 d
    (set x (case (% i 5)
             0 (tuple i x)
             1 (tuple/brackets x i)
             2 (struct :v x :i i)
             3 (struct x i)
             (struct/with-proto (struct :p x) :own i))))
  x)
(P (nest 48 :leaf)) (P (nest 48 :leaf)) (P (nest 48 :leaG)) (P (nest 48 "leaf")) (P (nest 47 :leaf)) (P (nest 30 0)) (P (nest 30 -0)) (P (nest 30 1))
(P (nest 12 [1 2 3])) (P (nest 12 (tuple 1 2 3))) (P (nest 12 [1 2])) (P (nest 12 [1 2 4])) (P (nest 12 '(1 2 3 4)))
# differences at several depths: the traversal must stop with the right sign and leave no stale state for the next call
(defn nest2 [d at leaf other]
  (var x leaf)
  (for i 0 d
    (set x (if (= i at) (tuple i x other) (tuple i x :same))))
  x)
(each at [0 1 7 20 39] (P (nest2 40 at :l :a)) (P (nest2 40 at :l :b)) (P (nest2 40 at :l :a)))
# wide
(P (tuple ;(range 400))) (P (tuple ;(range 400))) (P (tuple ;(range 399) 400)) (P (tuple ;(range 399))) (P (tuple/brackets ;(range 400)))
(P (struct ;(mapcat |[$ (* 2 $)] (range 150)))) (P (struct ;(mapcat |[$ (* 2 $)] (reverse (range 150))))) (P (struct ;(mapcat |[$ (* 2 $)] (range 149)) 149 0))
(P (table/to-struct (tabseq [i :range [0 150]] i (* 2 i))))
# wide AND nested: tuples of structs of tuples; 58 levels of plain tuples are built directly
(defn chain [d leaf] (var x leaf) (for i 0 d (set x (tuple x))) x)
(P (chain 58 1)) (P (chain 58 1)) (P (chain 58 2)) (P (chain 57 1))
# deeper than the initial 128 nodes of the traversal stack: push_traversal_node reallocates in the middle of a traversal
(P (chain 300 1)) (P (chain 300 1)) (P (chain 300 2)) (P (chain 299 1)) (P (chain 140 [1 2])) (P (chain 140 [1 2])) (P (chain 140 [1 3]))
(P (tuple ;(map |(struct :k (tuple $ (struct $ $))) (range 60)))) (P (tuple ;(map |(struct :k (tuple $ (struct $ $))) (range 60))))
(P (tuple ;(map |(struct :k (tuple $ (struct $ (if (= $ 59) -1 $)))) (range 60))))
# prototype chains
(defn protos [d leafv] (var x (struct :z leafv)) (for i 0 d (set x (struct/with-proto x :lvl i))) x)
(P (protos 25 1)) (P (protos 25 1)) (P (protos 25 2)) (P (protos 24 1)) (P (struct :lvl 24))
pool
