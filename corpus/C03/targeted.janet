# C03 targeted scenarios (hand-written; run before the generated pools)
(def pool @[])
(defn P [x] (array/push pool x))
# -0 / +0 everywhere a hash is taken
(P 0) (P -0) (P (nb 0x80000000 0)) (P [0]) (P [-0]) (P (tuple (nb 0x80000000 0))) (P {0 1}) (P {-0 1}) (P {:a 0}) (P {:a -0})
(P (struct (nb 0x80000000 0) :x)) (P (struct 0 :x)) (P {[0] 1}) (P {[-0] 1})
# bracketed vs parenthesised
(P '(1 2)) (P '[1 2]) (P (tuple 1 2)) (P (tuple/brackets 1 2)) (P [1 2]) (P '()) (P '[]) (P {'(1) 1}) (P {'[1] 1}) (P ['(1)]) (P ['[1]])
# prototypes
(P {:a 1}) (P (struct/with-proto {} :a 1)) (P (struct/with-proto {:a 1})) (P (struct/with-proto {:b 2} :a 1)) (P (struct/with-proto {:b 3} :a 1))
(P (struct/with-proto (struct/with-proto {:c 1} :b 2) :a 1)) (P (struct/with-proto (struct/with-proto {:c 2} :b 2) :a 1)) (P (struct/with-proto {:b 2} :a 1))
(P (unmarshal (marshal (struct/with-proto {:b 2} :a 1))))
# keys with equal janet_hash: insertion order must not matter
(P (struct "aa" 1 "b@" 2 :aa 3 :b@ 4 'aa 5 'b@ 6)) (P (struct 'b@ 6 'aa 5 :b@ 4 :aa 3 "b@" 2 "aa" 1)) (P (struct :aa 3 "b@" 2 'b@ 6 "aa" 1 'aa 5 :b@ 4))
(P (table/to-struct @{"aa" 1 "b@" 2 :aa 3 :b@ 4 'aa 5 'b@ 6}))
(P (struct (nb 0x3FF00000 0) 1 (nb 0x3FF00001 1) 2 (nb 0x3FF00010 0x10) 3)) (P (struct (nb 0x3FF00010 0x10) 3 (nb 0x3FF00001 1) 2 (nb 0x3FF00000 0) 1))
# numbers near the int32 / 2^53 boundaries
(P 2147483647) (P 2147483648) (P -2147483648) (P -2147483649) (P 9007199254740991) (P 9007199254740992) (P 9007199254740994) (P math/inf) (P (- math/inf))
(P (nb 0 1)) (P (nb 0x80000000 1))
# identity types
(def a1 @[]) (def a2 @[]) (P a1) (P a2) (P a1) (def t1 @{}) (P t1) (P @{}) (P t1) (P @"") (P @"") (def f1 (fn [] 1)) (P f1) (P (fn [] 1)) (P f1)
(def fb (fiber/new (fn [] 1))) (P fb) (P (fiber/new (fn [] 1))) (P fb) (P print) (P print) (P [a1]) (P [a1]) (P [a2]) (P {a1 1}) (P {a1 1}) (P {a2 1})
# strings / symbols / keywords with the same bytes
(P "abc") (P (string "ab" "c")) (P 'abc) (P (symbol "ab" "c")) (P :abc) (P (keyword "ab" "c")) (P (parse "abc")) (P (parse ":abc")) (P (parse "\"abc\""))
(P "") (P (string)) (P (keyword "")) (P (symbol "")) (P nil) (P true) (P false)
(for i 0 500 (symbol "c03c-" i))
(gccollect)
(P (symbol "c03c-" 7)) (P (symbol "c03c-7")) (P (parse "c03c-7")) (P (unmarshal (marshal (symbol "c03c-7"))))
pool
