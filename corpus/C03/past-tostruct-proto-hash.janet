# minimised past failure (fixed by patches/fix-C03-tostruct-proto-hash.diff): table/to-struct / freeze assigned the
# prototype after janet_struct_end had stored the hash, so these were neither = nor hash-equal to struct/with-proto
(def pool @[])
(defn P [x] (array/push pool x))
(P (struct/with-proto {:b 2} :a 1))
(P (table/to-struct @{:a 1} {:b 2}))
(P (freeze (table/setproto @{:a 1} @{:b 2})))
(P (unmarshal (marshal (struct/with-proto {:b 2} :a 1))))
(P (table/to-struct @{:a 1}))
(P (struct/with-proto (table/to-struct @{:b 2} {:c 3}) :a 1))
(P (struct/with-proto (struct/with-proto {:c 3} :b 2) :a 1))
(P (freeze (table/setproto @{:a 1} (table/setproto @{:b 2} @{:c 3}))))
pool
