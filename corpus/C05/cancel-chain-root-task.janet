# regression: `cancel` through a child link that leads to a task of the event loop.  A direct (cancel T) / (resume T) of a
# task is refused ("cannot cancel root fiber, use ev/cancel"), but janet_continue_signal's walk to the innermost child did
# not test the root flag: it wrote the signal into the task's (or the task's innermost child's) gc.flags - the same bits
# that hold JANET_FIBER_FLAG_ROOT and JANET_FIBER_EV_FLAG_SUSPENDED - BEFORE the refusal could happen.
#  (a) task without a child: the root flag is wiped, the refusal never happens, the task is finished on the canceller's
#      C stack, the loop later reports "cannot resume fiber with status :error" and never terminates (its reference
#      count for the suspended task is not given back);
#  (b) task suspended inside a child (defer / protect body): the cancel IS refused at the task, but the body fiber keeps
#      the mark: the next value the loop hands to the task (the result of its ev/sleep or ev/read) is raised as an
#      ERROR in the body, long after the refused cancel; the cancel value is lost.
# Two routes to such a link: `propagate` from a suspended task, and ev/go on a fiber that already is somebody's child.
(def problems @[])
(defn check [what ok] (unless ok (array/push problems what)))
(def refusal "cannot cancel root fiber, use ev/cancel")

# (b) task suspended inside a protect body, link made by propagate
(def [r wr] (os/pipe))
(def log-b @[])
(def Tb (ev/go (fn [] (array/push log-b (protect (ev/read r 10))) :Tb-result)))
(ev/sleep 0)
(def wb (fiber/new (fn [] (propagate :x Tb)) :9))
(check "b: propagate from a suspended task" (= :x (resume wb)))
(def cb (protect (cancel wb :boom)))
(check (string/format "b: cancel through the link must be refused, got %q" cb)
       (or (deep= cb [false refusal]) (deep= cb [true "cannot resume root fiber, use ev/go"])))
(ev/write wr "hello")
(ev/sleep 0.02)
(check (string/format "b: the value read by the task arrived as %q" log-b) (deep= log-b @[[true @"hello"]]))
(check (string/format "b: task ended %q %q" (fiber/status Tb) (fiber/last-value Tb))
       (and (= :dead (fiber/status Tb)) (= :Tb-result (fiber/last-value Tb))))

# (a) task without a child, link made by propagate
(def log-a @[])
(def Ta (ev/go (fn [] (array/push log-a [:slept (ev/sleep 0.01)]) :Ta-result)))
(ev/sleep 0)
(check "a: direct cancel refused" (deep= (protect (cancel Ta 1)) [false refusal]))
(def wa (fiber/new (fn [] (propagate :x Ta)) :9))
(resume wa)
(def ca (protect (cancel wa :boom)))
(check (string/format "a: cancel through the link must be refused like the direct one, got %q, task now %q" ca (fiber/status Ta))
       (and (deep= ca [false refusal]) (= :suspended (fiber/status Ta))))

# (a') the same without propagate: B is A's child, then becomes a task
(def log-c @[])
(def B (fiber/new (fn [] (yield 1) (array/push log-c [:slept (ev/sleep 0.01)]) :B-result) :e))
(def A (fiber/new (fn [] (resume B)) :y))
(resume A)
(ev/go B)
(ev/sleep 0)
(def cc (protect (cancel A :boom)))
(check (string/format "a': cancel of the parent of a task must be refused, got %q, task now %q" cc (fiber/status B))
       (and (deep= cc [false refusal]) (= :suspended (fiber/status B))))
(ev/sleep 0.05)
(check (string/format "a: task ended %q %q %q" (fiber/status Ta) (fiber/last-value Ta) log-a)
       (and (= :dead (fiber/status Ta)) (deep= log-a @[[:slept nil]])))
(check (string/format "a': task ended %q %q %q" (fiber/status B) (fiber/last-value B) log-c)
       (and (= :dead (fiber/status B)) (deep= log-c @[[:slept nil]])))
(ev/close r) (ev/close wr)
(if (empty? problems) (print "ok") (each p problems (print "FAIL " p)))
(flush)
# on the unfixed tree the loop would never terminate (case a): leave explicitly
(os/exit (if (empty? problems) 0 1))
