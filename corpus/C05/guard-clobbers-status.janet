# Regression (fixed in /repo 3d82764): janet_check_can_resume tested the C recursion guard FIRST and set the status of the
# fiber it refused to :error whatever it was.  At C depth JANET_RECURSION_GUARD a `(resume x)` then turned a :dead fiber
# into :error, and a RUNNING ancestor into :error while it was running - after its next yield it was :pending and
# resumable again (finished -> suspended).  C05: a fiber only moves new -> running -> suspended | finished.
(var target nil)
(defn nest [n]
  (def probe (fiber/new (fn [] 1) :e))
  (def F (fiber/new (fn [] (nest (+ n 1))) :a))
  (def r (resume F))
  (if (and (= (fiber/status F) :error) (= (fiber/status probe) :new) (string? r))
    (do # F could not go deeper: we are one level below the guard.  Let a child that IS at the guard touch the target.
      (def before (fiber/status target))
      (def T (fiber/new (fn [] (resume target)) :a))
      (def tr (resume T))
      [:limit before (fiber/status target) tr])
    r))
(def dead (fiber/new (fn [] 1) :e))
(resume dead)
(set target dead)
(def r1 (resume (fiber/new (fn [] (nest 0)) :a)))
(def anc (fiber/new (fn [] (def r (nest 0)) (yield [(fiber/status (fiber/current)) r]) :done) :a))
(set target anc)
(def r2 (resume anc))
(def ok1 (and (tuple? r1) (= (r1 0) :limit) (= (r1 1) :dead) (= (r1 2) :dead)))
(def ok2 (and (tuple? r2) (= (r2 0) :alive) (tuple? (r2 1)) (= ((r2 1) 1) :alive) (= ((r2 1) 2) :alive)))
(unless ok1 (print "dead fiber changed status when resumed at the recursion guard: " (string/format "%q" r1)))
(unless ok2 (print "running ancestor changed status when resumed at the recursion guard: " (string/format "%q" r2)))
(print (if (and ok1 ok2) "ok" "FAIL"))
