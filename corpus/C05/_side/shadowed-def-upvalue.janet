
(var G @[])
(var TR @[])
(def hexd "0123456789abcdef")
(def statnum {:dead 0 :error 1 :debug 2 :pending 3 :user0 4 :user1 5 :user2 6 :user3 7 :user4 8 :user5 9 :user6 10 :user7 11
              :interrupted 12 :suspended 13 :new 14 :alive 15})
(defn fid [f] (or (index-of f G) -1))
(defn snap [] (def b @"") (each f G (buffer/push-byte b (in hexd (statnum (fiber/status f))))) (string b))
(defn fmt [x]
  (case (type x)
    :nil "nil"
    :boolean (string x)
    :number (string x)
    :string (string "\"" (string/replace-all " " "_" (peg/replace-all '(* "<tuple 0x" (some (range "09" "AF" "af")) ">") "<tuple>" (peg/replace-all '(* "<fiber 0x" (some (range "09" "AF" "af")) ">") "<fiber>" x))) "\"")
    :keyword (string ":" x)
    :fiber (string "F" (fid x))
    :tuple (string "(" (string/join (map fmt x) ",") ")")
    (string "?" (type x))))
(defn ev [l v] (array/push TR (string l ":" (fid (fiber/current)) ":" (fmt v) ":" (snap))) nil)
(defn pre [l kind f x]
  (array/push TR (string "@pre " l " " (fid (fiber/current)) " " kind " " (if (fiber? f) (fid f) -1) " "
                         (if (fiber? f) (statnum (fiber/status f)) -1) " " (fmt x) " " (snap))) nil)
(defn snd [l sig x] (array/push TR (string "@snd " l " " (fid (fiber/current)) " " sig " " (fmt x) " " (snap))) nil)
(defn c05/new [f & args]
  (def nf (fiber/new f ;args))
  (array/push TR (string "@new " (fid (fiber/current)) " " (length G) " " (if (empty? args) "-" (string "=" (in args 0)))))
  (array/push G nf)
  nf)
(defn stat [f] (if (fiber? f) (fiber/status f) :nofib))
(defn lastv [f] (if (fiber? f) (fiber/last-value f) :nofib))
(defmacro c05-try
  ``Try something and catch errors. `body` is any expression,
  and `catch` should be a form, the first element of which is a tuple. This tuple
  should contain a binding for errors and an optional binding for
  the fiber wrapping the body. Returns the result of `body` if no error,
  or the result of `catch` if an error.``
  [body catch]
  (let [[[err fib]] catch
        f (gensym)
        r (gensym)]
    ~(let [,f (,c05/new (fn :try [] ,body) :ie)
           ,r (,resume ,f)]
       (if (,= (,fiber/status ,f) :error)
         (do (def ,err ,r) ,(if fib ~(def ,fib ,f)) ,;(tuple/slice catch 1))
         ,r))))
(defmacro c05-protect
  `Evaluate expressions, while capturing any errors. Evaluates to a tuple
  of two elements. The first element is true if successful, false if an
  error, and the second is the return value or error.`
  [& body]
  (let [f (gensym) r (gensym)]
    ~(let [,f (,c05/new (fn :protect [] ,;body) :ie)
           ,r (,resume ,f)]
       [(,not= :error (,fiber/status ,f)) ,r])))
(defmacro c05-defer
  ``Run `form` unconditionally after `body`, even if the body throws an error.
  Will also run `form` if a user signal 0-4 is received.``
  [form & body]
  (with-syms [f r]
    ~(do
       (def ,f (,c05/new (fn :defer [] ,;body) :ti))
       (def ,r (,resume ,f))
       ,form
       (if (= (,fiber/status ,f) :dead)
         ,r
         (,propagate ,r ,f)))))
(defmacro c05-edefer
  ``Run `form` after `body` in the case that body terminates abnormally (an error or user signal 0-4).
  Otherwise, return last form in `body`.``
  [form & body]
  (with-syms [f r]
    ~(do
       (def ,f (,c05/new (fn :edefer [] ,;body) :ti))
       (def ,r (,resume ,f))
       (if (= (,fiber/status ,f) :dead)
         ,r
         (do ,form (,propagate ,r ,f))))))
(defmacro c05-prompt
  ``Set up a checkpoint that can be returned to. `tag` should be a value
  that is used in a `return` statement, like a keyword.``
  [tag & body]
  (with-syms [res target payload fib]
    ~(do
       (def ,fib (,c05/new (fn :prompt [] [,tag (do ,;body)]) :i0))
       (def ,res (,resume ,fib))
       (def [,target ,payload] ,res)
       (if (,= ,tag ,target)
         ,payload
         (,propagate ,res ,fib)))))
(defmacro c05-with
  ``Evaluate `body` with some resource, which will be automatically cleaned up
  if there is an error in `body`. `binding` is bound to the expression `ctor`, and
  `dtor` is a function or callable that is passed the binding. If no destructor
  (`dtor`) is given, will call :close on the resource.``
  [[binding ctor dtor] & body]
  ~(do
     (def ,binding ,ctor)
     ,(apply c05-defer [(or dtor :close) binding] body)))
(defmacro c05-generate
  ``Create a generator expression using the `loop` syntax. Returns a fiber
  that yields all values inside the loop in order. See `loop` for details.``
  [head & body]
  
  ~(,c05/new (fn :generate [] (loop ,head (yield (do ,;body)))) :yi))
(defmacro c05-coro
  "A wrapper for making fibers that may yield multiple values (coroutine). Same as `(c05/new (fn [] ;body) :yi)`."
  [& body]
  (tuple c05/new (tuple 'fn :coro '[] ;body) :yi))
(defmacro c05-with-dyns
  `Run a block of code in a new fiber that has some
  dynamic bindings set. The fiber will not mask errors
  or signals, but the dynamic bindings will be properly
  unset, as dynamic bindings are fiber-local.`
  [bindings & body]
  (def dyn-forms
    (seq [i :range [0 (length bindings) 2]]
      ~(setdyn ,(bindings i) ,(bindings (+ i 1)))))
  ~(,resume (,c05/new (fn :with-dyns [] ,;dyn-forms ,;body) :p)))
(defn run-tree [idx f flags]
  (set G @[(fiber/root)])
  (set TR @[])
  (def m (fiber/new f flags))
  (array/push G m)
  (def r (resume m))
  (print idx " " (string/join TR ";") " | done " (statnum (fiber/status m)) " " (fmt r) " " (snap))
  (flush))

(run-tree 508 (fn [] (def v0 101) (ev 1 v0) (def v1 (c05-coro (def v1 141) (ev 53 v1) (def v2 (+ @{:+ (fn [_a _b] (def v2 142) (ev 55 v2) (def v3 (lastv (get G 1))) (ev 56 v3) (def v4 143) (ev 57 v4) 144)} 1)) (ev 54 v2) (def v3 (lastv (get G 0))) (ev 58 v3) (def v4 (c05-with [v4 v2 (fn [v7] (def v8 145) (ev 60 v8) 146)] (def v5 147) (ev 61 v5) (def v6 nil) (ev 62 v6) v4)) (ev 59 v4) (def v5 (lastv (get G 4))) (ev 63 v5) nil)) (ev 2 v1) (def v2 (do (def ds_ v1) (pre 3 3 ds_ nil) (each v2 ds_ (def v3 v2) (ev 4 v3) (def v4 (do (snd 5 4 v2) (signal 0 v2))) (ev 5 v4) (def v5 (do (def ds_ (get G 1)) (pre 6 3 ds_ nil) (each v5 ds_ (def v6 v5) (ev 7 v6) (def v7 (c05/new (fn [] (def v7 104) (ev 9 v7) (def v8 (do (snd 10 12 nil) (signal 8 nil))) (ev 10 v8) 105) "pei")) (ev 8 v7) 106))) (ev 6 v5) 107))) (ev 3 v2) (def v3 (do (pre 11 0 v1 108) (resume v1 108))) (ev 11 v3) (def v4 (c05-with-dyns [:k1 109] (def v4 110) (ev 13 v4) (def v5 (c05-try (do (def v5 111) (ev 15 v5) (def v6 (c05-with-dyns [:k0 112] (def v6 113) (ev 17 v6) (def v7 (do (pre 18 0 v1 114) (resume v1 114))) (ev 18 v7) v2)) (ev 16 v6) 115) ([v8] (def v9 116) (ev 19 v9) (def v10 (c05-coro (def v10 123) (ev 28 v10) (def v11 (stat v1)) (ev 29 v11) (def v12 (do (if (= v11 :dead) (do 124) (do nil)))) (ev 30 v12) 125)) (ev 20 v10) (def v11 (do (def ds_ v10) (pre 21 3 ds_ nil) (each v11 ds_ (def v12 v11) (ev 22 v12) (def v13 (c05-prompt :pa (def v13 118) (ev 24 v13) (def v14 (setdyn :k2 119)) (ev 25 v14) 120)) (ev 23 v13) (def v14 (do (snd 26 8 v13) (signal 4 v13))) (ev 26 v14) 121))) (ev 21 v11) (def v12 122) (ev 27 v12) nil))) (ev 14 v5) (def v6 (do (snd 31 1 126) (error 126))) (ev 31 v6) (def v7 (dyn :k2)) (ev 32 v7) 127)) (ev 12 v4) (def v5 (do (snd 33 12 nil) (signal 8 nil))) (ev 33 v5) (def v6 (do (snd 34 6 v4) (signal 2 v4))) (ev 34 v6) (def v7 (do (snd 35 4 [:pb 128]) (return :pb 128))) (ev 35 v7) (def v8 (do (pre 36 0 v1 nil) (resume v1 nil))) (ev 36 v8) (def v9 (c05-generate [_ :range [0 1]] (def v9 130) (ev 40 v9) (def v10 (c05/new (fn [] (def v10 131) (ev 42 v10) (def v11 (c05/new (fn [] (def v11 132) (ev 44 v11) (def v12 (c05-generate [_ :range [0 3]] (def v12 136) (ev 49 v12) (def v13 (do (snd 50 3 137) (yield 137))) (ev 50 v13) v6)) (ev 45 v12) (def v13 (do (def ds_ v12) (pre 46 3 ds_ nil) (each v13 ds_ (def v14 v13) (ev 47 v14) (def v15 (do (snd 48 -1 134) (propagate 134 (get G 12)))) (ev 48 v15) 135))) (ev 46 v13) v7) "w1wi")) (ev 43 v11) (def v12 (do (pre 51 0 v11 138) (resume v11 138))) (ev 51 v12) 139) "ia")) (ev 41 v10) (def v11 (do (pre 52 0 v10 140) (resume v10 140))) (ev 52 v11) v4)) (ev 37 v9) (def v10 (do (def ds_ v9) (pre 38 3 ds_ nil) (each v10 ds_ (def v11 v10) (ev 39 v11) v2))) (ev 38 v10) v1) "a")