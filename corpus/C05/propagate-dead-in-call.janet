# regression: (propagate v f) with f dead is "signal ok": inside a C re-entry (operator method) it left the nested
# run_vm without popping the callee frame, and the caller went on with the callee's frame as its own (locals clobbered).
(def d (fiber/new (fn [] 1))) (resume d)
(def f (fiber/new (fn [] (def a 11) (def b 22)
                    (def r (+ @{:+ (fn [x y] (def z 33) (def q (propagate 77 d)) (+ q 1))} 1))
                    [a b]) :a))
(def res (resume f))
(if (or (deep= res [11 22]) (= res "cannot propagate from fiber with status :dead")) (print "ok") (printf "locals clobbered: %q" res))
