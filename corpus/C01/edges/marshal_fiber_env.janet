# edge: funcenv.fiber
# unmarshalled closure whose environment is still on the stack of an unmarshalled suspended fiber
(def f (fiber/new (fn [] (def x (array/concat @[] (range 4))) (yield (fn [] (array/push x 1) x)) (yield x) :end)))
(def g (resume f))
(def img (marshal [f g] (invert (env-lookup root-env))))
(def g2 (last (unmarshal img (env-lookup root-env))))
(gccollect)
(def junk (seq [i :range [0 50]] @[i i]))
(print (string/format "%j" (g2)))
(print (string/format "%j" (g)))
