# edge: channel.item
# value in flight inside a channel buffer
(def c (ev/chan 4))
(ev/give c (array/concat @[] (range 5)))
(ev/give c {:k (string "s" 1 2)})
(gccollect)
(def junk (seq [i :range [0 50]] @[i i]))
(print (string/format "%j" (ev/take c)))
(print (string/format "%j" (ev/take c)))
