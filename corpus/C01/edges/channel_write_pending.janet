# edge: channel.write_pending
# a fiber blocked in ev/give (unbuffered channel) is referenced only from the pending-writer queue
(def c (ev/chan))
(ev/go (fn [] (def mine (array/concat @[] (range 3))) (ev/give c mine) (print "given " (length mine))))
(ev/sleep 0)
(gccollect)
(def junk (seq [i :range [0 50]] @[i i]))
(print (string/format "%j" (ev/take c)))
(ev/sleep 0)
(print "done")
