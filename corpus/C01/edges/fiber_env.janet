# edge: fiber.env
(def f (fiber/new (fn [] (yield (dyn :secret)) (dyn :secret))))
(fiber/setenv f @{:secret (array/concat @[] (range 4))})
(gccollect)
(def junk (seq [i :range [0 50]] @[i i]))
(print (string/format "%j" (resume f)))
(gccollect)
(print (string/format "%j" (resume f)))
