# edge: stream.write_fiber
# edge?: fiber.ev_state.write.buf
# a write larger than the pipe buffer stays pending; source buffer owned by the write state
(def [r w] (os/pipe))
(ev/go (fn [] (ev/write w (buffer/new-filled 300000 (chr "x"))) (print "written") (ev/close w)))
(ev/sleep 0)
(gccollect)
(def junk (seq [i :range [0 50]] @[i i]))
(var total 0)
(forever
  (def chunk (ev/read r 65536))
  (if (nil? chunk) (break))
  (+= total (length chunk)))
(print total)
