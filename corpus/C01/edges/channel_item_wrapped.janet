# edge: channel.item
# edge: channel.item.wrapped
# values in flight in a channel whose item ring has wrapped round (read position numerically above the write position):
# janet_chanat_mark walks [head, capacity) and then [0, tail).  The positions travel round the ring several times, with a
# collection while 1, 2 or 3 items are buffered in every state (contiguous, wrapped, write position exactly at slot 0,
# and across the ring's reallocation, which moves the upper segment).
(def c (ev/chan 16))
(defn put [i]
  # built here so that no slot of the caller's frame keeps the item alive
  (ev/give c @[(string "payload-" i) i @{:k (string "inner-" i)} (tuple i (* i 2) (string "t" i))])
  nil)
(defn churn [n]
  (def junk @[])
  (for k 0 n (array/push junk @[(string "junkjun-" k) -1 @{:k (string "wrong-" k)} (tuple -1 -2 (string "x" k))]))
  (length junk))
(defn check [i]
  (def x (ev/take c))
  (print i " " (string/format "%j" [(get x 0) (get x 1) (get-in x [2 :k]) (get x 3)])))
(var n 0)
(for round 0 11
  (def base n)
  (def cnt (+ 1 (% round 3)))
  (for j 0 cnt (put (+ base j)))
  (+= n cnt)
  (gccollect)
  (churn 12)
  (gccollect)
  (churn 12)
  (for j 0 cnt (check (+ base j))))
# now let the ring grow while it is wrapped (upper segment is moved by janet_q_maybe_resize), collect, drain
(for j 0 2 (put (+ 100 j)))
(for j 0 2 (check (+ 100 j)))
(for j 0 9 (put (+ 200 j)))
(gccollect)
(churn 20)
(for j 0 9 (check (+ 200 j)))
(print "count " (ev/count c))
