# edge: root.timeout.fiber
# a sleeping task is referenced only from the timer heap janet_vm.tq
(ev/spawn (def x (array/concat @[] (range 5))) (ev/sleep 0.02) (print (string/format "%j" x)))
(ev/sleep 0)
(gccollect)
(def junk (seq [i :range [0 50]] @[i i]))
(ev/sleep 0.06)
(print "done")
