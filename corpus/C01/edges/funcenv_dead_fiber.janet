# edge: funcenv.value
# closure environment that lived on the stack of a fiber which then died with an error; the fiber is unreferenced:
# the collector detaches the environment (janet_env_maybe_detach) and must keep the captured array alive
(var g nil)
(resume (fiber/new (fn [] (def x (array/concat @[] (range 7))) (set g (fn [] (array/push x :more) x)) (error "boom")) :e))
(gccollect)
(def junk (seq [i :range [0 50]] @[i i]))
(print (string/format "%j" (g)))
(gccollect)
(print (string/format "%j" (g)))
