# edge?: fiber.ev_state.accept.function
# the handler function of a listening server is owned by the pending accept state
(def path (string "/tmp/c01-sock-" (os/getpid)))
(if (os/stat path) (os/rm path))   # a run that crashed earlier under the same (recycled) pid may have left the socket behind
(defn start []
  (net/server :unix path (let [greeting (array/concat @[] (range 3))] (fn [conn] (ev/write conn (string/format "%j" greeting)) (ev/close conn)))))
(def srv (start))
(ev/sleep 0)
(gccollect)
(def junk (seq [i :range [0 50]] @[i i]))
(def c (net/connect :unix path))
(print (string (ev/read c 100)))
(ev/close c)
(ev/close srv)
(os/rm path)
(print "done")
