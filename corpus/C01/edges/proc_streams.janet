# edge: proc.in
# the pipe streams of a subprocess are referenced only from the process object
(def p (os/spawn ["cat"] :p {:in :pipe :out :pipe}))
(gccollect)
(def junk (seq [i :range [0 50]] @[i i]))
(ev/write (p :in) "through cat")
(ev/close (p :in))
(print (string (ev/read (p :out) 100)))
(print (os/proc-wait p))
