# edge?: funcenv.fiber
# The collector performs one semantic action while marking: janet_env_maybe_detach copies a closure environment off the
# stack of a FINISHED fiber.  For every status in which a fiber can still run (pending/yield, debug, user5..user7; user8/user9 are the event loop's interrupt/await) the
# frame and the closures it created must keep sharing the captured locals across any collection: both sides mutate the
# variable after each resume and read what the other side wrote.  No explicit collection here: the schedule under test
# decides whether one lands while the fiber is suspended.
(defn scenario [sig mask]
  (var getter nil)
  (var setter nil)
  (def fib
    (fiber/new
      (fn []
        (var x 0)
        (def held @[sig])
        (set getter (fn [] [x (length held)]))
        (set setter (fn [v] (array/push held v) (set x v)))
        (signal sig :first)      # suspended, resumable, frame still live
        (set x (+ x 100))        # the frame updates the shared local
        (signal sig :second)
        (setter (+ x 1000))      # the closure updates it, the frame reads it back
        [x (length held)])
      mask))
  (def out @[])
  (array/push out (resume fib) (fiber/status fib) (getter))
  (def junk (seq [i :range [0 20]] @[i sig]))
  (setter 5)
  (array/push out (resume fib) (fiber/status fib) (getter))
  (def junk2 (seq [i :range [0 20]] @[i sig]))
  (array/push out (resume fib) (fiber/status fib) (getter))
  out)
(each [sig mask] [[:yield :y] [:debug :d] [:user5 :5] [:user6 :6] [:user7 :7]]
  (print sig " " (string/format "%j" (scenario sig mask))))
# finished statuses: the closure outlives the fiber and owns a copy (detached by a frame pop or by the collector)
(each [sig mask] [[:error :e] [:user0 :0] [:user4 :4]]
  (var getter nil)
  (def fib (fiber/new (fn [] (var x 1) (def held @[sig]) (set getter (fn [] (set x (+ x 1)) [x (length held)])) (signal sig :done) :unreachable) mask))
  (def r (resume fib))
  (def junk (seq [i :range [0 20]] @[i sig]))
  (print sig " " r " " (fiber/status fib) " " (string/format "%j" (getter)) " " (string/format "%j" (getter))))
