# edge: struct.proto
(def s (struct/with-proto (struct/with-proto {:deep (array/concat @[] (range 2))} :mid 1) :own 0))
(gccollect)
(def junk (seq [i :range [0 50]] @[i i]))
(print (string/format "%j %j %j" (s :deep) (s :mid) (s :own)))
