# edge: root.spawn.fiber
# fiber and value sitting in the event loop's run queue (janet_vm.spawn) when the collection happens
(defn launch [] (ev/go (fn [x] (print (string/format "%j" x))) (array/concat @[] (range 6))) nil)
(launch)
(gccollect)
(def junk (seq [i :range [0 50]] @[i i]))
(ev/sleep 0)
(print "done")
