# edge?: weaktable.key
# observes-gc
# schedules: never p256 p64
# weak containers at slot level: many weak-key / weak-value / weak-key-value tables and weak arrays with a seeded mix of
# live and dead referents, immediates (numbers, keywords are heap strings, booleans, nil values impossible), removed
# entries (tombstones before the collection), growth (rehash) between collections.  Every collection of this scenario is
# dumped: the model's weak pass (GC/Weak.lean) must reproduce every slot, `count` and `deleted` of every weak block.
(def rng (math/rng 20240917))
(defn r [n] (math/rng-int rng n))
(def keep @[])
(defn obj [live]
  (def o (case (r 4) 0 @[(r 100)] 1 @{:a (r 100)} 2 (buffer "b" (r 100)) [(r 100) :t]))
  (when live (array/push keep o))
  o)
(defn val [] (case (r 6) 0 (r 1000) 1 true 2 :kw 3 (string "s" (r 50)) (obj (< (r 3) 2))))
(def tables @[])
(for round 0 6
  (for i 0 6
    (def t (case (r 3) 0 (table/weak-keys (r 12)) 1 (table/weak-values (r 12)) (table/weak (r 12))))
    (array/push tables t)
    (for j 0 (+ 2 (r 14)) (put t (val) (val))))
  (for i 0 3
    (def a (array/weak (r 6)))
    (array/push tables a)
    (for j 0 (+ 1 (r 10)) (array/push a (val))))
  # tombstones and overwrites before the collection
  (each t tables
    (when (table? t)
      (each k (take (r 3) (keys t)) (put t k nil))
      (when (zero? (r 3)) (put t (val) (val)))))
  # forget part of the live set
  (for i 0 (r (+ 1 (length keep))) (when (pos? (length keep)) (array/remove keep (r (length keep)))))
  (gccollect)
  (var n 0)
  (each t tables (+= n (length t)))
  (print "round " round " entries " n)
  (when (zero? (r 2)) (gccollect)))
