# edge: fiber.supervisor_channel
# the supervisor channel is referenced only by the running task fiber
(defn start []
  (def sup (ev/chan 4))
  (ev/go (fn [] (ev/sleep 0.01) (ev/give-supervisor :msg (array/concat @[] (range 3))) (ev/sleep 0.01) :ret) nil sup)
  nil)
(start)
(ev/sleep 0)
(gccollect)
(def junk (seq [i :range [0 50]] @[i i]))
(ev/sleep 0.05)
(print "done")
