# symcache: last-bucket-chain
# schedules: never p64 p512
# Sweep-side effect of a collection on the symbol cache (gc.c janet_sweep -> symcache.c janet_symbol_deinit): keywords and
# symbols whose probe chains collide at chosen buckets - the LAST bucket (chains wrap round to bucket 0), the one before
# it, and bucket 0.  In each cluster the keyword that was interned first (it sits in the home bucket) or one in the middle
# of the chain is garbage, the others stay referenced; after a collection every name is interned again: a referenced
# keyword must still be the same object (identity, table lookup).  Repeated at three cache capacities (filler keywords
# force the cache to be rebuilt at twice the size between the stages).
# The names have string hashes whose low 20 bits are fixed, so the home bucket is as described for every capacity <= 2^20.
(def clusters
  {:last ["kw1302648" "kw1904361" "kw3345506" "kw3971174" "kw3976985" "kw4044772" "kw4232985" "kw5834717"]      # ...fffff
   :zero ["kw3684876" "kw3773884" "kw6405475" "kw6930907" "kw7580446" "kw10250901" "kw10362169" "kw10906658"]   # ...00000
   :pen  ["kw114043" "kw1487774" "kw4417443" "kw6938369" "kw11870705" "kw14119892" "kw15487439" "kw18044437"]   # ...ffffe
   :half ["kw1942202" "kw2597552" "kw3307665" "kw4082613" "kw5747149" "kw7839734" "kw7863689" "kw8489273"]})    # ...7ffff
(def low {:last 0xFFFFF :zero 0 :pen 0xFFFFE :half 0x7FFFF})
(eachp [c names] clusters
  (each n names (assert (= (low c) (band (hash n) 0xFFFFF)) "string hash changed: regenerate the names with harness/C01/symnames.c")))

(defn intern-and-drop [mk n] (mk n) nil)
(defn churn [n] (length (seq [i :range [0 n]] (string "churn-" i))))
(def fillers @[])
(var nfill 0)
(defn grow [n]
  (repeat n (array/push fillers (keyword "c01-filler-" (++ nfill))))
  (length fillers))

(defn round [tag mk c names victim]
  # intern the cluster in order; the name at index `victim` is garbage, the rest stay referenced
  (def kept @[])
  (def kept-names @[])
  (eachp [i n] names
    (if (= i victim)
      (intern-and-drop mk n)
      (do (array/push kept (mk n)) (array/push kept-names n))))
  (def tab (tabseq [k :in kept] k (string "v-" k)))
  (gccollect)
  (churn 30)
  (each n names
    (def again (mk n))
    (print tag " " c " " n " same=" (not (nil? (index-of again kept))) " lookup=" (get tab again)))
  (length kept))

(defn stage [s]
  (each c [:last :pen :zero :half]
    (def names (clusters c))
    # first of the chain garbage (home bucket vacated), then - with fresh names - the middle one
    (round (string "s" s "a") keyword c (slice names (* 2 s) (+ 3 (* 2 s))) 0)
    (round (string "s" s "b") (if (odd? s) symbol keyword) c (slice names (+ 3 (* 2 s)) (min 8 (+ 6 (* 2 s)))) 1))
  # everything of this stage is garbage now; collect (tombstones / emptied buckets), intern the names once more
  (gccollect)
  (each c [:last :zero]
    (def again (map keyword (slice (clusters c) 0 4)))
    (print "s" s " again " c " " (string/join (map string again) ",") " distinct=" (length (distinct again)))))

(stage 0)
(print "fillers " (grow 400))
(stage 1)
(print "fillers " (grow 2600))
(stage 2)
