# edge: funcenv.fiber
# suspended fiber reachable only through the on-stack environment of a closure it yielded
(def g (resume (fiber/new (fn [] (def x (array/concat @[] (range 4))) (yield (fn [] (array/push x 9) x)) (print "never")))))
(gccollect)
(def junk (seq [i :range [0 50]] @[i i]))
(print (string/format "%j" (g)))
(gccollect)
(print (string/format "%j" (g)))
