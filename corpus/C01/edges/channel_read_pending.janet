# edge: channel.read_pending
# a fiber blocked in ev/take is referenced only from the channel's pending-reader queue
(def c (ev/chan))
(ev/go (fn [] (def mine (array/concat @[] (range 3))) (array/push mine (ev/take c)) (print (string/format "%j" mine))))
(ev/sleep 0)
(gccollect)
(def junk (seq [i :range [0 50]] @[i i]))
(ev/give c :hello)
(ev/sleep 0)
(print "done")
