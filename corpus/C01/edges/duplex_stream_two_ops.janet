# edge: stream.write_fiber
# One duplex connection with a reader fiber AND a writer fiber suspended on it at the same time; nothing else references
# the connection or the fibers (only the event loop's gc roots for the two pending operations do).  The reader finishes
# first; the writer - still blocked - and its stream must survive collections until every byte has been delivered.
(def N (* 3 1024 1024))
(def path (string "/tmp/c01-sock-" (os/getpid)))
(if (os/stat path) (os/rm path))   # a run that crashed earlier under the same (recycled) pid may have left the socket behind
(def listener (net/listen :unix path))
(def client (net/connect :unix path))
(def reader-done (ev/chan 1))
(defn setup []
  (def conn (net/accept listener))
  (def payload (buffer/new-filled N (chr "x")))
  (ev/go (fn writer [] (ev/write conn payload) (ev/close conn)))
  (ev/go (fn reader [] (def got (ev/read conn 4)) (ev/give reader-done (string got))))
  nil)
(setup)
(ev/sleep 0)
(ev/sleep 0)
(gccollect)                         # two operations pending on one stream
(ev/write client "ping")
(print (ev/take reader-done))
(ev/sleep 0)
(gccollect)                         # one finished, the other still pending
(def junk (seq [i :range [0 50]] @[i i]))
(gccollect)
(var total 0)
(def buf @"")
(while (ev/read client 65536 (buffer/clear buf) 30) (+= total (length buf)))
(print total)
(ev/close client)
(ev/close listener)
(os/rm path)
(print "done")
