# edge: root.timeout.curr_fiber
(defn work [] (def x (array/concat @[] (range 5))) (ev/sleep 0.01) (gccollect) (ev/sleep 0.01) x)
(print (string/format "%j" (ev/with-deadline 600 (work))))
(def f (ev/go (fn [] (try (ev/with-deadline 0.01 (ev/sleep 0.3) :no) ([e] (print "deadline: " e))))))
(ev/sleep 0)
(gccollect)
(ev/sleep 0.05)
(print "done")
