# edge: parser.args
# half-parsed values live only on the parser's value stack
(def p (parser/new))
(parser/consume p "[1 2 @[3 4] \"abc-unique-string\" {:a @\"buf\"} ")
(gccollect)
(def junk (seq [i :range [0 50]] @[i i]))
(parser/consume p "]\n")
(print (string/format "%j" (parser/produce p)))
