# worker: collections
# schedules: never always p8
# Collections inside worker threads (ev/thread, ev/do-thread): every thread has its own VM, heap, root set and symbol cache.
# The forced schedule and the graph oracle apply there as on the main thread.  Closures and values travel by marshalling;
# results come back through a thread channel (a threaded abstract shared by reference count).
(def results (ev/thread-chan 16))
(defn work [n tag]
  (fn [&]
    (def acc @[])
    (for i 0 n (array/push acc @{:i i :s (string tag "-" i) :k (keyword tag i) :nest @[i [i (string i)]]}))
    (def t (tabseq [x :in acc] (x :s) (x :i)))
    (def f (fiber/new (fn [] (each x acc (yield (x :k))))))
    (def ks (seq [k :in f] k))
    (gccollect)
    (def ch (ev/chan 4))
    (ev/spawn (for i 0 6 (ev/give ch @[i (string tag i)])))
    (def got @[])
    (repeat 6 (array/push got ((ev/take ch) 1)))
    (ev/give results [tag (length acc) (t (string tag "-" 3)) (reduce + 0 (map |($ :i) acc)) (length ks) (last ks) (string/join got ",")])))
(ev/thread (work 40 "a") nil :n)
(ev/thread (work 25 "b") nil :n)
(ev/thread (work 60 "c") nil :n)
(def junk (seq [i :range [0 30]] @[i (string "main-" i)]))
(def out @[])
(repeat 3 (array/push out (ev/take results)))
(each r (sort-by first out) (print (string/format "%j" r)))
# a thread whose body is awaited, returning a structure built there
(ev/do-thread
  (def parts (seq [i :range [0 20]] {:id i :name (string "part-" i) :tags [(keyword "t" i) (symbol "s" i)]}))
  (gccollect)
  (ev/give results (map |[($ :id) ($ :name) (($ :tags) 0)] (slice parts 17))))
(print (string/format "%j" (ev/take results)))
(print "junk " (length junk))
