# edge: parser.error
# parser/eof inside an open delimiter generates a heap-allocated message that only the parser references, through a
# field the collector marks CONDITIONALLY (flag JANET_PARSER_GENERATED_ERROR); a collection and plenty of string
# allocation happen before parser/error hands the message out
(defn msg [src]
  (def p (parser/new))
  (parser/consume p src)
  (parser/eof p)
  (def st (parser/status p))
  (gccollect)
  (def keep @[])
  (for n 36 100 (for k 0 3 (array/push keep (string/repeat (string/format "%c" (+ 65 (% k 26))) n))))
  [st (parser/error p) (length keep)])
(each src ["(defn f [x] (print \"abc" "(a [b {c @(d @[e @{f `long string" "   [1 2 3 (4 5 6 {:a :b :c" "(((((((((((((((("]
  (print (string/format "%j" (msg src))))
# the other generated-error paths: mismatched delimiter during consume, then flush / consume again
(def p (parser/new))
(parser/consume p "(1 2 @[3 }")
(gccollect)
(def junk (seq [i :range [0 200]] (string "junk-" i "-" (string/repeat "z" (% i 50)))))
(print (parser/status p) " | " (parser/error p))
(parser/flush p)
(parser/consume p "[1 2 3]\n")
(gccollect)
(print (string/format "%j" (parser/produce p)))
(parser/consume p "{:a")
(parser/eof p)
(gccollect)
(def junk2 (seq [i :range [0 200]] (string "more-" i (string/repeat "y" (% i 60)))))
(print (parser/status p) " | " (parser/error p))
