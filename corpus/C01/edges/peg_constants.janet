# edge: peg.constants
(def pg (peg/compile ~(* "abc" (constant ,(array/concat @[] (range 3))) (<- (some (range "09"))) (cmt (<- 1) ,(fn [x] (string x "!"))))))
(gccollect)
(def junk (seq [i :range [0 50]] @[i i]))
(print (string/format "%j" (peg/match pg "abc123z")))
