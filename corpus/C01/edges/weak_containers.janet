# edge?: weaktable.key
# observes-gc
# weak containers: entries whose referent died must be cleared, the others kept (graph level only; not in the
# schedule comparison because the program observes the collector)
(def keep-k (array/concat @[] (range 2)))
(def keep-v (array/concat @[] (range 3)))
(def wk (table/weak-keys 8))
(def wv (table/weak-values 8))
(def wkv (table/weak 8))
(def wa (array/weak 4))
(put wk keep-k :kept) (put wk @[:dead] :dropped)
(put wv :kept keep-v) (put wv :dropped @[:dead])
(def keep-k2 @[:k2])
(put wkv keep-k keep-v) (put wkv @[:dk] keep-v) (put wkv keep-k2 @[:dv])
(array/push wa keep-v) (array/push wa @[:dead])
(gccollect)
(print (length wk) " " (length wv) " " (length wkv) " " (string/format "%j" wa))
(gccollect)
(print (string/format "%j %j" (wk keep-k) (wv :kept)))
