# edge: ffisignature.ret
# the struct type of a signature's RETURN value is referenced only from the signature (sig->ret.type.st): it has to stay
# alive as long as the signature does.  div(3) returns div_t {int quot; int rem} by value.
(def sig (ffi/signature :default (ffi/struct :int :int) :int :int))
(def self (ffi/native))
(def div-ptr (ffi/lookup self "div"))
(gccollect)
# reuse the freed memory
(def junk (seq [i :range [0 200]] (ffi/struct :double :double :double)))
(def r (ffi/call div-ptr sig 17 5))
(print (string/format "%j" r))
(gccollect)
(print (string/format "%j" (ffi/call div-ptr sig 29 4)))
