# edge: funcdef.symbolmap
# a local's name is interned only for the symbol map of the compiled function
(def f (eval (parse "(fn named-only-here [arg-only-here] (def local-only-here (+ arg-only-here 1)) (* 2 local-only-here))")))
(gccollect)
(def junk (seq [i :range [0 50]] (symbol "junk" i)))
(def d (disasm f))
(print (string/format "%j" (map last (d :symbolmap))))
(print (d :name) " " (f 4))
