# edge: fiber.last_value
# the array returned by the fiber is referenced only by fiber->last_value (the frame is popped on return)
(def f (fiber/new (fn [] (array/concat @[] (range 5)))))
(resume f)
(gccollect)
(def junk (seq [i :range [0 50]] @[i i]))
(print (string/format "%j" (fiber/last-value f)))
