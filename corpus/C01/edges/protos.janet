# edge: table.proto
(def t (table/setproto @{:own 1} (table/setproto @{:mid @[2]} @{:deep (array/concat @[] (range 3))})))
(def s (struct/with-proto (struct/with-proto {:deep (array/concat @[] (range 2))} :mid 1) :own 0))
(gccollect)
(def junk (seq [i :range [0 50]] @[i i]))
(print (string/format "%j %j %j" (t :deep) (t :mid) (t :own)))
(print (string/format "%j %j %j" (s :deep) (s :mid) (s :own)))
