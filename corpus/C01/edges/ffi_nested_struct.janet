# edge: ffistruct.field
# edge?: ffisignature.arg
# a struct type nested in another struct type / used as an argument type is referenced only through `type.st`
(def outer (ffi/struct :int (ffi/struct :int :int) :double))
(def sig (ffi/signature :default :int (ffi/struct :int :int)))
(gccollect)
(def junk (seq [i :range [0 200]] (ffi/struct :double :double :double)))
(print (ffi/size outer) " " (ffi/align outer))
(def buf (ffi/write outer [1 [2 3] 4.5]))
(print (string/format "%j" (ffi/read outer buf)))
(gccollect)
(print (string/format "%j" (ffi/read outer buf)) " " (type sig))
