# edge: fiber.ev_state.read.buf
# the buffer allocated by ev/read is owned only by the pending read state; the waiting fiber only by the stream
(def [r w] (os/pipe))
(def done (ev/chan))
(ev/go (fn []
         (def b (ev/read r 5)) (print (string b)) (ev/give done 1)
         (def b2 (ev/read r 100)) (print (string b2)) (ev/give done 2)))
(ev/sleep 0)
(gccollect)
(def junk (seq [i :range [0 50]] @[i i]))
(ev/write w "hello")
(ev/take done)
(ev/sleep 0)
(gccollect)
(ev/write w "world")
(ev/take done)
(ev/close w)
(ev/close r)
(print "done")
