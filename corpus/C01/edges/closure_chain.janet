# edge: function.env
# long chain function -> env -> function -> env ... (typed pointers: no depth decrement in the collector)
(defn wrap [f] (fn [] (+ 1 (f))))
(var f (fn [] 0))
(repeat 300 (set f (wrap f)))
(gccollect)
(def junk (seq [i :range [0 50]] @[i i]))
(print (f))
