# edge?: root.explicit
# threaded abstract (thread channel) is tracked in janet_vm.threaded_abstracts, not in the block list
(def c (ev/thread-chan 4))
(ev/give c (array/concat @[] (range 4)))
(gccollect)
(def junk (seq [i :range [0 50]] @[i i]))
(print (string/format "%j" (ev/take c)))
(defn mk [] (ev/thread-chan 2))
(mk) (mk)
(gccollect)
(gccollect)
(print "done")
