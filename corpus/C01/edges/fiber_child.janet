# edge?: fiber.child
# a chain of nested fibers suspended in ev/sleep: the inner ones are found through fiber->child of the task fiber
(defn nest [n]
  (if (zero? n)
    (do (ev/sleep 0.02) (array/concat @[] (range 3)))
    (resume (fiber/new (fn [] (nest (dec n))) :e))))
(ev/spawn (print (string/format "%j" (nest 4))))
(ev/sleep 0)
(gccollect)
(def junk (seq [i :range [0 50]] @[i i]))
(ev/sleep 0.05)
(print "done")
