# (net/connect :unix <path of 40+ bytes> :stream <bindhost>) - found by the C18 sweep (shape "[:unix path :stream bindhost bindport]").
# net.c cfun_net_connect: for :unix, janet_get_addrinfo returns a malloc'ed sockaddr_un cast to struct addrinfo*; the
# "bindhost not supported for unix domain sockets" path released it with freeaddrinfo(), which reads ai_canonname / ai_next out
# of the bytes of sun_path and free()s them: invalid free / SIGSEGV once the path is longer than ~30 bytes.
# Expected: the error is raised and the process goes on (prints "ok").
(def path (string "/tmp/" (string/repeat "c18-unix-bindhost-" 4) ".sock"))
(def r (try (net/connect :unix path :stream "127.0.0.1" "0") ([e] (string e))))
(assert (= r "bindhost not supported for unix domain sockets") (string "unexpected: " r))
(print "ok")
