# sig: capi-take-lock-leak
# runner: rcprobe
# expect: RESULT take=0 other-thread-give-completed=true
# what: C API janet_channel_take on an EMPTY thread channel returns 0 with the channel mutex still held (janet_channel_pop_with_lock, is_choice == 2 path): every other thread that touches the channel blocks for ever
(defn run []
  (def c (ev/thread-chan 4))
  (def r (rc/capi-take c))
  (print "RESULT take=" (r 0) " other-thread-give-completed=" (r 1))
  (if (not (r 1)) (os/exit 0))
  :finished)
(defn collect [] :collected)
