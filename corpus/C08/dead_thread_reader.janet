# sig: abort-stale-reader-dead-thread
# expect: RESULT alive
# what: the pending entry of a reader outlives its thread; the next ev/give posts an event to the dead VM: abort "failed to write event to self-pipe" (or a write into a reused descriptor)
(def c (ev/thread-chan 4))
(ev/thread (fn [&] (try (ev/with-deadline 0.01 (ev/take c)) ([e] nil))))
(ev/give c :b)
(ev/sleep 0.05)
(print "RESULT alive")
