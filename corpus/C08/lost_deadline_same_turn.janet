# sig: lost-deadline-same-turn
# expect: RESULT give=ok received=:x count=0
# what: a value handed to a fiber (thread_chan_cb scheduled it) whose ev/with-deadline expires before the scheduled task runs is dropped: timers are processed before the run queue and janet_cancel bumps sched_id, so the queued resumption carrying the value is skipped.  Not specific to thread channels (same with ev/chan); deterministic here because the giver spins past the deadline before giving.
(def c (ev/thread-chan 4))
(var got :nothing)
(ev/spawn (set got (try (ev/with-deadline 0.05 (ev/take c)) ([e] :deadline))))
(ev/sleep 0.01)
(def t0 (os/clock :monotonic))
(while (< (- (os/clock :monotonic) t0) 0.08))     # past the deadline, but the event loop has not looked at its timers yet
(def g (ev/give c :x))                            # reader entry is live: the value is posted to it
(ev/sleep 0.05)
(print "RESULT give=" (if g "ok" "nil") " received=" (string/format "%j" got) " count=" (ev/count c))
