# sig: thread-returned-early
# expect: RESULT 8 after-body
# what: ev/thread (without :n) must resume its caller only after the thread body, including fibers it spawned, has finished
(def marks (ev/thread-chan 100))
(var n 0)
(for i 0 8
  (ev/thread (fn [&]
     (ev/spawn (ev/sleep 0.01) (ev/give marks [:late i]))
     (ev/sleep 0.005)
     (ev/give marks [:end i])))
  # both marks of thread i must already be in the channel
  (def seen @{})
  (while (pos? (ev/count marks)) (def m (ev/take marks)) (put seen (m 0) (m 1)))
  (if (and (= (seen :late) i) (= (seen :end) i)) (++ n)))
(print "RESULT " n " after-body")
