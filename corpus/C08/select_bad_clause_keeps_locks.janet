# sig: select-bad-clause-keeps-locks
# runner: rcprobe
# expect: RESULT keyword=raised triple=raised bad-give-chan=raised other-thread-take-completed=true
# what: ev/select scans its clauses in order and keeps the mutex of every thread channel it has looked at until all clauses are scanned; a clause that is not a channel / [channel value] raises (janet_getchannel) in the middle of the scan - the locks taken for the earlier clauses must not stay behind (the mutex is recursive: the selecting thread notices nothing, every other OS thread blocks for ever in janet_chan_lock)
(defn run []
  (def c (ev/thread-chan 4))
  (def d (ev/thread-chan 4))
  (def r1 (try (do (ev/select c :not-a-channel) "returned") ([e] "raised")))
  (def r2 (try (do (ev/select c d [c 1 2]) "returned") ([e] "raised")))
  (def r3 (try (do (ev/rselect c [:no-chan 1]) "returned") ([e] "raised")))
  (def ok (and (rc/other-thread-take c) (rc/other-thread-take d)))
  (print "RESULT keyword=" r1 " triple=" r2 " bad-give-chan=" r3 " other-thread-take-completed=" ok)
  (if (not ok) (os/exit 0))
  :finished)
(defn collect [] :collected)
