# sig: reorder-stale-reader
# expect: RESULT order=1,2
# what: item 1 is handed to a reader that abandoned its wait, item 2 is queued; the next take gets 2, item 1 comes back later (or never): per-sender FIFO order is broken
(def c (ev/thread-chan 4))
(ev/spawn (try (ev/with-deadline 0.01 (ev/take c)) ([e] nil)))
(ev/sleep 0.05)
(ev/give c 1)
(ev/give c 2)
(def a (ev/take c))
(def b (try (ev/with-deadline 1 (ev/take c)) ([e] :BLOCKED)))
(print "RESULT order=" a "," b)
