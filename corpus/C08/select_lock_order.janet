# sig: deadlock-select-lock-order
# expect: RESULT ok 30000
# what: ev/select locks its thread channels in clause order and holds all locks; two threads selecting on the same two channels in opposite order (always possible with ev/rselect) dead-lock
(def a (ev/thread-chan 1))
(def b (ev/thread-chan 1))
(def ctl (ev/thread-chan 100000))
(def fin (ev/thread-chan 1))
(defn worker [order]
  (ev/thread (fn [&]
     (forever
       (def r (if (= order 0) (ev/select a b) (ev/select b a)))
       (if (or (nil? r) (= (r 0) :close)) (break))
       (ev/give ctl 1))
     (ev/take fin)) nil :n))
(worker 0) (worker 1)
(ev/thread (fn [&] (for i 0 30000 (ev/give (if (even? i) a b) i))) nil :n)
(var n 0)
(while (< n 30000)
  (try (ev/with-deadline 4 (ev/take ctl)) ([e] (print "RESULT stalled at " n) (os/exit 0)))
  (++ n))
(print "RESULT ok " n)
(ev/chan-close a) (ev/chan-close b) (ev/sleep 0.05) (ev/chan-close fin)
