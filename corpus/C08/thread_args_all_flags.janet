# sig: thread-args-mismatch
# expect: RESULT combos=16 ok=16
# what: ev/thread hand-over for every combination of the start-up flags (:a no abstract registry, :c no cfunction registry, :t task-id) with and without a supervisor channel: the new thread must be resumed with a value structurally equal to the one passed, exactly one supervisor event [:ok result task-id] must arrive, and ev/thread returns after the body (cfun_ev_thread write plan = janet_go_thread_subr read plan; Spawn.thread_args_roundtrip)
(var ok 0)
(var n 0)
(each fl ["" "a" "c" "ac" "t" "at" "ct" "act"]
  (each with-sup [false true]
    (++ n)
    (def sup (if with-sup (ev/thread-chan 8)))
    (def back (ev/thread-chan 4))
    (def value [fl with-sup @{:k [1 2 3] :s "payload"} @[1.5 -7 "x"]])
    (def arg [back value])
    (defn body [x] (ev/give (x 0) [:received (x 1)]) :done)
    (ev/thread body arg (keyword fl) sup)
    (def r (ev/take back))
    (var good (and (= (length r) 2) (= (r 0) :received) (deep= (r 1) value) (= 0 (ev/count back))))
    (when with-sup
      (def e (ev/take sup))
      (def want-id (if (string/find "t" fl) arg nil))
      (unless (and (= (length e) 3) (= (e 0) :ok) (= (e 1) :done) (deep= (e 2) want-id) (= 0 (ev/count sup)))
        (set good false)))
    (if good (++ ok) (eprint "combo " fl " sup=" with-sup " failed: " (string/format "%q" r)))))
(print "RESULT combos=" n " ok=" ok)
