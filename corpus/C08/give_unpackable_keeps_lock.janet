# sig: give-unpackable-keeps-lock
# runner: rcprobe
# expect: RESULT give=raised select-give=raised nested=raised other-thread-take-completed=true
# what: a value that cannot be marshalled (an abstract without marshal hooks, e.g. a parser) given to a thread channel must raise with the channel mutex released: janet_chan_pack runs janet_marshal while the giver holds the lock, and a panic inside it skips the unlock of janet_channel_push_with_lock (the mutex is recursive: the giving thread notices nothing, every other OS thread blocks for ever in janet_chan_lock)
(defn run []
  (def c (ev/thread-chan 4))
  (def r1 (try (do (ev/give c (parser/new)) "returned") ([e] "raised")))
  (def r2 (try (do (ev/select [c (parser/new)]) "returned") ([e] "raised")))
  (def r3 (try (do (ev/give c [1 @{:p (parser/new)}]) "returned") ([e] "raised")))
  (def ok (rc/other-thread-take c))
  (print "RESULT give=" r1 " select-give=" r2 " nested=" r3 " other-thread-take-completed=" ok)
  (if (not ok) (os/exit 0))
  :finished)
(defn collect [] :collected)
