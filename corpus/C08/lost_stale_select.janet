# sig: lost-stale-reader
# expect: RESULT give=ok count=1 take=:b
# what: a fiber selects on two thread channels and is resumed by the first; a value later given on the second is handed to its left-over entry and dropped
(def c1 (ev/thread-chan 4))
(def c2 (ev/thread-chan 4))
(ev/spawn (ev/select c1 c2))
(ev/sleep 0.01)
(ev/give c1 :a)
(ev/sleep 0.01)
(def g (ev/give c2 :b))
(ev/sleep 0.05)
(def n (ev/count c2))
(def t (try (ev/with-deadline 1 (ev/take c2)) ([e] :BLOCKED)))
(print "RESULT give=" (if g "ok" "nil") " count=" n " take=" (string/format "%j" t))
