# sig: lost-handoff-burst
# expect: RESULT handed=40 received=40 in-order=true
# what: 40 fibers of ONE thread wait in ev/take on a thread channel; 40 values are given back to back (40 events in that thread's self pipe before its loop looks at it); every hand-off must arrive (janet_ev_handle_selfpipe drains the pipe: the registration is edge-triggered, what is left behind is not reported again) and fiber i must get the i-th value.  Single thread, no timing: the loop is run for 64 turns after the last give.
(def n 40)
(def c (ev/thread-chan 100))
(def got @[])
(def fibers @[])
(for i 0 n
  (array/push fibers (ev/spawn (def v (ev/take c)) (array/push got [i v]))))
(ev/sleep 0)
(for i 0 n (ev/give c (string "m-" i)))
(repeat 64 (ev/sleep 0))
(def inorder (deep= got (seq [i :range [0 n]] [i (string "m-" i)])))
(print "RESULT handed=" n " received=" (length got) " in-order=" inorder)
(os/exit 0)
