# sig: shared-stranded-by-carrier-finalizer
# runner: rcprobe
# expect: RESULT lock-refs=3,2 probe-finalized=1/1 nested-finalized=2/2
# what: a shared abstract that sits in an UNDELIVERED message of a thread channel must be released when that channel is collected, also when the message held its LAST reference (every thread dropped it before the carrier channel was finalized): janet_chan_deinit gives the in-transit reference back (JANET_MARSHAL_DECREF), and whoever brings the count to 0 has to finalize and free - otherwise the object is in no thread's table any more and is never released
(defn run []
  (def x (rc/watch (ev/lock)))
  (def keep @[])
  # the carrier channel stays alive, its undelivered message is the only thing that references the probe
  (defn strand []
    (def m (ev/thread-chan 2))
    (ev/give m [(rc/probe) x])
    (array/push keep m)
    nil)
  (strand)
  (gccollect)
  (def c1 (rc/count x))
  (array/clear keep)
  (gccollect)
  (def c2 (rc/count x))
  (def [n1 f1] (rc/finalized))
  # nested: a channel that is only referenced by an undelivered message of another channel, with its own undelivered message
  (defn strand2 []
    (def outer (ev/thread-chan 2))
    (def inner (ev/thread-chan 2))
    (ev/give inner [(rc/probe)])
    (ev/give outer [inner (rc/probe)])
    (array/push keep outer)
    nil)
  (strand2)
  (gccollect)
  (array/clear keep)
  (gccollect)
  (def [n2 f2] (rc/finalized))
  (print "RESULT lock-refs=" c1 "," c2 " probe-finalized=" f1 "/" n1 " nested-finalized=" (- f2 f1) "/" (- n2 n1))
  :finished)
(defn collect [] (gccollect) (gccollect) :collected)
