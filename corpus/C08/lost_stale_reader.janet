# sig: lost-stale-reader
# expect: RESULT give=ok count=1 take=:b
# what: a value given on a thread channel whose only pending reader has abandoned its wait (deadline) is dropped: ev/give reports success, ev/count is 0 and a later ev/take blocks
# DESIGN.md section 4 item 5.  Deterministic, single OS thread.
(def c (ev/thread-chan 4))
(ev/spawn (try (ev/with-deadline 0.01 (ev/take c)) ([e] nil)))
(ev/sleep 0.05)                       # the reader has given up; its entry is still queued in c
(def g (ev/give c :b))                # handed to the stale entry
(ev/sleep 0.05)                       # let the event loop run janet_thread_chan_cb
(def n (ev/count c))
(def t (try (ev/with-deadline 1 (ev/take c)) ([e] :BLOCKED)))
(print "RESULT give=" (if g "ok" "nil") " count=" n " take=" (string/format "%j" t))
