# sig: runq-value-freed
# expect: RESULT rounds=96 bad=0
# what: a value handed to a waiting fiber lives only in the run queue (janet_vm.spawn: task.value) between janet_thread_chan_cb and the resumption; a collection in that window (triggered by a fiber that runs earlier in the same turn) must not free it, wherever the ring buffer wraps.  Single thread, deterministic: 96 rounds x 7 takers rotate the queue head through every position of the ring; the first resumed taker collects and allocates same-shaped junk, the others compare what they got, structurally, with what was sent (ASan: heap-use-after-free).
(def k 7)
(var bad 0)
(def c (ev/thread-chan 100))
(defn payload [r i] [r i (string "message-" r "-" i) @{:round r :index i} @[i r i]])
(for r 0 96
  (def done @[])
  (for i 0 k
    (ev/spawn
      (def v (ev/take c))
      (gccollect)
      (repeat 24 (payload -1 -2))
      (unless (deep= v (payload r (v 1))) (++ bad))
      (array/push done (v 1))))
  (ev/sleep 0)
  (for i 0 k (ev/give c (payload r i)))
  (repeat 6 (ev/sleep 0))
  (unless (deep= (sorted done) (range k)) (++ bad)))
(print "RESULT rounds=96 bad=" bad)
(os/exit 0)
