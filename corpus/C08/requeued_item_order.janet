# sig: reorder-requeued-item
# expect: RESULT order=1,2,3
# what: a receiver thread abandoned its wait on c1 (ev/select completed through c2); while its event loop is not running one sender gives 1, 2, 3 to c1 (1 is posted to the stale registration, 2 and 3 are queued); no other reader is pending, nothing is taken before the loop handles the stale hand-off: janet_thread_chan_cb must put 1 back at the FRONT of the queue (requeue branch), the receiver must take 1, 2, 3
(def c1 (ev/thread-chan 10))
(def c2 (ev/thread-chan 10))
(def ready (ev/thread-chan 10))
(def done (ev/thread-chan 10))
(def gate (ev/lock))
(ev/acquire-lock gate)

(defn worker [&]
  (def r (ev/select c1 c2))
  (ev/give ready r)
  # blocks the OS thread (no event loop turn of this thread) until main has given 1, 2, 3
  (ev/acquire-lock gate)
  (ev/release-lock gate)
  # let the loop handle what was posted to it meanwhile
  (repeat 8 (ev/sleep 0))
  (def got @[])
  (repeat 3 (array/push got (ev/take c1)))
  (ev/give done (tuple ;got)))

(ev/thread worker nil :n)
# give the worker time to register on both channels (only the REACH of the scenario depends on this pause, not the verdict:
# if the worker is late it takes :go from the queue, nothing is stale and the order is trivially kept)
(ev/sleep 0.2)
(ev/give c2 :go)
(def r (ev/take ready))
(unless (and (= (r 0) :take) (= (r 2) :go)) (print "RESULT unexpected-select " (string/format "%q" r)) (os/exit 2))
(ev/give c1 1)
(ev/give c1 2)
(ev/give c1 3)
(ev/release-lock gate)
(def res (ev/with-deadline 30 (ev/take done)))
(print "RESULT order=" (string/join (map string res) ","))
