# sig: capi-make-threaded-not-threaded
# runner: rcprobe
# expect: RESULT packed=true
# what: C API janet_channel_make_threaded allocates a threaded (shareable) abstract but initialises it as an UNTHREADED channel: no mutex, values are not marshalled - a mutable value given on it comes out as the very same heap object (in another thread: a pointer into a foreign heap)
(defn run []
  (def c (rc/capi-make-threaded 4))
  (def a @[1 2 3])
  (ev/give c a)
  (def b (ev/take c))
  (print "RESULT packed=" (and (deep= a b) (not= a b)))
  :finished)
(defn collect [] :collected)
