# sig: lost-stale-reader
# expect: RESULT got=3
# what: reader thread abandons one wait, then takes three values given by the main thread: the first one is dropped
(def c (ev/thread-chan 4))
(def back (ev/thread-chan 8))
(def fin (ev/thread-chan 1))
(ev/thread (fn [&]
  (try (ev/with-deadline 0.01 (ev/take c)) ([e] nil))
  (ev/give back :ready)
  (forever (def x (ev/take c)) (if (nil? x) (break)) (ev/give back x))
  (ev/take fin)) nil :n)
(ev/take back)
(for i 0 3 (ev/give c i))
(var got 0)
(repeat 3 (if (number? (try (ev/with-deadline 1 (ev/take back)) ([e] nil))) (++ got)))
(print "RESULT got=" got)
(ev/chan-close c) (ev/sleep 0.05) (ev/chan-close fin)
