# sig: give-closed-keeps-lock
# runner: rcprobe
# expect: RESULT give-on-closed=raised other-thread-take-completed=true
# what: ev/give on a CLOSED thread channel must raise with the channel mutex released; if janet_channel_push_with_lock panics while holding it (the mutex is recursive, the giving thread notices nothing), every other OS thread that touches the channel afterwards blocks for ever in janet_chan_lock
(defn run []
  (def c (ev/thread-chan 4))
  (ev/give c 1)
  (ev/chan-close c)
  (def r (try (do (ev/give c 2) "returned") ([e] "raised")))
  (def ok (rc/other-thread-take c))
  (print "RESULT give-on-closed=" r " other-thread-take-completed=" ok)
  (if (not ok) (os/exit 0))
  :finished)
(defn collect [] :collected)
