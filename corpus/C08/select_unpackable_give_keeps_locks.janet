# sig: select-unpackable-give-keeps-locks
# runner: rcprobe
# expect: RESULT scan=raised wait=raised packable=returned other-thread-take-completed=true
# what: ev/select with SEVERAL clauses one of which gives a value that cannot be marshalled must raise with NO channel left locked: the pack failure surfaces in janet_channel_push_with_lock (which releases its own channel) in the middle of the multi-lock scan or of the wait phase, while the mutexes of the other clauses are held
(defn run []
  (def a (ev/thread-chan 1))
  (def b (ev/thread-chan 1))
  (def full (ev/thread-chan 1))
  (ev/give full :fill)
  # scan phase: a is empty (kept locked), b has room: immediate write is attempted
  (def r1 (try (do (ev/select a [b (parser/new)]) "returned") ([e] "raised")))
  # wait phase: nothing is possible at once (a empty, full is full): every clause is registered in turn
  (def r2 (try (do (ev/select a [full [1 (parser/new)]] b) "returned") ([e] "raised")))
  (def r3 (try (do (ev/select a [b [:fine (ev/lock)]]) "returned") ([e] "raised")))
  (def ok (and (rc/other-thread-take a) (rc/other-thread-take b) (rc/other-thread-take full)))
  (print "RESULT scan=" r1 " wait=" r2 " packable=" r3 " other-thread-take-completed=" ok)
  (if (not ok) (os/exit 0))
  :finished)
(defn collect [] :collected)
