# C15 corpus: every jump opcode across an instruction that movopt turns into a noop (a dead `def`), so that
# janet_bytecode_remove_noops has to retarget it.  One function per jump opcode; the expected values are the source semantics.
# A jump that is not retargeted lands one instruction too far (wrong value, or runs off the code).
(defn has-op [f op] (truthy? (find (fn [ins] (= (in ins 0) op)) (disasm f :bytecode))))
(def cases @[])
(defn T [name op f inputs]
  (array/push cases [name op f inputs]))

# JOP_JUMP_IF_NOT: plain `if`; the dead def sits in the then-branch, the jump goes to the else-branch
(T "jmpno" 'jmpno (fn [x] (if x (do (def u 1) (def v 2) :then) :else)) [[true :then] [false :else] [nil :else] [0 :then]])
# JOP_JUMP_IF_NOT_NIL: (= nil x) fast path
# (the fast path needs the FUNCTION VALUE as head, as macros of boot.janet produce it)
(T "jmpnn" 'jmpnn ((compile ~(fn [x] (if (,= nil x) (do (def u 1) (def v 2) :then) :else)))) [[nil :then] [false :else] [1 :else]])
# JOP_JUMP_IF_NIL: (not= nil x) fast path
(T "jmpni" 'jmpni ((compile ~(fn [x] (if (,not= nil x) (do (def u 1) (def v 2) :then) :else)))) [[nil :else] [false :then] [1 :then]])
(T "jmpnn-while" 'jmpnn ((compile ~(fn [x] (var i x) (var n 0) (while (,= nil i) (def u 1) (def v 2) (++ n) (set i 1)) n))) [[nil 1] [false 0] [1 0]])
(T "jmpni-while" 'jmpni ((compile ~(fn [x] (var i x) (var n 0) (while (,not= nil i) (def u 1) (def v 2) (++ n) (set i nil)) n))) [[nil 0] [false 1] [1 1]])
# (JOP_JUMP_IF is emitted only inside `not=` chains and closure-creating while loops, never across a removable instruction)
# JOP_JUMP: end of the then-branch in value position jumps over an else-branch with dead defs; loop back-edge of `while`
(T "jmp" 'jmp (fn [x] (def r (if x :then (do (def u 1) (def v 2) :else))) [r :after]) [[true [:then :after]] [false [:else :after]]])
(T "jmp-back" 'jmp (fn [n] (var i 0) (var acc 0) (while (< i n) (def u 1) (def v i) (+= acc i) (++ i)) acc) [[0 0] [1 0] [5 10] [10 45]])
# far conditional: jump over many instructions with several dead defs
(T "jmpno-far" 'jmpno (fn [x] (if x (do (def a 1) (def b 2) (def c 3) (def d 4) (def e 5) (+ 1 2) (def g 7) :then) (do (def h 1) :else))) [[true :then] [false :else]])

(each [name op f inputs] cases
  (if (not (has-op f op))
    (print "FAIL noop-jumps " name ": compiled code has no " op " (scenario no longer exercises it)")
    (each [arg want] inputs
      (def fb (fiber/new (fn [] (f arg)) :e))
      (def got (resume fb))
      (if (and (= (fiber/status fb) :dead) (deep= got want))
        (print "OK " name " " (string/format "%j" arg))
        (print "FAIL noop-jumps " name " (" (string/format "%j" arg) "): expected " (string/format "%j" want) ", got "
               (fiber/status fb) " " (string/format "%j" got))))))
