# C15 corpus: conditions of `if` / `while` built from the FUNCTION VALUES `=` / `not=` applied to nil and a value - the forms
# janetc_check_nil_form recognises (macros of boot.janet produce them: each, eachk, eachp, loop) - nested to depth 0..2, both operand
# orders, as condition of `if`, of a plain `while`, and of a `while` whose body creates a closure (recompiled as a function: the guard is
# emitted at a second site).  Reference = the same comparison evaluated through first-class calls (generic functions).
#
# Finds: a guard opcode that does not match the stripped head at one emission site; a special form that strips more than one head
# (`(= nil (not= nil y))` is a comparison of a boolean with nil - always false - not a nil test of y).

(def VALUES [nil false true 0 1 "" :k [] @[] @{}])
(def HEADS [[= "="] [not= "not="]])

# condition shapes: [description  form-builder (symbol -> form)  reference (value -> boolean, through first-class calls)]
(def shapes @[])
(array/push shapes ["y" (fn [y] y) (fn [v] (truthy? v))])
(each [h hn] HEADS
  (array/push shapes [(string "(" hn " nil y)") (fn [y] (tuple h nil y)) (fn [v] (h nil v))])
  (array/push shapes [(string "(" hn " y nil)") (fn [y] (tuple h y nil)) (fn [v] (h v nil))])
  (each [g gn] HEADS
    (array/push shapes [(string "(" hn " nil (" gn " nil y))") (fn [y] (tuple h nil (tuple g nil y))) (fn [v] (h nil (g nil v)))])
    (array/push shapes [(string "(" hn " (" gn " y nil) nil)") (fn [y] (tuple h (tuple g y nil) nil)) (fn [v] (h (g v nil) nil))])))

(var fails 0)
(defn check [what desc v got want]
  (if (= got want)
    (print "OK " what " " desc " " (string/format "%j" v))
    (do (++ fails)
        (print "FAIL nil-form-guards " what " " desc " with y = " (string/format "%j" v) ": expected " (string/format "%j" want)
               ", got " (string/format "%j" got)))))

(each [desc build ref] shapes
  (def c (build 'y))
  # if: which branch
  (def f-if ((compile ~(fn [y] (if ,c :then :else)))))
  # plain while: number of iterations (cut off after 3)
  (def f-while ((compile ~(fn [y0] (var y y0) (var n 0) (while ,c (++ n) (when (>= n 3) (break))) n))))
  # while whose body creates a closure
  (def f-clo ((compile ~(fn [y0] (var y y0) (var n 0) (def fns @[])
                          (while ,c (def k n) (array/push fns (fn [] k)) (++ n) (when (>= n 3) (break)))
                          [n (length fns)]))))
  (each v VALUES
    (def want (truthy? (ref v)))
    (check "if" desc v (f-if v) (if want :then :else))
    (check "while" desc v (f-while v) (if want 3 0))
    (check "while+closure" desc v (f-clo v) (if want [3 3] [0 0]))))

# the iteration macros over a dictionary with the key `false`
(def t @{false :no true :yes 1 :one})
(def seen @[]) (eachk k t (array/push seen k))
(check "eachk" "keys incl. false" (length t) (length seen) 3)
(def thunks @[]) (eachk k t (array/push thunks (fn [] k)))
(check "eachk+closure" "keys incl. false" (length t) (length thunks) 3)
(def acc @[]) (each v @{false :x} (array/push acc (fn [] v)))
(check "each+closure" "@{false :x}" 1 (length acc) 1)
(def acc2 @[]) (loop [[k v] :pairs {false 1}] (array/push acc2 (fn [] [k v])))
(check "loop :pairs+closure" "{false 1}" 1 (length acc2) 1)

(when (pos? fails) (print "FAIL nil-form-guards: " fails " check(s)"))
