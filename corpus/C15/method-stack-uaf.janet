# An operator instruction whose operand is a table with a janet-function operator method: the method grows
# (reallocates) the fiber stack; the VM must not write the result through its stale `stack` pointer.
# Run under ASan: a heap-use-after-free report (non-zero exit) is the failure.
(defn deep [n] (if (= n 0) 0 (+ 1 (deep (- n 1)))))
(def log @[])
(each [name mk] [["+imm" (fn [t] (+ t 1))] ["+" (fn [t] (+ t t))] ["r+" (fn [t] (+ 1.5 t))]
                 ["*imm" (fn [t] (* t 2))] ["&" (fn [t] (band t 3))] ["<<imm" (fn [t] (blshift t 1))]
                 ["div" (fn [t] (div t 2))] ["mod" (fn [t] (mod t 2))] ["%" (fn [t] (% t 2))] ["~" (fn [t] (bnot t))]]
  (def m (fn [& xs] (deep 300) 42))
  (def t @{:+ m :r+ m :* m :& m :<< m :div m :mod m :% m (keyword "~") m})
  (def fib (fiber/new (fn [] (mk t))))
  (def r (resume fib))
  (array/push log [name r]))
(each [name r] log
  (print (if (= r 42) "OK " "FAIL vm-operator-method-stale-stack ") name " " r))
