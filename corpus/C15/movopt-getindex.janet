# janet_bytecode_movopt may only delete instructions that cannot raise.  JOP_GET_INDEX raises on a non-indexed operand;
# deleting the dead destructuring load turns an error into a value.  Reference = the same bytecode assembled without the
# clean-up pass (asm does not run movopt).
(defn f [x] (def [a] x) x)
(def unopt (asm {:arity 1 :slotcount 3 :bytecode '[(geti 2 0 0) (ret 0)]}))
(def r1 (protect (f 5)))
(def r2 (protect (unopt 5)))
(print (if (= (r1 0) (r2 0)) "OK " "FAIL movopt-removes-raising-get-index ")
       "optimised: " (string/format "%q" r1) " unoptimised: " (string/format "%q" r2)
       " bytecode: " (string/format "%q" (disasm f :bytecode)))
