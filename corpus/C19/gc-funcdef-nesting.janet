# W5 (session 3, fixed by /repo a60a379): janet_mark_funcdef recursed over def->defs without taking a level of the
# marker's depth, so runs of nested funcdefs (each <= 1024 deep) multiplied with the 1024 marker levels.  1100 functions,
# each a 300-deep nest of (fn [] ...) whose innermost funcdef holds the previous function as a constant: the collector
# overflowed the 8 MB stack (300 x 32 B x 1024 levels).  Must complete.
(def D 300)
(def K 1100)
(gcsetinterval 0x7fffffff)
(var f (fn [] 1))
(repeat K
  (var form ~(fn [] ,f))
  (repeat D (set form ~(fn [] ,form)))
  (def r (compile form (curenv)))
  (if (not (function? r)) (error (r :error)))
  (set f (r)))
(gccollect)
(print "gc-funcdef-nesting: ok")
