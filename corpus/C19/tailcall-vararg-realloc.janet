# finding 16: janet_fiber_funcframe_tail keeps pointers into the old stack when building the vararg tuple reallocates it
(defn v [& xs] (length xs))
(def f (asm @{:arity 0 :constants @[v] :bytecode @[['ldn 55] ['ldc 0 0] ['tcall 0]]}))
(print (resume (fiber/new f)))
