# W2 (session 3, fixed by /repo 5f6c2dc): every peg/match started with a fresh depth counter; a 1000-deep grammar whose
# innermost rule is (cmt .. f) with f matching again multiplied the native stack use: SIGSEGV at 256 nested matches.
(def D 1000)
(def N 400)
(var G nil)
(var level 0)
(defn f [& caps] (++ level) (if (< level N) (do (peg/match G "x") true) true))
(defn nest [d inner] (var x inner) (repeat d (set x ~(* ,x 0))) x)
(set G (peg/compile (nest D ~(cmt (constant 1) ,f))))
(print "nested-peg-cmt: " (string/format "%.60q" (try (peg/match G "x") ([e] [:caught e]))) " level " level)
