# W3 (session 3, fixed by /repo 5f6c2dc): peg_rule called a CFUNCTION constant directly (no janet_call, no stackn);
# with peg/match itself as that cfunction the recursion had no guard at all: unbounded C recursion, SIGSEGV.
(def T @{})
(def G (peg/compile ~(cmt (* (cmt (* (constant ,T) (constant :k)) ,get) (constant "x")) ,peg/match)))
(put T :k G)
(print "peg-cfunction-constant: " (string/format "%.60q" (try (peg/match G "x") ([e] [:caught e]))))
