# finding 12: marker recursion fiber -> function -> funcenv -> fiber without passing janet_mark's depth counter
(defn A [] (var y 0) (yield (fn g [] (set y 1) (A) nil)))
(var f (fiber/new A))
(var g (resume f))
(for i 0 200000 (set f (fiber/new g)) (set g (resume f)))
(gccollect)
(print "ok")
