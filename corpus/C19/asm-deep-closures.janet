# finding 7
(var d @{:arity 0 :bytecode @[['ldn 0] ['ret 0]]})
(for i 0 200000 (set d @{:arity 0 :bytecode @[['ldn 0] ['ret 0]] :closures @[d]}))
(print (try (do (asm d) "ok") ([e] e)))
