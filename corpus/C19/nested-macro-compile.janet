# W1 (session 3, fixed by /repo 5f6c2dc): every janet_compile started with a fresh recursion guard and janet_vm.stackn
# only counted interpreter entries, so the native stack budget was (VM nesting) x (compiler depth).  A macro that
# compiles a 900-deep form whose innermost form is the macro call again overflowed the 8 MB stack at 12 levels.
# Must end in a catchable error (or complete), never in a signal.
(def D 900)
(def N 40)
(defn nest [d inner] (var x inner) (repeat d (set x ~(do ,x))) x)
(defmacro m [n]
  (if (> n 0)
    (do (def r (compile (nest D ~(m ,(dec n))) (curenv)))
      (if (function? r) 0 (errorf "compile error at level %d: %s" n (r :error))))
    0))
(def res (try (do (def r (compile ~(m ,N) (curenv))) (if (function? r) :ok [:err (r :error)])) ([e] [:caught e])))
(print "nested-macro-compile: " (string/slice (string/format "%.60q" res) 0 60))
