# finding 13 (fixed in /repo 1957e39): operator method implemented in janet reallocates the fiber stack under run_vm
(def proto @{})
(defn f [k] (if (= k 0) 0 (+ (table/setproto @{:k k} proto) 1)))
(put proto :+ (fn [self other] (f (- (self :k) 1))))
(print (f 200))
