# finding 8
(var pat 'x)
(for i 0 300000 (set pat (tuple/brackets pat)))
(def r (compile ['fn [] ['def pat nil] 1]))
(print (if (function? r) "ok" (r :error)))
