# W4 (session 3, fixed by /repo 5f6c2dc): every quasiquote form started a fresh 1024 depth, so 100 alternating
# (quasiquote [[[ ..1000.. (unquote ...)]]]) levels overflowed the stack inside `compile`.
(def D 1000)
(def K 300)
(var x 1)
(repeat K
  (var y (tuple 'unquote x))
  (repeat D (set y (tuple/brackets y)))
  (set x (tuple 'quasiquote y)))
(def r (compile x (curenv)))
(print "nested-quasiquote-unquote: " (if (function? r) "ok" (string "err: " (r :error))))
