/- Line-protocol model driver for C09 (marshal codec).
    pushint <int>      -> hex bytes
    readint <hex>      -> "ok <int> <consumed>" | "err"
-/
import Driver.Util
import JanetModel.Marsh.IntCodec
open Driver JanetModel.Marsh

def step (_ : Unit) (toks : List String) : Unit × String :=
  match toks with
  | ["pushint", n] =>
    match n.toInt? with
    | some x => if -2147483648 ≤ x ∧ x < 2147483648 then ((), hexOfBytes (pushint x)) else ((), "bad-op")
    | none => ((), "bad-op")
  | ["readint", h] =>
    match bytesOfHex h with
    | some bs =>
      match readint bs with
      | some (x, tl) => ((), s!"ok {x} {bs.length - tl.length}")
      | none => ((), "err")
    | none => ((), "bad-op")
  | ["readint"] => ((), match readint [] with | some _ => "ok" | none => "err")
  | _ => ((), "bad-op")

def main : IO Unit := runLoop () step
