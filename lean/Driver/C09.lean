/- Line-protocol model driver for C09 (marshal codec and data-graph marshal / unmarshal).
    pushint <int>      -> hex bytes
    readint <hex>      -> "ok <int> <consumed>" | "err"
    push64 <nat>       -> hex bytes
    read64 <hex>       -> "ok <nat> <consumed>" | "err"
    marshal <desc>     -> hex bytes | "err"
    unmarshal <hex>    -> "ok <consumed> <desc>" | "err"
  <desc> = <val> { "|" <obj> }      heap objects in reference-number order (see JanetModel/Marsh/Graph.lean)
  <val>  = n | t | f | i<int> | r<id>
  <obj>  = R<hex8> | Ss<hex> | Sy<hex> | Sk<hex> | G<hex> | B<hex> | A0 <val>* | A1 <val>* | T<flag> <val>*
         | M<weak> <proto|_> (<val> <val>)* | U <proto|_> (<val> <val>)*
-/
import Driver.Util
import JanetModel.Marsh.IntCodec
import JanetModel.Marsh.Size
import JanetModel.Marsh.Graph
import JanetModel.Asm.Operand
open Driver JanetModel.Marsh

def dropFirst (s : String) (k : Nat) : String := String.ofList (s.toList.drop k)

def parseVal (t : String) : Option Val :=
  match t.toList with
  | ['n'] => some .nil
  | ['t'] => some (.bool true)
  | ['f'] => some (.bool false)
  | 'i' :: rest => (String.ofList rest).toInt?.map .int
  | 'r' :: rest => (String.ofList rest).toNat?.map .ref
  | _ => none

def parseVals : List String → Option (List Val)
  | [] => some []
  | t :: ts => do
    let v ← parseVal t
    let vs ← parseVals ts
    some (v :: vs)

def parseProto (t : String) : Option (Option Val) :=
  if t = "_" then some none else (parseVal t).map some

def parseObj : List String → Option Obj
  | [] => none
  | hd :: args =>
    match hd.toList with
    | 'R' :: h => (bytesOfHex (String.ofList h)).map .real
    | 'S' :: 's' :: h => (bytesOfHex (String.ofList h)).map (.str .string)
    | 'S' :: 'y' :: h => (bytesOfHex (String.ofList h)).map (.str .symbol)
    | 'S' :: 'k' :: h => (bytesOfHex (String.ofList h)).map (.str .keyword)
    | 'G' :: h => (bytesOfHex (String.ofList h)).map .reg
    | 'B' :: h => (bytesOfHex (String.ofList h)).map .buffer
    | ['A', '0'] => (parseVals args).map (.array false)
    | ['A', '1'] => (parseVals args).map (.array true)
    | 'T' :: fl => do
      let flag ← (String.ofList fl).toInt?
      let items ← parseVals args
      some (.tuple flag items)
    | 'M' :: w => do
      let weak ← (String.ofList w).toNat?
      match args with
      | [] => none
      | p :: kv => do
        let proto ← parseProto p
        let vs ← parseVals kv
        if vs.length % 2 = 0 then some (.table weak proto (pairUp vs)) else none
    | ['U'] =>
      match args with
      | [] => none
      | p :: kv => do
        let proto ← parseProto p
        let vs ← parseVals kv
        if vs.length % 2 = 0 then some (.struct proto (pairUp vs)) else none
    | _ => none

/-- split on the token "|" -/
def splitBar (toks : List String) : List (List String) :=
  let rec go : List String → List String → List (List String) → List (List String)
    | [], cur, acc => (cur.reverse :: acc).reverse
    | t :: ts, cur, acc => if t = "|" then go ts [] (cur.reverse :: acc) else go ts (t :: cur) acc
  go toks [] []

def parseObjs : List (List String) → Option (List Obj)
  | [] => some []
  | o :: os => do
    let x ← parseObj o
    let xs ← parseObjs os
    some (x :: xs)

def parseDesc (toks : List String) : Option (Val × List Obj) :=
  match splitBar toks with
  | [v] :: objs => do
    let x ← parseVal v
    let H ← parseObjs objs
    some (x, H)
  | _ => none

def showVal : Val → String
  | .nil => "n"
  | .bool true => "t"
  | .bool false => "f"
  | .int i => s!"i{i}"
  | .ref id => s!"r{id}"

def showVals (vs : List Val) : String := String.join (vs.map fun v => " " ++ showVal v)

def showProto : Option Val → String
  | none => " _"
  | some p => " " ++ showVal p

def showObj : Obj → String
  | .real bs => "R" ++ hexOfBytes bs
  | .str .string bs => "Ss" ++ hexOfBytes bs
  | .str .symbol bs => "Sy" ++ hexOfBytes bs
  | .str .keyword bs => "Sk" ++ hexOfBytes bs
  | .reg bs => "G" ++ hexOfBytes bs
  | .buffer bs => "B" ++ hexOfBytes bs
  | .array w items => (if w then "A1" else "A0") ++ showVals items
  | .tuple flag items => s!"T{flag}" ++ showVals items
  | .table w p kvs => s!"M{w}" ++ showProto p ++ showVals (flatKV kvs)
  | .struct p kvs => "U" ++ showProto p ++ showVals (flatKV kvs)

def showDesc (x : Val) (H : List Obj) : String :=
  showVal x ++ String.join (H.map fun o => " | " ++ showObj o)

def step (_ : Unit) (toks : List String) : Unit × String :=
  match toks with
  | ["pushint", n] =>
    match n.toInt? with
    | some x => if -2147483648 ≤ x ∧ x < 2147483648 then ((), hexOfBytes (pushint x)) else ((), "bad-op")
    | none => ((), "bad-op")
  | ["readint", h] =>
    match bytesOfHex h with
    | some bs =>
      match readint bs with
      | some (x, tl) => ((), s!"ok {x} {bs.length - tl.length}")
      | none => ((), "err")
    | none => ((), "bad-op")
  | ["readint"] => ((), match readint [] with | some _ => "ok" | none => "err")
  | ["push64", n] =>
    match n.toNat? with
    | some x => if x < 18446744073709551616 then ((), hexOfBytes (push64 x)) else ((), "bad-op")
    | none => ((), "bad-op")
  | ["read64", h] =>
    match bytesOfHex h with
    | some bs =>
      match read64 bs with
      | some (x, tl) => ((), s!"ok {x} {bs.length - tl.length}")
      | none => ((), "err")
    | none => ((), "bad-op")
  | ["read64"] => ((), "err")
  | "marshal" :: d =>
    match parseDesc d with
    | some (x, H) =>
      match marshal H x with
      | some bs => ((), hexOfBytes bs)
      | none => ((), "err")
    | none => ((), "bad-op")
  | ["unmarshal", h] =>
    match bytesOfHex h with
    | some bs =>
      match unmarshal bs with
      | some (x, H, used) => ((), s!"ok {used} {showDesc x H}")
      | none => ((), "err")
    | none => ((), "bad-op")
  | ["unmarshal"] => ((), "err")
  | "asmword" :: opn :: args =>
    match opn.toNat? with
    | some k =>
      match JanetModel.Gen.Bytecode.Op.ofNat? k with
      | some op =>
        match args.mapM (·.toInt?) with
        | some as =>
          match JanetModel.Asm.encode op as with
          | some w => ((), hexByte (w / 16777216) ++ hexByte (w / 65536) ++ hexByte (w / 256) ++ hexByte w)
          | none => ((), "err")
        | none => ((), "bad-op")
      | none => ((), "bad-op")
    | none => ((), "bad-op")
  | _ => ((), "bad-op")

def main : IO Unit := runLoop () step
