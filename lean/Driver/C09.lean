/- Line-protocol model driver for C09 (marshal codec and data-graph marshal / unmarshal).
    pushint <int>      -> hex bytes
    readint <hex>      -> "ok <int> <consumed>" | "err"
    push64 <nat>       -> hex bytes
    read64 <hex>       -> "ok <nat> <consumed>" | "err"
    marshal <desc>     -> hex bytes | "err"
    marshalc <cdesc>   -> hex bytes | "err"              (value graphs with functions, funcdefs, environments; Code.lean)
    unmarshalc <hex>   -> "ok <consumed> <cdesc>" | "err"
    reasm <hex of a 32-bit instruction word, big endian>  -> "ok <hex of encode (decode w)> <opcode number> <args…>" | "noop" (not an
                         instruction of the table) | "err" (the assembler model rejects what the disassembler model produced)
    present <desc with the heap in any order>  -> "<hex bytes> <desc in reference-number order>" | "err"   (Marsh/Present.lean)
    asmdef <vararg> <arity> <min> <max> <slotcount> <nconsts> <ndefs> <nenvs> <hex of BE words|-> <extra,…|-> (<birth> <death> <slot>)*
                       (extra = captured-slot operands of ldu / setu in sub-funcdefs that read_instruction counts in this funcdef)
                       -> "<janet_verify code of that funcdef> <slot count janet_asm1 computes from its disassembly> <ok <slotcount>|err>"
                          (Asm/Def.lean: verify, asmSlotcount, asmOf)
    absdepth <a> <i> <k> -> "<ok|err> <ok|err>": does marshalD accept `a` arrays around a chain of `k` abstracts (each holding the next
                       inside `i` arrays) at the top-level depth budget, and does unmarshalD accept the bytes of that value; increments
                       of the two sides regenerated from marsh.c (Marsh/AbsDepth.lean)
    chanhook <threaded> <closed> <limit> <val>*   -> hex of what janet_chanat_marshal appends (hook protocol, Abstract.lean)
    chanread <hex>     -> "ok <consumed> <threaded> <closed> <limit> <val>*" | "err"   (janet_chanat_unmarshal on those bytes)
  <cdesc> = <val> { "|" <cobj> } "#" [ <def> { "|" <def> } ] "#" [ <env> { "|" <env> } ]
  <cobj> = <obj> | F <defidx> <envidx>*
         | Y <flags> <frame> <stackstart> <stacktop> <maxstack> <env|_> <child|_> <last> <nframes>
             (<frameflags> <prevframe> <pcdiff> <func> <envidx|_> <nslots> <val>^nslots)^nframes
  <def>  = D <flags> <slotcount> <arity> <min> <max> <name|_> <source|_> C <k> <val>^k S <k> (<birth> <death> <slot> <val>)^k
           B <hex of LE words|-> E <k> <int>^k D <k> <idx>^k M <k> (<line> <col>)^k X <k> <word>^k
  <env>  = Ed <val>* | Es <offset> <length> <val>
    unmarshal <hex>    -> "ok <consumed> <desc>" | "err"
  <desc> = <val> { "|" <obj> }      heap objects in reference-number order (see JanetModel/Marsh/Graph.lean)
  <val>  = n | t | f | i<int> | r<id>
  <obj>  = R<hex8> | Ss<hex> | Sy<hex> | Sk<hex> | G<hex> | B<hex> | A0 <val>* | A1 <val>* | T<flag> <val>*
         | M<weak> <proto|_> (<val> <val>)* | U <proto|_> (<val> <val>)*
-/
import Driver.Util
import JanetModel.Marsh.IntCodec
import JanetModel.Marsh.Size
import JanetModel.Marsh.Graph
import JanetModel.Marsh.Code
import JanetModel.Marsh.Abstract
import JanetModel.Asm.Operand
import JanetModel.Asm.Instr
import JanetModel.Asm.Def
import JanetModel.Marsh.Present
import JanetModel.Marsh.AbsDepth
open Driver JanetModel.Marsh

def dropFirst (s : String) (k : Nat) : String := String.ofList (s.toList.drop k)

def parseVal (t : String) : Option Val :=
  match t.toList with
  | ['n'] => some .nil
  | ['t'] => some (.bool true)
  | ['f'] => some (.bool false)
  | 'i' :: rest => (String.ofList rest).toInt?.map .int
  | 'r' :: rest => (String.ofList rest).toNat?.map .ref
  | _ => none

def parseVals : List String → Option (List Val)
  | [] => some []
  | t :: ts => do
    let v ← parseVal t
    let vs ← parseVals ts
    some (v :: vs)

def parseProto (t : String) : Option (Option Val) :=
  if t = "_" then some none else (parseVal t).map some

def parseObj : List String → Option Obj
  | [] => none
  | hd :: args =>
    match hd.toList with
    | 'R' :: h => (bytesOfHex (String.ofList h)).map .real
    | 'S' :: 's' :: h => (bytesOfHex (String.ofList h)).map (.str .string)
    | 'S' :: 'y' :: h => (bytesOfHex (String.ofList h)).map (.str .symbol)
    | 'S' :: 'k' :: h => (bytesOfHex (String.ofList h)).map (.str .keyword)
    | 'G' :: h => (bytesOfHex (String.ofList h)).map .reg
    | 'B' :: h => (bytesOfHex (String.ofList h)).map .buffer
    | ['A', '0'] => (parseVals args).map (.array false)
    | ['A', '1'] => (parseVals args).map (.array true)
    | 'T' :: fl => do
      let flag ← (String.ofList fl).toInt?
      let items ← parseVals args
      some (.tuple flag items)
    | 'M' :: w => do
      let weak ← (String.ofList w).toNat?
      match args with
      | [] => none
      | p :: kv => do
        let proto ← parseProto p
        let vs ← parseVals kv
        if vs.length % 2 = 0 then some (.table weak proto (pairUp vs)) else none
    | ['U'] =>
      match args with
      | [] => none
      | p :: kv => do
        let proto ← parseProto p
        let vs ← parseVals kv
        if vs.length % 2 = 0 then some (.struct proto (pairUp vs)) else none
    | _ => none

/-- split on the token "|" -/
def splitBar (toks : List String) : List (List String) :=
  let rec go : List String → List String → List (List String) → List (List String)
    | [], cur, acc => (cur.reverse :: acc).reverse
    | t :: ts, cur, acc => if t = "|" then go ts [] (cur.reverse :: acc) else go ts (t :: cur) acc
  go toks [] []

def parseObjs : List (List String) → Option (List Obj)
  | [] => some []
  | o :: os => do
    let x ← parseObj o
    let xs ← parseObjs os
    some (x :: xs)

def parseDesc (toks : List String) : Option (Val × List Obj) :=
  match splitBar toks with
  | [v] :: objs => do
    let x ← parseVal v
    let H ← parseObjs objs
    some (x, H)
  | _ => none

def showVal : Val → String
  | .nil => "n"
  | .bool true => "t"
  | .bool false => "f"
  | .int i => s!"i{i}"
  | .ref id => s!"r{id}"

def showVals (vs : List Val) : String := String.join (vs.map fun v => " " ++ showVal v)

def showProto : Option Val → String
  | none => " _"
  | some p => " " ++ showVal p

def showObj : Obj → String
  | .real bs => "R" ++ hexOfBytes bs
  | .str .string bs => "Ss" ++ hexOfBytes bs
  | .str .symbol bs => "Sy" ++ hexOfBytes bs
  | .str .keyword bs => "Sk" ++ hexOfBytes bs
  | .reg bs => "G" ++ hexOfBytes bs
  | .buffer bs => "B" ++ hexOfBytes bs
  | .array w items => (if w then "A1" else "A0") ++ showVals items
  | .tuple flag items => s!"T{flag}" ++ showVals items
  | .table w p kvs => s!"M{w}" ++ showProto p ++ showVals (flatKV kvs)
  | .struct p kvs => "U" ++ showProto p ++ showVals (flatKV kvs)

def showDesc (x : Val) (H : List Obj) : String :=
  showVal x ++ String.join (H.map fun o => " | " ++ showObj o)

/-! ### code objects (Code.lean) -/

def splitOnTok (sep : String) (toks : List String) : List (List String) :=
  let rec go : List String → List String → List (List String) → List (List String)
    | [], cur, acc => (cur.reverse :: acc).reverse
    | t :: ts, cur, acc => if t = sep then go ts [] (cur.reverse :: acc) else go ts (t :: cur) acc
  go toks [] []

def parseNats : List String → Option (List Nat)
  | [] => some []
  | t :: ts => do
    let v ← t.toNat?
    let vs ← parseNats ts
    some (v :: vs)

def parseFrames : Nat → List String → Option (List Frame × List String)
  | 0, ts => some ([], ts)
  | k + 1, ff :: pf :: pc :: fn :: ev :: ns :: rest => do
    let flags ← ff.toInt?
    let prevframe ← pf.toNat?
    let pcdiff ← pc.toNat?
    let func ← parseVal fn
    let env ← if ev = "_" then some none else ev.toNat?.map some
    let n ← ns.toNat?
    let slots ← parseVals (rest.take n)
    if rest.length < n then none else do
      let (more, rest') ← parseFrames k (rest.drop n)
      some (⟨flags, prevframe, pcdiff, func, env, slots⟩ :: more, rest')
  | _, _ => none

def parseCObj (toks : List String) : Option CObj :=
  match toks with
  | "Y" :: fl :: fr :: ss :: st :: ms :: ev :: ch :: la :: nf :: rest => do
    let flags ← fl.toInt?
    let frame ← fr.toNat?
    let stackstart ← ss.toNat?
    let stacktop ← st.toNat?
    let maxstack ← ms.toNat?
    let env ← parseProto ev
    let child ← parseProto ch
    let last ← parseVal la
    let n ← nf.toNat?
    let (frames, rest') ← parseFrames n rest
    if rest' = [] then some (.fiber flags frame stackstart stacktop maxstack frames env child last) else none
  | "F" :: di :: envs => do
    let d ← di.toNat?
    let es ← parseNats envs
    some (.func d es)
  | _ => (parseObj toks).map .data

def parseCObjs : List (List String) → Option (List CObj)
  | [] => some []
  | o :: os => do
    let x ← parseCObj o
    let xs ← parseCObjs os
    some (x :: xs)

/-- take `k` items, each parsed by `p` from the token stream -/
def takeK {α : Type} (p : List String → Option (α × List String)) : Nat → List String → Option (List α × List String)
  | 0, ts => some ([], ts)
  | k + 1, ts => do
    let (a, ts1) ← p ts
    let (as, ts2) ← takeK p k ts1
    some (a :: as, ts2)

def pVal : List String → Option (Val × List String)
  | t :: ts => (parseVal t).map fun v => (v, ts)
  | [] => none
def pInt : List String → Option (Int × List String)
  | t :: ts => t.toInt?.map fun v => (v, ts)
  | [] => none
def pNat : List String → Option (Nat × List String)
  | t :: ts => t.toNat?.map fun v => (v, ts)
  | [] => none
def pSym : List String → Option (SymEntry × List String)
  | b :: d :: s :: v :: ts => do
    let b' ← b.toInt?
    let d' ← d.toInt?
    let s' ← s.toInt?
    let v' ← parseVal v
    some (⟨b', d', s', v'⟩, ts)
  | _ => none
def pPair : List String → Option ((Int × Int) × List String)
  | a :: b :: ts => do
    let a' ← a.toInt?
    let b' ← b.toInt?
    some ((a', b'), ts)
  | _ => none

def wordsOfBytes : List Nat → List Nat
  | b0 :: b1 :: b2 :: b3 :: rest => (b0 + b1 * 256 + b2 * 65536 + b3 * 16777216) :: wordsOfBytes rest
  | _ => []

def sect {α : Type} (tag : String) (p : List String → Option (α × List String)) (ts : List String) : Option (List α × List String) :=
  match ts with
  | t :: k :: rest => if t = tag then do
      let n ← k.toNat?
      takeK p n rest
    else none
  | _ => none

def parseDef (toks : List String) : Option Def :=
  match toks with
  | "D" :: fl :: sc :: ar :: mn :: mx :: nm :: srcv :: rest => do
    let flags ← fl.toInt?
    let slotcount ← sc.toNat?
    let arity ← ar.toNat?
    let minA ← mn.toNat?
    let maxA ← mx.toNat?
    let name ← parseProto nm
    let source ← parseProto srcv
    let (constants, r1) ← sect "C" pVal rest
    let (symbolmap, r2) ← sect "S" pSym r1
    match r2 with
    | "B" :: hx :: r3 => do
      let bytes ← if hx = "-" then some [] else bytesOfHex hx
      let (environments, r4) ← sect "E" pInt r3
      let (defs, r5) ← sect "D" pNat r4
      let (sourcemap, r6) ← sect "M" pPair r5
      let (bitset, r7) ← sect "X" pNat r6
      if r7 = [] then
        some ⟨flags, slotcount, arity, minA, maxA, name, source, constants, symbolmap, wordsOfBytes bytes, environments, defs, sourcemap, bitset⟩
      else none
    | _ => none
  | _ => none

def parseEnv (toks : List String) : Option Env :=
  match toks with
  | "Ed" :: vs => (parseVals vs).map .detached
  | ["Es", off, len, fib] => do
    let o ← off.toNat?
    let l ← len.toNat?
    let f ← parseVal fib
    some (.onstack o l f)
  | _ => none

def parseAll {α : Type} (p : List String → Option α) : List (List String) → Option (List α)
  | [] => some []
  | o :: os => do
    let x ← p o
    let xs ← parseAll p os
    some (x :: xs)

def nonEmptyGroups (toks : List String) : List (List String) := if toks = [] then [] else splitBar toks

def parseCDesc (toks : List String) : Option (Val × Heap) :=
  match splitOnTok "#" toks with
  | [vo, ds, es] =>
    match splitBar vo with
    | [v] :: objs => do
      let x ← parseVal v
      let os ← parseCObjs objs
      let dfs ← parseAll parseDef (nonEmptyGroups ds)
      let evs ← parseAll parseEnv (nonEmptyGroups es)
      some (x, ⟨os, dfs, evs⟩)
    | _ => none
  | _ => none

def showNats (ns : List Nat) : String := String.join (ns.map fun n => s!" {n}")
def showInts (ns : List Int) : String := String.join (ns.map fun n => s!" {n}")

def showOpt : Option Val → String
  | none => "_"
  | some v => showVal v

def showCObj : CObj → String
  | .data o => showObj o
  | .func d es => s!"F {d}" ++ showNats es
  | .abs _ _ _ => "X?"
  | .fiber flags frame ss st ms frames env child last =>
    s!"Y {flags} {frame} {ss} {st} {ms} {showOpt env} {showOpt child} {showVal last} {frames.length}" ++
      String.join (frames.map fun fr => s!" {fr.flags} {fr.prevframe} {fr.pcdiff} {showVal fr.func} " ++
        (match fr.env with | some e => toString e | none => "_") ++ s!" {fr.slots.length}" ++ showVals fr.slots)

def showDef (d : Def) : String :=
  s!"D {d.flags} {d.slotcount} {d.arity} {d.minArity} {d.maxArity} {showOpt d.name} {showOpt d.source}"
  ++ s!" C {d.constants.length}" ++ showVals d.constants
  ++ s!" S {d.symbolmap.length}" ++ String.join (d.symbolmap.map fun s => s!" {s.birth} {s.death} {s.slot} {showVal s.sym}")
  ++ " B " ++ (if d.bytecode = [] then "-" else hexOfBytes (u32s d.bytecode))
  ++ s!" E {d.environments.length}" ++ showInts d.environments
  ++ s!" D {d.defs.length}" ++ showNats d.defs
  ++ s!" M {d.sourcemap.length}" ++ String.join (d.sourcemap.map fun p => s!" {p.1} {p.2}")
  ++ s!" X {d.bitset.length}" ++ showNats d.bitset

def showEnv : Env → String
  | .detached vs => "Ed" ++ showVals vs
  | .onstack o l f => s!"Es {o} {l} {showVal f}"

def joinBar (xs : List String) : String :=
  match xs with
  | [] => ""
  | x :: rest => x ++ String.join (rest.map fun y => " | " ++ y)

def showCDesc (x : Val) (o : Out) : String :=
  showVal x ++ String.join (o.objs.map fun ob => " | " ++ showCObj ob) ++ " # " ++ joinBar (o.defs.map showDef) ++ " # " ++ joinBar (o.envs.map showEnv)

def step (_ : Unit) (toks : List String) : Unit × String :=
  match toks with
  | ["pushint", n] =>
    match n.toInt? with
    | some x => if -2147483648 ≤ x ∧ x < 2147483648 then ((), hexOfBytes (pushint x)) else ((), "bad-op")
    | none => ((), "bad-op")
  | ["readint", h] =>
    match bytesOfHex h with
    | some bs =>
      match readint bs with
      | some (x, tl) => ((), s!"ok {x} {bs.length - tl.length}")
      | none => ((), "err")
    | none => ((), "bad-op")
  | ["readint"] => ((), match readint [] with | some _ => "ok" | none => "err")
  | ["push64", n] =>
    match n.toNat? with
    | some x => if x < 18446744073709551616 then ((), hexOfBytes (push64 x)) else ((), "bad-op")
    | none => ((), "bad-op")
  | ["read64", h] =>
    match bytesOfHex h with
    | some bs =>
      match read64 bs with
      | some (x, tl) => ((), s!"ok {x} {bs.length - tl.length}")
      | none => ((), "err")
    | none => ((), "bad-op")
  | ["read64"] => ((), "err")
  | "marshal" :: d =>
    match parseDesc d with
    | some (x, H) =>
      match marshal H x with
      | some bs => ((), hexOfBytes bs)
      | none => ((), "err")
    | none => ((), "bad-op")
  | ["unmarshal", h] =>
    match bytesOfHex h with
    | some bs =>
      match unmarshal bs with
      | some (x, H, used) => ((), s!"ok {used} {showDesc x H}")
      | none => ((), "err")
    | none => ((), "bad-op")
  | ["unmarshal"] => ((), "err")
  | "marshalc" :: d =>
    match parseCDesc d with
    | some (x, T) =>
      match marshalCode T x with
      | some bs => ((), hexOfBytes bs)
      | none => ((), "err")
    | none => ((), "bad-op")
  | ["reasm", h] =>
    match bytesOfHex h with
    | some [b3, b2, b1, b0] =>
      let w := b3 * 16777216 + b2 * 65536 + b1 * 256 + b0
      match JanetModel.Asm.decode w with
      | none => ((), "noop")
      | some (op, args) =>
        match JanetModel.Asm.encode op args with
        | some w' => ((), "ok " ++ hexByte (w' / 16777216) ++ hexByte (w' / 65536) ++ hexByte (w' / 256) ++ hexByte w' ++ s!" {op.toNat}" ++ showInts args)
        | none => ((), "err")
    | _ => ((), "bad-op")
  | "chanhook" :: th :: cl :: lim :: vals =>
    match th.toNat?, cl.toNat?, lim.toInt?, parseVals vals with
    | some t, some c, some l, some vs =>
      let p := chanItems t c l vs
      match marshalHook (fun v c => marshalC (topFuel - 2) ⟨[], [], []⟩ v c) 1 p.1 p.2 ⟨1, 0, 0⟩ with
      | some (bs, _) => ((), hexOfBytes bs)
      | none => ((), "err")
    | _, _, _, _ => ((), "bad-op")
  | ["chanread", h] =>
    match bytesOfHex h with
    | some bs =>
      match unmarshalHook (fun c d => unmarshalC (topFuel - 2) (fun _ => true) c d) chanProg (CObj.abs .nil) ⟨1, 0, 0⟩ bs with
      | some (_, rest, o) =>
        match o.objs with
        | [.abs _ [.byte t] (.byte c :: .int l :: .int _ :: items)] =>
          ((), s!"ok {bs.length - rest.length} {t} {c} {l}" ++ String.join (items.map fun it => match it with | .janet v => " " ++ showVal v | _ => " ?"))
        | _ => ((), "err")
      | none => ((), "err")
    | none => ((), "bad-op")
  | ["unmarshalc", h] =>
    match bytesOfHex h with
    | some bs =>
      match unmarshalCode (fun _ => true) bs with
      | some (x, o, used) => ((), s!"ok {used} {showCDesc x o}")
      | none => ((), "err")
    | none => ((), "bad-op")
  | "asmword" :: opn :: args =>
    match opn.toNat? with
    | some k =>
      match JanetModel.Gen.Bytecode.Op.ofNat? k with
      | some op =>
        match args.mapM (·.toInt?) with
        | some as =>
          match JanetModel.Asm.encode op as with
          | some w => ((), hexByte (w / 16777216) ++ hexByte (w / 65536) ++ hexByte (w / 256) ++ hexByte w)
          | none => ((), "err")
        | none => ((), "bad-op")
      | none => ((), "bad-op")
    | none => ((), "bad-op")
  | _ => ((), "bad-op")

def wordsOfBytesBE : List Nat → List Nat
  | b3 :: b2 :: b1 :: b0 :: rest => (b3 * 16777216 + b2 * 65536 + b1 * 256 + b0) :: wordsOfBytesBE rest
  | _ => []

def symsOf : List Nat → List JanetModel.Asm.SymEntry
  | b :: d :: s :: rest => ⟨b, d, s⟩ :: symsOf rest
  | _ => []

def stepAsmDef : List String → Option String
  | va :: ar :: mn :: mx :: sc :: nc :: nd :: ne :: hx :: ex :: syms => do
    let va ← va.toNat?
    let ar ← ar.toInt?
    let mn ← mn.toInt?
    let mx ← mx.toInt?
    let sc ← sc.toInt?
    let nc ← nc.toNat?
    let nd ← nd.toNat?
    let ne ← ne.toNat?
    let bs ← if hx = "-" then some [] else bytesOfHex hx
    let sy ← syms.mapM (·.toNat?)
    let extra ← if ex = "-" then some [] else (ex.splitOn ",").mapM (·.toInt?)
    let d : JanetModel.Asm.FDef := ⟨va != 0, ar, mn, mx, sc, wordsOfBytesBE bs, nc, nd, ne, symsOf sy⟩
    let r := match JanetModel.Asm.asmOfX extra d with
      | some d' => s!"ok {d'.slotcount}"
      | none => "err"
    some s!"{JanetModel.Asm.verify d} {JanetModel.Asm.asmSlotcountX extra d} {r}"
  | _ => none

def stepAbsDepth (ws : List String) : Option String := do
  let [a, i, k] := ws | none
  let a ← a.toNat?
  let i ← i.toNat?
  let k ← k.toNat?
  let v := AbsDepth.wrap a (AbsDepth.chainW i k)
  let m := (AbsDepth.marshalD AbsDepth.mIncs AbsDepth.topFuel v).isSome
  let u := (AbsDepth.unmarshalD AbsDepth.uIncs AbsDepth.topFuel (AbsDepth.enc v)).isSome
  some s!"{if m then "ok" else "err"} {if u then "ok" else "err"}"

def step2 (u : Unit) (ws : List String) : Unit × String :=
  match ws with
  | "absdepth" :: rest => ((), (stepAbsDepth rest).getD "bad-op")
  | "asmdef" :: rest => ((), (stepAsmDef rest).getD "bad-op")
  | "present" :: d =>
    match parseDesc d with
    | some (x, G) =>
      match present G x with
      | some (bs, x', H) => ((), hexOfBytes bs ++ " " ++ showDesc x' H)
      | none => ((), "err")
    | none => ((), "bad-op")
  | _ => step u ws

def main : IO Unit := runLoop () step2
