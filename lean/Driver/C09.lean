-- line-protocol model driver for C09 (stub)
def main : IO Unit := IO.println "stub C09"
