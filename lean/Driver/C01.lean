/- Line-protocol model driver for C01: reads heap dumps written by harness/C01/gch.c at janet_verif_gc_midpoint, runs the
model's mark phase (JANET_RECURSION_GUARD and two tiny depth limits that force the spill/drain path) and sweep, and
compares with the collector's mark bits and the block lists after the real sweep. -/
import JanetModel.GC.Model
open JanetModel.GC

structure DS where
  objs : Array Obj := #[]
  marked : Array Bool := #[]
  disabled : Array Bool := #[]
  opq : Bool := false
  roots : List Edge := []
  after : List Nat := []
  hasAfter : Bool := false
  coll : String := "?"
  bad : Nat := 0
  envBad : Nat := 0      -- environment modes that contradict the model's envModeAfterMark
  envSeen : Nat := 0

def parseRef (s : String) : Val := match s.toNat? with | some n => .ref n | none => .imm

def parseObj (kind : Nat) (toks : List String) : Obj :=
  let edges : List Edge := toks.filterMap fun t =>
    if t.startsWith "v" then (t.drop 1).toString.toNat?.map (fun n => ⟨true, n⟩)
    else if t.startsWith "p" then (t.drop 1).toString.toNat?.map (fun n => ⟨false, n⟩)
    else none
  let slots : List (Val × Val) := toks.filterMap fun t =>
    if t.startsWith "s:" then
      match t.splitOn ":" with
      | [_, k, v] => some (parseRef k, parseRef v)
      | _ => none
    else none
  let proto : Option Id := (edges.find? (fun e => !e.dec)).map (·.tgt)
  open JanetModel.Gen.GC in
  if kind == memArrayWeak then Obj.array true (slots.map (·.1))
  else if kind == memTableWeakK then Obj.table true false slots proto
  else if kind == memTableWeakV then Obj.table false true slots proto
  else if kind == memTableWeakKV then Obj.table true true slots proto
  else { kind, strong := edges }

def check (st : DS) : String := Id.run do
  let objs := st.objs
  let n := objs.size
  let h : Heap := { size := n, obj := fun i => objs[i]?, roots := st.roots }
  let m := mark JanetModel.Gen.GC.recursionGuard h
  let m1 := mark 1 h
  let m3 := mark 3 h
  let mut missing := 0     -- model marks it, collector did not  (a reachable block the collector would free)
  let mut extra := 0       -- collector marked it, model did not
  let mut dep := 0         -- model's result depends on the depth limit (contradicts mark_eq_reachable: driver bug)
  let mut nm := 0
  let mut first := ""
  for i in [0:n] do
    let a := m.marked.contains i
    let b := st.marked.getD i false
    if a then nm := nm + 1
    if a && !b then
      missing := missing + 1
      if first == "" then first := s!"missing:{i}:kind{(objs.getD i {kind := 0, strong := []}).kind}"
    if b && !a && !st.opq then
      extra := extra + 1
      if first == "" then first := s!"extra:{i}"
    if m1.marked.contains i != a || m3.marked.contains i != a then dep := dep + 1
  -- sweep
  let h' := sweep m.marked h
  let mut sweepDiff := 0
  let mut freed := 0
  let mut cleared := 0
  if st.hasAfter then
    let afterSet : Std.HashSet Nat := st.after.foldl (fun s i => s.insert i) ∅
    for i in [0:n] do
      let surv := (h'.get i).isSome
      if !surv then freed := freed + 1
      if st.disabled.getD i false then continue
      if surv != afterSet.contains i then
        sweepDiff := sweepDiff + 1
        if first == "" then first := s!"sweep:{i}"
      match h.get i, h'.get i with
      | some o, some o' => cleared := cleared + (o.entries.length - o'.entries.length)
      | _, _ => pure ()
  let stuck := m.stuck || m1.stuck || m3.stuck || !m.spill.isEmpty
  let ok := missing == 0 && extra == 0 && dep == 0 && sweepDiff == 0 && !stuck && st.bad == 0 && st.envBad == 0
  return s!"result ok={if ok then 1 else 0} collection={st.coll} nodes={n} modelmarked={nm} missing={missing} extra={extra} depthdep={dep} sweepdiff={sweepDiff} modelfreed={freed} weakcleared={cleared} stuck={if stuck then 1 else 0} parsebad={st.bad} envmodes={st.envSeen} envbad={st.envBad} opaque={if st.opq then 1 else 0} first={if first == "" then "-" else first}"

partial def loop (inp out : IO.FS.Stream) (st : DS) : IO Unit := do
  let line ← inp.getLine
  if line.isEmpty then
    out.flush
    return ()
  let toks := (line.trimAscii.toString.splitOn " ").filter (· ≠ "")
  match toks with
  | "heap" :: _ :: c :: _ => loop inp out { coll := c }
  | "o" :: id :: kind :: flags :: rest =>
    let k := kind.toNat?.getD 0
    let bad := if id.toNat? == some st.objs.size then st.bad else st.bad + 1
    let fl := flags.toList
    -- after the mark phase: a marked environment that is still on a stack must belong to a fiber whose status the model
    -- does not detach (E<status>); a fiber the model does not detach has all its frame environments on its stack (F = on
    -- this frame, X = not)
    let marked := fl.contains 'm'
    let envTok := rest.filter (fun t => t.startsWith "E")
    let fibStatus := (rest.find? (fun t => t.startsWith "S")).bind (fun t => (t.drop 1).toString.toNat?)
    let nX := (rest.filter (fun t => t.startsWith "X")).length
    let nF := (rest.filter (fun t => t.startsWith "F")).length
    let bad1 := if marked then (envTok.filter (fun t => match (t.drop 1).toString.toNat? with
        | some s => detachOnMark s
        | none => true)).length else 0
    let bad2 := match fibStatus with
      | some s => if marked && !detachOnMark s then nX else 0
      | none => 0
    let st := { st with envBad := st.envBad + bad1 + bad2, envSeen := st.envSeen + envTok.length + nX + nF }
    loop inp out { st with
      objs := st.objs.push (parseObj k rest),
      marked := st.marked.push (fl.contains 'm'),
      disabled := st.disabled.push (fl.contains 'd'),
      opq := st.opq || (fl.contains 'o' ),
      bad := bad }
  | "roots" :: rest =>
    let rs : List Edge := rest.filterMap fun t =>
      if t.startsWith "v" then (t.drop 1).toString.toNat?.map (fun n => ⟨true, n⟩)
      else if t.startsWith "p" then (t.drop 1).toString.toNat?.map (fun n => ⟨false, n⟩)
      else none
    loop inp out { st with roots := rs }
  | "after" :: rest => loop inp out { st with after := rest.filterMap (·.toNat?), hasAfter := !rest.isEmpty }
  | "check" :: _ =>
    out.putStrLn (check st)
    loop inp out {}
  | _ => loop inp out st

def main : IO Unit := do
  loop (← IO.getStdin) (← IO.getStdout) {}
