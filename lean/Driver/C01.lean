-- line-protocol model driver for C01 (stub)
def main : IO Unit := IO.println "stub C01"
