/- Line-protocol model driver for C01: reads heap dumps written by harness/C01/gch.c at janet_verif_gc_midpoint, runs the
model's mark phase (JANET_RECURSION_GUARD and two tiny depth limits that force the spill/drain path) and sweep, and
compares with the collector's mark bits and the block lists after the real sweep. -/
import JanetModel.GC.Model
import JanetModel.GC.Roots
import JanetModel.GC.Weak
import JanetModel.GC.SymSweep
import JanetModel.GC.RingMark
open JanetModel.GC

structure DS where
  objs : Array Obj := #[]
  marked : Array Bool := #[]
  disabled : Array Bool := #[]
  opq : Bool := false
  roots : List Edge := []
  after : List Nat := []
  hasAfter : Bool := false
  coll : String := "?"
  bad : Nat := 0
  envBad : Nat := 0      -- environment modes that contradict the model's envModeAfterMark
  envSeen : Nat := 0
  weakBefore : List (Nat × Nat × Nat × Nat × List String) := []   -- id, kind, count, deleted, slot tokens (before the sweep)
  weakTables : Nat := 0
  weakSlots : Nat := 0
  weakDropped : Nat := 0
  weakDiff : Nat := 0
  weakFirst : String := ""
  symBefore : Option (Nat × Nat × Nat × List String) := none     -- capacity, cache_count, cache_deleted, bucket tokens (before the sweep)
  symChecked : Nat := 0
  symDeinit : Nat := 0
  symDiff : Nat := 0
  rings : Nat := 0          -- ring buffers of the mark phase seen in the dump
  ringsWrapped : Nat := 0   -- … whose content wraps round (head > tail)
  ringDiff : Nat := 0       -- representation invariant violated, or the regenerated walk visits other slots than the occupied ones

def parseRef (s : String) : Val := match s.toNat? with | some n => .ref n | none => .imm

def parseObj (kind : Nat) (toks : List String) : Obj :=
  let edges : List Edge := toks.filterMap fun t =>
    if t.startsWith "v" then (t.drop 1).toString.toNat?.map (fun n => ⟨true, n, false⟩)
    else if t.startsWith "p" then (t.drop 1).toString.toNat?.map (fun n => ⟨false, n, false⟩)
    else if t.startsWith "q" then (t.drop 1).toString.toNat?.map (fun n => ⟨false, n, JanetModel.Gen.GC.funcdefNestTakesLevel⟩)
    else none
  let slots : List (Val × Val) := toks.filterMap fun t =>
    if t.startsWith "s:" then
      match t.splitOn ":" with
      | [_, k, v] => some (parseRef k, parseRef v)
      | _ => none
    else none
  let proto : Option Id := (edges.find? (fun e => !e.dec)).map (·.tgt)
  open JanetModel.Gen.GC in
  if kind == memArrayWeak then Obj.array true (slots.map (·.1))
  else if kind == memTableWeakK then Obj.table true false slots proto
  else if kind == memTableWeakV then Obj.table false true slots proto
  else if kind == memTableWeakKV then Obj.table true true slots proto
  else { kind, strong := edges }

def parseSVal (t : String) : SVal :=
  if t == "n" then .nil else if t == "f" then .fls else if t == "i" then .imm
  else match t.toNat? with | some n => .ref n | none => .imm

def showSVal : SVal → String
  | .nil => "n" | .fls => "f" | .imm => "i" | .ref n => toString n

/-- run the model's weak pass (GC/Weak.lean) on a block's slots as dumped BEFORE the real sweep, with the collector's mark
bits, and compare with the same block as dumped AFTER the real sweep: slots, `count`, `deleted` -/
def weakCompare (st : DS) (id count deleted : Nat) (slots : List String) : DS :=
  match st.weakBefore.find? (fun w => w.1 == id) with
  | none => { st with weakDiff := st.weakDiff + 1, weakFirst := if st.weakFirst == "" then s!"weak:{id}:no-before" else st.weakFirst }
  | some (_, kind, c0, d0, toks0) =>
    let m : Std.HashSet Nat := (List.range st.marked.size).foldl (fun s i => if st.marked.getD i false then s.insert i else s) ∅
    let (toks1, c1, d1, dropped) :=
      if kind == JanetModel.Gen.GC.memArrayWeak then
        let items := toks0.map parseSVal
        let r := sweepWeakArray m items
        (r.map showSVal, c0, d0, ((items.zip r).filter (fun p => p.1 != p.2)).length)
      else
        let data : List KV := toks0.map fun t => match t.splitOn "|" with
          | [k, v] => ⟨parseSVal k, parseSVal v⟩
          | _ => ⟨.imm, .imm⟩
        let t : WTable := { kind, data, count := c0, deleted := d0 }
        let r := sweepWeakTable m t
        (r.data.map (fun kv => showSVal kv.key ++ "|" ++ showSVal kv.value), r.count, r.deleted, d0 + (t.data.filter (dropSlot m kind)).length - d0)
    let same := toks1 == slots && c1 == count && d1 == deleted
    { st with weakTables := st.weakTables + 1, weakSlots := st.weakSlots + slots.length, weakDropped := st.weakDropped + dropped,
              weakDiff := st.weakDiff + (if same then 0 else 1),
              weakFirst := if !same && st.weakFirst == "" then s!"weak:{id}:kind{kind}:model-count{c1}/{d1}:impl-count{count}/{deleted}" else st.weakFirst }

/-! ### the symbol cache across the sweep (GC/SymSweep.lean `sweepCache` = deinit of every freed symbol, in block-list order,
on the cache model of Value/SymCache.lean) against the real cache after the real sweep: every bucket, count, deleted -/

def hexVal (c : Char) : Nat :=
  if '0' ≤ c && c ≤ '9' then c.toNat - '0'.toNat else if 'a' ≤ c && c ≤ 'f' then c.toNat - 'a'.toNat + 10 else 0

def hexBytes : List Char → List UInt8
  | a :: b :: r => (hexVal a * 16 + hexVal b).toUInt8 :: hexBytes r
  | _ => []

open JanetModel.Value.SymCache in
def parseSymCache (cap : Nat) (toks : List String) : List Slot × Std.HashMap Nat (List UInt8) :=
  let (arr, names) := toks.foldl (fun (acc : Array Slot × Std.HashMap Nat (List UInt8)) t =>
    match t.splitOn ":" with
    | [b, "D"] => (acc.1.setIfInBounds (b.toNat?.getD cap) .deleted, acc.2)
    | [b, id, hex] =>
      let i := id.toNat?.getD 0
      let bytes := if hex == "-" then [] else hexBytes hex.toList
      (acc.1.setIfInBounds (b.toNat?.getD cap) (.live i bytes), acc.2.insert i bytes)
    | _ => acc) (Array.replicate cap Slot.empty, ∅)
  (arr.toList, names)

open JanetModel.Value.SymCache JanetModel.GC.SymSweep in
def symCompare (st : DS) (cap count deleted : Nat) (toks : List String) : DS :=
  match st.symBefore with
  | none => { st with symDiff := st.symDiff + 1, weakFirst := if st.weakFirst == "" then "symcache:no-before" else st.weakFirst }
  | some (cap0, count0, deleted0, toks0) =>
    let (slots0, names0) := parseSymCache cap0 toks0
    let (slots1, _) := parseSymCache cap toks
    let m : Std.HashSet Nat := (List.range st.marked.size).foldl (fun s i => if st.marked.getD i false || st.disabled.getD i false then s.insert i else s) ∅
    let c0 : Cache := { slots := slots0, count := count0, deleted := deleted0, next := 0 }
    let r := sweepCache m (fun i => names0.get? i) (List.range st.objs.size) c0
    let same := cap == cap0 && r.slots == slots1 && r.count == count && r.deleted == deleted
    let firstBad := ((List.range cap).find? (fun i => r.slots.getD i .empty != slots1.getD i .empty)).getD cap
    { st with symChecked := st.symChecked + 1, symDeinit := st.symDeinit + (count0 - r.count), symDiff := st.symDiff + (if same then 0 else 1),
              weakFirst := if !same && st.weakFirst == "" then s!"symcache:cap{cap0}:model-count{r.count}/{r.deleted}:impl-count{count}/{deleted}:first-bucket{firstBad}" else st.weakFirst }

open JanetModel.GC.RingMark in
/-- one real ring buffer (run queue / channel items / channel pending queue) at a collection: the hypothesis `WF` of
`mark_ring_walk_visits_all` must hold of it, and the walk regenerated from the source must visit its occupied slots -/
def ringCheck (st : DS) (which : String) (head tail cap cnt : Nat) : DS :=
  let s : QS := ⟨head, tail, cap⟩
  let w := match which with
    | "spawn" => JanetModel.Gen.GC.ringWalkEvMark
    | "items" => JanetModel.Gen.GC.ringWalkChanItems
    | _ => JanetModel.Gen.GC.ringWalkChanFq
  let visited := runWalk (cap + 1) s w
  let ok := decide (WF s) && visited == ringSlots s && visited.length == cnt
  { st with rings := st.rings + 1, ringsWrapped := st.ringsWrapped + (if head > tail then 1 else 0), ringDiff := st.ringDiff + (if ok then 0 else 1),
            weakFirst := if !ok && st.weakFirst == "" then s!"ring:{which}:{head}:{tail}:{cap}:count{cnt}:visited{visited.length}" else st.weakFirst }

def check (st : DS) : String := Id.run do
  let objs := st.objs
  let n := objs.size
  let h : Heap := { size := n, obj := fun i => objs[i]?, roots := st.roots }
  let m := mark JanetModel.Gen.GC.recursionGuard h
  let m1 := mark 1 h
  let m3 := mark 3 h
  let mut missing := 0     -- model marks it, collector did not  (a reachable block the collector would free)
  let mut extra := 0       -- collector marked it, model did not
  let mut dep := 0         -- model's result depends on the depth limit (contradicts mark_eq_reachable: driver bug)
  let mut nm := 0
  let mut first := ""
  for i in [0:n] do
    let a := m.marked.contains i
    let b := st.marked.getD i false
    if a then nm := nm + 1
    if a && !b then
      missing := missing + 1
      if first == "" then first := s!"missing:{i}:kind{(objs.getD i {kind := 0, strong := []}).kind}"
    if b && !a && !st.opq then
      extra := extra + 1
      if first == "" then first := s!"extra:{i}"
    if m1.marked.contains i != a || m3.marked.contains i != a then dep := dep + 1
  -- sweep
  let h' := sweep m.marked h
  let mut sweepDiff := 0
  let mut freed := 0
  let mut cleared := 0
  if st.hasAfter then
    let afterSet : Std.HashSet Nat := st.after.foldl (fun s i => s.insert i) ∅
    for i in [0:n] do
      let surv := (h'.get i).isSome
      if !surv then freed := freed + 1
      if st.disabled.getD i false then continue
      if surv != afterSet.contains i then
        sweepDiff := sweepDiff + 1
        if first == "" then first := s!"sweep:{i}"
      match h.get i, h'.get i with
      | some o, some o' => cleared := cleared + (o.entries.length - o'.entries.length)
      | _, _ => pure ()
  let stuck := m.stuck || m1.stuck || m3.stuck || !m.spill.isEmpty
  if first == "" then first := st.weakFirst
  let ok := missing == 0 && extra == 0 && dep == 0 && sweepDiff == 0 && !stuck && st.bad == 0 && st.envBad == 0 && st.weakDiff == 0 && st.symDiff == 0 && st.ringDiff == 0
  return s!"result ok={if ok then 1 else 0} collection={st.coll} nodes={n} modelmarked={nm} missing={missing} extra={extra} depthdep={dep} sweepdiff={sweepDiff} modelfreed={freed} weakcleared={cleared} stuck={if stuck then 1 else 0} parsebad={st.bad} envmodes={st.envSeen} envbad={st.envBad} opaque={if st.opq then 1 else 0} weaktables={st.weakTables} weakslots={st.weakSlots} weakdropped={st.weakDropped} weakdiff={st.weakDiff} symcaches={st.symChecked} symdeinit={st.symDeinit} symdiff={st.symDiff} rings={st.rings} ringswrapped={st.ringsWrapped} ringdiff={st.ringDiff} first={if first == "" then "-" else first}"


/-! ### op-history mode (harness/C01/roots.c): lines `m <op>` are replayed with the model's `stepOp`, `show` prints the
model state in the harness's `st` format -/

structure RS where
  s : Heap × VM := (Heap.ofList [] [], {})
  ret : Int := 0
  bad : Nat := 0

def kvNat (toks : List String) (key : String) : Option Nat :=
  toks.findSome? fun t => if t.startsWith (key ++ "=") then (t.drop (key.length + 1)).toString.toNat? else none

def parseRVal (t : String) : Option RVal :=
  match t.splitOn ":" with
  | [a, b] => match a.toNat?, b.toNat? with
    | some ty, some p => some ⟨ty, p⟩
    | _, _ => none
  | _ => none

def parseRoots (toks : List String) : List RVal :=
  match toks.find? (·.startsWith "roots=") with
  | some t => ((t.drop 6).toString.splitOn ",").filterMap parseRVal
  | none => []

def commaNats (l : List Nat) : String := ",".intercalate (l.map toString)

def showRS (r : RS) : String :=
  let vm := r.s.2
  let h := r.s.1
  let live := (List.range h.size).filter (fun i => (h.get i).isSome)
  let roots := ",".intercalate (vm.roots.map fun v => s!"{v.ty}:{v.payload}")
  s!"st ret={r.ret} rc={vm.roots.length} cap={vm.rootCap} susp={vm.gcSuspend} mp={if vm.markPhase then 1 else 0} next={vm.nextCollection} intv={vm.gcInterval} bc={vm.blockCount} ncoll={vm.collections} scr={commaNats vm.scratch} roots={roots} live={commaNats live}"

/-- root_capacity after a collection that spilled: some iterate of c ↦ rootGrowMul * (c + 1) (growth happens exactly when
the array is full) -/
def capOrbit (c target : Nat) : Nat → Bool
  | 0 => c == target
  | fuel + 1 => c == target || (c < target && capOrbit (JanetModel.Gen.GC.rootGrowMul * (c + 1)) target fuel)

/-- the same heap (extensionally: `get` agrees everywhere) with `obj` backed by an array instead of the chain of closures
`heapAdd` builds — only so that the driver's lookups are O(1) -/
def compact (h : Heap) : Heap :=
  let arr : Array (Option Obj) := (Array.range h.size).map h.get
  { h with obj := fun i => (arr[i]?).join }

def rootsOp (r0 : RS) (toks : List String) : RS :=
  let D := JanetModel.Gen.GC.recursionGuard
  let heavy := match toks with | "collect" :: _ => true | "safepoint" :: _ => true | _ => r0.s.1.size % 64 == 63
  let r : RS := if heavy then { r0 with s := (compact r0.s.1, r0.s.2) } else r0
  let run (op : ROp) : RS := let x := stepOp D r.s op; { r with s := x.1, ret := x.2 }
  let badr : RS := { r with bad := r.bad + 1 }
  match toks with
  | "sizeof" :: rest =>
    if kvNat rest "gcobject" == some JanetModel.Gen.GC.gcObjectSize then r else badr
  | "init" :: rest =>
    let vm : VM := { roots := parseRoots rest, rootCap := (kvNat rest "cap").getD 0, gcSuspend := ((kvNat rest "susp").getD 0 : Nat),
                     nextCollection := (kvNat rest "next").getD 0, gcInterval := (kvNat rest "intv").getD 0,
                     blockCount := (kvNat rest "bc").getD 0 }
    -- janet_init must leave the interval the translator extracted
    if vm.gcInterval == JanetModel.Gen.GC.initialGcInterval then { r with s := (Heap.ofList [] [], vm) } else { badr with s := (Heap.ofList [] [], vm) }
  | "new" :: "leaf" :: kind :: rest =>
    { run (.newObj (Obj.leaf (kind.toNat?.getD 0)) ((kvNat rest "size").getD 0)) with ret := 0 }
  | "new" :: "array" :: rest =>
    let items : List Val := (rest.filter (fun t => !t.startsWith "size=")).map fun t => match t.toNat? with
      | some k => Val.ref k
      | none => Val.imm
    { run (.newObj (Obj.array false items) ((kvNat rest "size").getD 0)) with ret := 0 }
  | ["root", v] => match parseRVal v with | some x => run (.root x) | none => badr
  | ["unroot", v] => match parseRVal v with | some x => run (.unroot x) | none => badr
  | ["unrootall", v] => match parseRVal v with | some x => run (.unrootall x) | none => badr
  | ["lock"] => run .lock
  | ["unlock", hd] => match hd.toInt? with | some i => run (.unlock i) | none => badr
  | ["pressure", n] => run (.pressure (n.toNat?.getD 0))
  | ["setinterval", n] => run (.setInterval (n.toNat?.getD 0))
  | ["collect"] => run .collect
  | ["safepoint", f] => run (.safepoint (f == "1"))
  | ["smalloc", id] => run (.smalloc (id.toNat?.getD 0))
  | ["sfree", id] => run (.sfree (id.toNat?.getD 0))
  | ["capgrew", a, b] =>
    let a := a.toNat?.getD 0
    let b := b.toNat?.getD 0
    if r.s.2.rootCap == a && capOrbit a b 64 then { r with s := (r.s.1, { r.s.2 with rootCap := b }) } else badr
  | ["nop", x] => { r with ret := x.toInt?.getD 0 }
  | _ => badr

partial def loop (inp out : IO.FS.Stream) (st : DS) (rs : RS := {}) : IO Unit := do
  let line ← inp.getLine
  if line.isEmpty then
    out.flush
    return ()
  let toks := (line.trimAscii.toString.splitOn " ").filter (· ≠ "")
  match toks with
  | "m" :: rest => loop inp out st (rootsOp rs rest)
  | ["show"] =>
    out.putStrLn (showRS rs ++ (if rs.bad == 0 then "" else s!" modelbad={rs.bad}"))
    loop inp out st rs
  | "heap" :: _ :: c :: _ => loop inp out { coll := c } rs
  | "o" :: id :: kind :: flags :: rest =>
    let k := kind.toNat?.getD 0
    let bad := if id.toNat? == some st.objs.size then st.bad else st.bad + 1
    let fl := flags.toList
    -- after the mark phase: a marked environment that is still on a stack must belong to a fiber whose status the model
    -- does not detach (E<status>); a fiber the model does not detach has all its frame environments on its stack (F = on
    -- this frame, X = not)
    let marked := fl.contains 'm'
    let envTok := rest.filter (fun t => t.startsWith "E")
    let fibStatus := (rest.find? (fun t => t.startsWith "S")).bind (fun t => (t.drop 1).toString.toNat?)
    let nX := (rest.filter (fun t => t.startsWith "X")).length
    let nF := (rest.filter (fun t => t.startsWith "F")).length
    let bad1 := if marked then (envTok.filter (fun t => match (t.drop 1).toString.toNat? with
        | some s => detachOnMark s
        | none => true)).length else 0
    let bad2 := match fibStatus with
      | some s => if marked && !detachOnMark s then nX else 0
      | none => 0
    let st := { st with envBad := st.envBad + bad1 + bad2, envSeen := st.envSeen + envTok.length + nX + nF }
    loop inp out { st with
      objs := st.objs.push (parseObj k rest),
      marked := st.marked.push (fl.contains 'm'),
      disabled := st.disabled.push (fl.contains 'd'),
      opq := st.opq || (fl.contains 'o' ),
      bad := bad } rs
  | "roots" :: rest =>
    let rts : List Edge := rest.filterMap fun t =>
      if t.startsWith "v" then (t.drop 1).toString.toNat?.map (fun n => ⟨true, n, false⟩)
      else if t.startsWith "p" then (t.drop 1).toString.toNat?.map (fun n => ⟨false, n, false⟩)
      else none
    loop inp out { st with roots := rts } rs
  | "w" :: id :: kind :: count :: deleted :: slots =>
    loop inp out { st with weakBefore := (id.toNat?.getD 0, kind.toNat?.getD 0, count.toNat?.getD 0, deleted.toNat?.getD 0, slots) :: st.weakBefore } rs
  | "wa" :: id :: _ :: count :: deleted :: slots =>
    loop inp out (weakCompare st (id.toNat?.getD 0) (count.toNat?.getD 0) (deleted.toNat?.getD 0) slots) rs
  | ["rq", which, hd, tl, cap, cnt] =>
    loop inp out (ringCheck st which (hd.toNat?.getD 0) (tl.toNat?.getD 0) (cap.toNat?.getD 0) (cnt.toNat?.getD 0)) rs
  | "sc" :: cap :: count :: deleted :: toks =>
    loop inp out { st with symBefore := some (cap.toNat?.getD 0, count.toNat?.getD 0, deleted.toNat?.getD 0, toks) } rs
  | "sca" :: cap :: count :: deleted :: toks =>
    loop inp out (symCompare st (cap.toNat?.getD 0) (count.toNat?.getD 0) (deleted.toNat?.getD 0) toks) rs
  | "after" :: rest => loop inp out { st with after := rest.filterMap (·.toNat?), hasAfter := !rest.isEmpty } rs
  | "check" :: _ =>
    out.putStrLn (check st)
    loop inp out {} rs
  | _ => loop inp out st rs

def main : IO Unit := do
  loop (← IO.getStdin) (← IO.getStdout) {}
