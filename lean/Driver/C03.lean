-- line-protocol model driver for C03 (stub)
def main : IO Unit := IO.println "stub C03"
