/- Line-protocol model driver for C03 (equality / ordering / hashing / struct layout).

   term  ::= n <hex16> | nil | t | f | s <hex|-> | y <hex|-> | k <hex|-> | T <0|1> <len> term*
           | S <cap> <0|1> (term term)*cap [term]        -- slot array, then the prototype when the flag is 1
           | r <typetag> <hex16>
   val <id> term                 -> "h <hash as int32> t <typetag>"      (ids must be 0,1,2,… in order)
   row <i>                       -> one char per defined value j: '<' '=' '>' from compare(i,j);
                                    'L' 'G' if compare≠0 but equals; 'Z' if compare=0 but not equals
   structof <count> <npairs> (term term)*npairs <proto term|nil>
                                 -> term of the struct built by begin(count), the puts in order, proto, end
   find <struct id> <key id>     -> slot index | -1
   structofx <replace 0|1> <count> <npairs> (term term)*npairs
                                 -> term of the struct built by begin(count), janet_struct_put_ext(…, replace) in order, end
   strcmp <hex|-> <hex|->        -> one char '<' '=' '>' (+ 'L' 'G' 'Z' on disagreement of compare and equal) from the statement-level
                                    mirrors `stringCompareC` / `stringEqualC` of janet_string_compare / janet_string_equal
   finalmap <replace 0|1> <npairs> (term term)*npairs
                                 -> term of `structOf (finalMapR replace pairs)`: the struct of the final key→value map
                                    (Value/RobinDup.lean; equal to structofx by `struct_by_final_map` when count covers the puts)
   symhist (I<hex> | G | D<hex> | X)*
                                 -> one token per op from the symbol-cache model (Value/SymCache.lean, SymGen.lean) started at
                                    janet_symcache_init: I (janet_symbol) -> n (new object) | o (existing); G (janet_symbol_gen) -> g<hex of
                                    the new symbol>; D (janet_symbol_deinit) -> d; X -> x<cap>,<count>,<deleted>,<counter hex>{,<slot>:<hex|->}
                                    (every non-empty slot; `-` = tombstone); `!` and stop when the model hits the NULL-bucket assertion
   aval <id> aterm               -> "h <hash as int32> t <typetag>" from the model WITH ABSTRACT VALUES (Value/Abstract.lean);
                                    aterm = term extended by  a <hex type name> <hex16 content> <hex16 NaN-boxed word> <hex16 address of the
                                    JanetAbstractType>  (content = the 8-byte payload the hooks read for core/s64, core/u64); the memory
                                    (`AbsHeap`: word -> type pointer, word -> payload, type pointer -> hooks by type name through the
                                    regenerated table `Gen.ValueAbs.hookedTypes`) is accumulated from the a-tokens seen so far
   arow <i>                      -> as `row` over the values given by `aval`: equalsL / jcompareL under that memory
   pval <id> <n> <hex address>*n aterm
                                 -> "ok": the value with the addresses of its tuple / struct objects (preorder, a struct: slots then prototype)
   prow <i>                      -> one char per `pval` value j: 'e' / 'n' from `equalsP` = janet_equals WITH its pointer short-cuts
                                    `t1 == t2` / `s1 == s2` (Value/PtrShortcut.lean)
   iterrow <i>                   -> as `row`, computed by the ITERATIVE mirrors of janet_equals / janet_compare (explicit traversal
                                    stack, Value/Traverse.lean; `?` = fuel exhausted), then a space and the deepest stack seen
-/
import Driver.Util
import JanetModel.Value.Struct
import JanetModel.Value.RobinDup
import JanetModel.Value.StringLoop
import JanetModel.Value.SymGen
import JanetModel.Value.Traverse
import JanetModel.Value.Abstract
import JanetModel.Value.PtrShortcut
open Driver JanetModel.Value

abbrev V := JVal F64

def hexNat (s : String) : Option Nat :=
  s.toList.foldl (fun acc c => match acc, hexVal c with
    | some a, some d => some (a * 16 + d)
    | _, _ => none) (some 0)

def bytesOf (s : String) : Option (List UInt8) :=
  if s == "-" then some [] else (bytesOfHex s).map (·.map Nat.toUInt8)

def kindOfTag (t : Nat) : Option RefKind :=
  [RefKind.fiber, .array, .table, .buffer, .function, .cfunction, .pointer].find? (·.tag == t)

mutual
partial def parseTerm : List String → Option (V × List String)
  | "n" :: h :: rest => (hexNat h).map fun b => (.num ⟨b.toUInt64⟩, rest)
  | "nil" :: rest => some (.nil, rest)
  | "t" :: rest => some (.bool true, rest)
  | "f" :: rest => some (.bool false, rest)
  | "s" :: h :: rest => (bytesOf h).map fun b => (.str b, rest)
  | "y" :: h :: rest => (bytesOf h).map fun b => (.sym b, rest)
  | "k" :: h :: rest => (bytesOf h).map fun b => (.kw b, rest)
  | "r" :: t :: h :: rest => do
      let k ← kindOfTag (← t.toNat?)
      let b ← hexNat h
      pure (.ref k b.toUInt64, rest)
  | "T" :: br :: len :: rest => do
      let n ← len.toNat?
      let (xs, rest) ← parseMany n rest
      pure (.tuple (br == "1") xs, rest)
  | "S" :: cap :: pf :: rest => do
      let n ← cap.toNat?
      let (xs, rest) ← parseMany (2 * n) rest
      if pf == "1" then
        let (p, rest) ← parseTerm rest
        pure (.struct xs [p], rest)
      else pure (.struct xs [], rest)
  | _ => none
partial def parseMany : Nat → List String → Option (List V × List String)
  | 0, rest => some ([], rest)
  | n + 1, rest => do
      let (x, rest) ← parseTerm rest
      let (xs, rest) ← parseMany n rest
      pure (x :: xs, rest)
end

def hex16 (n : Nat) : String :=
  String.ofList ((List.range 16).reverse.map fun i => hexDigit (n / 16 ^ i % 16))

def hexB (bs : List UInt8) : String := if bs.isEmpty then "-" else hexOfBytes (bs.map (·.toNat))

partial def showTerm : V → String
  | .num n => "n " ++ hex16 n.bits.toNat
  | .nil => "nil"
  | .bool true => "t"
  | .bool false => "f"
  | .str b => "s " ++ hexB b
  | .sym b => "y " ++ hexB b
  | .kw b => "k " ++ hexB b
  | .ref k b => s!"r {k.tag} " ++ hex16 b.toNat
  | .tuple br xs => String.intercalate " " (["T", if br then "1" else "0", toString xs.length] ++ xs.map showTerm)
  | .struct f p =>
      String.intercalate " " (["S", toString (f.length / 2), if p.isEmpty then "0" else "1"] ++ f.map showTerm ++ (p.take 1).map showTerm)

def pairChar (a b : V) : Char :=
  let e := equals a b
  match jcompare a b with
  | .lt => if e then 'L' else '<'
  | .eq => if e then '=' else 'Z'
  | .gt => if e then 'G' else '>'

def pairsOf : List V → Option (List (V × V))
  | [] => some []
  | k :: v :: rest => (pairsOf rest).map ((k, v) :: ·)
  | _ => none

def step (st : Array V) (toks : List String) : Array V × String :=
  match toks with
  | "val" :: id :: rest =>
    match parseTerm rest with
    | some (v, []) =>
      if id.toNat? == some st.size then (st.push v, s!"h {sInt (hash v)} t {v.typeTag}") else (st, "bad-id")
    | _ => (st, "bad-term")
  | ["row", i] =>
    match i.toNat? >>= (st[·]?) with
    | some a => (st, String.ofList (st.toList.map (pairChar a)))
    | none => (st, "bad-id")
  | "structof" :: count :: npairs :: rest =>
    match count.toNat?, npairs.toNat? with
    | some c, some n =>
      match parseMany (2 * n) rest with
      | some (flat, rest) =>
        match parseTerm rest, pairsOf flat with
        | some (p, []), some kvs => (st, showTerm (structOfCount c kvs (if p.isNil then [] else [p])))
        | _, _ => (st, "bad-op")
      | none => (st, "bad-op")
    | _, _ => (st, "bad-op")
  | "structofx" :: r :: count :: npairs :: rest =>
    match count.toNat?, npairs.toNat? with
    | some c, some n =>
      match parseMany (2 * n) rest with
      | some (flat, []) =>
        match pairsOf flat with
        | some kvs => (st, showTerm (if r == "1" then structOfCount c kvs [] else structOfCountKeep c kvs))
        | none => (st, "bad-op")
      | _ => (st, "bad-op")
    | _, _ => (st, "bad-op")
  | "finalmap" :: r :: npairs :: rest =>
    match npairs.toNat? with
    | some n =>
      match parseMany (2 * n) rest with
      | some (flat, []) =>
        match pairsOf flat with
        | some kvs => (st, showTerm (structOf (finalMapR (r == "1") kvs) []))
        | none => (st, "bad-op")
      | _ => (st, "bad-op")
    | none => (st, "bad-op")
  | ["strcmp", a, b] =>
    match bytesOf a, bytesOf b with
    | some x, some y =>
      let c := stringCompareC x y
      let e := stringEqualC x y false
      (st, String.singleton (if c < 0 then (if e then 'L' else '<') else if c == 0 then (if e then '=' else 'Z') else (if e then 'G' else '>')))
    | _, _ => (st, "bad-op")
  | ["find", s, k] =>
    match s.toNat? >>= (st[·]?), k.toNat? >>= (st[·]?) with
    | some (.struct f _), some key =>
      match pairsOf f with
      | some slots => (st, match structFind slots key with | some i => toString i | none => "-1")
      | none => (st, "bad-op")
    | _, _ => (st, "bad-op")
  | ["iterrow", i] =>
    match i.toNat? >>= (st[·]?) with
    | some a =>
      let cells := st.toList.map fun b =>
        let (c, d) := Traverse.compareLoopD (Traverse.weight a + 1) a b [] 0
        let ch := match c, Traverse.equalsIter a b with
          | some .lt, some e => if e then 'L' else '<'
          | some .eq, some e => if e then '=' else 'Z'
          | some .gt, some e => if e then 'G' else '>'
          | _, _ => '?'
        (ch, d)
      (st, String.ofList (cells.map (·.1)) ++ " " ++ toString (cells.foldl (fun m c => max m c.2) 0))
    | none => (st, "bad-id")
  | "symhist" :: ops =>
    let dump (g : SymCache.GState) : String :=
      let c := g.cache
      let cells := (List.range c.slots.length).filterMap fun i =>
        match c.slots.getD i .empty with
        | .empty => none
        | .deleted => some s!"{i}:-"
        | .live _ b => some s!"{i}:{hexB b}"
      String.intercalate "," ([s!"x{c.slots.length}", toString c.count, toString c.deleted, hexB g.counter] ++ cells)
    let rec go (fuel : Nat) (g : SymCache.GState) (ops : List String) (acc : List String) : List String :=
      match fuel, ops with
      | 0, _ => acc
      | _, [] => acc
      | fuel + 1, op :: rest =>
        if op == "X" then go fuel g rest (dump g :: acc)
        else if op == "G" then
          match SymCache.gensymT g.cache g.counter with
          | some (c', ctr', _) => go fuel { cache := c', counter := ctr' } rest (("g" ++ hexB ctr') :: acc)
          | none => "!" :: acc
        else
          match bytesOf (op.drop 1).toString with
          | none => "bad-op" :: acc
          | some b =>
            if op.startsWith "I" then
              match SymCache.intern g.cache b with
              | some (c', p) => go fuel { g with cache := c' } rest ((if p == g.cache.next then "n" else "o") :: acc)
              | none => "!" :: acc
            else if op.startsWith "D" then go fuel { g with cache := SymCache.deinit g.cache b } rest ("d" :: acc)
            else "bad-op" :: acc
    (st, String.intercalate " " (go (ops.length + 1) SymCache.ginit ops []).reverse)
  | _ => (st, "bad-op")

/-! ### values with abstracts -/

structure AbsEntry where
  bits : UInt64
  ty : Nat
  payload : UInt64
  name : String

abbrev AV := AVal F64

mutual
partial def parseATerm : List String → Option (AV × List AbsEntry × List String)
  | "a" :: nm :: pl :: b :: t :: rest => do
      let name := String.ofList ((← bytesOfHex nm).map Char.ofNat)
      let pl ← hexNat pl
      let b ← hexNat b
      let t ← hexNat t
      pure (.leaf (.abs b.toUInt64), [⟨b.toUInt64, t, pl.toUInt64, name⟩], rest)
  | "T" :: br :: len :: rest => do
      let n ← len.toNat?
      let (xs, es, rest) ← parseAMany n rest
      pure (.tuple (br == "1") xs, es, rest)
  | "S" :: cap :: pf :: rest => do
      let n ← cap.toNat?
      let (xs, es, rest) ← parseAMany (2 * n) rest
      if pf == "1" then
        let (p, es2, rest) ← parseATerm rest
        pure (.struct xs [p], es ++ es2, rest)
      else pure (.struct xs [], es, rest)
  | toks => do
      let (v, rest) ← parseTerm toks
      pure (ofJVal v, [], rest)
partial def parseAMany : Nat → List String → Option (List AV × List AbsEntry × List String)
  | 0, rest => some ([], [], rest)
  | n + 1, rest => do
      let (x, e1, rest) ← parseATerm rest
      let (xs, e2, rest) ← parseAMany n rest
      pure (x :: xs, e1 ++ e2, rest)
end

abbrev PV := PVal (Leaf F64)

mutual
/-- attach the serialised addresses to the tuple / struct nodes in preorder -/
partial def annot : AV → List Nat → Option (PV × List Nat)
  | .leaf l, as => some (.leaf l, as)
  | .tuple br xs, a :: as => do
      let (ys, as) ← annotL xs as
      pure (.tuple a br ys, as)
  | .struct f p, a :: as => do
      let (f', as) ← annotL f as
      let (p', as) ← annotL p as
      pure (.struct a f' p', as)
  | _, [] => none
partial def annotL : List AV → List Nat → Option (List PV × List Nat)
  | [], as => some ([], as)
  | x :: xs, as => do
      let (y, as) ← annot x as
      let (ys, as) ← annotL xs as
      pure (y :: ys, as)
end

structure St where
  vals : Array V := #[]
  avals : Array AV := #[]
  pvals : Array PV := #[]
  heap : List AbsEntry := []

/-- memory as value.c reads it, from the abstracts serialised so far; the hooks of a type come from its NAME through the
    regenerated table of hooked types (a type the table does not know has no hooks) -/
def heapOf (es : List AbsEntry) : AbsHeap :=
  intHeapD (fun b => match es.find? (·.bits == b) with | some e => e.ty | none => 0)
    (fun b => match es.find? (·.bits == b) with | some e => e.payload | none => 0)
    (fun t => match es.find? (·.ty == t) with
      | some e => (coreHooks e.name).getD ⟨none, none⟩
      | none => ⟨none, none⟩)

def apairChar (H : AbsHeap) (a b : AV) : Char :=
  let _ : AbsHeap := H
  let e := equalsL a b
  match jcompareL a b with
  | .lt => if e then 'L' else '<'
  | .eq => if e then '=' else 'Z'
  | .gt => if e then 'G' else '>'

def step2 (S : St) (toks : List String) : St × String :=
  match toks with
  | "aval" :: id :: rest =>
    match parseATerm rest with
    | some (v, es, []) =>
      if id.toNat? == some S.avals.size then
        let heap := S.heap ++ es.filter (fun e => !(S.heap.any (·.bits == e.bits)))
        let _ : AbsHeap := heapOf heap
        ({ S with avals := S.avals.push v, heap := heap }, s!"h {sInt (hashL v)} t {v.typeTag}")
      else (S, "bad-id")
    | _ => (S, "bad-term")
  | ["arow", i] =>
    match i.toNat? >>= (S.avals[·]?) with
    | some a => let H := heapOf S.heap; (S, String.ofList (S.avals.toList.map (apairChar H a)))
    | none => (S, "bad-id")
  | "pval" :: id :: n :: rest =>
    match n.toNat? with
    | some n =>
      match (rest.take n).mapM hexNat, parseATerm (rest.drop n) with
      | some addrs, some (v, es, []) =>
        match annot v addrs with
        | some (pv, []) =>
          if id.toNat? == some S.pvals.size then
            ({ S with pvals := S.pvals.push pv, heap := S.heap ++ es.filter (fun e => !(S.heap.any (·.bits == e.bits))) }, "ok")
          else (S, "bad-id")
        | _ => (S, "bad-addresses")
      | _, _ => (S, "bad-term")
    | none => (S, "bad-op")
  | ["prow", i] =>
    match i.toNat? >>= (S.pvals[·]?) with
    | some a =>
      let _ : AbsHeap := heapOf S.heap
      (S, String.ofList (S.pvals.toList.map fun b => if equalsP a b then 'e' else 'n'))
    | none => (S, "bad-id")
  | _ => let (v, o) := step S.vals toks; ({ S with vals := v }, o)

def main : IO Unit := runLoop ({} : St) step2
