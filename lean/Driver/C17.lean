-- line-protocol model driver for C17 (stub)
def main : IO Unit := IO.println "stub C17"
