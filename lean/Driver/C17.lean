/- Line-protocol model driver for C17 (string / buffer / sequence library).

   input line :  <fname> <arg> <arg> …          output line:  ok <value> | <arg0'> | <arg1'> …   (arguments re-read after the call)
                                                              err | <arg0'> | …      (the call raises)
                                                              skip                   (outside the modelled fragment)
   value tokens:  n t f  i<int>  s<hex> b<hex> y<hex> k<hex> (string buffer symbol keyword)
                  ( v … )  tuple     [ v … ]  array     { k v … }  table     #{ k v … }  struct
                  r<k>  the same object as argument k       F<name>  a named function (see `fn1`, `pred`, `fn2`, `cmp`)
-/
import Driver.Util
import JanetModel.Lib.Spec
import JanetModel.Lib.Kmp
import JanetModel.Lib.Sort
import JanetModel.Lib.Range
import JanetModel.Lib.Format
import JanetModel.Lib.StrC
import JanetModel.Lib.BufC
import JanetModel.Lib.ArrC
import JanetModel.Lib.Boot2
import JanetModel.Lib.BufPushC
import JanetModel.Lib.StrReplC
import JanetModel.Lib.Boot3
import JanetModel.Lib.Boot5
import JanetModel.Lib.Boot6
import JanetModel.Lib.Boot8
import JanetModel.Lib.MiscC2
import JanetModel.Lib.Boot9
import JanetModel.Lib.Boot10
import JanetModel.Lib.Boot11
import JanetModel.Lib.Boot12
import JanetModel.Lib.FormatC
open Driver JanetModel.Lib

inductive V where
  | nil | tt | ff
  | int (i : Int)
  | str (k : Nat) (b : List Nat)     -- k: 0 string, 1 buffer, 2 symbol, 3 keyword
  | seq (k : Nat) (l : List V)       -- k: 0 tuple, 1 array
  | tbl (k : Nat) (l : List (V × V)) -- k: 0 struct, 1 table
  | fn (name : String)
  | ref (k : Nat)
  | other (tok : String)
  deriving Inhabited

partial def V.show : V → String
  | .nil => "n" | .tt => "t" | .ff => "f"
  | .int i => if i.natAbs < 1000000000000000 then s!"i{i}" else s!"d{i}"
  | .str k b => (match k with | 0 => "s" | 1 => "b" | 2 => "y" | _ => "k") ++ hexOfBytes b
  | .seq k l => (if k == 0 then "(" else "[") ++ String.join (l.map (fun v => " " ++ v.show)) ++ (if k == 0 then " )" else " ]")
  | .tbl k l =>
    let ents := l.map (fun kv => (kv.1.show, kv.2.show))
    let sorted := ents.toArray.qsort (fun a b => a.1 < b.1)
    (if k == 0 then "#{" else "{") ++ String.join (sorted.toList.map (fun kv => " " ++ kv.1 ++ " " ++ kv.2)) ++ " }"
  | .fn n => "F" ++ n
  | .ref k => s!"r{k}"
  | .other t => t

partial def V.beq : V → V → Bool
  | .nil, .nil => true
  | .tt, .tt => true
  | .ff, .ff => true
  | .int a, .int b => a == b
  | .str k a, .str k' b => k == k' && a == b
  | .seq k a, .seq k' b => k == k' && a.length == b.length && (a.zip b).all (fun p => V.beq p.1 p.2)
  | .fn a, .fn b => a == b
  | .tbl k a, .tbl k' b => k == k' && V.show (.tbl k a) == V.show (.tbl k' b)
  | .other a, .other b => a == b
  | .ref a, .ref b => a == b
  | _, _ => false
instance : BEq V := ⟨V.beq⟩

/-- parse one value from the token list -/
partial def parseV : List String → Option (V × List String)
  | [] => none
  | t :: rest =>
    if t == "n" then some (.nil, rest) else if t == "t" then some (.tt, rest) else if t == "f" then some (.ff, rest)
    else if t == "(" then parseSeq 0 rest [] else if t == "[" then parseSeq 1 rest []
    else if t == "{" then parseTbl 1 rest [] else if t == "#{" then parseTbl 0 rest []
    else
      let c := t.front
      let body := (t.drop 1).toString
      if c == 'i' then (match body.toInt? with | some i => some (.int i, rest) | none => some (.other t, rest))
      else if c == 's' then (bytesOfHex body).map (fun b => (V.str 0 b, rest))
      else if c == 'b' then (bytesOfHex body).map (fun b => (V.str 1 b, rest))
      else if c == 'y' then (bytesOfHex body).map (fun b => (V.str 2 b, rest))
      else if c == 'k' then (bytesOfHex body).map (fun b => (V.str 3 b, rest))
      else if c == 'r' then (match body.toNat? with | some k => some (.ref k, rest) | none => none)
      else if c == 'F' then some (.fn body, rest)
      else some (.other t, rest)
where
  parseSeq (k : Nat) : List String → List V → Option (V × List String)
    | [], _ => none
    | t :: rest, acc =>
      if t == ")" || t == "]" then some (.seq k acc.reverse, rest)
      else match parseV (t :: rest) with
        | some (v, rest') => parseSeq k rest' (v :: acc)
        | none => none
  parseTbl (k : Nat) : List String → List (V × V) → Option (V × List String)
    | [], _ => none
    | t :: rest, acc =>
      if t == "}" then some (.tbl k acc.reverse, rest)
      else match parseV (t :: rest) with
        | some (kk, rest') =>
          match parseV rest' with
          | some (vv, rest'') => parseTbl k rest'' ((kk, vv) :: acc)
          | none => none
        | none => none

partial def parseArgs (toks : List String) (acc : List V) : Option (List V) :=
  match toks with
  | [] => some acc.reverse
  | _ => match parseV toks with
    | some (v, rest) => parseArgs rest (v :: acc)
    | none => none

/-! outcome of a call -/
inductive Out where
  | ok (v : V) (args : List V)
  | err (args : List V)
  | skip
  | sortErr
  | sortFuel

def bytesOf : V → Option (List Nat) | .str _ b => some b | _ => none
def indexedOf : V → Option (List V) | .seq _ l => some l | _ => none
def intOf : V → Option Int | .int i => getInt32 i | _ => none
def isNum : V → Bool | .int _ => true | _ => false
def unsupported : V → Bool | .other _ => true | _ => false
/-- optional integer argument that may be nil -/
def optInt : V → Option (Option Int) | .nil => some none | .int i => (getInt32 i).map some | _ => none
def ofBool (b : Bool) : V := if b then .tt else .ff
def truthy : V → Bool | .nil => false | .ff => false | _ => true

def fn1 (name : String) : Option (Int → Int) :=
  match name with
  | "inc" => some (· + 1) | "dbl" => some (· * 2) | "neg" => some (fun x => -x) | "sq" => some (fun x => x * x)
  | "id" => some id | "mod3" => some (fun x => x % 3) | _ => none
def pred (name : String) : Option (Int → Bool) :=
  match name with
  | "even" => some (fun x => x % 2 == 0) | "odd" => some (fun x => x % 2 == 1) | "pos" => some (· > 0)
  | "neg?" => some (· < 0) | "lt3" => some (· < 3) | "true" => some (fun _ => true) | "false" => some (fun _ => false)
  | _ => none
def fn2 (name : String) : Option (Int → Int → Int) :=
  match name with
  | "add" => some (· + ·) | "mul" => some (· * ·) | "sub" => some (· - ·) | "max2" => some max | "min2" => some min
  | "snd" => some (fun _ y => y) | _ => none
def fn3 (name : String) : Option (Int → Int → Int → Int) :=
  match name with
  | "add3" => some (fun x y z => x + y + z) | "pick3" => some (fun x y z => 100 * x + 10 * y + z) | _ => none
/-- comparators; the Bool says whether it is a strict weak order (exact correspondence expected) -/
def cmp (name : String) : Option (Int → Int → Bool) :=
  match name with
  | "lt" => some (· < ·) | "gt" => some (· > ·) | "le" => some (· ≤ ·) | "ge" => some (· ≥ ·)
  | "mod4lt" => some (fun a b => a % 4 < b % 4) | "absgt" => some (fun a b => a.natAbs > b.natAbs)
  | "div3lt" => some (fun a b => a / 3 < b / 3)
  | "true" => some (fun _ _ => true) | "false" => some (fun _ _ => false)
  | "ne" => some (· ≠ ·)
  | "rnd" => some (fun a b => (31 * a + 17 * b + a * b) % 3 == 0)
  | _ => none

def keyfn (name : String) : Option (Int → Int) :=
  match name with
  | "mod4" => some (· % 4) | "abs" => some (fun x => (x.natAbs : Int)) | "neg" => some (fun x => -x) | "id" => some id
  | "sq" => some (fun x => x * x) | _ => none

/-- functions for `keep` (nil = none), `mapcat` (an indexed result), and their two-sequence forms -/
def keepfn (name : String) : Option (Int → Option Int) :=
  match name with
  | "sqeven" => some (fun x => if x % 2 == 0 then some (x * x) else none)
  | "posid" => some (fun x => if x > 0 then some x else none)
  | "id" => some (fun x => some x) | "inc" => some (fun x => some (x + 1)) | _ => none
def catfn (name : String) : Option (Int → List Int) :=
  match name with
  | "pairx" => some (fun x => [x, x + 1]) | "rep3" => some (fun x => List.replicate (x % 3).toNat x)
  | "none" => some (fun _ => []) | _ => none
def keep2fn (name : String) : Option (Int → Int → Option Int) :=
  match name with
  | "ltsum" => some (fun x y => if x < y then some (x + y) else none)
  | "add" => some (fun x y => some (x + y)) | "snd" => some (fun _ y => some y) | _ => none
def cat2fn (name : String) : Option (Int → Int → List Int) :=
  match name with
  | "tup" => some (fun x y => [x, y]) | "tupsum" => some (fun x y => [x + y])
  | "tup3" => some (fun x y => [y, x, y]) | _ => none

instance : Inhabited (Boot.Nest V) := ⟨.node []⟩

/-- variadic functions for map / mapcat / keep / count over many sequences: first argument and the row of the others -/
def varfn (name : String) : Option (Int → List Int → Int) :=
  match name with
  | "vsum" => some (fun x row => row.foldl (· + ·) x)
  | "vlast" => some (fun x row => (row.getLast?).getD x) | _ => none
def varcat (name : String) : Option (Int → List Int → List Int) :=
  match name with
  | "vtup" => some (fun x row => x :: row) | "vrev" => some (fun x row => (x :: row).reverse) | _ => none
def varkeep (name : String) : Option (Int → List Int → Option Int) :=
  match name with
  | "vsumpos" => some (fun x row => let t := row.foldl (· + ·) x; if t > 0 then some t else none)
  | "vsum" => some (fun x row => some (row.foldl (· + ·) x)) | _ => none
def varpred (name : String) : Option (Int → List Int → Bool) :=
  match name with
  | "vasc" => some (fun x row => ((x :: row).zip row).all (fun p => decide (p.1 < p.2)))
  | "vtrue" => some (fun _ _ => true) | _ => none

/-- result-valued variadic predicates for `some` / `all` (nil, false, true and integers as results) -/
def varval (name : String) : Option (Int → List Int → V) :=
  match name with
  | "vsumpos" => some (fun x row => let t := row.foldl (· + ·) x; if t > 0 then .int t else .nil)
  | "vsum" => some (fun x row => .int (row.foldl (· + ·) x))
  | "vasc" => some (fun x row => if ((x :: row).zip row).all (fun p => decide (p.1 < p.2)) then .tt else .ff)
  | "vtrue" => some (fun _ _ => .tt)
  | "vfz" => some (fun x row => let t := row.foldl (· + ·) x; if t % 3 == 0 then .ff else if t % 3 == 1 then .nil else .int t)
  | _ => none

/-- janet truthiness -/
def truthyV : V → Bool
  | .nil => false | .ff => false | _ => true

/-- `map-n n` (n ≤ 3 extra sequences) or the general branch of map-template, as map-template selects them -/
def mapTemplate {σ γ : Type} (agg : σ → γ → σ) (g : Int → List Int → γ) (init : σ) (xs : List Int) (rest : List (List Int)) : R σ :=
  if rest.length ≤ 3 then Boot.mapN agg g init xs rest else Boot.mapGen agg g init xs rest

/-- every `%` directive of the format (other than `%%`): the mirror of pp.c `scanformat` and the directive syntax of the
    reference formatter agree (offset of the conversion character, width digits, precision digits, the two error cases) -/
partial def directivesAgree (fmt : List Nat) : Bool :=
  match fmt with
  | [] => true
  | 37 :: 37 :: rest => directivesAgree rest
  | 37 :: rest =>
    (match FormatC.scanformat rest, FormatC.parse rest with
     | .ok sc, some (p, w, pr) => sc.p == p && sc.width == w && sc.precision == pr && sc.form.length < 32
     | .panic, none => true
     | _, _ => false) && directivesAgree rest
  | _ :: rest => directivesAgree rest

/-- a value as `flatten` sees it -/
partial def toNest : V → Boot.Nest V
  | .seq _ l => .node (l.map toNest)
  | v => .leaf v

def ints (l : List V) : Option (List Int) := l.mapM (fun v => match v with | .int i => some i | _ => none)

def pushArgs (args : List V) (selfIdx : Nat) : Option (List PushArg) :=
  args.mapM (fun v => match v with
    | .int i => some (PushArg.byte i)
    | .str _ b => some (PushArg.bytes b)
    | .ref k => if k == selfIdx then some PushArg.self else none
    | _ => none)

/-- does `v` (an argument after position 0) denote argument 0 itself? -/
def isSelf : V → Bool | .ref 0 => true | _ => false

def setArg0 (args : List V) (v : V) : List V :=
  match args with | [] => [] | _ :: rest => v :: rest

/-- resolve `r0` to the (new) value of argument 0 for printing -/
def resolveRefs (args : List V) : List V :=
  args.map (fun v => match v with | .ref k => args.getD k .nil | v => v)

/-- the optional `start` argument as the int32 that `janet_getinteger` decodes (outer `none`: not an int32) -/
def optStart (v : Option V) : Option (Option Int) :=
  match v with
  | none => some none
  | some x => (intOf x).map some

def natOfStart : Option Int → Option Nat
  | none => some 0
  | some x => if x < 0 then none else some x.toNat

/-- run the mirror of the C code next to the reference definition: the normal output `k` is produced only when the two
    agree (`R.panic` ↔ `none`); otherwise the line carries a token that no implementation output can match -/
def withMirror {α : Type} [BEq α] (m : R α) (spec : Option α) (args : List V) (k : Out) : Out :=
  match m with
  | .ub => .ok (.other "MIRROR-UB") args
  | _ => if m == R.ofOption spec then k else .ok (.other "MIRROR-MISMATCH") args

/-- run the mirror of a variadic buffer push next to the reference: contents after the call and whether it raised -/
def withPush (m : BufPush.Buf × R Unit) (okk : Bool) (b' : List Nat) (args : List V) (k : Out) : Out :=
  match m.2 with
  | .ub => .ok (.other "MIRROR-UB") args
  | r => if BufPush.contents m.1 == b' && ((r == R.ok ()) == okk) then k else .ok (.other "MIRROR-MISMATCH") args

def sliceFn (kind : String) (args : List V) : Out :=
  -- kind: which container is returned
  match args with
  | x :: rest =>
    if rest.length > 2 then .err args else
    let lenOk : Option (Sum (List Nat) (List V)) :=
      match kind, x with
      | "string", .str _ b | "buffer", .str _ b | "symbol", .str _ b | "keyword", .str _ b => some (.inl b)
      | "array", .seq _ l | "tuple", .seq _ l => some (.inr l)
      | "slice", .str _ b => some (.inl b)
      | "slice", .seq _ l => some (.inr l)
      | _, _ => none
    match lenOk with
    | none => .err args
    | some c =>
      let s := rest.getD 0 .nil
      let e := rest.getD 1 .nil
      match optInt s, optInt e with
      | some s, some e =>
        match c with
        | .inl b => withMirror (StrC.slice b s e) (slice b s e) args
           (match slice b s e with
            | none => .err args
            | some r => .ok (.str (match kind with | "buffer" => 1 | "symbol" => 2 | "keyword" => 3 | _ => 0) r) args)
        | .inr l => withMirror (ArrC.slice l s e) (slice l s e) args
           (match slice l s e with
            | none => .err args
            | some r => .ok (.seq (if kind == "array" then 1 else 0) r) args)
      | _, _ => .err args
  | _ => .err args

def natStart (v : Option V) : Option Nat :=
  match v with
  | none => some 0
  | some x => match intOf x with | some i => if i < 0 then none else some i.toNat | none => none

/-- a number as a multiple of 1/8 (exact for ints and for decimals with at most three fractional digits that are eighths) -/
def scaled8 : V → Option Int
  | .int i => some (8 * i)
  | .other t =>
    if t.front != 'd' then none else
    let body := (t.drop 1).toString
    let neg := body.startsWith "-"
    let body := if neg then (body.drop 1).toString else body
    match body.splitOn "." with
    | [ip] => (ip.toNat?).map (fun n => (if neg then -1 else 1) * 8 * (n : Int))
    | [ip, fp] =>
      if fp.length > 3 then none else
      match ip.toNat?, (fp ++ String.ofList (List.replicate (3 - fp.length) '0')).toNat? with
      | some n, some m => if m % 125 == 0 then some ((if neg then -1 else 1) * (8 * (n : Int) + (m / 125 : Nat))) else none
      | _, _ => none
    | _ => none
  | _ => none

def showScaled8 (v : Int) : V :=
  if v % 8 == 0 then .int (v / 8) else
  let neg := v < 0
  let a := v.natAbs
  let frac := match a % 8 with
    | 1 => "125" | 2 => "25" | 3 => "375" | 4 => "5" | 5 => "625" | 6 => "75" | _ => "875"
  .other ((if neg then "d-" else "d") ++ toString (a / 8) ++ "." ++ frac)

/-- `range` through the mirror of the C code (Lib/Range.lean); `none` there means the interpreter aborts -/
def rangeOutWith (args : List V) (s e st : Int) : Out :=
  match Range.rangeC s e st with
  | some l => if l.length > 100000 then .skip else .ok (.seq 1 (l.map showScaled8)) args
  | none => .skip

/-- map / mapcat / keep / count with a variadic named function (`v…`) over any number of sequences -/
def isVarCall (args : List V) : Bool :=
  match args with
  | (.fn g) :: _ :: _ => g.startsWith "v"
  | _ => false

def callVar (f : String) (args : List V) : Out :=
  match args with
  | (.fn g) :: (.seq _ l) :: rest =>
    (match ints l, rest.mapM (fun v => match v with | .seq _ l' => ints l' | _ => none) with
     | some xs, some cols =>
       if f == "map" then
         (match varfn g with
          | some g =>
            let agg := fun (res : Array Int) (v : Int) => res.push v
            let r := (Boot.mapRows agg g #[] xs cols).toList
            withMirror (do let a ← mapTemplate agg g #[] xs cols; pure a.toList) (some r) args (.ok (.seq 1 (r.map V.int)) args)
          | none => .skip)
       else if f == "mapcat" then
         (match varcat g with
          | some g =>
            let agg := fun (res : Array Int) (v : List Int) => res ++ v.toArray
            let r := (Boot.mapRows agg g #[] xs cols).toList
            withMirror (do let a ← mapTemplate agg g #[] xs cols; pure a.toList) (some r) args (.ok (.seq 1 (r.map V.int)) args)
          | none => .skip)
       else if f == "keep" then
         (match varkeep g with
          | some g =>
            let agg := fun (res : Array Int) (v : Option Int) => Boot.keepAgg res v
            let r := (Boot.mapRows agg g #[] xs cols).toList
            withMirror (do let a ← mapTemplate agg g #[] xs cols; pure a.toList) (some r) args (.ok (.seq 1 (r.map V.int)) args)
          | none => .skip)
       else if f == "some" then
         (match varval g with
          | some g =>
            let r := Boot.someSpec truthyV V.nil g xs cols
            withMirror (Boot.someOf truthyV V.nil g xs cols) (some r) args (.ok r args)
          | none => .skip)
       else if f == "all" then
         (match varval g with
          | some g =>
            let r := Boot.allSpec truthyV V.tt g xs cols
            withMirror (Boot.allOf truthyV V.tt g xs cols) (some r) args (.ok r args)
          | none => .skip)
       else
         (match varpred g with
          | some g =>
            let agg := fun (res : Nat) (v : Bool) => if v then res + 1 else res
            let r := Boot.mapRows agg g 0 xs cols
            withMirror (mapTemplate agg g 0 xs cols) (some r) args (.ok (.int r) args)
          | none => .skip)
     | _, _ => .skip)
  | _ => .skip

def call (f : String) (args : List V) : Out :=
  if (f == "map" || f == "mapcat" || f == "keep" || f == "count" || f == "some" || f == "all") && isVarCall args then callVar f args else
  if f == "range" then
    (match args.mapM scaled8 with
     | some [e] => rangeOutWith args 0 e 8
     | some [s, e] => rangeOutWith args s e 8
     | some [s, e, st] => rangeOutWith args s e st
     | _ => .skip)
  else
  if args.any unsupported then .skip else
  match f, args with
  -- ---------------------------------------------------------------- search family
  | "string/find", pat :: text :: rest =>
    if rest.length > 1 then .err args else
    (match bytesOf pat, bytesOf text, optStart rest.head? with
     | some p, some t, some sti =>
       let spec : Option (Option Nat) := (natOfStart sti).bind (fun st => find p t st)
       withMirror (StrC.find p t sti) spec args
       (match spec with
        | none => .err args
        | some none => .ok .nil args
        | some (some r) => .ok (.int r) args)
     | _, _, _ => .err args)
  | "string/find-all", pat :: text :: rest =>
    if rest.length > 1 then .err args else
    (match bytesOf pat, bytesOf text, optStart rest.head? with
     | some p, some t, some sti =>
       let spec : Option (List Nat) := (natOfStart sti).bind (fun st => if p == [] then none else some (findAll p t st))
       withMirror (StrC.findAll p t sti) spec args
       (match spec with
        | none => .err args
        | some r => .ok (.seq 1 (r.map (fun (i : Nat) => V.int i))) args)
     | _, _, _ => .err args)
  | "string/replace", pat :: subst :: text :: rest =>
    if (bytesOf subst).isNone then .skip else
    if rest.length > 1 then .err args else
    (match bytesOf pat, bytesOf subst, bytesOf text, optStart rest.head? with
     | some p, some s, some t, some sti =>
       let spec : Option Bytes := (natOfStart sti).bind (fun st => replace p s t st)
       withMirror (StrC.replace p s t sti) spec args
       (match spec with | none => .err args | some r => .ok (.str 0 r) args)
     | _, _, _, _ => .err args)
  | "string/replace-all", pat :: subst :: text :: rest =>
    if (bytesOf subst).isNone then .skip else
    if rest.length > 1 then .err args else
    (match bytesOf pat, bytesOf subst, bytesOf text, optStart rest.head? with
     | some p, some s, some t, some sti =>
       let spec : Option Bytes := (natOfStart sti).bind (fun st => replaceAll p s t st)
       withMirror (StrC.replaceAll p s t sti) spec args
       (match spec with
        | none => .err args
        | some r => if (natOfStart sti).map (fun st => Kmp.replaceAll p s t st) == some r then .ok (.str 0 r) args else .ok (.other "KMP-MISMATCH") args)
     | _, _, _, _ => .err args)
  | "string/split", pat :: text :: rest =>
    if rest.length > 2 then .err args else
    (match bytesOf pat, bytesOf text, optStart rest.head?, (match rest with | [_, l] => (intOf l).map some | _ => some none) with
     | some p, some t, some sti, some lim =>
       let spec : Option (List Bytes) := (natOfStart sti).bind (fun st => split p t st (lim.getD (-1)))
       withMirror (StrC.split p t sti lim) spec args
       (match spec with
        | none => .err args
        | some r => .ok (.seq 1 (r.map (V.str 0))) args)
     | _, _, _, _ => .err args)
  | "string/join", parts :: rest =>
    if rest.length > 1 then .err args else
    (match indexedOf parts, (match rest with | [s] => bytesOf s | _ => some []) with
     | some ps, some sep =>
       (match ps.mapM bytesOf with
        | some bs => withMirror (StrC.join bs sep) (some (join bs sep)) args (.ok (.str 0 (join bs sep)) args)
        | none => .err args)
     | _, _ => .err args)
  -- ---------------------------------------------------------------- printf-style subset (Lib/Format.lean)
  | "string/format", (.str 0 fmt) :: xs =>
    let fargs := xs.map (fun v => match v with | .int i => Format.FArg.int i | .str _ b => Format.FArg.bytes b | _ => Format.FArg.other)
    if !directivesAgree (fmt.takeWhile (· != 0)) then .ok (.other "MIRROR-MISMATCH") args else
    (match Format.format fmt fargs with
     | .ok out => .ok (.str 0 out) args
     | .err _ => .err args
     | .unsupported => .skip)
  | "buffer/format", (.str 1 b) :: (.str 0 fmt) :: xs =>
    let fargs := xs.map (fun v => match v with | .int i => Format.FArg.int i | .str _ b => Format.FArg.bytes b | _ => Format.FArg.other)
    if !directivesAgree (fmt.takeWhile (· != 0)) then .ok (.other "MIRROR-MISMATCH") args else
    (match Format.format fmt fargs with
     | .ok out => .ok (.str 1 (b ++ out)) (setArg0 args (.str 1 (b ++ out)))
     | .err part => .err (setArg0 args (.str 1 (b ++ part)))
     | .unsupported => .skip)
  -- ---------------------------------------------------------------- slices
  | "string/slice", _ => sliceFn "string" args
  | "symbol/slice", _ => sliceFn "symbol" args
  | "keyword/slice", _ => sliceFn "keyword" args
  | "buffer/slice", _ => sliceFn "buffer" args
  | "array/slice", _ => sliceFn "array" args
  | "tuple/slice", _ => sliceFn "tuple" args
  | "slice", _ => sliceFn "slice" args
  -- ---------------------------------------------------------------- trim & small byte functions
  | "string/trim", s :: rest | "string/triml", s :: rest | "string/trimr", s :: rest =>
    if rest.length > 1 then .err args else
    (match bytesOf s, (match rest with | [x] => bytesOf x | _ => some defaultTrimSet) with
     | some b, some set =>
       let r := if f == "string/trim" then trim b set else if f == "string/triml" then triml b set else trimr b set
       let m := if f == "string/trim" then StrC.trim b set else if f == "string/triml" then StrC.triml b set else StrC.trimr b set
       withMirror m (some r) args (.ok (.str 0 r) args)
     | _, _ => .err args)
  | "string/repeat", [s, n] =>
    (match bytesOf s, intOf n with
     | some b, some k =>
       -- (the mirror materialises the result; the reference definition is compared for results up to 1 MB)
       let res := repeatBytes b k
       let out := (match res with | some r => .ok (.str 0 r) args | none => .err args)
       if k * (b.length : Int) ≤ 1000000 ∨ k * (b.length : Int) > int32Max then withMirror (StrC.repeatStr b k) res args out else out
     | _, _ => .err args)
  | "string/reverse", [s] =>
    (match bytesOf s with | some b => withMirror (StrC.reverse b) (some b.reverse) args (.ok (.str 0 b.reverse) args) | none => .err args)
  | "string/ascii-upper", [s] =>
    (match bytesOf s with | some b => withMirror (StrC.asciiUpper b) (some (asciiUpper b)) args (.ok (.str 0 (asciiUpper b)) args) | none => .err args)
  | "string/ascii-lower", [s] =>
    (match bytesOf s with | some b => withMirror (StrC.asciiLower b) (some (asciiLower b)) args (.ok (.str 0 (asciiLower b)) args) | none => .err args)
  | "string/has-prefix?", [p, s] =>
    (match bytesOf p, bytesOf s with
     | some a, some b => withMirror (StrC.hasPrefix a b) (some (hasPrefix a b)) args (.ok (ofBool (hasPrefix a b)) args)
     | _, _ => .err args)
  | "string/has-suffix?", [p, s] =>
    (match bytesOf p, bytesOf s with
     | some a, some b => withMirror (StrC.hasSuffix a b) (some (hasSuffix a b)) args (.ok (ofBool (hasSuffix a b)) args)
     | _, _ => .err args)
  | "string/check-set", [p, s] =>
    (match bytesOf p, bytesOf s with
     | some a, some b => withMirror (StrC.checkSet a b) (some (checkSet a b)) args (.ok (ofBool (checkSet a b)) args)
     | _, _ => .err args)
  | "string/bytes", [s] =>
    (match bytesOf s with
     | some b => withMirror (StrC.bytes b) (some (b.map (fun (x : Nat) => (x : Int)))) args (.ok (.seq 0 (b.map (fun (x : Nat) => V.int x))) args)
     | none => .err args)
  | "string/from-bytes", xs =>
    (match ints xs with
     | some raw => withMirror (StrC.fromBytes raw) ((raw.mapM getInt32).map (·.map toByte)) args
         (match xs.mapM intOf with | some l => .ok (.str 0 (l.map toByte)) args | none => .err args)
     | none => .err args)
  | "buffer/from-bytes", xs =>
    (match xs.mapM intOf with | some l => .ok (.str 1 (l.map toByte)) args | none => .err args)
  -- ---------------------------------------------------------------- buffers
  | "buffer/push", (.str 1 b) :: xs =>
    (match pushArgs xs 0 with
     | none =>
       -- an ill-typed argument: the ones before it have been pushed
       let good := xs.takeWhile (fun v => match v with | .int _ => true | .str _ _ => true | .ref 0 => true | _ => false)
       (match pushArgs good 0 with
        | some pa => let (_, b') := bufferPushSt b pa; .err (setArg0 args (.str 1 b'))
        | none => .err args)
     | some pa =>
       let (okk, b') := bufferPushSt b pa
       withPush (BufPush.push { data := b.toArray, count := b.length } pa) okk b' args
       (if okk then .ok (.str 1 b') (setArg0 args (.str 1 b')) else .err (setArg0 args (.str 1 b'))))
  | "buffer/push-string", (.str 1 b) :: xs =>
    let good := xs.takeWhile (fun v => match v with | .str _ _ => true | .ref 0 => true | _ => false)
    (match pushArgs good 0 with
     | some pa =>
       let (_, b') := bufferPushSt b pa
       if good.length == xs.length then .ok (.str 1 b') (setArg0 args (.str 1 b')) else .err (setArg0 args (.str 1 b'))
     | none => .err args)
  | "buffer/push-byte", (.str 1 b) :: xs =>
    let good := xs.takeWhile (fun v => (intOf v).isSome)
    let b' := b ++ good.filterMap (fun v => (intOf v).map toByte)
    if good.length == xs.length then .ok (.str 1 b') (setArg0 args (.str 1 b')) else .err (setArg0 args (.str 1 b'))
  | "buffer/push-at", (.str 1 b) :: idx :: xs =>
    (match intOf idx with
     | none => .err args
     | some i =>
       if i < 0 ∨ i > (b.length : Int) then .err args else
       let good := xs.takeWhile (fun v => match v with | .int k => (getInt32 k).isSome | .str _ _ => true | .ref 0 => true | _ => false)
       (match pushArgs good 0 with
        | some pa =>
          let (_, p) := bufferPushSt (b.take i.toNat) pa
          if good.length == xs.length then
            let b' := p ++ b.drop p.length
            withPush (BufPush.pushAt { data := b.toArray, count := b.length } i pa) true b' args
            (.ok (.str 1 b') (setArg0 args (.str 1 b')))
          else
            -- error part-way: the count stays where the partial push left it (not restored)
            .err (setArg0 args (.str 1 p))
        | none => .err args))
  | "buffer/blit", (.str 1 d) :: src :: rest =>
    if rest.length > 3 then .err args else
    let s? : Option (Option (List Nat)) := match src with | .ref 0 => some none | .str _ b => some (some b) | _ => none
    (match s?, optInt (rest.getD 0 .nil), optInt (rest.getD 1 .nil), optInt (rest.getD 2 .nil) with
     | some s, some ds, some ss, some se =>
       let se' := if rest.length ≥ 3 then some se else none
       withMirror (BufC.blit d s ds ss se') (bufferBlit d s ds ss se') args
       (match bufferBlit d s ds ss se' with
        | some r => .ok (.str 1 r) (setArg0 args (.str 1 r))
        | none => .err args)
     | _, _, _, _ => .err args)
  | "buffer/popn", [.str 1 b, n] =>
    (match intOf n with
     | some k => withMirror (BufC.popn b k) (bufferPopn b k) args
         (match bufferPopn b k with | some r => .ok (.str 1 r) (setArg0 args (.str 1 r)) | none => .err args)
     | none => .err args)
  | "buffer/clear", [.str 1 _] => .ok (.str 1 []) (setArg0 args (.str 1 []))
  | "buffer/fill", (.str 1 b) :: rest =>
    if rest.length > 1 then .err args else
    (match (match rest with | [x] => intOf x | _ => some 0) with
     | some byte => let r := bufferFill b byte; withMirror (BufC.fill b byte) (some r) args (.ok (.str 1 r) (setArg0 args (.str 1 r)))
     | none => .err args)
  | "buffer/new-filled", n :: rest =>
    if rest.length > 1 then .err args else
    (match intOf n, (match rest with | [x] => intOf x | _ => some 0) with
     | some c, some byte => withMirror (BufPush.newFilledC c byte) (some (newFilled c byte)) args (.ok (.str 1 (newFilled c byte)) args)
     | _, _ => .err args)
  | "buffer/push-word", (.str 1 b) :: xs =>
    let good := xs.takeWhile (fun v => match v with | .int k => decide (0 ≤ k ∧ k < 4294967296) | _ => false)
    let b' := b ++ (good.filterMap (fun v => match v with | .int k => some (leBytes 4 k.toNat) | _ => none)).flatten
    let k := if good.length == xs.length then Out.ok (.str 1 b') (setArg0 args (.str 1 b')) else .err (setArg0 args (.str 1 b'))
    (match ints xs with
     | some ws => withPush (BufPush.pushWord { data := b.toArray, count := b.length } ws) (good.length == xs.length) b' args k
     | none => k)
  | "buffer/push-uint16", [.str 1 b, .str 3 order, .int x] | "buffer/push-uint32", [.str 1 b, .str 3 order, .int x] =>
    let nb := if f == "buffer/push-uint16" then 2 else 4
    let be? : Option Bool := if order == [108, 101] then some false else if order == [98, 101] then some true
                             else if order == [110, 97, 116, 105, 118, 101] then some false else none
    let spec : Option (List Nat) := be?.bind (fun be => pushUint b nb be x)
    withMirror (do let b' ← BufPush.pushUintC { data := b.toArray, count := b.length } nb order x; pure (BufPush.contents b')) spec args
    (match spec with
     | some r => .ok (.str 1 r) (setArg0 args (.str 1 r))
     | none => .err args)
  | "buffer/bit", [.str 1 b, .int i] =>
    withMirror (BufC.bitGet b i) (bitGet b i) args (match bitGet b i with | some r => .ok (ofBool r) args | none => .err args)
  | "buffer/bit-set", [.str 1 b, .int i] =>
    withMirror (BufC.bitSet b i) (bitSet b i) args
    (match bitSet b i with | some r => .ok (.str 1 r) (setArg0 args (.str 1 r)) | none => .err args)
  | "buffer/bit-clear", [.str 1 b, .int i] =>
    withMirror (BufC.bitClear b i) (bitClear b i) args
    (match bitClear b i with | some r => .ok (.str 1 r) (setArg0 args (.str 1 r)) | none => .err args)
  | "buffer/bit-toggle", [.str 1 b, .int i] =>
    withMirror (BufC.bitToggle b i) (bitToggle b i) args
    (match bitToggle b i with | some r => .ok (.str 1 r) (setArg0 args (.str 1 r)) | none => .err args)
  -- ---------------------------------------------------------------- arrays / tuples
  | "array/insert", (.seq 1 a) :: at_ :: xs =>
    (match at_ with
     | .int i =>
       withMirror (ArrC.insert a i xs) (arrayInsert a i xs) args
       (match arrayInsert a i xs with
        | some r => .ok (.seq 1 r) (setArg0 args (.seq 1 r))
        | none => .err args)
     | _ => .err args)
  | "array/remove", (.seq 1 a) :: at_ :: rest =>
    if rest.length > 1 then .err args else
    (match at_, (match rest with | [x] => x | _ => V.int 1) with
     | .int i, .int n =>
       withMirror (ArrC.remove a i (if rest.isEmpty then none else some n)) (arrayRemove a i n) args
       (match arrayRemove a i n with
        | some r => .ok (.seq 1 r) (setArg0 args (.seq 1 r))
        | none => .err args)
     | _, _ => .err args)
  | "array/concat", (.seq 1 a) :: xs =>
    let parts := xs.map (fun v => match v with
      | .ref 0 => ConcatArg.self
      | .seq _ l => ConcatArg.seq l
      | v => ConcatArg.item v)
    let r := arrayConcat a parts
    withMirror (ArrC.concat a parts) (some r) args (.ok (.seq 1 r) (setArg0 args (.seq 1 r)))
  | "array/join", (.seq 1 a) :: xs =>
    let good := xs.takeWhile (fun v => match v with | .ref 0 => true | .seq _ _ => true | _ => false)
    let parts := good.map (fun v => match v with | .ref 0 => ConcatArg.self | .seq _ l => ConcatArg.seq l | v => ConcatArg.item v)
    let r := arrayConcat a parts
    if good.length == xs.length then .ok (.seq 1 r) (setArg0 args (.seq 1 r)) else .err (setArg0 args (.seq 1 r))
  | "tuple/join", xs =>
    (match xs.mapM indexedOf with
     | some ls => withMirror (ArrC.tupleJoin ls) (some ls.flatten) args (.ok (.seq 0 ls.flatten) args)
     | none => .err args)
  | "array/fill", (.seq 1 a) :: rest =>
    if rest.length > 1 then .err args else
    let x := rest.getD 0 .nil
    let r := arrayFill a x
    withMirror (ArrC.fill a x) (some r) args (.ok (.seq 1 r) (setArg0 args (.seq 1 r)))
  | "array/push", (.seq 1 a) :: xs =>
    let r := a ++ xs
    withMirror (ArrC.pushC a xs) (some r) args (.ok (.seq 1 r) (setArg0 args (.seq 1 r)))
  | "array/pop", [.seq 1 a] =>
    withMirror (ArrC.pop a) (some (a.getLast?, a.dropLast)) args
    (match a.getLast? with
     | some x => .ok x (setArg0 args (.seq 1 a.dropLast))
     | none => .ok .nil args)
  | "array/peek", [.seq 1 a] => withMirror (ArrC.peek a) (some a.getLast?) args (.ok (a.getLast?.getD .nil) args)
  | "array/new-filled", n :: rest =>
    if rest.length > 1 then .err args else
    (match intOf n with
     | some c =>
       if c > 100000 then .skip else
       withMirror (ArrC.newFilled c (rest.getD 0 .nil)) (if c < 0 then none else some (List.replicate c.toNat (rest.getD 0 .nil))) args
       (if c < 0 then .err args else .ok (.seq 1 (List.replicate c.toNat (rest.getD 0 .nil))) args)
     | none => .err args)
  -- ---------------------------------------------------------------- boot.janet sequence functions
  | "take", [.int n, x] =>
    (match x with
     | .seq _ l => withMirror (Boot.take n l) (some (takeN n l)) args (.ok (.seq 0 (takeN n l)) args)
     | .str _ b => withMirror (Boot.take n b) (some (takeN n b)) args (.ok (.str 0 (takeN n b)) args)
     | _ => .skip)
  | "drop", [.int n, x] =>
    (match x with
     | .seq _ l => withMirror (Boot.drop n l) (some (dropN n l)) args (.ok (.seq 0 (dropN n l)) args)
     | .str _ b => withMirror (Boot.drop n b) (some (dropN n b)) args (.ok (.str 0 (dropN n b)) args)
     | _ => .skip)
  | "take-while", [.fn p, .seq _ l] =>
    (match pred p, ints l with
     | some p, some xs => withMirror (Boot.takeWhile p xs) (some (takeWhileL p xs)) args (.ok (.seq 0 ((takeWhileL p xs).map V.int)) args)
     | _, _ => .skip)
  | "drop-while", [.fn p, .seq _ l] =>
    (match pred p, ints l with
     | some p, some xs => withMirror (Boot.dropWhile p xs) (some (dropWhileL p xs)) args (.ok (.seq 0 ((dropWhileL p xs).map V.int)) args)
     | _, _ => .skip)
  | "take-until", [.fn p, .seq _ l] =>
    (match pred p, ints l with
     | some p, some xs => withMirror (Boot.takeUntil p xs) (some (takeWhileL (fun x => !p x) xs)) args
         (.ok (.seq 0 ((takeWhileL (fun x => !p x) xs).map V.int)) args)
     | _, _ => .skip)
  | "drop-until", [.fn p, .seq _ l] =>
    (match pred p, ints l with
     | some p, some xs => withMirror (Boot.dropUntil p xs) (some (dropWhileL (fun x => !p x) xs)) args
         (.ok (.seq 0 ((dropWhileL (fun x => !p x) xs).map V.int)) args)
     | _, _ => .skip)
  | "filter", [.fn p, .seq _ l] =>
    (match pred p, ints l with
     | some p, some xs => withMirror (Boot.filter p xs) (some (xs.filter p)) args (.ok (.seq 1 ((xs.filter p).map V.int)) args)
     | _, _ => .skip)
  | "count", [.fn p, .seq _ l] =>
    (match pred p, ints l with
     | some p, some xs => withMirror (Boot.count1 p xs) (some (xs.countP p)) args (.ok (.int (xs.countP p)) args)
     | _, _ => .skip)
  | "find-index", [.fn p, .seq _ l] =>
    (match pred p, ints l with
     | some p, some xs => withMirror (Boot.findIndex p xs) (some (xs.findIdx? p)) args
         (.ok (match xs.findIdx? p with | some i => .int i | none => .nil) args)
     | _, _ => .skip)
  | "map", [.fn g, .seq _ l] =>
    (match fn1 g, ints l with
     | some g, some xs => withMirror (Boot.map1 g xs) (some (xs.map g)) args (.ok (.seq 1 ((xs.map g).map V.int)) args)
     | _, _ => .skip)
  | "map", [.fn g, .seq _ l, .seq _ l2] =>
    (match fn2 g, ints l, ints l2 with
     | some g, some xs, some ys => withMirror (Boot.map2 g xs ys) (some (List.zipWith g xs ys)) args
         (.ok (.seq 1 ((List.zipWith g xs ys).map V.int)) args)
     | _, _, _ => .skip)
  | "map", [.fn g, .seq _ l, .seq _ l2, .seq _ l3] =>
    (match fn3 g, ints l, ints l2, ints l3 with
     | some g, some xs, some ys, some zs =>
       let r := List.zipWith (fun (p : Int × Int) z => g p.1 p.2 z) (List.zip xs ys) zs
       withMirror (Boot.map3 g xs ys zs) (some r) args (.ok (.seq 1 (r.map V.int)) args)
     | _, _, _, _ => .skip)
  | "keep", [.fn p, .seq _ l] =>
    (match keepfn p, ints l with
     | some p, some xs => withMirror (Boot.keep1 p xs) (some (xs.filterMap p)) args (.ok (.seq 1 ((xs.filterMap p).map V.int)) args)
     | _, _ => .skip)
  | "keep", [.fn p, .seq _ l, .seq _ l2] =>
    (match keep2fn p, ints l, ints l2 with
     | some p, some xs, some ys =>
       let r := (List.zip xs ys).filterMap (fun q => p q.1 q.2)
       withMirror (Boot.keep2 p xs ys) (some r) args (.ok (.seq 1 (r.map V.int)) args)
     | _, _, _ => .skip)
  | "mapcat", [.fn g, .seq _ l] =>
    (match catfn g, ints l with
     | some g, some xs => withMirror (Boot.mapcat1 g xs) (some (xs.flatMap g)) args (.ok (.seq 1 ((xs.flatMap g).map V.int)) args)
     | _, _ => .skip)
  | "mapcat", [.fn g, .seq _ l, .seq _ l2] =>
    (match cat2fn g, ints l, ints l2 with
     | some g, some xs, some ys =>
       let r := (List.zip xs ys).flatMap (fun q => g q.1 q.2)
       withMirror (Boot.mapcat2 g xs ys) (some r) args (.ok (.seq 1 (r.map V.int)) args)
     | _, _, _ => .skip)
  | "count", [.fn p, .seq _ l, .seq _ l2] =>
    (match cmp p, ints l, ints l2 with
     | some p, some xs, some ys =>
       let r := (List.zip xs ys).countP (fun q => p q.1 q.2)
       withMirror (Boot.count2 p xs ys) (some r) args (.ok (.int r) args)
     | _, _, _ => .skip)
  | "group-by", [.fn kf, .seq _ l] =>
    (match keyfn kf, ints l with
     | some key, some xs =>
       let r := groupBy key xs
       withMirror (Boot.groupBy key xs) (some r) args (.ok (.tbl 1 (r.map (fun kv => (V.int kv.1, V.seq 1 (kv.2.map V.int))))) args)
     | _, _ => .skip)
  | "find", [.fn p, .seq _ l] =>
    (match pred p, ints l with
     | some p, some xs => withMirror (Boot.find p xs) (some (xs.find? p)) args (.ok ((xs.find? p).elim V.nil V.int) args)
     | _, _ => .skip)
  | "index-of", [.int x, .seq _ l] =>
    (match ints l with
     | some xs => withMirror (Boot.indexOf x xs) (some (xs.findIdx? (fun y => y == x))) args
         (.ok (match xs.findIdx? (fun y => y == x) with | some i => .int i | none => .nil) args)
     | none => .skip)
  | "reduce2", [.fn g, .seq _ l] =>
    (match fn2 g, ints l with
     | some g, some xs =>
       let r : Option Int := match xs with | [] => none | y :: ys => some (ys.foldl g y)
       withMirror (Boot.reduce2 g xs) (some r) args (.ok (r.elim V.nil V.int) args)
     | _, _ => .skip)
  | "reduce", [.fn g, .int init, .seq _ l] =>
    (match fn2 g, ints l with
     | some g, some xs => withMirror (Boot.reduce g init xs) (some (reduce g init xs)) args (.ok (.int (reduce g init xs)) args)
     | _, _ => .skip)
  | "partition", [.int n, x] =>
    if n < 1 then .skip else
    (match x with
     | .seq _ l => withMirror (Boot.partition n l) (some (partition n.toNat l)) args (.ok (.seq 1 ((partition n.toNat l).map (V.seq 0))) args)
     | .str _ b => withMirror (Boot.partition n b) (some (partition n.toNat b)) args (.ok (.seq 1 ((partition n.toNat b).map (V.str 0))) args)
     | _ => .skip)
  | "interleave", cols =>
    (match cols.mapM indexedOf with
     | some [c0] => withMirror (Boot.interleave1 c0) (some (interleave [c0])) args (.ok (.seq 1 (interleave [c0])) args)
     | some [c0, c1] => withMirror (Boot.interleave2 c0 c1) (some (interleave [c0, c1])) args (.ok (.seq 1 (interleave [c0, c1])) args)
     | some (c0 :: cols) =>
       let agg := fun (res : Array V) (row : List V) => res ++ row.toArray
       let m : R (List V) := do
         let a ← (if cols.length ≤ 3 then Boot.mapN agg (fun (x : V) row => x :: row) #[] c0 cols
                  else Boot.mapGen agg (fun (x : V) row => x :: row) #[] c0 cols)
         pure a.toList
       withMirror m (some (interleave (c0 :: cols))) args (.ok (.seq 1 (interleave (c0 :: cols))) args)
     | some cs => .ok (.seq 1 (interleave cs)) args
     | none => .skip)
  | "interpose", [sep, .seq _ l] => withMirror (Boot.interpose sep l) (some (interpose sep l)) args (.ok (.seq 1 (interpose sep l)) args)
  | "distinct", [.seq _ l] => withMirror (Boot.distinct l) (some (distinct l)) args (.ok (.seq 1 (distinct l)) args)
  | "frequencies", [.seq _ l] =>
    withMirror (Boot.frequencies l) (some (frequencies l)) args (.ok (.tbl 1 ((frequencies l).map (fun kv => (kv.1, V.int kv.2)))) args)
  | "merge", colls =>
    (match colls.mapM (fun v => match v with | .tbl _ l => some l | _ => none) with
     | some cs =>
       (match Boot.merge cs with
        | .ok m => if (V.tbl 1 m) == (V.tbl 1 (merge cs)) then .ok (.tbl 1 (merge cs)) args else .ok (.other "MIRROR-MISMATCH") args
        | _ => .ok (.other "MIRROR-UB") args)
     | none => .skip)
  | "merge-into", (.tbl 1 t) :: colls =>
    (match colls.mapM (fun v => match v with | .tbl _ l => some l | _ => none) with
     | some cs =>
       let r := cs.foldl (fun acc c => c.foldl (fun acc kv => assocPut acc kv.1 kv.2) acc) t
       (match Boot.mergeInto t cs with
        | .ok m => if (V.tbl 1 m) == (V.tbl 1 r) then .ok (.tbl 1 r) (setArg0 args (.tbl 1 r)) else .ok (.other "MIRROR-MISMATCH") args
        | _ => .ok (.other "MIRROR-UB") args)
     | none => .skip)
  | "zipcoll", [.seq _ ks, .seq _ vs] =>
    (match Boot.zipcoll ks vs with
     | .ok m => if (V.tbl 1 m) == (V.tbl 1 (zipcoll ks vs)) then .ok (.tbl 1 (zipcoll ks vs)) args else .ok (.other "MIRROR-MISMATCH") args
     | _ => .ok (.other "MIRROR-UB") args)
  | "min", xs => (match ints xs with
      | some l => withMirror (Boot.extreme (fun a b => decide (a < b)) l) (some (extreme (· < ·) l)) args (.ok ((extreme (· < ·) l).elim V.nil V.int) args)
      | none => .skip)
  | "max", xs => (match ints xs with
      | some l => withMirror (Boot.extreme (fun a b => decide (a > b)) l) (some (extreme (· > ·) l)) args (.ok ((extreme (· > ·) l).elim V.nil V.int) args)
      | none => .skip)
  | "min-of", [.seq _ xs] => (match ints xs with
      | some l => withMirror (Boot.extreme (fun a b => decide (a < b)) l) (some (extreme (· < ·) l)) args (.ok ((extreme (· < ·) l).elim V.nil V.int) args)
      | none => .skip)
  | "max-of", [.seq _ xs] => (match ints xs with
      | some l => withMirror (Boot.extreme (fun a b => decide (a > b)) l) (some (extreme (· > ·) l)) args (.ok ((extreme (· > ·) l).elim V.nil V.int) args)
      | none => .skip)
  | "sum", [.seq _ xs] => (match ints xs with | some l => withMirror (Boot.sum l) (some (sumI l)) args (.ok (.int (sumI l)) args) | none => .skip)
  | "product", [.seq _ xs] => (match ints xs with | some l => withMirror (Boot.product l) (some (productI l)) args (.ok (.int (productI l)) args) | none => .skip)
  | "reverse", [x] =>
    (match x with
     | .seq _ l => withMirror (Boot.reverse l) (some l.reverse) args (.ok (.seq 1 l.reverse) args)
     | .str _ b => withMirror (Boot.reverse b) (some b.reverse) args (.ok (.str 1 b.reverse) args)
     | _ => .skip)
  | "reverse!", [x] =>
    (match x with
     | .seq 1 l => withMirror (Boot.reverseBang l) (some l.reverse) args (.ok (.seq 1 l.reverse) (setArg0 args (.seq 1 l.reverse)))
     | .str 1 b => withMirror (Boot.reverseBang b) (some b.reverse) args (.ok (.str 1 b.reverse) (setArg0 args (.str 1 b.reverse)))
     | _ => .skip)
  | "flatten", [.seq _ l] =>
    let rec flat : Nat → List V → List V
      | 0, _ => []
      | fuel + 1, l => l.flatMap (fun v => match v with | .seq _ l' => flat fuel l' | v => [v])
    withMirror (Boot.flatten 64 (l.map toNest)) (some (flat 64 l)) args (.ok (.seq 1 (flat 64 l)) args)
  | "sort", (.seq 1 l) :: rest | "sorted", (.seq k l) :: rest =>
    (match ints l, (match rest with | [] => cmp "lt" | [.fn c] => cmp c | _ => none) with
     | some xs, some before =>
       (match (if f == "sort" then Sort.sort (fun a b => decide (a ≤ b)) before xs.toArray
               else Boot.sorted (fun a b => decide (a ≤ b)) before xs) with
        | .ok r =>
          let rv := V.seq 1 (r.toList.map V.int)
          if f == "sort" then .ok rv (setArg0 args rv) else .ok rv args
        | .err => .sortErr
        | .fuel => .sortFuel)
     | _, _ => .skip)
  | "sort-by", [.fn kf, .seq 1 l] | "sorted-by", [.fn kf, .seq _ l] =>
    (match ints l, keyfn kf with
     | some xs, some key =>
       (match (if f == "sort-by" then Boot.sortBy (fun a b => decide (a ≤ b)) (fun (a b : Int) => decide (a < b)) key xs.toArray
               else Boot.sortedBy (fun a b => decide (a ≤ b)) (fun (a b : Int) => decide (a < b)) key xs) with
        | .ok r =>
          let rv := V.seq 1 (r.toList.map V.int)
          if f == "sort-by" then .ok rv [.fn kf, rv] else .ok rv args
        | .err => .sortErr
        | .fuel => .sortFuel)
     | _, _ => .skip)
  | "buffer/push-uint64", [.str 1 b, .str 3 order, .int x] =>
    let be? : Option Bool := if order == [108, 101] then some false else if order == [98, 101] then some true
                             else if order == [110, 97, 116, 105, 118, 101] then some false else none
    (match be? with
     | none => .err args
     | some be =>
       if 0 ≤ x ∧ x ≤ 9007199254740992 then
         let bs := leBytes 8 x.toNat
         let r := b ++ (if be then bs.reverse else bs)
         withMirror (do let b' ← BufPush.pushUintC { data := b.toArray, count := b.length } 8 order x; pure (BufPush.contents b'))
           (some r) args (.ok (.str 1 r) (setArg0 args (.str 1 r)))
       else .err args)
  | "buffer/push-float64", [.str 1 b, .str 3 order, .int x] =>
    let be? : Option Bool := if order == [108, 101] then some false else if order == [98, 101] then some true
                             else if order == [110, 97, 116, 105, 118, 101] then some false else none
    (match be? with
     | none => .err args
     | some be =>
       let bs := leBytes 8 (Float.ofInt x).toBits.toNat
       let r := b ++ (if be then bs.reverse else bs)
       .ok (.str 1 r) (setArg0 args (.str 1 r)))
  | _, _ => .skip

def render (o : Out) : String :=
  match o with
  | .skip => "skip"
  | .sortErr => "sorterr"
  | .sortFuel => "sortfuel"
  | .ok v args => "ok " ++ v.show ++ String.join ((resolveRefs args).map (fun a => " | " ++ a.show))
  | .err args => "err" ++ String.join ((resolveRefs args).map (fun a => " | " ++ a.show))

/-- all byte strings of length `n` over the alphabet {a, b} -/
def allStrings : Nat → List (List Nat)
  | 0 => [[]]
  | n + 1 => (allStrings n).flatMap (fun s => [97 :: s, 98 :: s])

/-- bounded-exhaustive check KMP mirror = naive definitions (find, find-all, replace-all, split) -/
def kmpExhaustive (plen tlen : Nat) : String := Id.run do
  let mut count := 0
  for pl in List.range plen do
    for p in allStrings (pl + 1) do
      for tl in List.range (tlen + 1) do
        for t in allStrings tl do
          for st in List.range (tl + 2) do
            count := count + 1
            if Kmp.find p t st != findFrom p t st then return s!"mismatch find {hexOfBytes p} {hexOfBytes t} {st}"
            if Kmp.findAll p t st != findAll p t st then return s!"mismatch find-all {hexOfBytes p} {hexOfBytes t} {st}"
            if some (Kmp.replaceAll p [120] t st) != replaceAll p [120] t st then return s!"mismatch replace-all {hexOfBytes p} {hexOfBytes t} {st}"
            if some (Kmp.split p t st 3) != split p t st 3 then return s!"mismatch split {hexOfBytes p} {hexOfBytes t} {st}"
  return s!"ok {count}"

/-- the per-directive item step of pp.c as mirrored in Lib/FormatC (array size, snprintf bound, limit and operator from the
    current source) on an item of `len` bytes '0': `panic` | `ub` | `ok <bytes appended> <last byte appended>` -/
def fmtItem (which : String) (len : Nat) : String :=
  let full := List.replicate len 48
  match (if which == "bv" then FormatC.formatbvItem [] full else FormatC.bufferFormatItem [] full) with
  | .panic => "panic"
  | .ub => "ub"
  | .ok r => s!"ok {r.length} {r.getLast?.getD 999}"

def step (_ : Unit) (toks : List String) : Unit × String :=
  match toks with
  | [] => ((), "bad-op")
  | ["fmt-item", w, n] => ((), fmtItem w n.toNat!)
  | ["kmp-exhaustive", a, b] => ((), kmpExhaustive a.toNat! b.toNat!)
  | f :: rest =>
    match parseArgs rest [] with
    | none => ((), "bad-op")
    | some args => ((), render (call f args))

def main : IO Unit := runLoop () step
