-- line-protocol model driver for C06 (stub)
def main : IO Unit := IO.println "stub C06"
