/- Line-protocol model driver for C06 (channels / event loop).
    prog <cfg> <limits> <rng> <ops of fiber 0> / <ops of fiber 1> / ...   -> "<verdict> <event log>"
        <cfg>     "gen" (configuration extracted from the current ev.c) or five 0/1 digits
                  pushBlocksStrict choiceReadyStrict choiceGiveSeesReader popSkipsStaleWriter closeChecksSched
        <limits>  comma separated channel capacities, "-" for none;  <rng> comma separated u32 stream, "-" for none
        a fiber's list may begin with S<c>: the fiber is spawned by (ev/go f nil c<c>) - channel c is its supervisor
        ops       g<c>:<x> give | t<c> take | c<c> close | y[<ms>] (ev/sleep ms/1000) | x<g> (ev/cancel g) |
                  d<ms>:<n> (ev/with-deadline ms/1000 <next n ops>) | s:<cl>,<cl>.. select | r:<cl>,.. rselect
                  clause  t<c> | g<c>:<x>
    Q <ops>                    p<n> push | h<n> push_head | o pop   -> per op "rc/popped/cap/head/tail/count[contents]"
    M <ops>                    same ops on a channel's items ring        -> per op "[ids passed to janet_mark by the walk of
                               janet_chanat_mark extracted from the current source, sorted]"
-/
import Driver.Util
import JanetModel.Ev.Exec
import JanetModel.Ev.Queue
import JanetModel.Ev.Current
open Driver JanetModel.Ev

def parseNats (s : String) : List Nat :=
  if s = "-" then [] else (s.splitOn ",").filterMap String.toNat?

def parseClause (s : String) : Option Clause :=
  match s.toList with
  | 't' :: r => (String.ofList r).toNat?.map Clause.take
  | 'g' :: r =>
    match (String.ofList r).splitOn ":" with
    | [c, x] => match c.toNat?, x.toNat? with
      | some c, some x => some (.give c x)
      | _, _ => none
    | _ => none
  | _ => none

def parseOp (s : String) : Option Op :=
  match s.toList with
  | ['y'] => some (.sleep 0)
  | 'y' :: r => (String.ofList r).toNat?.map Op.sleep
  | 'x' :: r => (String.ofList r).toNat?.map Op.cancel
  | 'd' :: r =>
    match (String.ofList r).splitOn ":" with
    | [ms, n] => match ms.toNat?, n.toNat? with
      | some ms, some n => some (.deadline ms n)
      | _, _ => none
    | _ => none
  | 't' :: r => (String.ofList r).toNat?.map Op.take
  | 'c' :: r => (String.ofList r).toNat?.map Op.close
  | 'g' :: _ => match parseClause s with
    | some (.give c x) => some (.give c x)
    | _ => none
  | 's' :: ':' :: r => some (.select (((String.ofList r).splitOn ",").filterMap parseClause))
  | 'r' :: ':' :: r => some (.rselect (((String.ofList r).splitOn ",").filterMap parseClause))
  | _ => none

def splitFibers (toks : List String) : List (List String) :=
  let rec go : List String → List String → List (List String) → List (List String)
    | [], cur, acc => (cur.reverse :: acc).reverse
    | "/" :: rest, cur, acc => go rest [] (cur.reverse :: acc)
    | t :: rest, cur, acc => go rest (t :: cur) acc
  go toks [] []

def parseCfg (s : String) : Option Cfg :=
  if s = "gen" then some currentCfg
  else match s.toList.map (· == '1') with
    | [a, b, c, d, e, r, u] => some ⟨a, b, c, d, e, r, u⟩
    | [a, b, c, d, e, r] => some ⟨a, b, c, d, e, r, false⟩
    | [a, b, c, d, e] => some ⟨a, b, c, d, e, false, false⟩
    | _ => none

def showQ (rc : Nat) (popped : Int) (q : RingQ Nat) : String :=
  s!"{rc}/{popped}/{q.cap}/{q.head}/{q.tail}/{q.count}[{commaSep (q.toList.map toString)}]"

def runQ (toks : List String) : String :=
  let rec go : List String → RingQ Nat → List String → List String
    | [], _, acc => acc.reverse
    | t :: rest, q, acc =>
      match t.toList with
      | 'p' :: r =>
        match RingQ.push maxQCapacity q ((String.ofList r).toNat?.getD 0) with
        | some q' => go rest q' (showQ 0 (-1) q' :: acc)
        | none => go rest q (showQ 1 (-1) q :: acc)
      | 'h' :: r =>
        match RingQ.pushHead maxQCapacity q ((String.ofList r).toNat?.getD 0) with
        | some q' => go rest q' (showQ 0 (-1) q' :: acc)
        | none => go rest q (showQ 1 (-1) q :: acc)
      | ['o'] =>
        match RingQ.pop q with
        | some (x, q') => go rest q' (showQ 0 x q' :: acc)
        | none => go rest q (showQ 1 (-1) q :: acc)
      | _ => go rest q acc
  String.intercalate " " (go toks (RingQ.init 0) [])

def insertSorted (x : Nat) : List Nat → List Nat
  | [] => [x]
  | y :: r => if x ≤ y then x :: y :: r else y :: insertSorted x r

def showM (q : RingQ Nat) : String :=
  s!"[{commaSep (((currentMarkItems.visit q).foldl (fun acc x => insertSorted x acc) []).map toString)}]"

def runM (toks : List String) : String :=
  let rec go : List String → RingQ Nat → List String → List String
    | [], _, acc => acc.reverse
    | t :: rest, q, acc =>
      match t.toList with
      | 'p' :: r =>
        match RingQ.push maxQCapacity q ((String.ofList r).toNat?.getD 0) with
        | some q' => go rest q' (showM q' :: acc)
        | none => go rest q (showM q :: acc)
      | 'h' :: r =>
        match RingQ.pushHead maxQCapacity q ((String.ofList r).toNat?.getD 0) with
        | some q' => go rest q' (showM q' :: acc)
        | none => go rest q (showM q :: acc)
      | ['o'] =>
        match RingQ.pop q with
        | some (_, q') => go rest q' (showM q' :: acc)
        | none => go rest q (showM q :: acc)
      | _ => go rest q acc
  String.intercalate " " (go toks (RingQ.init 0) [])

def stepLine (_ : Unit) (toks : List String) : Unit × String :=
  match toks with
  | "prog" :: cfg :: limits :: rng :: rest =>
    match parseCfg cfg with
    | none => ((), "bad-cfg")
    | some cfg =>
      -- a fiber's list may begin with `S<c>`: it is spawned with channel c as its supervisor
      let supOf (ts : List String) : Option Nat :=
        match ts with
        | t :: _ => match t.toList with
          | 'S' :: r => (String.ofList r).toNat?
          | _ => none
        | [] => none
      let strip (ts : List String) : List String := if (supOf ts).isSome then ts.drop 1 else ts
      let segs := splitFibers rest
      let fibs := segs.map (fun ts => (strip ts).filterMap parseOp)
      let nbad : Nat := (segs.map (fun ts => ((strip ts).filter (fun t => (parseOp t).isNone)).length)).foldl (· + ·) 0
      if nbad > 0 then ((), "bad-op")
      else ((), Prog.render cfg { limits := parseNats limits, fibers := fibs, rng := parseNats rng, sups := segs.map supOf,
                                   clockStart := 100000, clockStep := 16 } maxQCapacity)
  | "Q" :: ops => ((), runQ ops)
  | "M" :: ops => ((), runM ops)
  | _ => ((), "bad-op")

def main : IO Unit := runLoop () stepLine
