/- Line-protocol model driver for C16 (stream read / write state machines).
     W <len> <dgram 0|1> <answers…>                              one write/send/send-to operation
     R <n> <chunk 0|1> <recvfrom 0|1> <base> <inclen> <answers…>  one read/recv/recv-from operation
   answers:  b<k> (k bytes) | a (EAGAIN) | i (EINTR) | e<code> (other errno)
   A readiness event is assumed after every would-block / partial result (the answers are consumed event by event).
   Output:  res=<pending|done|nil|buf|failed:…|starved> start|read=<n> left=<n> calls=<off>:<len>:<got>,…
     X <status word>                                             proc_get_status on one wait-status word (signed decimal)
   Output:  gen=<n|panic> model=<n|panic>     (regenerated expression trees of Gen/ProcStat.lean / the model's glibc shapes)
     P <spawn 0|1> <in> <out> <err> | <open fds fd:cx,…> | <answers> | <query fds,…>
        one os/spawn / os/execute;  redirection: i (inherit) | p (:pipe) | o (:err :out) | f<fd> (core/file) | s<fd> (core/stream)
        answers (in call order of the kernel):  pipe results r:w or x (failure) for in,out,err; tmp0..2 (fd or x); spawn ok 0|1;
        dup results for in,out,err (fd or x):   pin pout perr t0 t1 t2 ok din dout derr
   Output:  res=<…> safe=<0|1> log=<syscalls> child=<fd:obj:cx …|FAILED> parent=<fd:obj:cx …> proc=<owns…>
     L <status> <ops…>      life cycle of one process value {:in stream :out :pipe :err :pipe} (owns 11 and 12):
        w (os/proc-wait in its own fiber) | x (the same, the fiber is cancelled while it waits) | c (os/proc-close in its own fiber)
        | R (the child exits: the reaper delivers <status> as soon as / if somebody waits)
   Output:  one token per w / x / c: val:<status> | err (cannot wait twice) | nil | cancelled | pending;  rc=<return code|none> closed=<n>
     NC <event>:<k<res>|f<errno>> …        net_callback_connect on a sequence of JanetAsyncEvent numbers, each with the getsockopt(SO_ERROR) answer held ready
   Output:  one token per delivered event  <p|ok|closed|so<res>|sys<errno>>/<toclose 0|1>/<getsockopt calls>   (stops when the operation ended)
     NA <loop 0|1> <event>:<c0|f<errno>> …  net_callback_accept (loop = accept-loop) with the accept4 answer held ready
   Output:  one token per delivered event  <p|acc|nil>/<h|->/<accept4 calls>     (h: a handler fiber was scheduled with the accepted connection)
     NK <x> …     cfun_net_connect's connect() loop: x = -1 (EINTR) | 0 (success) | 115 (EINPROGRESS) | errno
   Output:  registered|raised<errno>|starved calls=<n> closes=<n>
   The case groups of the two switches are the regenerated Gen.Net lists.
     S <act> …      the listener-slot registry of ONE stream (World.runCurrent: guards = regenerated Gen.Stream facts):
        s<f>:<r|w> (fiber f starts an operation)  |  e<f> (the implementation ended fiber f's operation)  |  c (janet_stream_close)
   Output:  one token per act:  s -> A (admitted, registered in the slot) | R (refused: raises) | ? (not possible: f already waits)
                                e -> f (f is the registered fiber of its direction: finished) | X (f waits but is NOT registered: orphan)
                                     | n (f has no pending operation: it was refused / woken by close before)
                                c -> c
     DR <chunk 0|1> <n> <base> <inclen> I <ans,…|-> <epoll word> <ans,…|-> …    one read: INIT step, then epoll event WORDS dispatched by the
        regenerated table Gen.Dispatch (readWord currentTable); answers per step, consumed across the callbacks of the word
   Output:  one token per step while the operation is registered  <res>/<read>/<left>/<got>/<calls|->
     DW <send 0|1> <len> I <ans,…|-> <epoll word> <ans,…|-> …                   one write, likewise (writeWord currentTable)
   Output:  one token per step  <res>/<start>/<calls|->
-/
import Driver.Util
import JanetModel.Stream.Dispatch
import JanetModel.Stream.Model
import JanetModel.Gen.ProcStat
import JanetModel.Proc.SpawnLemmas
import JanetModel.Stream.Net
import JanetModel.Gen.Net
open Driver JanetModel.Stream

def parseAns (t : String) : Option Ans :=
  match t.toList with
  | ['a'] => some .eagain
  | ['i'] => some .eintr
  | 'b' :: r => (String.ofList r).toNat?.map .bytes
  | 'e' :: r => (String.ofList r).toNat?.map .err
  | _ => none

def parseAnssAux : List String → List Ans → Option (List Ans)
  | [], acc => some acc.reverse
  | t :: ts, acc =>
    match parseAns t with
    | some a => parseAnssAux ts (a :: acc)
    | none => none

def parseAnss (ts : List String) : Option (List Ans) := parseAnssAux ts []

def showCalls (cs : List Call) : String :=
  String.intercalate "," (cs.map fun c => s!"{c.off}:{c.len}:{c.got}")

def showWRes : WRes → String
  | .pending => "pending"
  | .done => "done"
  | .failed (.sys c) => s!"failed:sys{c}"
  | .failed .disconnect => "failed:disconnect"
  | .failed .closed => "failed:closed"
  | .failed .streamErr => "failed:err"
  | .failed .hup => "failed:hup"
  | .starved => "starved"

def showRRes : RRes → String
  | .pending => "pending"
  | .nil _ => "nil"
  | .buf r => "buf:" ++ (match r with | .full => "full" | .eof => "eof" | .nonchunk => "nonchunk" | .errEvent => "err")
  | .failed c => s!"failed:sys{c}"
  | .starved => "starved"

/-- consume the answers event by event: a new readiness event after every `pending` -/
def flatWrite (len : Nat) (dgram : Bool) : Nat → Nat → List Ans → List Call → (Nat × WRes × List Call)
  | 0, start, _, acc => (start, .starved, acc)
  | fuel + 1, start, as, acc =>
    let o := writeEvent len dgram start as
    match o.res with
    | .pending => if o.rest.isEmpty then (o.start, .pending, acc ++ o.calls) else flatWrite len dgram fuel o.start o.rest (acc ++ o.calls)
    | r => (o.start, r, acc ++ o.calls)

def flatRead (chunk recvfrom : Bool) (base : Nat) : Nat → RSt Nat → List Ans → List Call → (RSt Nat × RRes × List Call)
  | 0, st, _, acc => (st, .starved, acc)
  | fuel + 1, st, as, acc =>
    let o := readLoop chunk recvfrom JanetModel.Gen.Stream.chunkReadLimit base st as
    match o.res with
    | .pending => if o.rest.isEmpty then (o.st, .pending, acc ++ o.calls) else flatRead chunk recvfrom base fuel o.st o.rest (acc ++ o.calls)
    | r => (o.st, r, acc ++ o.calls)


namespace P
open JanetModel.Proc

def parseRedir (t : String) : Option Redir :=
  match t.toList with
  | ['i'] => some .inherit
  | ['p'] => some .pipe
  | ['o'] => some .errToOut
  | 'f' :: r => (String.ofList r).toNat?.map (fun fd => .handle fd true)
  | 's' :: r => (String.ofList r).toNat?.map (fun fd => .handle fd false)
  | _ => none

def parseOptNat (t : String) : Option (Option Nat) :=
  if t == "x" then some none else t.toNat?.map some

def parsePipe (t : String) : Option (Option (Nat × Nat)) :=
  if t == "x" then some none else
  match t.splitOn ":" with
  | [a, b] => match a.toNat?, b.toNat? with
    | some a, some b => some (some (a, b))
    | _, _ => none
  | _ => none

def parseOpen (t : String) : Option (List (Nat × Bool)) :=
  if t == "-" then some [] else
  (t.splitOn ",").foldr (fun x acc =>
    match acc, x.splitOn ":" with
    | some l, [a, c] => match a.toNat? with
      | some a => some ((a, c == "1") :: l)
      | none => none
    | _, _ => none) (some [])

def tabOf (l : List (Nat × Bool)) : Tab := fun x =>
  match l.find? (fun e => e.1 == x) with
  | some e => some ⟨.orig x, e.2⟩
  | none => none

def showObj : Obj → String
  | .orig n => s!"o{n}"
  | .pipeR k => s!"r{k}"
  | .pipeW k => s!"w{k}"

def showTab (t : Tab) (q : List Nat) : String :=
  String.intercalate " " (q.filterMap fun fd => match t fd with
    | some e => some s!"{fd}:{showObj e.obj}:{if e.cloexec then 1 else 0}"
    | none => none)

def showOpt : Option Nat → String
  | some n => toString n
  | none => "x"

def showSys : Sys → String
  | .pipe r w => s!"pipe:{r}:{w}"
  | .pipeFail => "pipefail"
  | .setCloexec fd => s!"cloexec:{fd}"
  | .setNonblock fd => s!"nonblock:{fd}"
  | .dupAbove s r => s!"dupfd:{s}:{showOpt r}"
  | .close fd => s!"close:{fd}"
  | .addDup2 a b => s!"adddup2:{a}:{b}"
  | .addClose a => s!"addclose:{a}"
  | .spawn ok => s!"spawn:{if ok then 1 else 0}"
  | .dup s r => s!"dup:{s}:{showOpt r}"

def showRes : SpawnRes → String
  | .pipesFailed => "pipes-failed"
  | .spawnFailed => "spawn-failed"
  | .procFailed => "proc-failed"
  | .ok p => s!"ok:{if p.ownsIn then 1 else 0}{if p.ownsOut then 1 else 0}{if p.ownsErr then 1 else 0}:{showOpt p.pin}:{showOpt p.pout}:{showOpt p.perr}"

/-- the handles of the run, recomputed the way `osExecute` does, for the `Safe` certificate -/
def run (moves : Bool) (rq : Req) (a : JanetModel.Proc.Ans) (t0 : Tab) (q : List Nat) : String :=
  let r := osExecute moves rq a t0
  let child := match r.child with
    | some c => showTab c q
    | none => "FAILED"
  let lg := String.intercalate "," (r.log.map showSys)
  let safe := match r.plumb with
    | some p => if safeB p r.atSpawn then "1" else "0"
    | none => "-"
  s!"res={showRes r.res} safe={safe} log={lg} child={child} parent={showTab r.parent q}"

end P

namespace L
open JanetModel.Proc

structure LS where
  p : ProcSt
  released : Bool := false
  waiterAlive : Bool := true
  waiterIdx : Option Nat := none      -- index (in `outs`) of the op whose fiber is suspended in the reaper wait
  outs : List String := []            -- REVERSED

def deliver (st : Int) (l : LS) : LS :=
  -- the reaper callback: janet_proc_wait_cb
  let (p', r) := l.p.step (.reaped st l.waiterAlive)
  let tok := match r with
    | .resumed v => s!"val:{v}"
    | _ => "cancelled"
  let outs := match l.waiterIdx with
    | some i => (l.outs.reverse.set i tok).reverse
    | none => l.outs
  { l with p := p', waiterIdx := none, outs := outs }

def op (st : Int) (l : LS) (o : String) : LS :=
  if o == "R" then
    let l := { l with released := true }
    if l.p.waiting then deliver st l else l
  else
    let (p', r) := l.p.step (if o == "c" then .close else .wait)
    let idx := l.outs.length
    match r with
    | .errWaitTwice => { l with p := p', outs := "err" :: l.outs }
    | .nilResult => { l with p := p', outs := "nil" :: l.outs }
    | .suspended =>
      let l := { l with p := p', outs := "pending" :: l.outs, waiterIdx := some idx, waiterAlive := o != "x" }
      if l.released then deliver st l else l
    | _ => { l with p := p', outs := "?" :: l.outs }

def run (st : Int) (ops : List String) : String :=
  let p0 : ProcSt := { owns := (false, true, true), fds := (some 10, some 11, some 12) }
  let l := ops.foldl (op st) { p := p0 }
  let rc := match l.p.returnCode with
    | some v => toString v
    | none => "none"
  String.intercalate " " l.outs.reverse ++ s!" rc={rc} closed={l.p.closedFds.length}"

end L

def showOutcome : JanetModel.Proc.Outcome → String
  | .code n => toString n
  | .panic => "panic"

namespace N
open JanetModel.Stream.Net

def parseTok (t : String) : Option (AEv × Char × Nat) :=
  match t.splitOn ":" with
  | [c, a] =>
    match c.toNat?.bind AEv.ofCode, a.toList with
    | some ev, k :: r => (String.ofList r).toNat?.map (fun n => (ev, k, n))
    | _, _ => none
  | _ => none

def b01 (b : Bool) : String := if b then "1" else "0"

def showC (o : COut) : String :=
  let r := match o.res with
    | .pending => "p"
    | .connected => "ok"
    | .failed .closed => "closed"
    | .failed (.soError r) => s!"so{r}"
    | .failed (.sys e) => s!"sys{e}"
  s!"{r}/{b01 o.toclose}/{b01 o.asked}"

def runC : List String → List String → Option (List String)
  | [], acc => some acc.reverse
  | t :: ts, acc =>
    match parseTok t with
    | some (ev, k, n) =>
      let a : SoAns := if k == 'k' then .ok n else .fail n
      let o := connectStep JanetModel.Gen.Net.connectQuiet JanetModel.Gen.Net.connectClose ev a
      if o.res == .pending then runC ts (showC o :: acc) else some ((showC o :: acc).reverse)
    | none => none

def parseConn (t : String) : Option ConnAns :=
  if t == "-1" then some .eintr else if t == "0" then some .ok else if t == "115" then some .inprogress else t.toNat?.map .err

def runK (ts : List String) : String :=
  match ts.mapM parseConn with
  | some as =>
    let o := connectCall as
    let r := match o.res with
      | .registered => "registered"
      | .raised e => s!"raised{e}"
      | .starved => "starved"
    s!"{r} calls={o.calls} closes={o.closes}"
  | none => "parse-error"

def showA (o : AOut) : String :=
  let r := match o.res with
    | .pending => "p"
    | .accepted _ => "acc"
    | .nil => "nil"
  s!"{r}/{if o.spawned.isSome then "h" else "-"}/{b01 o.asked}"

def runA (loop : Bool) : List String → List String → Option (List String)
  | [], acc => some acc.reverse
  | t :: ts, acc =>
    match parseTok t with
    | some (ev, k, n) =>
      let a : AccAns := if k == 'c' then .conn 1 else .fail n
      let o := acceptStep JanetModel.Gen.Net.acceptTry JanetModel.Gen.Net.acceptClose loop ev a
      if o.res == .pending then runA loop ts (showA o :: acc) else some ((showA o :: acc).reverse)
    | none => none

end N

namespace S
open JanetModel.Stream

def parseDir (c : String) : Option Dir := if c == "r" then some .rd else if c == "w" then some .wr else none

def runS : List String → World → List String → List String
  | [], _, acc => acc.reverse
  | t :: ts, w, acc =>
    match t.toList with
    | ['c'] => runS ts (World.step JanetModel.Gen.Stream.guardsReadSlot JanetModel.Gen.Stream.guardsWriteSlot w .close) ("c" :: acc)
    | 's' :: r =>
      match (String.ofList r).splitOn ":" with
      | [fs, ds] =>
        match fs.toNat?, parseDir ds with
        | some f, some d =>
          let w' := World.step JanetModel.Gen.Stream.guardsReadSlot JanetModel.Gen.Stream.guardsWriteSlot w (.start f d false)
          let tok := if (w.pend f).isSome then "?" else if w'.pend f == some d then "A" else "R"
          runS ts w' (tok :: acc)
        | _, _ => runS ts w ("parse-error" :: acc)
      | _ => runS ts w ("parse-error" :: acc)
    | 'e' :: r =>
      match (String.ofList r).toNat? with
      | some f =>
        match w.pend f with
        | some d =>
          if w.slot d == some f then
            runS ts (World.step JanetModel.Gen.Stream.guardsReadSlot JanetModel.Gen.Stream.guardsWriteSlot w (.ready d true)) ("f" :: acc)
          else runS ts w ("X" :: acc)
        | none => runS ts w ("n" :: acc)
      | none => runS ts w ("parse-error" :: acc)
    | _ => runS ts w ("parse-error" :: acc)

end S

namespace D
def parseAnsList (t : String) : Option (List Ans) := if t == "-" then some [] else parseAnss (t.splitOn ",")
def callsOr (cs : List Call) : String := if cs.isEmpty then "-" else showCalls cs
def showR (o : ROut Nat) : String := s!"{showRRes o.res}/{o.st.read}/{o.st.left}/{o.st.got.length}/{callsOr o.calls}"
def showW (o : WOut) : String := s!"{showWRes o.res}/{o.start}/{callsOr o.calls}"

def runR (chunk : Bool) (base : Nat) : RSt Nat → List String → List String → Option (List String)
  | _, [], acc => some acc.reverse
  | st, w :: a :: rest, acc =>
    match parseAnsList a, (if w == "I" then some 0 else w.toNat?) with
    | some as, some e =>
      let o := if w == "I" then readLoop chunk false JanetModel.Gen.Stream.chunkReadLimit base st as
               else readWord currentTable chunk false JanetModel.Gen.Stream.chunkReadLimit base st ⟨ofEpoll e, as⟩
      match o.res with
      | .pending => runR chunk base o.st rest (showR o :: acc)
      | _ => some (showR o :: acc).reverse
    | _, _ => none
  | _, [_], _ => none

def runW (len : Nat) : Nat → List String → List String → Option (List String)
  | _, [], acc => some acc.reverse
  | start, w :: a :: rest, acc =>
    match parseAnsList a, (if w == "I" then some 0 else w.toNat?) with
    | some as, some e =>
      let o := if w == "I" then writeEvent len false start as else writeWord currentTable len false start ⟨ofEpoll e, as⟩
      match o.res with
      | .pending => runW len o.start rest (showW o :: acc)
      | _ => some (showW o :: acc).reverse
    | _, _ => none
  | _, [_], _ => none
end D

def step (_ : Unit) (toks : List String) : Unit × String :=
  match toks with
  | "L" :: st :: ops =>
    match st.toInt? with
    | some st => ((), L.run st ops)
    | none => ((), "parse-error")
  | ["X", w] =>
    match w.toInt? with
    | some w =>
      ((), s!"gen={showOutcome (JanetModel.Proc.decode JanetModel.Gen.ProcStat.branches w)} model={showOutcome (JanetModel.Proc.decode JanetModel.Proc.modelBranches w)}")
    | none => ((), "parse-error")
  | ["P", sp, ri, ro, re, "|", op, "|", pin, pout, perr, t0, t1, t2, ok, din, dout, derr, "|", qs] =>
    match P.parseRedir ri, P.parseRedir ro, P.parseRedir re, P.parseOpen op, P.parsePipe pin, P.parsePipe pout, P.parsePipe perr with
    | some ri, some ro, some re, some op, some pin, some pout, some perr =>
      match P.parseOptNat t0, P.parseOptNat t1, P.parseOptNat t2, P.parseOptNat din, P.parseOptNat dout, P.parseOptNat derr with
      | some t0, some t1, some t2, some din, some dout, some derr =>
        let q := (qs.splitOn ",").filterMap String.toNat?
        ((), P.run JanetModel.Gen.ProcStat.movesStdSources ⟨sp == "1", ri, ro, re⟩ ⟨pin, pout, perr, t0, t1, t2, ok == "1", din, dout, derr⟩ (P.tabOf op) q)
      | _, _, _, _, _, _ => ((), "parse-error")
    | _, _, _, _, _, _, _ => ((), "parse-error")
  | "S" :: rest => ((), String.intercalate " " (S.runS rest JanetModel.Stream.World.init []))
  | "NK" :: rest => ((), N.runK rest)
  | "NC" :: rest =>
    match N.runC rest [] with
    | some out => ((), String.intercalate " " out)
    | none => ((), "parse-error")
  | "NA" :: lp :: rest =>
    match N.runA (lp == "1") rest [] with
    | some out => ((), String.intercalate " " out)
    | none => ((), "parse-error")
  | "DR" :: ch :: n :: base :: inclen :: rest =>
    match n.toNat?, base.toNat?, inclen.toNat? with
    | some n, some base, some inclen =>
      match D.runR (ch == "1") base (rInit n (List.replicate inclen 0)) rest [] with
      | some out => ((), String.intercalate " " out)
      | none => ((), "parse-error")
    | _, _, _ => ((), "parse-error")
  | "DW" :: _ :: len :: rest =>
    match len.toNat? with
    | some len =>
      match D.runW len 0 rest [] with
      | some out => ((), String.intercalate " " out)
      | none => ((), "parse-error")
    | none => ((), "parse-error")
  | "W" :: len :: dg :: rest =>
    match len.toNat?, parseAnss rest with
    | some len, some as =>
      let (start, r, calls) := flatWrite len (dg == "1") (as.length + 2) 0 as []
      ((), s!"res={showWRes r} start={start} calls={showCalls calls}")
    | _, _ => ((), "parse-error")
  | "R" :: n :: ch :: rf :: base :: inclen :: rest =>
    match n.toNat?, base.toNat?, inclen.toNat?, parseAnss rest with
    | some n, some base, some inclen, some as =>
      let (st, r, calls) := flatRead (ch == "1") (rf == "1") base (as.length + 2) (rInit n (List.replicate inclen 0)) as []
      ((), s!"res={showRRes r} read={st.read} left={st.left} got={st.got.length} calls={showCalls calls}")
    | _, _, _, _ => ((), "parse-error")
  | _ => ((), "parse-error")

def main : IO Unit := runLoop () step
