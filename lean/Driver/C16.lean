/- Line-protocol model driver for C16 (stream read / write state machines).
     W <len> <dgram 0|1> <answers…>                              one write/send/send-to operation
     R <n> <chunk 0|1> <recvfrom 0|1> <base> <inclen> <answers…>  one read/recv/recv-from operation
   answers:  b<k> (k bytes) | a (EAGAIN) | i (EINTR) | e<code> (other errno)
   A readiness event is assumed after every would-block / partial result (the answers are consumed event by event).
   Output:  res=<pending|done|nil|buf|failed:…|starved> start|read=<n> left=<n> calls=<off>:<len>:<got>,…
     X <status word>                                             proc_get_status on one wait-status word (signed decimal)
   Output:  gen=<n|panic> model=<n|panic>     (regenerated expression trees of Gen/ProcStat.lean / the model's glibc shapes)
-/
import Driver.Util
import JanetModel.Stream.Model
import JanetModel.Gen.ProcStat
open Driver JanetModel.Stream

def parseAns (t : String) : Option Ans :=
  match t.toList with
  | ['a'] => some .eagain
  | ['i'] => some .eintr
  | 'b' :: r => (String.ofList r).toNat?.map .bytes
  | 'e' :: r => (String.ofList r).toNat?.map .err
  | _ => none

def parseAnssAux : List String → List Ans → Option (List Ans)
  | [], acc => some acc.reverse
  | t :: ts, acc =>
    match parseAns t with
    | some a => parseAnssAux ts (a :: acc)
    | none => none

def parseAnss (ts : List String) : Option (List Ans) := parseAnssAux ts []

def showCalls (cs : List Call) : String :=
  String.intercalate "," (cs.map fun c => s!"{c.off}:{c.len}:{c.got}")

def showWRes : WRes → String
  | .pending => "pending"
  | .done => "done"
  | .failed (.sys c) => s!"failed:sys{c}"
  | .failed .disconnect => "failed:disconnect"
  | .failed .closed => "failed:closed"
  | .failed .streamErr => "failed:err"
  | .failed .hup => "failed:hup"
  | .starved => "starved"

def showRRes : RRes → String
  | .pending => "pending"
  | .nil _ => "nil"
  | .buf r => "buf:" ++ (match r with | .full => "full" | .eof => "eof" | .nonchunk => "nonchunk" | .errEvent => "err")
  | .failed c => s!"failed:sys{c}"
  | .starved => "starved"

/-- consume the answers event by event: a new readiness event after every `pending` -/
def flatWrite (len : Nat) (dgram : Bool) : Nat → Nat → List Ans → List Call → (Nat × WRes × List Call)
  | 0, start, _, acc => (start, .starved, acc)
  | fuel + 1, start, as, acc =>
    let o := writeEvent len dgram start as
    match o.res with
    | .pending => if o.rest.isEmpty then (o.start, .pending, acc ++ o.calls) else flatWrite len dgram fuel o.start o.rest (acc ++ o.calls)
    | r => (o.start, r, acc ++ o.calls)

def flatRead (chunk recvfrom : Bool) (base : Nat) : Nat → RSt Nat → List Ans → List Call → (RSt Nat × RRes × List Call)
  | 0, st, _, acc => (st, .starved, acc)
  | fuel + 1, st, as, acc =>
    let o := readLoop chunk recvfrom JanetModel.Gen.Stream.chunkReadLimit base st as
    match o.res with
    | .pending => if o.rest.isEmpty then (o.st, .pending, acc ++ o.calls) else flatRead chunk recvfrom base fuel o.st o.rest (acc ++ o.calls)
    | r => (o.st, r, acc ++ o.calls)

def showOutcome : JanetModel.Proc.Outcome → String
  | .code n => toString n
  | .panic => "panic"

def step (_ : Unit) (toks : List String) : Unit × String :=
  match toks with
  | ["X", w] =>
    match w.toInt? with
    | some w =>
      ((), s!"gen={showOutcome (JanetModel.Proc.decode JanetModel.Gen.ProcStat.branches w)} model={showOutcome (JanetModel.Proc.decode JanetModel.Proc.modelBranches w)}")
    | none => ((), "parse-error")
  | "W" :: len :: dg :: rest =>
    match len.toNat?, parseAnss rest with
    | some len, some as =>
      let (start, r, calls) := flatWrite len (dg == "1") (as.length + 2) 0 as []
      ((), s!"res={showWRes r} start={start} calls={showCalls calls}")
    | _, _ => ((), "parse-error")
  | "R" :: n :: ch :: rf :: base :: inclen :: rest =>
    match n.toNat?, base.toNat?, inclen.toNat?, parseAnss rest with
    | some n, some base, some inclen, some as =>
      let (st, r, calls) := flatRead (ch == "1") (rf == "1") base (as.length + 2) (rInit n (List.replicate inclen 0)) as []
      ((), s!"res={showRRes r} read={st.read} left={st.left} got={st.got.length} calls={showCalls calls}")
    | _, _, _, _ => ((), "parse-error")
  | _ => ((), "parse-error")

def main : IO Unit := runLoop () step
