-- line-protocol model driver for C16 (stub)
def main : IO Unit := IO.println "stub C16"
