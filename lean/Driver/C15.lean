-- line-protocol model driver for C15 (stub)
def main : IO Unit := IO.println "stub C15"
