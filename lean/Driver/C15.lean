/- Line-protocol model driver for C15.
     call <tagName> <operand>*      operand = v:<val> (value in a register) | c:<val> (constant slot)
                                    <val> = <int> | nil | true | false | T<id> (table with logging operator methods)
   ->  ops=<JOP_X[:imm]>,...  inline=<outcome>  generic=<outcome>
       outcome = dead=<canonical value>|<method-call log ;-separated>   or   error=<class>|<log>
   `ops` is Spec.emitInline (model of opreduce / compreduce), `inline` is Spec.evalInline, `generic` is Spec.evalGeneric
   (model of the corelib.c templates), all three on the regenerated tables of Gen/Cfuns.lean and the concrete Spec.DP. -/
import Driver.Util
import JanetModel.Spec.Emit
import JanetModel.Spec.CallSite
import JanetModel.Spec.FixedEmit
import JanetModel.Spec.VariadicEmit
import JanetModel.Spec.Snapshot
open Driver JanetModel.Spec JanetModel.Gen.Cfuns JanetModel.Gen.Bytecode JanetModel.Bytecode.VM

def dropFirst (s : String) (k : Nat) : String := String.ofList (s.toList.drop k)

def parseVal (t : String) : Option DV :=
  if t == "nil" then some .nil
  else if t == "true" then some (.bool true)
  else if t == "false" then some (.bool false)
  else if t.startsWith "T" then some (.tab (dropFirst t 1))
  else t.toInt?.map .int

def immOf (v : DV) : Option Int :=
  match v with
  | .int i => if immMin ≤ i ∧ i ≤ immMax then some i else none
  | _ => none

def parseOperand (t : String) : Option (Arg DP × Operand) :=
  if t.startsWith "v:" then (parseVal (dropFirst t 2)).map fun v => (⟨v, none⟩, .reg)
  else if t.startsWith "c:" then (parseVal (dropFirst t 2)).map fun v => (⟨v, immOf v⟩, .const (immOf v))
  else none

def showOutcome (m : List String → Except String DV × List String) : String :=
  match m [] with
  | (.ok v, w) => "dead=" ++ v.canon ++ "|" ++ ";".intercalate w
  | (.error e, w) => "error=" ++ e ++ "|" ++ ";".intercalate w

def showOps (l : List (Op × Option Int)) : String :=
  ",".intercalate (l.map fun (o, i) => match i with | some k => o.cName ++ ":" ++ toString k | none => o.cName)

def handle (toks : List String) : String :=
  match toks with
  | "call" :: tag :: rest =>
    match optimizers.find? (fun r => r.tagName == tag), rest.mapM parseOperand with
    | some r, some ops =>
      match templateOf r.tag, emitInline r (ops.map (·.2)), evalInline DP r (ops.map (·.1)) with
      | some t, some e, some mi =>
        match evalGeneric DP t (ops.map (·.1.v)) with
        | some mg => "ops=" ++ showOps e ++ " inline=" ++ showOutcome mi ++ " generic=" ++ showOutcome mg
        | none => "unmodelled-template"
      | _, _, _ => "unmodelled-row"
    | _, _ => "bad-request"
  | _ => "bad-request"

/-! ### apply / splice: run the modelled emitted code with the full interpreter on a concrete call oracle -/

/-- `A<n>` is an array of the n integers 100.., everything else is not indexed; a call is logged with its arguments -/
def dxView (v : DV) : Option (List DV) :=
  match v with
  | .tab id => if id.startsWith "A" then (dropFirst id 1).toNat?.map (fun n => (List.range n).map (fun (i : Nat) => DV.int (100 + (i : Int)))) else none
  | _ => none

def dxCall (f : DV) (args : List DV) (_ : Nat → Option DV) (w : List String) : Except String (DV × (Nat → Option DV)) × List String :=
  (.ok (.nil, fun _ => none), w ++ [f.canon ++ "(" ++ ",".intercalate (args.map DV.canon) ++ ")"])

def dxErr1 (_ : Op) (_ : List DV) (w : List String) : Except String DV × List String := (.error "unsupported", w)
def dxErr2 (_ : DV) (_ : Nat) (_ : DV) (w : List String) : Except String Unit × List String := (.error "unsupported", w)
def dxNotIndexed (_ : DV) : String := "notindexed"
def dxLoadUp (_ _ : Nat) (_ : List String) : DV := .nil
def dxSetUp (_ _ : Nat) (_ : DV) (w : List String) : List String := w
def dxTypecheck (_ : DV) (_ : Nat) : Option String := none

def DX : CallPrims DP where
  indexedView := dxView
  notIndexed := dxNotIndexed
  call := dxCall
  make := dxErr1
  closure := fun _ => DV.nil
  constant := fun _ => DV.nil
  self := DV.nil
  loadUpvalue := dxLoadUp
  setUpvalue := dxSetUp
  typecheck := dxTypecheck
  putIndex := dxErr2

def runX (code : List Instr) (slots : List DV) : Option (Except String DV × List String) :=
  execX DX (fun _ => false) code (code.length + 2) ⟨slots, [], 0⟩ ([] : List String)

def showRun (code : List Instr) (slots : List DV) : String :=
  let ops := ",".intercalate (code.map fun i => i.op.cName)
  match runX code slots with
  | some (.ok _, w) => "ops=" ++ ops ++ " out=" ++ ";".intercalate w
  | some (.error e, w) => "ops=" ++ ops ++ " out=error:" ++ e ++ ";".intercalate w
  | none => "ops=" ++ ops ++ " out=stuck"

def handleCall (toks : List String) : Option String :=
  match toks with
  | "apply" :: mode :: last :: lead =>
    match parseVal last, lead.mapM parseVal with
    | some lv, some lvs =>
      let n := lvs.length
      let regs := (List.range n).map (· + 1)
      let tail : Option Nat := if mode == "tail" then none else some (n + 2)
      let code := emitApply 0 regs (n + 1) tail ++ (if mode == "tail" then [] else [mkD .return (n + 2)])
      some (showRun code ([DV.meth "f"] ++ lvs ++ [lv, .nil]))
    | _, _ => some "bad-request"
  | "splice" :: pattern :: vals =>
    match vals.mapM parseVal with
    | some vs =>
      if pattern.length != vs.length then some "bad-request" else
      let args : List SArg := (pattern.toList.zipIdx).map fun (c, i) => ⟨i + 1, c == 's'⟩
      some (showRun (emitGenericCall 0 args none) ([DV.meth "f"] ++ vs))
    | none => some "bad-request"
  | _ => none

/-! ### fixed-arity specialisations: the instruction list `Spec.emitShape` gives for a call with its operands in registers 0..n-1,
     target register n (`alias`: the last operand is in register n too), scratch register n + 1 -/

/-- operands of an instruction as `disasm` prints them, by operand layout -/
def instrFields (i : Instr) : List Int :=
  match Op.itype i.op with
  | .s => [i.D]
  | .l => [i.DS]
  | .ss | .su | .st | .sc | .sd => [i.A, i.E]
  | .sl | .si => [(i.A : Int), i.ES]
  | .sss | .ssu | .ses => [i.A, i.B, i.C]
  | .ssi => [(i.A : Int), (i.B : Int), i.CS]
  | .none_ => []

def showInstr (i : Instr) : String := ":".intercalate (i.op.cName :: (instrFields i).map toString)

def handleFixed (toks : List String) : Option String :=
  match toks with
  | ["fixed", tag, mode, ns] =>
    match optimizers.find? (fun r => r.tagName == tag), ns.toNat? with
    | some r, some n =>
      match shapeOf r with
      | some sh =>
        if !guardOk r.guard n then some "not-admitted" else
        -- alias: the last operand lives in register n (a variable initialised from parameter n-1), which is also the target
        let regs := if mode == "alias" then List.range (n - 1) ++ [n] else List.range n
        match emitShape sh n regs (n + 1) with
        | some seg => some ("ops=" ++ ",".intercalate (seg.map showInstr))
        | none => some "no-emit-model"
      | none => some "no-shape"
    | _, _ => some "bad-request"
  | _ => none

/-! ### variadic arithmetic: the full instruction chain `Spec.emitOpreduceCode` gives when the k-th register operand is parameter register k,
     every constant operand is an immediate, and the target is the first free register -/

def handleChain (toks : List String) : Option String :=
  match toks with
  | "chain" :: tag :: rest =>
    match optimizers.find? (fun r => r.tagName == tag), rest.mapM parseOperand with
    | some r, some ops =>
      match r.handler with
      | .opreduce op opim _ _ =>
        let kinds := ops.map (·.2)
        let nregs := (kinds.filter (· == .reg)).length
        let step := fun (acc : List RArg × Nat × Bool) (k : Operand) =>
          match k with
          | .reg => (acc.1 ++ [RArg.reg acc.2.1], acc.2.1 + 1, acc.2.2)
          | .const (some i) => (acc.1 ++ [RArg.imm i], acc.2.1, acc.2.2 && opim.isSome)
          | .const none => (acc.1, acc.2.1, false)
        let (rargs, _, ok) := kinds.foldl step ([], 0, true)
        match ok, rargs with
        | true, .reg a0 :: y :: more => some ("code=" ++ ",".intercalate ((emitOpreduceCode op opim nregs a0 y more).map showInstr))
        | _, _ => some "code=-"
      | .compreduce op opim invert =>
        let kinds := ops.map (·.2)
        let nregs := (kinds.filter (· == .reg)).length
        -- first and middle operands registers (parameter k = register k), the last a register or an immediate
        let front := kinds.dropLast
        match kinds.getLast?, front.all (· == .reg), front.length with
        | some lastK, true, k + 1 =>
          let lastArg : Option RArg := match lastK with
            | .reg => some (.reg (k + 1))
            | .const (some i) => if opim.isSome then some (.imm i) else none
            | .const none => none
          match lastArg with
          | some la => some ("code=" ++ ",".intercalate ((emitCompreduceCode op opim invert nregs 0 ((List.range k).map (· + 1)) la).map showInstr))
          | none => some "code=-"
        | _, _, _ => some "code=-"
      | _ => some "code=-"
    | _, _ => some "bad-request"
  | _ => none

/-! ### variadic arithmetic with `var` operands: `snapchain <tagName> <kind>*`, kind = v (parameter register) | m (a `var` local initialised
     from a parameter) | c:<int> (constant).  Parameters live in registers 0..np-1 in operand order, the j-th `var` in register np+j, the fresh
     snapshot registers follow, the target is the next register: the code `Spec.emitOpreduceSnap` gives (what `opreduce` emits, without the
     `movn` of the `(var ..)` forms in front and the `ret` behind) -/

def handleSnap (toks : List String) : Option String :=
  match toks with
  | "snapchain" :: tag :: kinds =>
    match optimizers.find? (fun r => r.tagName == tag) with
    | some r =>
      match r.handler with
      | .opreduce op opim _ _ =>
        let np := (kinds.filter (fun k => k == "v" || k == "m")).length
        let nm := (kinds.filter (· == "m")).length
        let step := fun (acc : List MArg × Nat × Nat × Bool) (k : String) =>
          let (out, pi, vj, ok) := acc
          if k == "v" then (out ++ [MArg.reg pi false], pi + 1, vj, ok)
          else if k == "m" then (out ++ [MArg.reg (np + vj) true], pi + 1, vj + 1, ok)
          else if k.startsWith "c:" then
            match (dropFirst k 2).toInt? with
            | some i => (out ++ [MArg.imm i], pi, vj, ok && opim.isSome && immMin ≤ i && i ≤ immMax)
            | none => (out, pi, vj, false)
          else (out, pi, vj, false)
        let (margs, _, _, ok) := kinds.foldl step ([], 0, 0, true)
        match ok, margs with
        | true, .reg a0 _ :: y :: more =>
          let free := np + nm
          let t := free + nmut more
          some ("code=" ++ ",".intercalate ((emitOpreduceSnap op opim free t a0 y.plain more).map showInstr) ++ " target=" ++ toString t)
        | _, _ => some "code=-"
      | _ => some "code=-"
    | none => some "bad-request"
  | _ => none

def main : IO Unit := runLoop () (fun s toks => (s, (handleSnap toks).getD ((handleChain toks).getD ((handleFixed toks).getD ((handleCall toks).getD (handle toks))))))
