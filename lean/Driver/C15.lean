/- Line-protocol model driver for C15.
     call <tagName> <operand>*      operand = v:<val> (value in a register) | c:<val> (constant slot)
                                    <val> = <int> | nil | true | false | T<id> (table with logging operator methods)
   ->  ops=<JOP_X[:imm]>,...  inline=<outcome>  generic=<outcome>
       outcome = dead=<canonical value>|<method-call log ;-separated>   or   error=<class>|<log>
   `ops` is Spec.emitInline (model of opreduce / compreduce), `inline` is Spec.evalInline, `generic` is Spec.evalGeneric
   (model of the corelib.c templates), all three on the regenerated tables of Gen/Cfuns.lean and the concrete Spec.DP. -/
import Driver.Util
import JanetModel.Spec.Emit
open Driver JanetModel.Spec JanetModel.Gen.Cfuns JanetModel.Gen.Bytecode JanetModel.Bytecode.VM

def dropFirst (s : String) (k : Nat) : String := String.ofList (s.toList.drop k)

def parseVal (t : String) : Option DV :=
  if t == "nil" then some .nil
  else if t == "true" then some (.bool true)
  else if t == "false" then some (.bool false)
  else if t.startsWith "T" then some (.tab (dropFirst t 1))
  else t.toInt?.map .int

def immOf (v : DV) : Option Int :=
  match v with
  | .int i => if immMin ≤ i ∧ i ≤ immMax then some i else none
  | _ => none

def parseOperand (t : String) : Option (Arg DP × Operand) :=
  if t.startsWith "v:" then (parseVal (dropFirst t 2)).map fun v => (⟨v, none⟩, .reg)
  else if t.startsWith "c:" then (parseVal (dropFirst t 2)).map fun v => (⟨v, immOf v⟩, .const (immOf v))
  else none

def showOutcome (m : List String → Except String DV × List String) : String :=
  match m [] with
  | (.ok v, w) => "dead=" ++ v.canon ++ "|" ++ ";".intercalate w
  | (.error e, w) => "error=" ++ e ++ "|" ++ ";".intercalate w

def showOps (l : List (Op × Option Int)) : String :=
  ",".intercalate (l.map fun (o, i) => match i with | some k => o.cName ++ ":" ++ toString k | none => o.cName)

def handle (toks : List String) : String :=
  match toks with
  | "call" :: tag :: rest =>
    match optimizers.find? (fun r => r.tagName == tag), rest.mapM parseOperand with
    | some r, some ops =>
      match templateOf r.tag, emitInline r (ops.map (·.2)), evalInline DP r (ops.map (·.1)) with
      | some t, some e, some mi =>
        match evalGeneric DP t (ops.map (·.1.v)) with
        | some mg => "ops=" ++ showOps e ++ " inline=" ++ showOutcome mi ++ " generic=" ++ showOutcome mg
        | none => "unmodelled-template"
      | _, _, _ => "unmodelled-row"
    | _, _ => "bad-request"
  | _ => "bad-request"

def main : IO Unit := runLoop () (fun s toks => (s, handle toks))
