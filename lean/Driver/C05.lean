/- Line-protocol model driver for C05 (fiber / signal protocol).
    tree <flags|-> <fuel> <term tokens…>   -> "<event>;<event>;… | <halt> | <steps>"
   Term syntax: see harness/C05/gen.py (prefix notation); macros (M…) are expanded with Fiber/Boot.lean. -/
import Driver.Util
import JanetModel.Fiber.Boot
import JanetModel.Fiber.Guard
import JanetModel.Fiber.Sched
import JanetModel.Fiber.GuardSched
import JanetModel.Fiber.Named
open Driver JanetModel.Fiber

def parseAtom (t : String) : Atom :=
  if t == "n" then .lit .nil
  else if t == "T" then .lit (.bool true)
  else if t == "F" then .lit (.bool false)
  else
    let r := (t.drop 1).toString
    match t.front with
    | 'i' => .lit (.int (r.toInt?.getD 0))
    | 'k' => .lit (.kw r)
    | 'v' => .var (r.toNat?.getD 0)
    | 'g' => .glob (r.toNat?.getD 0)
    | _ => .lit .nil

def num (t : String) : Nat := t.toNat?.getD 0
def flagsOf (t : String) : List Nat := if t == "-" then [] else t.toList.map Char.toNat

def parsePrim : List String → Option (Prim × List String)
  | "pure" :: a :: r => some (.pure (parseAtom a), r)
  | "pair" :: a :: b :: r => some (.pair (parseAtom a) (parseAtom b), r)
  | "fst" :: a :: r => some (.fst (parseAtom a), r)
  | "snd" :: a :: r => some (.snd (parseAtom a), r)
  | "status" :: a :: r => some (.status (parseAtom a), r)
  | "yield" :: a :: r => some (.yield (parseAtom a), r)
  | "signal" :: n :: a :: r => some (.signal (num n) (parseAtom a), r)
  | "error" :: a :: r => some (.error (parseAtom a), r)
  | "debug" :: a :: r => some (.debug (parseAtom a), r)
  | "resume" :: f :: a :: r => some (.resume (parseAtom f) (parseAtom a), r)
  | "cancel" :: f :: a :: r => some (.cancel (parseAtom f) (parseAtom a), r)
  | "propagate" :: a :: f :: r => some (.propagate (parseAtom a) (parseAtom f), r)
  | "next" :: f :: r => some (.next (parseAtom f), r)
  | "last" :: f :: r => some (.last (parseAtom f), r)
  | "setdyn" :: k :: a :: r => some (.setdyn (num k) (parseAtom a), r)
  | "dyn" :: k :: r => some (.dyn (num k), r)
  | _ => none

partial def parseTm : List String → Option (Tm × List String)
  | "R" :: a :: r => some (.ret (parseAtom a), r)
  | "I" :: a :: b :: r => do
    let (t, r) ← parseTm r
    let (e, r) ← parseTm r
    pure (.ite (parseAtom a) (parseAtom b) t e, r)
  | "P" :: l :: r => do
    let (p, r) ← parsePrim r
    let (k, r) ← parseTm r
    pure (.prim (num l) p k, r)
  | "Np" :: l :: a :: m :: rs :: fl :: r => do
    let (b, r) ← parseTm r
    let (k, r) ← parseTm r
    pure (.newp (num l) { arity := num a, minArity := num m, rest := num rs } b (flagsOf fl) k, r)
  | "N" :: l :: fl :: r => do
    let (b, r) ← parseTm r
    let (k, r) ← parseTm r
    pure (.new (num l) b (flagsOf fl) k, r)
  | "B" :: l :: r => do
    let (t, r) ← parseTm r
    let (k, r) ← parseTm r
    pure (.block (num l) t k, r)
  | "C" :: l :: r => do
    let (t, r) ← parseTm r
    let (k, r) ← parseTm r
    pure (.ccall (num l) t k, r)
  | "E" :: l :: f :: r => do
    let (b, r) ← parseTm r
    let (k, r) ← parseTm r
    pure (.each (num l) (parseAtom f) b k, r)
  | "S" :: r => do
    let (t, r) ← parseTm r
    let (k, r) ← parseTm r
    pure (.seq t k, r)
  | "Mdefer" :: n :: l :: r => do
    let (f, r) ← parseTm r
    let (b, r) ← parseTm r
    let (k, r) ← parseTm r
    pure (deferTm (num n) (num l) f b k, r)
  | "Medefer" :: n :: l :: r => do
    let (f, r) ← parseTm r
    let (b, r) ← parseTm r
    let (k, r) ← parseTm r
    pure (edeferTm (num n) (num l) f b k, r)
  | "Mtry" :: n :: l :: r => do
    let (b, r) ← parseTm r
    let (c, r) ← parseTm r
    let (k, r) ← parseTm r
    pure (tryTm (num n) (num l) b c k, r)
  | "Mprotect" :: n :: l :: r => do
    let (b, r) ← parseTm r
    let (k, r) ← parseTm r
    pure (protectTm (num n) (num l) b k, r)
  | "Mwith" :: n :: l :: r => do
    let (p, r) ← parsePrim r
    let (d, r) ← parseTm r
    let (b, r) ← parseTm r
    let (k, r) ← parseTm r
    pure (withTm (num n) (num l) p d b k, r)
  | "Mprompt" :: n :: l :: tag :: r => do
    let (b, r) ← parseTm r
    let (k, r) ← parseTm r
    pure (promptTm (num n) (num l) tag b k, r)
  | "Mreturn" :: n :: l :: tag :: a :: r => do
    let (k, r) ← parseTm r
    pure (returnTm (num n) (num l) tag (parseAtom a) k, r)
  | "Mgen" :: n :: l :: c :: r => do
    let (b, r) ← parseTm r
    let (k, r) ← parseTm r
    pure (generateTm (num n) (num l) (num c) b k, r)
  | "Mcoro" :: l :: r => do
    let (b, r) ← parseTm r
    let (k, r) ← parseTm r
    pure (coroTm (num l) b k, r)
  | "Mdyns" :: n :: l :: key :: a :: r => do
    let (b, r) ← parseTm r
    let (k, r) ← parseTm r
    pure (withDynsTm (num n) (num l) (num key) (parseAtom a) b k, r)
  | _ => none

def hexd (n : Nat) : Char := hexDigit (n % 16)

partial def showVal : Val → String
  | .nil => "nil"
  | .bool b => if b then "true" else "false"
  | .int n => toString n
  | .str s => "\"" ++ s.replace " " "_" ++ "\""
  | .kw s => ":" ++ s
  | .fib f => "F" ++ toString f
  | .pair a b => "(" ++ showVal a ++ "," ++ showVal b ++ ")"
  | .unit => "()"
  | .single a => "(" ++ showVal a ++ ")"
  | .estruct => "?struct"

def showSnap (xs : List Nat) : String := String.ofList (xs.map hexd)

def showEvent (e : Event) : String := s!"{e.l}:{e.fid}:{showVal e.v}:{showSnap e.snap}"

def showHalt (s : State) : String :=
  match s.halt with
  | none => "running"
  | some (.done sig v) => s!"done {sig} {showVal v} {showSnap s.snapshot}"
  | some .hang => "hang"
  | some (.unmodelled w) => "unmodelled " ++ w.replace " " "_"
  | some (.bad w) => "bad " ++ w.replace " " "_"

def countSteps : Nat → Nat → State → Nat × State
  | 0, n, s => (n, s)
  | f + 1, n, s => match s.halt with
    | some _ => (n, s)
    | none => countSteps f (n + 1) (step s)

/-- events of the guard pass carry janet_vm.stackn (relative to the tree's root fiber) -/
def showEventG (e : Event) : String := s!"{e.l}:{e.fid}:{showVal e.v}:{showSnap e.snap}/{e.depth}"

def countStepsG (after : Bool) (lim : Nat) : Nat → Nat → State → Nat × State
  | 0, n, s => (n, s)
  | f + 1, n, s => match s.halt with
    | some _ => (n, s)
    | none => countStepsG after lim f (n + 1) (stepG after lim s)

/-- task mode: the event loop's dispatches after the first run; `c:<atom>` = ev/cancel, `r:<atom>` = ev/go -/
def parseActs (t : String) : List (Nat × Val) :=
  if t == "-" then [] else
    (t.splitOn ",").map fun a =>
      let v := match parseAtom ((a.drop 2).toString) with | .lit x => x | _ => .nil
      (if a.front == 'c' then JanetModel.Gen.Fiber.sigError else JanetModel.Gen.Fiber.sigOk, v)

/-- a task that hands JANET_SIGNAL_EVENT (13) / JANET_SIGNAL_INTERRUPT (12) to the loop is waiting for an event / is an
    interrupt request: that is the loop's business (C06 / C07 / C20), not modelled here -/
def loopSpecial (s : State) : State :=
  match s.halt with
  | some (.done sig _) => if sig == 12 || sig == 13 then s.stop (.unmodelled "task signalled event / interrupt to the loop") else s
  | _ => s

def runActs (fuel : Nat) : List (Nat × Val) → Nat × State → Nat × State
  | [], (n, s) => (n, loopSpecial s)
  | (sig, v) :: as, (n, s) =>
    match (loopSpecial s).halt with
    | some (.done _ _) => runActs fuel as (countSteps fuel n (loopEnter s 1 v sig))
    | _ => (n, loopSpecial s)

/-- task mode WITH the guard: guarded instructions between dispatches, `loopEnterG` for the dispatches (Fiber/GuardSched.lean) -/
def runActsG (lim fuel : Nat) : List (Nat × Val) → Nat × State → Nat × State
  | [], (n, s) => (n, loopSpecial s)
  | (sig, v) :: as, (n, s) =>
    match (loopSpecial s).halt with
    | some (.done _ _) => runActsG lim fuel as (countStepsG true lim fuel n (loopEnterG lim s 1 v sig))
    | _ => (n, loopSpecial s)

def showTaskEnd (s : State) : String :=
  match s.halt, s.fiber? 1 with
  | some (.done _ _), some f1 =>
    s!"done {f1.status} {showVal f1.last} {showSnap (JanetModel.Gen.Fiber.stAlive :: s.snapshot.drop 1)}"
  | _, _ => showHalt s

def stepLine (_ : Unit) (toks : List String) : Unit × String :=
  match toks with
  | ["named", a, m, v, keys] =>
    let v0 := match parseAtom v with | .lit x => x | _ => .nil
    match firstResumeNamed (num a) (num m) (if keys == "-" then [] else keys.splitOn ",") v0 with
    | .error e => ((), "err " ++ e.replace " " "_")
    | .ok (ps, ns) => ((), "ok " ++ String.intercalate "," ((ps ++ ns).map showVal))
  | "stree" :: fl :: fuel :: a :: m :: rs :: v :: acts :: r =>
    match parseTm r with
    | some (t, []) =>
      let v0 := match parseAtom v with | .lit x => x | _ => .nil
      let (n, s) := runActs (num fuel) (parseActs acts)
        (countSteps (num fuel) 0 (initTask t (flagsOf fl) { arity := num a, minArity := num m, rest := num rs } v0))
      ((), String.intercalate ";" (s.trace.reverse.map showEvent) ++ " | " ++ showTaskEnd s ++ " | " ++ toString n)
    | _ => ((), "bad-op parse")
  | "gstree" :: lim :: fl :: fuel :: a :: m :: rs :: v :: acts :: r =>
    match parseTm r with
    | some (t, []) =>
      let v0 := match parseAtom v with | .lit x => x | _ => .nil
      let (n, s) := runActsG (num lim) (num fuel) (parseActs acts)
        (countStepsG true (num lim) (num fuel) 0 (initTask t (flagsOf fl) { arity := num a, minArity := num m, rest := num rs } v0))
      ((), String.intercalate ";" (s.trace.reverse.map showEventG) ++ " | " ++ showTaskEnd s ++ " | " ++ toString n)
    | _ => ((), "bad-op parse")
  | "gtree" :: after :: lim :: fl :: fuel :: a :: m :: rs :: v :: r =>
    match parseTm r with
    | some (t, []) =>
      let v0 := match parseAtom v with | .lit x => x | _ => .nil
      let (n, s) := countStepsG (after == "1") (num lim) (num fuel) 0 (initp t (flagsOf fl) { arity := num a, minArity := num m, rest := num rs } v0)
      ((), String.intercalate ";" (s.trace.reverse.map showEventG) ++ " | " ++ showHalt s ++ " | " ++ toString n)
    | _ => ((), "bad-op parse")
  | "tree" :: fl :: fuel :: a :: m :: rs :: v :: r =>
    match parseTm r with
    | some (t, []) =>
      let v0 := match parseAtom v with | .lit x => x | _ => .nil
      let (n, s) := countSteps (num fuel) 0 (initp t (flagsOf fl) { arity := num a, minArity := num m, rest := num rs } v0)
      ((), String.intercalate ";" (s.trace.reverse.map showEvent) ++ " | " ++ showHalt s ++ " | " ++ toString n)
    | _ => ((), "bad-op parse")
  | _ => ((), "bad-op")

def main : IO Unit := runLoop () stepLine
