-- line-protocol model driver for C05 (stub)
def main : IO Unit := IO.println "stub C05"
