/- Line-protocol model driver for C11 (parser + %j printer).  Mirrors harness/C11/pharness.c op for op.
     case <hexbytes|-> <op,op,...> <tokhex=res,tokhex=res,...|->   ->  "<events>| <trace>| <token scans>"
     jdn <term tokens...>                                           ->  hex of the %j text | refused | skip
     rtm <term tokens...>                                           ->  the statement of Props.C11.jdn_roundtrip evaluated on the model:
                                                                        ok <hex> | refused | hyp:dict | MISMATCH ... | skip
-/
import Driver.Util
import JanetModel.Parse.Model
import JanetModel.PP.Jdn
import JanetModel.Parse.Sm
import JanetModel.Parse.Cap
import JanetModel.Parse.Phys
open Driver JanetModel.Parse JanetModel.PP JanetModel.Gen.Parse

def hexOfB (bs : List B) : String := hexOfBytes (bs.map (·.toNat))

def lowerHexNat (n : Nat) : String := String.ofList (Nat.toDigits 16 n)

/-- canonical value printer; same format as `canon` in pharness.c -/
partial def canon (sm : Bool) : Value → String
  | .nil => "nil"
  | .bool true => "true"
  | .bool false => "false"
  | .num t => t
  | .str b => "s" ++ hexOfB b
  | .sym b => "y" ++ hexOfB b
  | .kw b => "k" ++ hexOfB b
  | .buf b => "b" ++ hexOfB b
  | .tuple br l c items =>
    let parts := (if sm then [(if l == smNone then "-1" else toString l) ++ ":" ++ (if c == smNone then "-1" else toString c)] else []) ++ items.map (canon sm)
    (if br then "[" else "(") ++ " ".intercalate parts ++ (if br then "]" else ")")
  | .array items => "@[" ++ " ".intercalate (items.map (canon sm)) ++ "]"
  | .struct ks vs => "{" ++ dict sm ks vs ++ "}"
  | .table ks vs => "@{" ++ dict sm ks vs ++ "}"
where
  dict (sm : Bool) (ks vs : List Value) : String :=
    let ents := (ks.zip vs).map (fun kv => (canon false kv.1 ++ "\x01" ++ canon sm kv.1 ++ " " ++ canon sm kv.2, canon sm kv.1 ++ " " ++ canon sm kv.2))
    let sorted := ents.toArray.qsort (fun a b => a.1 < b.1)
    " ".intercalate (sorted.toList.map (·.2))

def sanitize (s : String) : String :=
  String.ofList (s.toList.map (fun ch => if ch.toNat > 32 && ch.toNat < 127 && ch != '|' then ch else '_'))

/- `p` / `caps` / `sgen` / `fault` are the state of the PHYSICAL machine (`Parse/Phys.lean`): consume, eof, produce, flush and error
   run on it (`DRun.mp` / `DRun.setM`); as do clone, `parser/insert` and `parser/state` (`cloneM`, `insertM`, `stateDelimsM`): every parser operation of a run goes through the
   machine; a failed memory check prints PHYS-FAULT into the `i` dump, which the harness compares. -/
structure DRun where
  p : Parser
  caps : Caps
  sgen : Nat
  fault : Bool
  bytes : Array B
  pos : Nat
  eofoff : Nat
  rawerr : Bool
  nvalues : Nat
  ev : Array String
  tr : Array String
  numlog : Array String

abbrev Scan := List B → Option String

def DRun.mp (r : DRun) : MP := MP.ofParts r.p r.caps r.sgen r.fault
def DRun.setM (r : DRun) (m : MP) : DRun := { r with p := m.p, caps := m.k, sgen := m.sgen, fault := m.fault }

def DRun.label (r : DRun) : Nat := r.pos + r.eofoff

def trStatus (r : DRun) (key : String) : DRun :=
  { r with tr := r.tr.push s!"@{r.label}:{key}={(status r.p).name}" }

def trWhere (r : DRun) (key : String) : DRun :=
  { r with tr := r.tr.push s!"@{r.label}:{key}={r.p.line}:{r.p.column}" }

def smStr (n : Nat) : String := if n == smNone then "-1" else toString n

def produce1 (r : DRun) (wrapped : Bool) : DRun :=
  if wrapped then
    match produceWrappedM r.mp with
    | (some (.tuple _ l c [v]), m) =>
      { r.setM m with tr := r.tr.push s!"@wrap#{r.nvalues}={smStr l}:{smStr c}", ev := r.ev.push ("v:" ++ canon true v), nvalues := r.nvalues + 1 }
    | (_, m) => { r.setM m with ev := r.ev.push "v:BADWRAP" }
  else
    match produceM r.mp with
    | (some v, m) => { r.setM m with ev := r.ev.push ("v:" ++ canon true v), nvalues := r.nvalues + 1 }
    | (none, m) => { r.setM m with ev := r.ev.push ("v:nil"), nvalues := r.nvalues + 1 }

def drainD (r : DRun) : DRun := Id.run do
  let mut r := r
  let mut k := 0
  for _ in [0:r.p.pending + 1] do
    if hasMore r.p then
      r := produce1 r (k % 2 == 1)
      k := k + 1
  return r

def handleErrorD (r : DRun) : DRun :=
  let r := trStatus r "es"
  let r := { r with tr := r.tr.push s!"@{r.label}:ef={r.p.flag}" }
  let r := trWhere r "ew"
  let r := if r.rawerr then r else drainD r
  let r := trStatus r "es2"
  let (e, m) := takeErrorM r.mp
  let r := { r.setM m with ev := r.ev.push ("e:" ++ (match e with | some m => sanitize m | none => "NOT-A-STRING") ++ s!"@{r.label}") }
  let r := trStatus r "es3"
  let (e2, m2) := takeErrorM r.mp
  { r.setM m2 with ev := if e2.isSome then r.ev.push "e:SECOND-ERROR" else r.ev }

def trPanic (r : DRun) (key msg : String) : DRun :=
  { r with tr := r.tr.push s!"@{r.label}:{key}=panic:{sanitize msg}" }

/-- the scan the real `tokenchar` performs when byte `c` ends a number-looking token -/
def logScan (scan : Scan) (r : DRun) (c : B) : DRun :=
  match r.p.states with
  | top :: _ =>
    if top.consumer == .tokenchar && !isSymbolChar c then
      let b0 := r.p.buf.headD 0
      let startNum := (48 ≤ b0.toNat && b0.toNat ≤ 57) || b0 == 45 || b0 == 43 || b0 == 46
      if startNum && b0 != 58 then
        { r with numlog := r.numlog.push (hexOfB r.p.buf ++ "=" ++ (match scan r.p.buf with | some t => t | none => "x")) }
      else r
    else r
  | [] => r

/-- one byte through janet_parser_consume (no dead check here) + status check + error protocol -/
def byteD (scan : Scan) (r : DRun) (c : B) : DRun :=
  let r := logScan scan r c
  let r := { r.setM (consumeRawM scan r.mp c) with pos := r.pos + 1 }
  if (status r.p) == .error then handleErrorD r else r

def opFeed (scan : Scan) (r : DRun) (n : Nat) (key : String) : DRun := Id.run do
  let stop := min (r.pos + n) r.bytes.size
  let mut r := r
  for _ in [0:n] do
    if r.pos < stop then
      if key == "j" then
        let st := status r.p
        if st == .dead || st == .error then
          r := { r with tr := r.tr.push s!"@{r.label}:j={st.name}", pos := stop }
        else r := byteD scan r (r.bytes[r.pos]!)
      else
        match checkDead r.p with
        | some msg => r := { trPanic r key msg with pos := stop }
        | none => r := byteD scan r (r.bytes[r.pos]!)
  return r

def trState (r : DRun) : DRun :=
  let fr := r.p.states.reverse
  let per := String.join (fr.map (fun s => s!":{frameType s},{s.line},{s.column}"))
  { r with tr := r.tr.push (s!"@{r.label}:t={fr.length}:" ++ hexOfB (delimiters r.p) ++ per) }

def consName : Consumer → String
  | .root => "root" | .tokenchar => "tok" | .stringchar => "str" | .escape1 => "esc1" | .escapeh => "esch" | .escapeu => "escu"
  | .longstring => "long" | .comment => "cmt" | .atsign => "at"

def trInternals (r : DRun) : DRun :=
  let p := r.p
  let fr := p.states.reverse
  let n := fr.length
  let per := String.join ((fr.zip (List.range n)).map (fun (s, i) =>
    let argn : Int := if i == 0 then (s.argn : Int) - (p.pending : Int) else (s.argn : Int)
    s!":{consName s.consumer},{lowerHexNat s.flags},{s.counter},{argn},{s.line},{s.column}"))
  { r with tr := (r.tr.push (s!"@{r.label}:i={p.line}:{p.column}:{p.lookback}:{p.flag}:{n}:{p.buf.length}:" ++ hexOfB p.buf ++ per ++
      s!":a{(p.args.length : Int) - (p.pending : Int)}" ++ (if r.fault then ":PHYS-FAULT" else ""))).push s!"cap:{r.caps.buf},{r.caps.states},{r.caps.args}" }

def opEof (scan : Scan) (r : DRun) : DRun :=
  match checkDead r.p with
  | some msg => trPanic r "E" msg
  | none =>
    let r := logScan scan r 10
    let r := { r.setM (eofM scan r.mp) with eofoff := 1000000 }
    let r := if status r.p == .error then handleErrorD r else r
    trStatus r "E"

def runOp (scan : Scan) (r : DRun) (op : Char) (n : Nat) : DRun :=
  match op with
  | 'c' => opFeed scan r n "c"
  | 'C' => opFeed scan r n "c"
  | 'u' => opFeed scan r n "c"
  | 'b' => opFeed scan r n "b"
  | 'j' => opFeed scan r n "j"
  | 'k' => r.setM (cloneM r.mp)
  | 'K' => r
  | 's' => trStatus r "s"
  | 'w' => trWhere r "w"
  | 't' =>
    -- `parser/state`: the delimiters come from the physical run of parser_state_delimiters (pushed behind the scratch contents)
    let (ds, m) := stateDelimsM r.mp
    let r := r.setM m
    let fr := r.p.states.reverse
    let per := String.join (fr.map (fun s => s!":{frameType s},{s.line},{s.column}"))
    { r with tr := r.tr.push (s!"@{r.label}:t={fr.length}:" ++ hexOfB ds ++ per) }
  | 'i' => trInternals r
  | 'h' => { r with tr := r.tr.push (if hasMore r.p then "h=1" else "h=0") }
  | 'p' => if hasMore r.p then produce1 r false else { r with tr := r.tr.push "p=nil" }
  | 'P' => if hasMore r.p then produce1 r true else { r with tr := r.tr.push "P=none" }
  | 'D' => drainD r
  | 'e' =>
    let (e, m) := takeErrorM r.mp
    { r.setM m with tr := r.tr.push (s!"@{r.label}:e=" ++ (if e.isSome then "NOTNIL" else "nil")) }
  | 'f' => let r := drainD r; r.setM (flushM r.mp)
  | 'F' => r.setM (flushM r.mp)
  | 'R' => { r with rawerr := true }
  | 'I' =>
    let (v, vs) : Value × List B := match n % 5 with
      | 0 => (.str (strBytes "ins"), strBytes "ins")
      | 1 => (.kw (strBytes "k"), strBytes "k")
      | 2 => (.nil, [])
      | 3 => (.bool true, strBytes "true")
      | _ => (.sym (strBytes "sy"), strBytes "sy")
    -- the token that `parser/insert` finishes first may be a number: log that scan like the harness does
    let r := match r.p.states with
      | top :: _ => if top.consumer == Consumer.tokenchar && (checkDead r.p).isNone then logScan scan r 32 else r
      | [] => r
    match insertM scan r.mp v vs with
    | (m, some msg) => let r := trPanic (r.setM m) "I" msg; if status r.p == .error then handleErrorD r else r
    | (m, none) => let r := r.setM m; if status r.p == .error then handleErrorD r else r
  | 'L' =>
    match setWhere r.p (some (Int.ofNat n)) none with
    | .error msg => trPanic r "L" msg
    | .ok p => { r with p := p, tr := r.tr.push s!"@{r.label}:L={p.line}:{p.column}" }
  | 'M' =>
    match setWhere r.p (some 7) (some (Int.ofNat n)) with
    | .error msg => trPanic r "L" msg
    | .ok p => { r with p := p, tr := r.tr.push s!"@{r.label}:L={p.line}:{p.column}" }
  | 'E' => opEof scan r
  | 'G' => r
  | 'g' => r
  | 'x' => r
  | _ => { r with tr := r.tr.push s!"BADOP{op}" }

def parseTable (s : String) : List (String × String) :=
  if s == "-" then [] else
  (s.splitOn ",").filterMap (fun e => match e.splitOn "=" with
    | [a, b] => some (a, b)
    | _ => none)

def mkScan (tab : List (String × String)) : Scan := fun bs =>
  match tab.lookup (hexOfB bs) with
  | some "x" => none
  | some t => some t
  | none => some "?unknown-token"

def runCase (hex sched tab : String) : String :=
  match bytesOfHex (if hex == "-" then "" else hex) with
  | none => "bad-op"
  | some bs =>
    let scan := mkScan (parseTable tab)
    let r0 : DRun := { p := MP.init.p, caps := MP.init.k, sgen := MP.init.sgen, fault := MP.init.fault, bytes := (bs.map (·.toUInt8)).toArray, pos := 0, eofoff := 0, rawerr := false, nvalues := 0, ev := #[], tr := #[], numlog := #[] }
    let ops := (sched.splitOn ",").filter (· ≠ "")
    let r := ops.foldl (fun r o =>
      match o.toList with
      | [] => r
      | c :: rest => runOp scan r c ((String.ofList rest).toNat?.getD 0)) r0
    let join (a : Array String) : String := String.join (a.toList.map (· ++ " "))
    join r.ev ++ "| " ++ join r.tr ++ "| " ++ String.join (r.numlog.toList.map (· ++ ","))

/-! ### jdn terms -/

def unhexB (s : String) : List B := ((bytesOfHex s).getD []).map (·.toUInt8)

partial def buildTerm : List String → Option (Value × List String)
  | [] => none
  | t :: rest =>
    let body := String.ofList (t.toList.drop 1)
    match t.toList.head? with
    | some 'N' => some (.nil, rest)
    | some 'T' => some (.bool true, rest)
    | some 'F' => some (.bool false, rest)
    | some 'n' => some (.num t, rest)
    | some 's' => some (.str (unhexB body), rest)
    | some 'y' => some (.sym (unhexB body), rest)
    | some 'k' => some (.kw (unhexB body), rest)
    | some 'b' => some (.buf (unhexB body), rest)
    | some kind =>
      if kind == 't' || kind == 'a' || kind == 'd' || kind == 'm' then
        let rec items (toks : List String) (acc : List Value) : Option (List Value × List String) :=
          match toks with
          | [] => some (acc.reverse, [])
          | x :: xs => if x == ")" || x == "]" || x == "}" then some (acc.reverse, xs) else
            match buildTerm (x :: xs) with
            | some (v, r) => items r (v :: acc)
            | none => none
        match items rest [] with
        | none => none
        | some (vs, r) =>
          if kind == 't' then some (.tuple (t == "t[") 0 0 vs, r)
          else if kind == 'a' then some (.array vs, r)
          else if kind == 'd' then let (k, v) := buildDict structPut vs ([], []); some (.struct k v, r)
          else let (k, v) := buildDict tablePut vs ([], []); some (.table k v, r)
      else none
    | none => none

partial def bigDict : Value → Bool
  | .struct ks vs => ks.length > 1 || ks.any bigDict || vs.any bigDict
  | .table ks vs => ks.length > 1 || ks.any bigDict || vs.any bigDict
  | .tuple _ _ _ l => l.any bigDict
  | .array l => l.any bigDict
  | _ => false

partial def needsScan : Value → Bool
  | .sym bs => let b0 := bs.headD 0; b0 == 45 || b0 == 43 || b0 == 46
  | .struct ks vs => ks.any needsScan || vs.any needsScan
  | .table ks vs => ks.any needsScan || vs.any needsScan
  | .tuple _ _ _ l => l.any needsScan
  | .array l => l.any needsScan
  | _ => false

def containsSub (s sub : String) : Bool := (s.splitOn sub).length > 1

/-- number text: the term carries it (`n<bits>:<text>`); NaN / infinities are refused by the printer -/
def fmtOfTag (tag : String) : Option (List B) :=
  match tag.splitOn ":" with
  | [_, txt] => if containsSub txt "nan" || containsSub txt "inf" then none else some (strBytes txt)
  | _ => none

def runJdn (toks : List String) : String :=
  match buildTerm toks with
  | none => "bad-op"
  | some (v, _) =>
    if ppRefusesMisreadSymbols && needsScan v then "skip" else
    -- symbols that look like numbers need the scanner: not available here -> only when the source refuses them
    match jdn (fun _ => some "?") fmtOfTag jdnDefaultDepth v with
    | some bs => if bs.isEmpty then "-" else hexOfB bs
    | none => "refused"

/-- all number tags of a value -/
partial def numTags : Value → List String
  | .num t => [t]
  | .struct ks vs => (ks ++ vs).flatMap numTags
  | .table ks vs => (ks ++ vs).flatMap numTags
  | .tuple _ _ _ l => l.flatMap numTags
  | .array l => l.flatMap numTags
  | _ => []

/-- `jdn_roundtrip` on the executable model: print with `%j`'s default budget, feed the text to a fresh model parser through
    `parseAll` (feed + eof + drain), compare up to source maps.  The scanner inverts the formatter on exactly the number texts of
    the term (the theorem's `NumOK` hypothesis). -/
def runRtm (toks : List String) : String :=
  match buildTerm toks with
  | none => "bad-op"
  | some (v, _) =>
    if needsScan v then "skip" else
    let tab := (numTags v).filterMap (fun t => (fmtOfTag t).map (fun txt => (txt, t)))
    let scan : Scan := fun bs => tab.lookup bs
    match jdn scan fmtOfTag jdnDefaultDepth v with
    | none => "refused"
    | some T =>
      if !v.dictOK then "hyp:dict" else
      match parseAll scan T with
      | [Event.value w] => if canon false w.erase == canon false v.erase then "ok " ++ (if T.isEmpty then "-" else hexOfB T) else "MISMATCH value " ++ canon false w
      | evs => "MISMATCH events " ++ toString evs.length

def stepLine (_ : Unit) (toks : List String) : Unit × String :=
  match toks with
  | ["case", h, s, t] => ((), runCase h s t)
  | ["case", h, s] => ((), runCase h s "-")
  | ["case", h] => ((), runCase h "" "-")
  | "jdn" :: rest => ((), runJdn rest)
  | "rtm" :: rest => ((), runRtm rest)
  | _ => ((), "bad-op")

def main : IO Unit := runLoop () stepLine
