-- line-protocol model driver for C11 (stub)
def main : IO Unit := IO.println "stub C11"
