-- line-protocol model driver for C13 (stub)
def main : IO Unit := IO.println "stub C13"
