/- Line-protocol model driver for C13 (number <-> text).  Runs the C-TYPED model (Strtod/ModelW.lean: uint64_t / uint32_t
   intermediates reduced modulo 2^width); Strtod/WrapFree.lean proves it equal to the unbounded model of the theorems.  Same protocol as harness/C13/scan.c:
    num <base> <hex>      -> "ok <bits16>" | "err"
    i64 <hex> / u64 <hex> -> "ok <dec>" | "err"
    p17 <bits16>          -> "<text> x5 <bits16 read back>"
    pint <bits16>         -> "<text> x12 <bits16 read back>"
    pstr <bits16>         -> "<string text> <describe text>"   (number_to_string_b on any finite double)      (integer-valued double, |x| <= 2^53)
    s64rt <dec> / u64rt <dec> -> "<text> ok <dec>" | "<text> err"
    big <base> <ex> <hex> -> "n first d0 d1 ..."   (digit array after the scaling loops of convert)
    den <base> <hex>      -> "<neg> <M> <b> <E>"   (the SPEC value `denote`, model only: compared with the generator's value)
    st <base> <hex>       -> "ok <neg> <base> <ex> <n> <first> d0 d1 ..." | "err"   (scanner plumbing state handed to convert)
-/
import Driver.Util
import JanetModel.Strtod.Model
import JanetModel.Strtod.ModelW
import JanetModel.Strtod.Denote
open Driver JanetModel.Strtod

def hex16 (n : Nat) : String :=
  String.ofList ((List.range 16).reverse.map (fun i => hexDigit (n / 16 ^ i % 16)))

def parseHexNat (s : String) : Option Nat :=
  s.toList.foldlM (fun acc c => (hexVal c).map (fun v => acc * 16 + v)) 0

def bytesOf (s : String) : List Nat := s.toList.map (·.toNat)

def showScan (r : Option Nat) : String :=
  match r with
  | some b => hex16 b
  | none => "err"

def step (_ : Unit) (toks : List String) : Unit × String :=
  match toks with
  | ["num", b, h] =>
    match b.toNat?, bytesOfHex h with
    | some base, some bs =>
      match scanNumberBaseW bs base with
      | some bits => ((), "ok " ++ hex16 bits)
      | none => ((), "err")
    | _, _ => ((), "bad-op")
  | ["num", b] =>
    match b.toNat? with
    | some base => ((), match scanNumberBaseW [] base with | some bits => "ok " ++ hex16 bits | none => "err")
    | none => ((), "bad-op")
  | ["den", b, h] =>
    match b.toNat?, bytesOfHex h with
    | some base, some bs =>
      let l := denote bs base
      ((), s!"{if l.neg then 1 else 0} {l.M} {l.b} {l.E}")
    | _, _ => ((), "bad-op")
  | ["st", b, h] =>
    match b.toNat?, bytesOfHex h with
    | some base, some bs =>
      match parseNumberW bs base with
      | some p => ((), String.intercalate " " ("ok" :: toString (if p.neg then 1 else 0) :: toString p.base :: toString p.ex ::
                        toString p.mant.digits.length :: toString p.mant.first :: p.mant.digits.map toString))
      | none => ((), "err")
    | _, _ => ((), "bad-op")
  | ["st", b] =>
    match b.toNat? with
    | some base => ((), match parseNumberW [] base with | some _ => "ok" | none => "err")
    | none => ((), "bad-op")
  | ["i64", h] =>
    match bytesOfHex h with
    | some bs => ((), match scanInt64 bs with | some v => s!"ok {v}" | none => "err")
    | none => ((), "bad-op")
  | ["i64"] => ((), match scanInt64 [] with | some v => s!"ok {v}" | none => "err")
  | ["u64", h] =>
    match bytesOfHex h with
    | some bs => ((), match scanUint64 bs with | some v => s!"ok {v}" | none => "err")
    | none => ((), "bad-op")
  | ["u64"] => ((), match scanUint64 [] with | some v => s!"ok {v}" | none => "err")
  | ["p17", h] =>
    match parseHexNat h with
    | some bits =>
      let t := print17 bits
      let ts := String.ofList t
      ((), String.intercalate " " (List.replicate 5 ts) ++ " " ++ showScan (scanNumberBaseW (t.map (·.toNat)) 0))
    | none => ((), "bad-op")
  | ["pint", h] =>
    match parseHexNat h with
    | some bits =>
      let neg := bits ≥ 0x8000000000000000
      let (m, e) := decodeBits (bits % 0x8000000000000000)
      let v := if e ≥ 0 then m <<< e.toNat else m >>> (-e).toNat
      let t := if v = 0 then "0" else (if neg then "-" else "") ++ toString v
      let ts := String.ofList (numberToString bits)      -- string / describe / %v / %q / %p go through number_to_string_b
      let tj := if v = 0 ∧ neg then "-0" else t   -- jdn keeps the sign of zero
      ((), String.intercalate " " [ts, ts, ts, ts, ts, tj, ts, ts, ts, ts, tj, t] ++ " " ++ showScan (scanNumberBaseW (bytesOf t) 0))
    | none => ((), "bad-op")
  | ["pstr", h] =>
    match parseHexNat h with
    | some bits => let ts := String.ofList (numberToString bits); ((), ts ++ " " ++ ts)
    | none => ((), "bad-op")
  | ["s64rt", d] =>
    match d.toInt? with
    | some x =>
      let t := toString x
      ((), t ++ (match scanInt64 (bytesOf t) with | some v => s!" ok {v}" | none => " err"))
    | none => ((), "bad-op")
  | ["u64rt", d] =>
    match d.toNat? with
    | some x =>
      let t := toString x
      ((), t ++ (match scanUint64 (bytesOf t) with | some v => s!" ok {v}" | none => " err"))
    | none => ((), "bad-op")
  | ["big", b, e, h] =>
    match b.toNat?, e.toInt?, bytesOfHex h with
    | some base, some ex, some bs =>
      let m0 := bs.foldl (fun m c => bignat_muladdW m base (digitOf c)) BigNat.zero
      let r := (scaleW m0 base ex).1
      ((), String.intercalate " " (toString r.digits.length :: toString r.first :: r.digits.map toString))
    | _, _, _ => ((), "bad-op")
  | _ => ((), "bad-op")

def main : IO Unit := runLoop () step
