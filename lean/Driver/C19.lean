-- line-protocol model driver for C19 (stub)
def main : IO Unit := IO.println "stub C19"
