/- Line-protocol model driver for C19.
    init <frame> <stackstart> <stacktop> <capacity>      set the fiber state (no saved frames) -> state line
    fnew <capacity> <slotcount>                          janet_fiber(thunk, capacity, 0, NULL)  -> state line | "arity"
    push <n>                                             janet_fiber_pushn              -> state line | "stack overflow"
    tail <slotcount> <arity> <min> <max> <vararg 0|1>    janet_fiber_funcframe_tail     -> state line | "arity"
    call <slotcount> <arity> <min> <max> <vararg 0|1>    janet_fiber_funcframe          -> state line | "arity"
    ret                                                  janet_fiber_popframe           -> state line
    overflow <cap> <slot0> <maxstack> <tailfirst 0|1> <slot> <arity> <nargs>
                                                         fresh fiber running a thunk of <slot0> slots that (tail-)calls a
                                                         function of <slot> slots, which calls itself non-tail with <nargs>
                                                         arguments, through JOP_CALL's maxstack test, until the first error
                                                                                         -> "<calls that succeeded> <error>"
    rankok                                               certificate check on Gen graph -> "true" | "false <a> <b>"
   state line: "<frame> <stackstart> <stacktop> <capacity>"
-/
import Driver.Util
import JanetModel.Depth.Model
import JanetModel.Depth.Tail
import JanetModel.Depth.FiberStack
import JanetModel.Gen.Depth
open Driver JanetModel.Depth

def showF (f : Fiber) : String := s!"{f.frame} {f.stackstart} {f.stacktop} {f.capacity}"

def nats (ts : List String) : Option (List Nat) := ts.mapM (fun t => t.toNat?)

/-- the C harness calls the frame functions directly (no maxstack test): maxstack = "infinite" here -/
def noLimit : Nat := 4294967296

def step (v : VFiber) (toks : List String) : VFiber × String :=
  match toks with
  | "init" :: rest =>
    match nats rest with
    | some [a, b, c, d] => let v' : VFiber := ⟨⟨a, b, c, d⟩, [], noLimit⟩; (v', showF v'.f)
    | _ => (v, "bad-op")
  | ["fnew", c, s] =>
    match c.toNat?, s.toNat? with
    | some c, some s =>
      match fiberNew c ⟨s, 0, 0, 0, false⟩ noLimit with
      | some v' => (v', showF v'.f)
      | none => (v, "arity")
    | _, _ => (v, "bad-op")
  | ["push", n] =>
    match n.toNat? with
    | some k =>
      match vpushn v k with
      | .ok v' => (v', showF v'.f)
      | .error e => (v, e)
    | none => (v, "bad-op")
  | "tail" :: rest =>
    match nats rest with
    | some [s, a, mn, mx, vr] =>
      match vtail v ⟨s, a, mn, mx, vr != 0⟩ with
      | .ok v' => (v', showF v'.f)
      | .error e => (v, e)
    | _ => (v, "bad-op")
  | "call" :: rest =>
    match nats rest with
    | some [s, a, mn, mx, vr] =>
      match vcall v ⟨s, a, mn, mx, vr != 0⟩ with
      | .ok v' => (v', showF v'.f)
      | .error e => (v, e)
    | _ => (v, "bad-op")
  | ["ret"] => let v' := vret v; (v', showF v'.f)
  | "overflow" :: rest =>
    match nats rest with
    | some [cap, s0, m, tf, s, a, n] =>
      match fiberNew cap ⟨s0, 0, 0, 0, false⟩ m with
      | none => (v, "arity")
      | some v0 =>
        let fn : Fn := ⟨s, a, a, a, false⟩
        -- the thunk pushes the arguments and enters the recursive function (tail call in tail position)
        let first := match vpushn v0 n with
          | .error e => Except.error e
          | .ok v1 => if tf != 0 then vtail v1 fn else vcall v1 fn
        match first with
        | .error e => (v, s!"0 {e}")
        | .ok v2 =>
          let r := overflowDepth (m + 8) v2 n fn
          (v, s!"{r.1 + 1} {r.2}")
    | _ => (v, "bad-op")
  | ["rankok"] =>
    if rankOK JanetModel.Gen.Depth.cg JanetModel.Gen.Depth.rank then (v, "true")
    else match firstBadEdge JanetModel.Gen.Depth.cg JanetModel.Gen.Depth.rank with
      | some (a, b) => (v, s!"false {a} {b}")
      | none => (v, "false node")
  | _ => (v, "bad-op")

def main : IO Unit := runLoop (⟨⟨0, 0, 0, 0⟩, [], noLimit⟩ : VFiber) step
