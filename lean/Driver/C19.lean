/- Line-protocol model driver for C19.
    init <frame> <stackstart> <stacktop> <capacity>      set the fiber state            -> state line
    push <n>                                             janet_fiber_pushn              -> state line
    tail <slotcount> <arity> <min> <max> <vararg 0|1>    janet_fiber_funcframe_tail     -> state line | "arity"
    call <slotcount> <arity> <min> <max> <vararg 0|1>    janet_fiber_funcframe          -> state line | "arity"
    rankok                                               certificate check on Gen graph -> "true" | "false <a> <b>"
   state line: "<frame> <stackstart> <stacktop> <capacity>"
-/
import Driver.Util
import JanetModel.Depth.Model
import JanetModel.Depth.Tail
import JanetModel.Gen.Depth
open Driver JanetModel.Depth

def showF (f : Fiber) : String := s!"{f.frame} {f.stackstart} {f.stacktop} {f.capacity}"

def nats (ts : List String) : Option (List Nat) := ts.mapM (fun t => t.toNat?)

def step (f : Fiber) (toks : List String) : Fiber × String :=
  match toks with
  | "init" :: rest =>
    match nats rest with
    | some [a, b, c, d] => let f' : Fiber := ⟨a, b, c, d⟩; (f', showF f')
    | _ => (f, "bad-op")
  | ["push", n] =>
    match n.toNat? with
    | some k => let f' := pushn f k; (f', showF f')
    | none => (f, "bad-op")
  | "tail" :: rest =>
    match nats rest with
    | some [s, a, mn, mx, v] =>
      match funcframeTail f ⟨s, a, mn, mx, v != 0⟩ with
      | some f' => (f', showF f')
      | none => (f, "arity")
    | _ => (f, "bad-op")
  | "call" :: rest =>
    match nats rest with
    | some [s, a, mn, mx, v] =>
      match funcframe f ⟨s, a, mn, mx, v != 0⟩ with
      | some f' => (f', showF f')
      | none => (f, "arity")
    | _ => (f, "bad-op")
  | ["rankok"] =>
    if rankOK JanetModel.Gen.Depth.cg JanetModel.Gen.Depth.rank then (f, "true")
    else match firstBadEdge JanetModel.Gen.Depth.cg JanetModel.Gen.Depth.rank with
      | some (a, b) => (f, s!"false {a} {b}")
      | none => (f, "false node")
  | _ => (f, "bad-op")

def main : IO Unit := runLoop (⟨0, 0, 0, 0⟩ : Fiber) step
