/- Line-protocol model driver for C02.
   Translation validation (program built up from the lines written by harness/C02/ser.c):
     prog <id> | def <idx> <arity> <min> <max> <slots> <vararg> <structarg> | code <hexwords..> | consts <value tokens..>
     defs <idx..> | envs <ints..> | smap <line col ..> | bitset <01-string | - | e>        -> "ok"
     run <id> <e0>   -> "<final>\t<trace line>\t<trace line>..."  with final = V <ser> | X <ser> <relline> <col> | U <why>
   Emit model (correspondence with emit.c through harness/C02/emit_wrap.c):
     emit ...        -> see JanetModel/Emit/Cmd.lean -/
import Driver.Util
import JanetModel.Bytecode.Exec
import JanetModel.Emit.Cmd
import JanetModel.Lang.Sem
import JanetModel.Compile.Cmd
open Driver JanetModel.Bytecode.Exec

structure DState where
  defs : Array FuncDef := #[]
  globs : List (String × JanetModel.Compile.Glob) := []

def hexNat (s : String) : Nat := s.toList.foldl (fun acc c => acc * 16 + (hexVal c).getD 0) 0

def hexStr (s : String) : String := String.ofList (((bytesOfHex s).getD []).map Char.ofNat)

/-- parse one value in prefix notation; returns the value and the remaining tokens -/
partial def parseValue : List String → Value × List String
  | [] => (.nil, [])
  | tok :: rest =>
    let body := (tok.drop 1).toString
    match tok.front with
    | 'N' => (.nil, rest)
    | 'T' => (.bool true, rest)
    | 'F' => (.bool false, rest)
    | 'n' => (.num (Float.ofBits (UInt64.ofNat (hexNat body))), rest)
    | 's' => (.str (hexStr body), rest)
    | 'y' => (.sym (hexStr body), rest)
    | 'k' => (.kw (hexStr body), rest)
    | 'c' => (.cfun (hexStr body), rest)
    | 't' | 'b' =>
      let n := body.toNat!
      let (xs, rest') := (List.range n).foldl (fun (acc : List Value × List String) _ =>
        let (v, r) := parseValue acc.2
        (acc.1 ++ [v], r)) ([], rest)
      (.tuple xs (tok.front == 'b'), rest')
    | 'q' =>
      let n := body.toNat!
      let (xs, rest') := (List.range (2 * n)).foldl (fun (acc : List Value × List String) _ =>
        let (v, r) := parseValue acc.2
        (acc.1 ++ [v], r)) ([], rest)
      (mkStruct #[] xs, rest')
    | _ => (.cfun "<unsupported-constant>", rest)

partial def parseValues (toks : List String) (acc : Array Value) : Array Value :=
  match toks with
  | [] => acc
  | _ => let (v, rest) := parseValue toks; parseValues rest (acc.push v)

partial def pairInts : List String → List (Int × Int)
  | a :: b :: rest => (a.toInt!, b.toInt!) :: pairInts rest
  | _ => []

/-- tokens written by harness/C02/expand.janet -> core-language form -/
partial def parseExpr : List String → JanetModel.Lang.Expr × List String
  | [] => (.lit .nil, [])
  | tok :: rest =>
    let body := (tok.drop 1).toString
    let many (n : Nat) (rest : List String) : List JanetModel.Lang.Expr × List String :=
      (List.range n).foldl (fun (acc : List JanetModel.Lang.Expr × List String) _ =>
        let (e, r) := parseExpr acc.2
        (acc.1 ++ [e], r)) ([], rest)
    match tok with
    | "N" => (.lit .nil, rest)
    | "B1" => (.lit (.bool true), rest)
    | "B0" => (.lit (.bool false), rest)
    | "(" =>
      match rest with
      | l :: c :: n :: rest' =>
        let (xs, r) := many n.toNat! rest'
        (.form xs { line := l.toInt!, col := c.toInt! }, r)
      | _ => (.lit .nil, [])
    | "[" => match rest with
      | n :: rest' => let (xs, r) := many n.toNat! rest'; (.btup xs, r)
      | _ => (.lit .nil, [])
    | "A" => match rest with
      | n :: rest' => let (xs, r) := many n.toNat! rest'; (.arr xs, r)
      | _ => (.lit .nil, [])
    | "S" => match rest with
      | n :: rest' => let (xs, r) := many n.toNat! rest'; (.stc xs, r)
      | _ => (.lit .nil, [])
    | "T" => match rest with
      | n :: rest' => let (xs, r) := many n.toNat! rest'; (.tbl xs, r)
      | _ => (.lit .nil, [])
    | _ =>
      match tok.front with
      | 'i' => (.lit (.num (Float.ofInt body.toInt!)), rest)
      | 'r' =>
        let bs := (bytesOfHex body).getD []
        let bits := (bs.zipIdx.map (fun (b, i) => b * 256 ^ i)).foldl (· + ·) 0
        (.lit (.num (Float.ofBits (UInt64.ofNat bits))), rest)
      | 's' => (.lit (.str (hexStr body)), rest)
      | 'y' => (.sym (hexStr body), rest)
      | 'k' => (.lit (.kw (hexStr body)), rest)
      | 'c' => (.lit (.cfun (hexStr body)), rest)
      | _ => (.lit (.cfun "<unsupported-constant>"), rest)

def modLast (s : DState) (f : FuncDef → FuncDef) : DState :=
  if s.defs.size == 0 then s else { s with defs := s.defs.modify (s.defs.size - 1) f }

def step (s : DState) (toks : List String) : DState × String :=
  match toks with
  | "emit" :: rest => (s, JanetModel.Emit.emitCmd rest)
  | ["prog", _] => ({ s with defs := #[] }, "ok")
  | "glob" :: nm :: kind =>
    let g : JanetModel.Compile.Glob := match kind with
      | ["c"] => .cfun
      | ["f", mn, mx, tag] => .func mn.toNat! mx.toNat! tag.toNat!
      | _ => .other
    ({ s with globs := (hexStr nm, g) :: s.globs }, "ok")
  | "comp" :: _ :: toks =>
    let (e, _) := parseExpr toks
    (s, JanetModel.Compile.compCmd (fun x => (s.globs.find? (·.1 == x)).map (·.2)) e)
  | ["def", _, ar, mn, mx, sl, va, sa] =>
    ({ s with defs := s.defs.push { arity := ar.toNat!, minArity := mn.toNat!, maxArity := mx.toNat!, slotcount := sl.toNat!,
                                    vararg := va == "1", structarg := sa == "1" } }, "ok")
  | "code" :: ws => (modLast s (fun d => { d with code := (ws.map hexNat).toArray }), "ok")
  | "consts" :: ts => (modLast s (fun d => { d with consts := parseValues ts #[] }), "ok")
  | "defs" :: is => (modLast s (fun d => { d with defs := (is.map String.toNat!).toArray }), "ok")
  | "envs" :: is => (modLast s (fun d => { d with envs := (is.map String.toInt!).toArray }), "ok")
  | "smap" :: is => (modLast s (fun d => { d with smap := (pairInts is).toArray }), "ok")
  | ["bitset", b] =>
    (modLast s (fun d => { d with bitset := if b == "-" then none else if b == "e" then some #[] else some (b.toList.map (· == '1')).toArray }), "ok")
  | ["run", _, e0] =>
    let p : Program := { defs := s.defs }
    let out := match runDiag p 400000 (initState p) with
      | .inl why => "U " ++ why
      | .inr (.ok _, st) => "V " ++ ser st.heap st.result ++ String.join (st.trace.toList.map ("\t" ++ ·))
      | .inr (.err v pos, st) =>
        "X " ++ serErr st.heap v ++ " " ++ toString (if pos.line == -1 then -1 else pos.line - e0.toInt!) ++ " " ++ toString pos.col
          ++ String.join (st.trace.toList.map ("\t" ++ ·))
      | .inr (.timeout, _) => "U timeout"
    (s, out)
  | "sem" :: _ :: e0 :: n :: toks =>
    let (forms, _) := (List.range n.toNat!).foldl (fun (acc : List JanetModel.Lang.Expr × List String) _ =>
      let (e, r) := parseExpr acc.2
      (acc.1 ++ [e], r)) ([], toks)
    let out := match JanetModel.Lang.runProgram 200000 forms with
      | .ok _ ss => "V " ++ ser ss.st.heap ss.st.result ++ String.join (ss.st.trace.toList.map ("\t" ++ ·))
      | .err v pos ss =>
        "X " ++ serErr ss.st.heap v ++ " " ++ toString (if pos.line == -1 then -1 else pos.line - e0.toInt!) ++ " " ++ toString pos.col
          ++ String.join (ss.st.trace.toList.map ("\t" ++ ·))
      | .brk _ _ => "U break-at-top"
      | .stop w => "U " ++ w
    (s, out)
  | "skip" :: _ => (s, "skip")
  | _ => (s, "bad-op")

def main : IO Unit := runLoop ({} : DState) step
