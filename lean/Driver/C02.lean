-- line-protocol model driver for C02 (stub)
def main : IO Unit := IO.println "stub C02"
