-- line-protocol model driver for C18 (stub)
def main : IO Unit := IO.println "stub C18"
