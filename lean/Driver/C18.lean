import JanetModel.Sandbox.Model
import Driver.Util
/- line-protocol driver for C18: the flag-word model.
   `sandbox <flags> <mask>`          -> `some <flags'>` | `none` (panic)
   `assert <flags> <mask>`           -> `pass` | `panic`
   `run <flags0> <op>*`              -> thread flag words after the ops; op = s<tid>:<mask> | t<tid> (spawn from tid)
   `kwseq <flags0> <call>;<call>…`   -> the `(sandbox & keywords)` core function (`sandboxCfun` over `Cap.keywordTable`), one
                                        call after the other in one thread; call = k1,k2,… or `-` (no argument);
                                        prints the flag word after each call, or `panic` (word unchanged) -/
open JanetModel.Sandbox

def parseOp (s : String) : Option SysOp :=
  match s.toList with
  | 's' :: rest =>
    match (String.ofList rest).splitOn ":" with
    | [a, b] => match a.toNat?, b.toNat? with
                | some t, some m => some (.sandbox t m)
                | _, _ => none
    | _ => none
  | 't' :: rest => (String.ofList rest).toNat?.map .spawn
  | _ => none

def kwSeq (fl : Nat) : List String → List String
  | [] => []
  | c :: cs =>
    let kws := if c == "-" then [] else c.splitOn ","
    match sandboxCfun keywordTable fl kws with
    | some fl' => toString fl' :: kwSeq fl' cs
    | none => "panic" :: kwSeq fl cs

def step (_ : Unit) (toks : List String) : Unit × String :=
  match toks with
  | ["kwseq", a, cs] =>
    match a.toNat? with
    | some fl => ((), " ".intercalate (kwSeq fl (cs.splitOn ";")))
    | none => ((), "error")
  | ["sandbox", a, b] =>
    match a.toNat?, b.toNat? with
    | some fl, some m => ((), match sandboxOp fl m with | some x => s!"some {x}" | none => "none")
    | _, _ => ((), "error")
  | ["assert", a, b] =>
    match a.toNat?, b.toNat? with
    | some fl, some m => ((), if assertPasses fl m then "pass" else "panic")
    | _, _ => ((), "error")
  | "run" :: a :: ops =>
    match a.toNat? with
    | some fl =>
      let os := ops.filterMap parseOp
      ((), " ".intercalate ((Sys.run [fl] os).map toString))
    | none => ((), "error")
  | _ => ((), "error")

def main : IO Unit := Driver.runLoop () step
