import JanetModel.Sandbox.Model
import Driver.Util
/- line-protocol driver for C18: the flag-word model.
   `sandbox <flags> <mask>`          -> `some <flags'>` | `none` (panic)
   `assert <flags> <mask>`           -> `pass` | `panic`
   `run <flags0> <op>*`              -> thread flag words after the ops; op = s<tid>:<mask> | t<tid> (spawn from tid) -/
open JanetModel.Sandbox

def parseOp (s : String) : Option SysOp :=
  match s.toList with
  | 's' :: rest =>
    match (String.ofList rest).splitOn ":" with
    | [a, b] => match a.toNat?, b.toNat? with
                | some t, some m => some (.sandbox t m)
                | _, _ => none
    | _ => none
  | 't' :: rest => (String.ofList rest).toNat?.map .spawn
  | _ => none

def step (_ : Unit) (toks : List String) : Unit × String :=
  match toks with
  | ["sandbox", a, b] =>
    match a.toNat?, b.toNat? with
    | some fl, some m => ((), match sandboxOp fl m with | some x => s!"some {x}" | none => "none")
    | _, _ => ((), "error")
  | ["assert", a, b] =>
    match a.toNat?, b.toNat? with
    | some fl, some m => ((), if assertPasses fl m then "pass" else "panic")
    | _, _ => ((), "error")
  | "run" :: a :: ops =>
    match a.toNat? with
    | some fl =>
      let os := ops.filterMap parseOp
      ((), " ".intercalate ((Sys.run [fl] os).map toString))
    | none => ((), "error")
  | _ => ((), "error")

def main : IO Unit := Driver.runLoop () step
