/- Shared helpers for the line-protocol drivers (core Lean only). -/
namespace Driver

def hexDigit (n : Nat) : Char := if n < 10 then Char.ofNat (48 + n) else Char.ofNat (87 + n)

def hexByte (b : Nat) : String := String.ofList [hexDigit (b / 16 % 16), hexDigit (b % 16)]

def hexOfBytes (bs : List Nat) : String := String.join (bs.map hexByte)

def hexVal (c : Char) : Option Nat :=
  if '0' ≤ c ∧ c ≤ '9' then some (c.toNat - 48)
  else if 'a' ≤ c ∧ c ≤ 'f' then some (c.toNat - 87)
  else if 'A' ≤ c ∧ c ≤ 'F' then some (c.toNat - 55)
  else none

def bytesOfHex (s : String) : Option (List Nat) :=
  let rec go : List Char → List Nat → Option (List Nat)
    | [], acc => some acc.reverse
    | [_], _ => none
    | a :: b :: rest, acc =>
      match hexVal a, hexVal b with
      | some x, some y => go rest ((x * 16 + y) :: acc)
      | _, _ => none
  go s.toList []

/-- Read stdin line by line, thread a state through `step`, print one output line per input line. -/
partial def loop {σ : Type} (h : IO.FS.Stream) (out : IO.FS.Stream) (s : σ) (step : σ → List String → σ × String) : IO Unit := do
  let line ← h.getLine
  if line.isEmpty then
    out.flush
    return ()
  let toks := (line.trimAscii.toString.splitOn " ").filter (· ≠ "")
  let (s', o) := step s toks
  out.putStrLn o
  loop h out s' step

def runLoop {σ : Type} (init : σ) (step : σ → List String → σ × String) : IO Unit := do
  loop (← IO.getStdin) (← IO.getStdout) init step

end Driver
