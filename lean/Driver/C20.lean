-- line-protocol model driver for C20: replays the semantic event log of the real event loop on `JanetModel.Loop`
import Driver.Util
import JanetModel.Loop.Model

open JanetModel.Loop

def parseEv : List String → Option Ev
  | ["sched", n] => n.toNat?.map .sched
  | ["pop", n] => n.toNat?.map .pop
  | ["ran", n, "s"] => n.toNat?.map (.ran · true)
  | ["ran", n, "f"] => n.toNat?.map (.ran · false)
  | ["gcfiber", n] => n.toNat?.map .gcFiber
  | ["astart"] => some .astart
  | ["aend"] => some .aend
  | ["gclistener"] => some .gcListener
  | ["await"] => some .await
  | ["nofiber"] => some .callNoFiber
  | ["procwait"] => some .procWait
  | ["dawait"] => some .deliverAwait
  | ["dnofiber"] => some .deliverNoFiber
  | ["dproc"] => some .deliverProc
  | ["post", "cb"] => some (.post false)
  | ["post", "null"] => some (.post true)
  | ["dposted"] => some .deliverPosted
  | ["dnull"] => some .deliverNull
  | ["tchanpend"] => some .tchanPend
  | ["dchan"] => some .deliverChan
  | ["tchandirect"] => some .tchanDirect
  | ["tadd", n, k] => n.toNat?.map (fun f => .tadd ⟨f, k == "d"⟩)
  | ["tpop", n, k] => n.toNat?.map (fun f => .tpop ⟨f, k == "d"⟩)
  | ["sclose", n] => n.toNat?.map .streamClosed
  | ["sigaction", n, "install"] => n.toNat?.map (.sigaction · true)
  | ["sigaction", n, "remove"] => n.toNat?.map (.sigaction · false)
  | ["op", "watch-listen"] => some .watchListen
  | ["op", "watch-unlisten"] => some .watchUnlisten
  | _ => none

def showSt (s : St) : String :=
  s!"lc={s.lc} tq={s.timers.length} rq={s.runq.length} roots={s.roots} susp={s.susp.length} lis={s.lis} pipecalls={s.posted + s.postedNull + s.calls} done={if loopDone s then 1 else 0} nullstuck={s.nullStuck} tleak={s.tchanLeaked} orphan={s.orphanLis} sigh={s.sigs.length} watching={s.watching}"

def stepLine (s : St) (toks : List String) : St × String :=
  match toks with
  | ["snap"] => (s, showSt s)
  | ["reset"] => (init, "ok")
  | ["cfg"] => (s, s!"tchanUnroot={Cfg.ofGen.tchanUnroot}")
  | _ =>
    match parseEv toks with
    | none => (s, "unknown " ++ " ".intercalate toks)
    | some e =>
      match step Cfg.ofGen s e with
      | none => (s, "invalid " ++ " ".intercalate toks)
      | some s' => (s', "ok")

def main : IO Unit := Driver.runLoop init stepLine
