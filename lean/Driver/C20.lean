-- line-protocol model driver for C20 (stub)
def main : IO Unit := IO.println "stub C20"
