-- line-protocol model driver for C14 (stub)
def main : IO Unit := IO.println "stub C14"
