/- Line-protocol model driver for C14 (arithmetic on numbers and 64-bit integers).  Protocol: see harness/C14/arith.c.
     <fn> <operand> [<operand>]        fn = + - * / div mod % band bor bxor blshift brshift brushift bnot
                                            < <= > >= = not= compare cmp int/s64 int/u64 int/to-number
     imm <fn> <operand> <int>          same meaning as `<fn> <operand> n:<int>` (immediate opcodes)
     cmpsd <int> <hex16>               compare_int64_double       -> i:<r> | ub
     cmpud <nat> <hex16>               compare_uint64_double      -> i:<r> | ub
     math/floor|ceil|trunc|round|abs <operand>, math/gcd|lcm <operand> <operand>   (Int64/MathFns.lean)
     zero? pos? neg? one? even? odd? <operand>                                     (Int64/Preds.lean)
     link <0|1>                        sets `Cfg.s64BelowU64` (the harness answers `link?` with the order of the two type descriptors)
   IEEE arithmetic on two plain numbers is the model's own (`Ieee.ieee`): exact rational result, rounded once. -/
import Driver.Util
import JanetModel.Int64.MathFns
import JanetModel.Int64.Preds
open Driver JanetModel.Int64

/-- IEEE-754 binary64 arithmetic: the executable instance of `Int64/Ieee.lean` (round-to-nearest-even of the exact rational
    result on decoded doubles; no `Float`) -/
def numOps : NumOps := Ieee.ieee

def hex16 (n : Nat) : String :=
  String.ofList ((List.range 16).reverse.map (fun i => hexDigit (n / 16 ^ i % 16)))

def parseHex (s : String) : Option Nat :=
  s.toList.foldl (fun acc c => match acc, hexVal c with | some a, some d => some (a * 16 + d) | _, _ => none) (some 0)

def parseOperand (s : String) : Option Val :=
  match s.toList with
  | 'n' :: ':' :: rest => (parseHex (String.ofList rest)).map Val.num
  | 's' :: ':' :: rest => (String.ofList rest).toInt?.map Val.s64
  | 'u' :: ':' :: rest => (String.ofList rest).toInt?.map Val.u64
  | 't' :: ':' :: rest => some (Val.str (rest.map Char.toNat))
  | _ => none

def showVal : Val → String
  | .num b => if decode b == .nan then "n:nan" else "n:" ++ hex16 b
  | .s64 v => s!"s:{v}"
  | .u64 v => s!"u:{v}"
  | .bool b => if b then "b:1" else "b:0"
  | .nil => "nil"
  | .unspec => "unspec"
  | .str _ => "other"
  | .bytes bs => "x:" ++ hexOfBytes bs

def showRes : Res Val → String
  | .ok v => showVal v
  | .err e => "err:" ++ e.name
  | .ub => "ub"

def showInt : Res Int → String
  | .ok v => s!"i:{v}"
  | .err e => "err:" ++ e.name
  | .ub => "ub"

def step (cfg : Cfg) (toks : List String) : Cfg × String :=
  match toks with
  | ["link", b] => ({ cfg with s64BelowU64 := b == "1" }, "ok")
  | ["cmpsd", x, h] =>
    (match x.toInt?, parseHex h with
     | some xv, some b => (cfg, showInt (compareInt64Double cfg xv (decode b)))
     | _, _ => (cfg, "bad-op"))
  | ["cmpud", x, h] =>
    (match x.toInt?, parseHex h with
     | some xv, some b => (cfg, showInt (compareUint64Double cfg xv (decode b)))
     | _, _ => (cfg, "bad-op"))
  | ["imm", fn, a, k] =>
    (match parseOperand a, k.toInt? with
     | some av, some kv => (cfg, showRes (evalFn cfg numOps fn [av, Val.ofInt kv]))
     | _, _ => (cfg, "bad-op"))
  | fn :: rest =>
    (match rest.mapM parseOperand with
     | some args =>
       if args.isEmpty then (cfg, "bad-op")
       else if fn.startsWith "m:" then (cfg, showRes (methodCall cfg (fn.drop 2).toString args))
       else
         (match Ieee.mathFn fn args with
          | some r => (cfg, showRes r)
          | none =>
            (match JanetModel.Gen.Int64.polyPreds.lookup fn, args with
             | some _, [x] => (cfg, showRes (polyPred cfg numOps fn x))
             | some _, _ => (cfg, "err:arity")
             | none, _ => (cfg, showRes (evalFn cfg numOps fn args))))
     | none => (cfg, "bad-op"))
  | _ => (cfg, "bad-op")

def main : IO Unit := runLoop cfgGen step
