/- Line-protocol model driver for C04 (tables / structs / arrays / buffers).  Same protocol as harness/C04/hist.c:
   one op per line; output = result, then the raw state of every register.  `key <idx> <hash> <rank>` lines (copied
   from the harness output) define the key pool. -/
import Driver.Util
import JanetModel.Table.Model
import JanetModel.Seq.Model
import JanetModel.Table.StructLemmas
open Driver JanetModel.Table JanetModel.Seq JanetModel.Gen.Table

namespace C04

def NT := 4
def NS := 2
def NA := 3
def NB := 3

structure St where
  hashes : Array Nat := #[]
  ranks : Array Nat := #[]
  theap : Array Table := #[]
  sheap : Array Struct := #[]
  T : Array Nat := #[]
  S : Array Nat := #[]
  A : Array Arr := #[]
  B : Array Buf := #[]
  full : Bool := false
  /-- a struct built in this history failed its certificate (`checkSInv` / `certToStruct`) -/
  certFail : Bool := false

def St.reset (s : St) : St :=
  { s with theap := Array.replicate NT (Table.init 0), T := Array.range NT,
           sheap := Array.replicate NS (structEnd (fun _ => 0) (fun _ => 0) (structBegin 0)), S := Array.range NS,
           A := Array.replicate NA (Arr.new 0), B := Array.replicate NB (Buf.new 0), certFail := false }

def St.h (s : St) : Nat → Nat := fun k => s.hashes.getD k 0
def St.rank (s : St) : Nat → Nat := fun k => s.ranks.getD k 0
def St.tab (s : St) (r : Nat) : Table := s.theap.getD (s.T.getD r 0) default
def St.str (s : St) (r : Nat) : Struct := s.sheap.getD (s.S.getD r 0) default
def St.setTab (s : St) (r : Nat) (t : Table) : St := { s with theap := s.theap.setIfInBounds (s.T.getD r 0) t }
def St.newTab (s : St) (r : Nat) (t : Table) : St := { s with theap := s.theap.push t, T := s.T.setIfInBounds r s.theap.size }
def St.newStr (s : St) (r : Nat) (t : Struct) : St := { s with sheap := s.sheap.push t, S := s.S.setIfInBounds r s.sheap.size }
/-- a new struct in register `r`, with its certificate: the struct invariant (`checkSInv`, sound by
`checkSInv_sound`) and, when it was converted from a table, equality of the two maps (`certToStruct`) -/
def St.newStrCert (s : St) (r : Nat) (t : Struct) (src : Option Table) : St :=
  let ok := match src with
    | some tb => certToStruct s.h tb t
    | none => checkSInv s.h t.data
  { s.newStr r t with certFail := s.certFail || !ok }

/-- the tables met following `proto` from table id `id` -/
def St.tchain (s : St) : Nat → Option Nat → List Table
  | 0, _ => []
  | _, none => []
  | fuel + 1, some id => match s.theap[id]? with
    | some t => t :: s.tchain fuel t.proto
    | none => []

/-- boot.janet `freeze` on a table whose keys and values are immutable: per level a fresh `@{}` filled by `put` in
iteration order, `table/to-struct` of it, with the frozen prototype as prototype (deepest level first) -/
def St.freezeChain (s : St) (chain : List Table) : St × Option Nat :=
  chain.foldr (fun t (acc : St × Option Nat) =>
    let st : Struct := { freezeLevel acc.1.h acc.1.rank t with proto := acc.2 }
    let ok := certToStruct acc.1.h t st
    ({ acc.1 with sheap := acc.1.sheap.push st, certFail := acc.1.certFail || !ok }, some acc.1.sheap.size)) (s, none)

def St.theapF (s : St) : Nat → Option Table := fun i => s.theap[i]?
def St.sheapF (s : St) : Nat → Option Struct := fun i => s.sheap[i]?

/-! printing -/
def hexNat (n : Nat) : String :=
  if n = 0 then "0" else
  let rec go (fuel n : Nat) (acc : List Char) : List Char :=
    match fuel with
    | 0 => acc
    | fuel + 1 => if n = 0 then acc else go fuel (n / 16) (hexDigit (n % 16) :: acc)
  String.ofList (go 20 n [])

def dg (d : UInt64) (c : Nat) : UInt64 := d * 1000003 + UInt64.ofNat c + 1

def prVal (v : Nat) : String := if v = 0 then "nil" else if v = 1 then "false" else if v = 2 then "true" else toString v
def prOV : Option Nat → String
  | some v => prVal v
  | none => "uninit"
def prKey : Option Nat → String
  | some k => s!"K{k}"
  | none => "nil"

def kvDigest (data : Array Slot) : UInt64 :=
  data.foldl (fun d kv => dg d ((match kv.key with | none => 0 | some k => k + 1) * 1048576 + kv.val)) 0

def dumpKV (data : Array Slot) : String :=
  "{" ++ String.join (data.toList.map (fun kv => s!"{prKey kv.key}={prVal kv.val} ")) ++ "}"

def protoStr (regs : Array Nat) (p : Option Nat) : String :=
  match p with
  | none => "-1"
  | some id => match regs.toList.findIdx? (· == id) with
    | some j => toString j
    | none => "-2"

def St.state (s : St) : String := Id.run do
  let mut o := ""
  for i in [0:NT] do
    let t := s.tab i
    o := o ++ s!" T{i}:{t.data.size},{t.count},{t.deleted},{hexNat (kvDigest t.data).toNat},{protoStr s.T t.proto}"
    if t.bad then o := o ++ "!NULL-DEREF"
    if s.full then o := o ++ dumpKV t.data
  for i in [0:NS] do
    let t := s.str i
    o := o ++ s!" S{i}:{t.data.size},{t.length},{hexNat (kvDigest t.data).toNat},{protoStr s.S t.proto}"
    if s.certFail then o := o ++ "!STRUCT-CERT"
    if s.full then o := o ++ dumpKV t.data
  for i in [0:NA] do
    let a := s.A.getD i default
    let d := a.items.foldl (fun d v => dg d (match v with | some v => v | none => 0xFFFFE)) 0
    o := o ++ s!" A{i}:{a.count},{a.capacity},{hexNat d.toNat}"
    if s.full then o := o ++ "{" ++ String.join ((a.items.take 4000).map (fun v => prOV v ++ " ")) ++ "}"
  for i in [0:NB] do
    let b := s.B.getD i default
    let d := b.items.foldl (fun d v => dg d (match v with | some v => v | none => 256)) 0
    o := o ++ s!" B{i}:{b.count},{b.capacity},{hexNat d.toNat}"
    if s.full then o := o ++ "{" ++ String.join ((b.items.take 4000).map (fun v => match v with | some v => hexByte v | none => "??")) ++ "}"
  return o

/-! token decoding -/
def regOf (c : Char) (n : Nat) (t : String) : Option Nat :=
  match t.toList with
  | c' :: rest => if c' == c then (String.ofList rest).toNat?.bind (fun i => if i < n then some i else none) else none
  | [] => none

def valOf (t : String) : Option Nat :=
  match t.toList with
  | 'v' :: rest => (String.ofList rest).toNat?
  | _ => if t == "nil" then some 0 else if t == "false" then some 1 else if t == "true" then some 2 else none

def kargOf (t : String) : Option KArg :=
  if t == "nil" then some .nil else if t == "nan" then some .nan else (regOf 'K' 1000000 t).map .key

/-- a token as an integer-ish argument -/
def argOf (t : String) : Arg :=
  if t == "nil" || t == "v0" then .nil
  else match t.toInt? with
    | some n => if -2147483648 ≤ n ∧ n ≤ 2147483647 then .int n else .bad
    | none => .bad

def tupleOf (t : String) : Option (List (Option Nat)) :=
  match t.toList with
  | '[' :: rest =>
    let inner := String.ofList (rest.takeWhile (· != ']'))
    if inner == "" then some [] else some ((inner.splitOn ",").map (fun x => some (x.toNat?.getD 0)))
  | _ => none

def optArg (toks : List String) (i : Nat) : Option Arg := (toks[i]?).map argOf

/-- the bit-index argument of buffer/bit*: an integer token is a number that is integral and within `int64_t` -/
def bitArgOf (t : String) : BitArg :=
  match t.toInt? with
  | some n => if -9223372036854775808 ≤ n ∧ n ≤ 9223372036854775807 then .idx n else .bad
  | none => .bad

def bytesOfTok (t : String) : Option (List Nat) :=
  match t.toList with
  | 's' :: rest => some (rest.map (·.toNat))
  | ':' :: rest => some (rest.map (·.toNat))
  | _ => none

def outStr {α} (pr : Option α → String) : Outcome α → String
  | .ok => "ok"
  | .val v => pr v
  | .num n => toString n
  | .err => "err"
  | .oom => "OOM"
  | .ub => "UB"

def prByte : Option Nat → String
  | some b => toString b
  | none => "uninit"

/-- `keys` / iteration by repeated `next` -/
def iterKeys (s : St) (data : Array Slot) : List Nat := iterNext s.h data (data.size + 1) none

def listStr (xs : List String) : String := "[" ++ " ".intercalate xs ++ "]"

def stepOp (s : St) (toks : List String) : St × String :=
  let h := s.h
  match toks with
  | ["hist", _] => (s.reset, "ok")
  | op :: x :: rest =>
    let t0 := regOf 'T' NT x
    let s0 := regOf 'S' NS x
    let a0 := regOf 'A' NA x
    let b0 := regOf 'B' NB x
    -- ------------------------------------------------ tables
    match t0, s0, a0, b0 with
    | some r, _, _, _ =>
      let t := s.tab r
      match op, rest with
      | "tnew", [c] => match argOf c with
        | .int n => if n < 0 then (s, "err") else (s.newTab r (Table.init n.toNat), "ok")
        | _ => (s, "err")
      | "tnewweak", [c, _] => match argOf c with     -- table/weak, weak-keys, weak-values: the same janet_table_init_impl
        | .int n => if n < 0 then (s, "err") else (s.newTab r (Table.init n.toNat), "ok")
        | _ => (s, "err")
      | "put", [k, v] => match kargOf k, valOf v with
        | some k, some v => (s.setTab r (t.put h k v), "ok")
        | _, _ => (s, "bad-op")
      | "get", [k] | "in", [k] => match kargOf k with
        | some (.key k) => (s, prVal (tableGet h s.theapF (s.T.getD r 0) k))
        | some _ => (s, "nil")      -- nil / NaN never equal a stored key
        | none => (s, "bad-op")
      | "rawget", [k] => match kargOf k with
        | some (.key k) => (s, prVal (t.rawget h k))
        | some _ => (s, "nil")
        | none => (s, "bad-op")
      | "rem", [k] => match kargOf k with
        | some (.key k) => let r' := t.remove h k; (s.setTab r r'.1, prVal r'.2)
        | some _ => (s, "nil")
        | none => (s, "bad-op")
      | "clear", [] => (s.setTab r t.clear, "ok")
      | "clone", [d] => match regOf 'T' NT d with
        | some d => (s.newTab d t.clone, "ok")
        | none => (s, "bad-op")
      | "setproto", [p] =>
        if p == "nil" then (s.setTab r { t with proto := none }, "ok")
        else match regOf 'T' NT p with
          | some p => (s.setTab r { t with proto := some (s.T.getD p 0) }, "ok")
          | none => (s, "err")
      | "next", [k] => match kargOf k with
        | some .nil => (s, prKey (dictNext h t.data none))
        | some (.key k) => (s, prKey (dictNext h t.data (some k)))
        | _ => (s, "bad-op")
      | "len", [] => (s, toString t.count)
      | "keys", [] => (s, listStr ((iterKeys s t.data).map (fun k => s!"K{k}")))
      | "pairs", [] => (s, listStr ((iterKeys s t.data).map (fun k => s!"K{k}={prVal (tableGet h s.theapF (s.T.getD r 0) k)}")))
      | "values", [] => (s, listStr ((iterKeys s t.data).map (fun k => prVal (tableGet h s.theapF (s.T.getD r 0) k))))
      | "merge", srcs | "cmerge", srcs =>
        let s' := srcs.foldl (fun (acc : Option St) src => acc.bind (fun s =>
          let kvs : Option (List Slot) := match regOf 'T' NT src, regOf 'S' NS src with
            | some j, _ => some (s.tab j).data.toList
            | _, some j => some (s.str j).data.toList
            | _, _ => none
          kvs.map (fun kvs => s.setTab r ((s.tab r).mergekv h kvs)))) (some s)
        match s' with
        | some s' => (s', "ok")
        | none => (s, "bad-op")
      | "mergenew", srcs =>
        let colls : Option (List (List Slot)) := srcs.mapM (fun src =>
          match regOf 'T' NT src, regOf 'S' NS src with
          | some j, _ => some (s.tab j).data.toList
          | _, some j => some (s.str j).data.toList
          | _, _ => none)
        match colls with
        | some colls => (s.newTab r (mergeNew h colls), "ok")
        | none => (s, "err")
      | "zipcoll", toks =>
        let ks := toks.takeWhile (· != "/")
        let vs := (toks.dropWhile (· != "/")).drop 1
        match ks.mapM kargOf, vs.mapM valOf with
        | some ks, some vs => (s.newTab r (fromPuts h (ks.zip vs)), "ok")
        | _, _ => (s, "bad-op")
      | "frompairs", kvs =>
        let rec pairsOf : List String → Option (List (KArg × Nat))
          | k :: v :: rest => match kargOf k, valOf v, pairsOf rest with
            | some k, some v, some l => some ((k, v) :: l)
            | _, _, _ => none
          | [] => some []
          | _ => none
        match pairsOf kvs with
        | some l => (s.newTab r (fromPuts h l), "ok")
        | none => (s, "bad-op")
      | "update", [k] => match kargOf k with
        | some (.key k) => (s.setTab r (t.put h (.key k) (tableGet h s.theapF (s.T.getD r 0) k)), "ok")
        | some _ => (s, "ok")
        | none => (s, "bad-op")
      | "getproto", [] => (s, match t.proto with | none => "nil" | some _ => protoStr s.T t.proto)
      | "tostruct", [d] => match regOf 'S' NS d with
        | some d => (s.newStrCert d (t.toStruct h s.rank) (some t), "ok")
        | none => (s, "bad-op")
      | "flatten", [d] => match regOf 'T' NT d with
        | some d =>
          (s.newTab d (protoFlatten h (s.tchain (if flattenBounded then maxProtoDepth else 100000) (some (s.T.getD r 0)))), "ok")
        | none => (s, "bad-op")
      | "freeze", [d] => match regOf 'S' NS d with
        | some d =>
          let (s', id) := s.freezeChain (s.tchain 100000 (some (s.T.getD r 0)))
          match id with
          | some id => ({ s' with S := s'.S.setIfInBounds d id }, "ok")
          | none => (s, "bad-op")
        | none => (s, "bad-op")
      | "thaw", [d] => match regOf 'T' NT d with     -- (walk-dict thaw (table/proto-flatten ds)) on immutable keys / values
        | some d =>
          let flat := protoFlatten h (s.tchain (if flattenBounded then maxProtoDepth else 100000) (some (s.T.getD r 0)))
          (s.newTab d (thawFlat h flat), "ok")
        | none => (s, "bad-op")
      | _, _ => (s, "bad-op")
    -- ------------------------------------------------ structs
    | _, some r, _, _ =>
      let st := s.str r
      match op, rest with
      | "get", [k] | "in", [k] => match kargOf k with
        | some (.key k) => (s, prVal (structGetChain h s.sheapF k maxProtoDepth (some (s.S.getD r 0))))
        | some _ => (s, "nil")
        | none => (s, "bad-op")
      | "rawget", [k] => match kargOf k with
        | some (.key k) => (s, prVal (st.rawget h k))
        | some _ => (s, "nil")
        | none => (s, "bad-op")
      | "put", [_, _] => (s, "err")
      | "next", [k] => match kargOf k with
        | some .nil => (s, prKey (dictNext h st.data none))
        | some (.key k) => (s, prKey (dictNext h st.data (some k)))
        | _ => (s, "bad-op")
      | "getproto", [] => (s, match st.proto with | none => "nil" | some _ => protoStr s.S st.proto)
      | "len", [] => (s, toString st.length)
      | "keys", [] => (s, listStr ((iterKeys s st.data).map (fun k => s!"K{k}")))
      | "pairs", [] => (s, listStr ((iterKeys s st.data).map (fun k => s!"K{k}={prVal (structGetChain h s.sheapF k maxProtoDepth (some (s.S.getD r 0)))}")))
      | "values", [] => (s, listStr ((iterKeys s st.data).map (fun k => prVal (structGetChain h s.sheapF k maxProtoDepth (some (s.S.getD r 0))))))
      | "totable", [d] => match regOf 'T' NT d with
        | some d => (s.newTab d (st.toTable h st.length), "ok")
        | none => (s, "bad-op")
      | "mkstruct", kvs =>
        if kvs.length % 2 = 1 then (s, "err")
        else
          let rec go (b : StructB) : List String → Option StructB
            | k :: v :: rest => match kargOf k, valOf v with
              | some (.key k), some v => go (structPut h s.rank true b k v) rest
              | some _, some _ => go b rest
              | _, _ => none
            | _ => some b
          match go (structBegin (kvs.length / 2)) kvs with
          | some b => (s.newStrCert r (structEnd h s.rank b) none, "ok")
          | none => (s, "bad-op")
      | "withproto", [p, d] => match regOf 'S' NS d with
        | some d =>
          let pr : Option (Option Nat) := if p == "nil" then some none else (regOf 'S' NS p).map (fun j => some (s.S.getD j 0))
          match pr with
          | some pr =>
            (s.newStrCert d (st.withProto h s.rank pr) none, "ok")
          | none => (s, "err")
        | none => (s, "bad-op")
      | _, _ => (s, "bad-op")
    -- ------------------------------------------------ arrays
    | _, _, some r, _ =>
      let a := s.A.getD r default
      let setA (p : Arr × Outcome Nat) : St × String := ({ s with A := s.A.setIfInBounds r p.1 }, outStr prOV p.2)
      let vals (ts : List String) : Option (List Nat) := ts.mapM valOf
      match op, rest with
      | "anew", [c] => match argOf c with
        | .int n => ({ s with A := s.A.setIfInBounds r (Arr.new n) }, "ok")
        | _ => (s, "err")
      | "anewfilled", c :: vs => match Arr.newFilled (argOf c) ((vs.head?.bind valOf).getD 0) with
        | some a' => ({ s with A := s.A.setIfInBounds r a' }, "ok")
        | none => (s, "err")
      | "apush", vs => match vals vs with
        | some vs => setA (a.cfunPush vs)
        | none => (s, "bad-op")
      | "apop", [] => setA a.pop
      | "apeek", [] => setA a.peek
      | "ainsert", pos :: vs => match vals vs with
        | some vs => setA (a.insert (argOf pos) vs)
        | none => (s, "bad-op")
      | "aremove", [pos] => setA (a.remove (argOf pos) none)
      | "aremove", [pos, n] => setA (a.remove (argOf pos) (some (argOf n)))
      | "aconcat", ps =>
        let parts : Option (List Part) := ps.mapM (fun p =>
          match regOf 'A' NA p, tupleOf p, valOf p with
          | some j, _, _ => some (if j == r then Part.self else Part.other (s.A.getD j default).items (s.A.getD j default).isNull)
          | _, some l, _ => some (Part.many l)
          | _, _, some v => some (Part.one v)
          | _, _, _ => none)
        match parts with
        | some parts => setA (a.concat parts)
        | none => (s, "bad-op")
      | "ajoin", ps =>
        let parts : Option (List Part) := ps.mapM (fun p =>
          match regOf 'A' NA p, tupleOf p, valOf p with
          | some j, _, _ => some (if j == r then Part.self else Part.other (s.A.getD j default).items (s.A.getD j default).isNull)
          | _, some l, _ => some (Part.many l)
          | _, _, some v => some (Part.one v)
          | _, _, _ => none)
        match parts with
        | some parts => setA (a.join parts)
        | none => (s, "bad-op")
      | "afill", [] => setA (a.fill 0)
      | "afill", [v] => match valOf v with
        | some v => setA (a.fill v)
        | none => (s, "bad-op")
      | "aensure", [c, g] => setA (a.cfunEnsure (argOf c) (argOf g))
      | "atrim", [] => setA a.trim
      | "aclear", [] => setA a.clear
      | "aslice", d :: se => match regOf 'A' NA d with
        | some d => match sliceOf a.items (optArg se 0) (optArg se 1) with
          | some a' => ({ s with A := s.A.setIfInBounds d a' }, "ok")
          | none => (s, "err")
        | none => (s, "bad-op")
      | "asetcount", [c] => match argOf c with
        | .int n => setA (a.setcount n)
        | _ => (s, "bad-op")
      | "put", [k, v] => match valOf v with
        | some v => setA (a.put (argOf k) v)
        | none => (s, "bad-op")
      | "puti", [k, v] => match argOf k, valOf v with
        | .int n, some v => setA (a.putindex n v)
        | _, _ => (s, "bad-op")
      | "get", [k] => (s, outStr prOV (a.get (argOf k)))
      | "in", [k] => (s, outStr prOV (a.in (argOf k)))
      | "geti", [k] => match argOf k with
        | .int n => (s, outStr prOV (a.getindex n))
        | _ => (s, "bad-op")
      | "next", [k] => (s, outStr prOV (seqNext a.count (argOf k)))
      | "len", [] => (s, toString a.count)
      | _, _ => (s, "bad-op")
    -- ------------------------------------------------ buffers
    | _, _, _, some r =>
      let b := s.B.getD r default
      let setB (p : Buf × Outcome Nat) : St × String := ({ s with B := s.B.setIfInBounds r p.1 }, outStr prByte p.2)
      let nilOk (o : Outcome Nat) : String := match o with | .ok => "nil" | o => outStr prByte o
      let bargs (ts : List String) : List BArg := ts.map (fun t =>
        match regOf 'B' NB t, bytesOfTok t, t.toInt? with
        | some j, _, _ => if j == r then BArg.self else BArg.bytes ((s.B.getD j default).items.map (·.getD 256))
        | _, some bs, _ => BArg.bytes bs
        | _, _, some n => if -2147483648 ≤ n ∧ n ≤ 2147483647 then BArg.int n else BArg.badnum
        | _, _, none => if t.startsWith "f" then BArg.badnum else BArg.bad)
      match op, rest with
      | "bnew", [c] => match argOf c with
        | .int n => ({ s with B := s.B.setIfInBounds r (Buf.new n) }, "ok")
        | _ => (s, "err")
      | "bnewfilled", c :: bs => match Buf.newFilled (argOf c) (optArg bs 0) with
        | some b' => ({ s with B := s.B.setIfInBounds r b' }, "ok")
        | none => (s, "err")
      | "bpush", xs => setB (b.pushImpl (bargs xs))
      | "bpushbyte", xs => setB (b.pushByteArgs (bargs xs))
      | "bpushstr", xs => setB (b.pushStringArgs (bargs xs))
      | "bpushword", xs =>
        setB (b.pushWordArgs (xs.map (fun t => match t.toInt? with
          | some n => if 0 ≤ n ∧ n < 4294967296 then WArg.word n.toNat else WArg.bad
          | none => WArg.bad)))
      | "bbitset", [x] => setB (b.bitSet (bitArgOf x))
      | "bbitclear", [x] => setB (b.bitClear (bitArgOf x))
      | "bbittoggle", [x] => setB (b.bitToggle (bitArgOf x))
      | "bbit", [x] => (s, match b.bitGet (bitArgOf x) with
          | .num 1 => "true"
          | .num _ => "false"
          | o => outStr prByte o)
      | "bfrombytes", xs => match Buf.fromBytes (xs.map argOf) with
        | some b' => ({ s with B := s.B.setIfInBounds r b' }, "ok")
        | none => (s, "err")
      | "bpushat", i :: xs => setB (b.pushAt (argOf i) (bargs xs))
      | "bpopn", [n] => setB (b.popn (argOf n))
      | "bfill", [] => setB (b.fill none)
      | "bfill", [x] => setB (b.fill (some (argOf x)))
      | "btrim", [] => setB b.trim
      | "bclear", [] => setB b.clear
      | "bblit", src :: more =>
        let srcv : Option (Option (List (Option Nat))) := match regOf 'B' NB src, bytesOfTok src with
          | some j, _ => some (if j == r then none else some (s.B.getD j default).items)
          | _, some bs => some (some (bs.map some))
          | _, _ => none
        match srcv with
        | some srcv => setB (b.blit srcv (optArg more 0) (optArg more 1) (more.length > 2) (optArg more 2))
        | none => (s, "err")
      | "bslice", d :: se => match regOf 'B' NB d with
        | some d => match bsliceOf b.items (optArg se 0) (optArg se 1) with
          | some b' => ({ s with B := s.B.setIfInBounds d b' }, "ok")
          | none => (s, "err")
        | none => (s, "bad-op")
      | "bsetcount", [c] => match argOf c with
        | .int n => setB (b.setcount n)
        | _ => (s, "bad-op")
      | "bensure", [c, g] => match argOf c, argOf g with
        | .int c, .int g => match b.ensure c g with
          | some b' => setB (b', .ok)
          | none => (s, "OOM")
        | _, _ => (s, "bad-op")
      | "bextra", [n] => match argOf n with
        | .int n => setB (b.extra n)
        | _ => (s, "bad-op")
      | "put", [k, v] => setB (b.put (argOf k) (argOf v))
      | "puti", [k, v] => match argOf k with
        | .int n => setB (b.putindex n (argOf v))
        | _ => (s, "bad-op")
      | "get", [k] => (s, nilOk (b.get (argOf k)))
      | "in", [k] => (s, outStr prByte (b.in (argOf k)))
      | "geti", [k] => match argOf k with
        | .int n => (s, nilOk (b.getindex n))
        | _ => (s, "bad-op")
      | "next", [k] => (s, outStr prOV (seqNext b.count (argOf k)))
      | "len", [] => (s, toString b.count)
      | _, _ => (s, "bad-op")
    | _, _, _, _ =>
      -- slices whose source is a literal: `aslice [1,2,3] A1 s e`, `bslice sabc B1 s e`
      match op, tupleOf x, bytesOfTok x, rest with
      | "aslice", some items, _, d :: se => match regOf 'A' NA d with
        | some d => match sliceOf items (optArg se 0) (optArg se 1) with
          | some a' => ({ s with A := s.A.setIfInBounds d a' }, "ok")
          | none => (s, "err")
        | none => (s, "bad-op")
      | "bslice", _, some bs, d :: se => match regOf 'B' NB d with
        | some d => match bsliceOf (bs.map some) (optArg se 0) (optArg se 1) with
          | some b' => ({ s with B := s.B.setIfInBounds d b' }, "ok")
          | none => (s, "err")
        | none => (s, "bad-op")
      | _, _, _, _ => (s, "bad-op")
  | _ => (s, "bad-op")

def step (s : St) (toks : List String) : St × String :=
  match toks with
  | ["key", i, hsh, rk] =>
    match i.toNat?, hsh.toNat?, rk.toNat? with
    | some i, some hv, some rk =>
      let grow (a : Array Nat) := if a.size ≤ i then a ++ Array.replicate (i + 1 - a.size) 0 else a
      ({ s with hashes := (grow s.hashes).setIfInBounds i hv, ranks := (grow s.ranks).setIfInBounds i rk }, s!"key {i} {hv} {rk}")
    | _, _, _ => (s, "bad-op")
  | ["keys-end", n] => (s.reset, s!"keys-end {n}")
  | ["full"] => ({ s with full := true }, "full")
  | _ =>
    let (s', r) := stepOp s toks
    if r == "bad-op" then (s', r) else (s', r ++ s'.state)

end C04

def main : IO Unit := runLoop ({} : C04.St) C04.step
