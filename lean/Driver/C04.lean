-- line-protocol model driver for C04 (stub)
def main : IO Unit := IO.println "stub C04"
