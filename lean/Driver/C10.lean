-- line-protocol model driver for C10 (stub)
def main : IO Unit := IO.println "stub C10"
