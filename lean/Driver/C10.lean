/- Line-protocol model driver for C10.
    rows                                          -> "bad <opnum>..." | "ok"      (rows of the generated tables that fail rowOk)
    consistent                                    -> "true" | "false"
    fiber <status> <noUseval> <noSkip> <frame> <stackstart> <stacktop> <maxstack> {7 numbers per frame record}
                                                  -> "inv=<acc|rej> src=<acc|rej>"  (all checks = the invariant / checks of the current source)
    function <len> <def envs> <indices...>        -> "inv=<acc|rej> src=<acc|rej>"  (acceptFunction: header count vs def, environment indices ≥ -1)
    envvalid <offset> <length> <frame> {<prevframe> <envIsThis> <hasFunc> <slotcount>}*  -> "<result> <offset> <length>" (model of janet_env_valid)
    envvalidshape                                 -> "true" | "false"
    nanbox                                        -> "ok=<NB.ok> nan=<bits> safe=<bool>"   (NaN-boxing constants of the current source)
    nanbox <w decimal>                            -> "<bits of the Janet unmarshal_one makes of LB_REAL w> <janet_type> <mask of types passing janet_checktype>"
    pegrows                                       -> global flags + opcode numbers whose verifier row does not cover peg_rule
    pegverify <num_constants> <words...>          -> "acc" | "rej"   (model of the verifier in peg_unmarshal)
    verify <sc> <arity> <vararg> <nc> <nd> <ne> <hex of u32 LE words> -> error code of the janet_verify model (0 = accepted)
    vmguards                                      -> "ok" | "bad <handler:expr>..." (value-dependent dereferences of vm.c without a dominating run-time test)
    umsites                                       -> "ok" | "bad <site>..."       (read sites of marsh.c whose test does not dominate the reads)
    umdepths                                      -> "ok" | "bad <path>;..."      (call paths between two MARSH_STACKCHECKs that add 0 to the depth counter)
    ums [<hex>]                                   -> as `um` + " L=<types of the reference table> E=<envs> D=<defs>:<done flags> V=<environments_length,environments.. of each def; ';' separated>" (internal state)
    ums [<hex>]                                   -> as `um` + " L=<types of the reference table> E=<envs> D=<defs>:<done flags> V=<environments_length,environments.. of each def; ';' separated>" (internal state)
    um [<hex>]                                    -> "acc <consumed> <type>" | "rej <class>" | "oob <site>" | "fuel"
                                                     (byte-level unmarshal model with the sites of the current source)
-/
import Driver.Util
import JanetModel.Bytecode.VerifyDefs
import JanetModel.Gen.VmAccess
import JanetModel.Unmarsh.Image
import JanetModel.Gen.ImageChecks
import JanetModel.PegVerify.Defs
import JanetModel.Gen.PegAccess
import JanetModel.Unmarsh.BytesCfg
import JanetModel.Bytecode.GuardObligations
import JanetModel.Gen.NanBox
import JanetModel.Gen.EnvValid
open Driver JanetModel.Bytecode JanetModel.Gen.VmAccess JanetModel.Unmarsh

def allChecks : Checks :=
  { stackSetup := true, frameSize := true, pcRange := true, prevAlign := true, statusRange := true, frame0 := true,
    entrance := true, callPc := true, resumeOperand := true, fnEnvCount := true, defEnvIndex := true,
    envNegOffset := true, envValidBeforeDeref := true }

def parseFrames : List Nat → Option (List FrameRec)
  | [] => some []
  | e :: p :: pc :: sc :: bl :: ac :: asl :: rest =>
    match parseFrames rest with
    | some fs => some ({ entrance := e != 0, prevframe := p, pcdiff := pc, slotcount := sc, bclen := bl, atCall := ac != 0, aIsSlot := asl != 0 } :: fs)
    | none => none
  | _ => none

def allNat (l : List String) : Option (List Nat) := l.mapM String.toNat?

def wordsOfBytes : List Nat → List Nat
  | a :: b :: c :: d :: rest => (a + 256 * b + 65536 * c + 16777216 * d) :: wordsOfBytes rest
  | _ => []

def typeName : JanetModel.Unmarsh.Bytes.V → String
  | .int => "number" | .real => "number" | .nil => "nil" | .bool => "boolean" | .str => "string" | .sym _ => "symbol"
  | .kw => "keyword" | .buf => "buffer" | .arr => "array" | .tup => "tuple" | .struct => "struct" | .tab => "table"
  | .fiber _ => "fiber" | .func _ => "function" | .abs => "abstract"

def runUm (bs : List Nat) : String :=
  let C := JanetModel.Unmarsh.Bytes.cfg
  match JanetModel.Unmarsh.Bytes.unmarshal C bs.toArray (JanetModel.Unmarsh.Bytes.fuelBound C) with
  | .ok v c => s!"acc {c.pos} {typeName v}"
  | .err e => "rej " ++ (reprStr e).replace "JanetModel.Unmarsh.Bytes.Err." ""
  | .oob site => s!"oob {site}"
  | .fuel => "fuel"

/-- result + internal state after the top-level value: types of the reference table, counts of the env / def tables -/
def runUms (bs : List Nat) : String :=
  let C := JanetModel.Unmarsh.Bytes.cfg
  match JanetModel.Unmarsh.Bytes.unmarshal C bs.toArray (JanetModel.Unmarsh.Bytes.fuelBound C) with
  | .ok v c =>
    s!"acc {c.pos} {typeName v} L={",".intercalate (c.st.lookup.toList.map typeName)} E={c.st.nenvs} D={c.st.defs.size}:" ++
      String.join (c.st.defs.toList.map fun d => if d.done then "1" else "0") ++
      " V=" ++ ";".intercalate (c.st.defs.toList.map fun d => toString d.envLen ++ String.join (d.envs.map fun e => "," ++ toString e))
  | .err e => "rej " ++ (reprStr e).replace "JanetModel.Unmarsh.Bytes.Err." ""
  | .oob site => s!"oob {site}"
  | .fuel => "fuel"

def step (_ : Unit) (toks : List String) : Unit × String :=
  match toks with
  | ["ums"] => ((), runUms [])
  | ["ums", h] =>
    match bytesOfHex h with
    | some bs => ((), runUms bs)
    | none => ((), "bad-op")
  | ["umsites"] =>
    let C := JanetModel.Unmarsh.Bytes.cfg
    let bad := C.sites.bad ++ (if C.refChecked then [] else ["lookup[len]"]) ++ (if C.envRefChecked then [] else ["lookup_envs[index]"]) ++
      (if C.defRefChecked then [] else ["lookup_defs[index]"])
    ((), if bad.isEmpty then "ok" else "bad " ++ " ".intercalate bad)
  | "envvalid" :: off :: len :: frame :: recs =>
    -- envvalid <offset (signed)> <length> <fiber->frame> {<prevframe> <envIsThis> <hasFunc> <slotcount>}*  (frames top-most first)
    let rec parse : List Nat → Option (List JanetModel.Unmarsh.EnvValid.EFrame)
      | [] => some []
      | p :: e :: f :: sc :: rest =>
        match parse rest with
        | some fs => some ({ hdr := { entrance := false, prevframe := p, pcdiff := 0, slotcount := sc, bclen := 1, atCall := true, aIsSlot := true },
                             envIsThis := e != 0, hasFunc := f != 0 } :: fs)
        | none => none
      | _ => none
    match off.toInt?, len.toNat?, frame.toNat?, allNat recs with
    | some off, some len, some frame, some ns =>
      match parse ns with
      | some fs =>
        let r := JanetModel.Unmarsh.EnvValid.envValid JanetModel.Gen.EnvValid.shape off len fs frame
        ((), s!"{if r.1 then 1 else 0} {r.2.1} {r.2.2}")
      | none => ((), "bad-op")
    | _, _, _, _ => ((), "bad-op")
  | ["envvalidshape"] => ((), toString JanetModel.Gen.EnvValid.shape.allOn)
  | ["nanbox"] =>
    let N := JanetModel.Gen.NanBox.nb
    ((), s!"ok={N.ok} nan={N.nanBits} safe={N.safe}")
  | ["nanbox", w] =>
    match w.toNat? with
    | some w =>
      let N := JanetModel.Gen.NanBox.nb
      let r := JanetModel.Unmarsh.NanBox.unmarshalReal N w
      ((), s!"{r} {JanetModel.Unmarsh.NanBox.janetType N r} {JanetModel.Unmarsh.NanBox.typeMask N r}")
    | none => ((), "bad-op")
  | ["umdepths"] =>
    let bad := JanetModel.Unmarsh.Bytes.cfg.inc.bad
    ((), if bad.isEmpty then "ok" else "bad " ++ ";".intercalate (bad.map (·.replace " " "_")))
  | ["vmguards"] =>
    let bad := JanetModel.Bytecode.GuardObligations.badRows
    ((), if bad.isEmpty then "ok" else "bad " ++ " ".intercalate (bad.map (·.replace " " "")))
  | ["um"] => ((), runUm [])
  | ["um", h] =>
    match bytesOfHex h with
    | some bs => ((), runUm bs)
    | none => ((), "bad-op")
  | ["rows"] =>
    let bad := tables.badRows
    ((), if bad.isEmpty then "ok" else "bad " ++ " ".intercalate (bad.map toString))
  | ["consistent"] => ((), toString tables.consistent)
  | ["verify", sc, ar, va, nc, nd, ne, h] =>
    match sc.toNat?, ar.toNat?, va.toNat?, nc.toNat?, nd.toNat?, ne.toNat?, bytesOfHex h with
    | some sc, some ar, some va, some nc, some nd, some ne, some bs =>
      let d : FuncDef := { slotcount := sc, arity := ar, vararg := va != 0, nconsts := nc, ndefs := nd, nenvs := ne, bytecode := wordsOfBytes bs }
      ((), toString (verify tables d))
    | _, _, _, _, _, _, _ => ((), "bad-op")
  | ["verify", sc, ar, va, nc, nd, ne] =>
    match sc.toNat?, ar.toNat?, va.toNat?, nc.toNat?, nd.toNat?, ne.toNat? with
    | some sc, some ar, some va, some nc, some nd, some ne =>
      ((), toString (verify tables { slotcount := sc, arity := ar, vararg := va != 0, nconsts := nc, ndefs := nd, nenvs := ne, bytecode := [] }))
    | _, _, _, _, _, _ => ((), "bad-op")
  | ["pegrows"] =>
    let T := JanetModel.Gen.PegAccess.tables
    let bad := T.badRows
    ((), s!"exactEnd={T.exactEnd} marksChecked={T.marksChecked} nonEmpty={T.nonEmpty} bad={" ".intercalate (bad.map toString)}")
  | "pegverify" :: nc :: ws =>
    -- pegverify <num_constants> <bytecode words...>
    match nc.toNat?, allNat ws with
    | some nc, some bc => ((), if JanetModel.PegVerify.pegVerify JanetModel.Gen.PegAccess.tables bc nc then "acc" else "rej")
    | _, _ => ((), "bad-op")
  | "function" :: len :: k :: idx =>
    -- function <len> <environments_length of the def> <environment indices of the def and its sub-defs (signed)>
    match len.toNat?, k.toNat?, idx.mapM String.toInt? with
    | some len, some k, some es =>
      let inv := acceptFunction allChecks len k es
      let src := acceptFunction JanetModel.Gen.ImageChecks.checks len k es
      ((), s!"inv={if inv then "acc" else "rej"} src={if src then "acc" else "rej"}")
    | _, _, _ => ((), "bad-op")
  | "fiber" :: rest =>
    -- fiber <status> <noUseval> <noSkip> <frame> <stackstart> <stacktop> <maxstack> {<entrance> <prevframe> <pcdiff> <slotcount> <bclen> <atCall> <aIsSlot>}*
    match allNat rest with
    | some (st :: nu :: ns :: fr :: ss :: stp :: mx :: recs) =>
      match parseFrames recs with
      | some fs =>
        let h : FiberHdr := { status := st, noUseval := nu != 0, noSkip := ns != 0, frame := fr, stackstart := ss, stacktop := stp, maxstack := mx }
        let inv := acceptFiber allChecks h fs
        let src := acceptFiber JanetModel.Gen.ImageChecks.checks h fs
        ((), s!"inv={if inv then "acc" else "rej"} src={if src then "acc" else "rej"}")
      | none => ((), "bad-op")
    | _ => ((), "bad-op")
  | _ => ((), "bad-op")

def main : IO Unit := runLoop () step
