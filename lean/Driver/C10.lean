/- Line-protocol model driver for C10.
    rows                                          -> "bad <opnum>..." | "ok"      (rows of the generated tables that fail rowOk)
    consistent                                    -> "true" | "false"
    verify <sc> <arity> <vararg> <nc> <nd> <ne> <hex of u32 LE words> -> error code of the janet_verify model (0 = accepted)
-/
import Driver.Util
import JanetModel.Bytecode.VerifyDefs
import JanetModel.Gen.VmAccess
open Driver JanetModel.Bytecode JanetModel.Gen.VmAccess

def wordsOfBytes : List Nat → List Nat
  | a :: b :: c :: d :: rest => (a + 256 * b + 65536 * c + 16777216 * d) :: wordsOfBytes rest
  | _ => []

def step (_ : Unit) (toks : List String) : Unit × String :=
  match toks with
  | ["rows"] =>
    let bad := tables.badRows
    ((), if bad.isEmpty then "ok" else "bad " ++ " ".intercalate (bad.map toString))
  | ["consistent"] => ((), toString tables.consistent)
  | ["verify", sc, ar, va, nc, nd, ne, h] =>
    match sc.toNat?, ar.toNat?, va.toNat?, nc.toNat?, nd.toNat?, ne.toNat?, bytesOfHex h with
    | some sc, some ar, some va, some nc, some nd, some ne, some bs =>
      let d : FuncDef := { slotcount := sc, arity := ar, vararg := va != 0, nconsts := nc, ndefs := nd, nenvs := ne, bytecode := wordsOfBytes bs }
      ((), toString (verify tables d))
    | _, _, _, _, _, _, _ => ((), "bad-op")
  | ["verify", sc, ar, va, nc, nd, ne] =>
    match sc.toNat?, ar.toNat?, va.toNat?, nc.toNat?, nd.toNat?, ne.toNat? with
    | some sc, some ar, some va, some nc, some nd, some ne =>
      ((), toString (verify tables { slotcount := sc, arity := ar, vararg := va != 0, nconsts := nc, ndefs := nd, nenvs := ne, bytecode := [] }))
    | _, _, _, _, _, _ => ((), "bad-op")
  | _ => ((), "bad-op")

def main : IO Unit := runLoop () step
