/- Line-protocol model driver for C12 (PEG).

  op   <entry> <hasBackref 0/1> <leak 0/1> <bytecode words ','> <consts: K,VAL*> <text hex|-> <start> <args: K,VAL*> [<subst VAL>]
  den  ... same fields: the denotational semantics on the same bytecode
  spec <entry> <source grammar tokens ','> <text hex|-> <start> <args> [<subst VAL>]
  entry = match | find | findall | replace | replaceall
  answers:  M- | M[v,..] | F- | F<i> | A[i,..] | R<hex> | E:<kind>...
-/
import Driver.Util
import JanetModel.Peg.Entry
import JanetModel.Peg.Validate
import JanetModel.Peg.Compile
import JanetModel.Peg.BackrefLemmas
open Driver JanetModel.Peg JanetModel.Peg.Spec

def hexOrEmpty (h : String) : Option (List Nat) := if h == "-" then some [] else bytesOfHex h

partial def showVal : Val → String
  | .nil => "n"
  | .bool true => "t"
  | .bool false => "f"
  | .int n => s!"i{n}"
  | .str b => "s" ++ hexOfBytes b
  | .kw b => "k" ++ hexOfBytes b
  | .arr xs => "a[" ++ ",".intercalate (xs.map showVal) ++ "]"
  | .s64 n => s!"l{n}"
  | .u64 n => s!"u{n}"
  | .struct _ => "S"
  | .fn name => "F" ++ name

def showKey : Key → String
  | .str b => "s," ++ (if b.isEmpty then "-" else hexOfBytes b)
  | .int n => s!"i,{n}"

/-- constants in the comma-token format of the harness' dump (struct keys in the order given: the harness sorts them) -/
partial def showConst : Val → String
  | .nil => "n"
  | .bool true => "t"
  | .bool false => "f"
  | .int n => s!"i,{n}"
  | .str b => "s," ++ (if b.isEmpty then "-" else hexOfBytes b)
  | .kw b => "k," ++ (if b.isEmpty then "-" else hexOfBytes b)
  | .fn name => "F," ++ name
  | .struct kvs => s!"S,{kvs.length}" ++ String.join (kvs.map (fun kv => "," ++ showKey kv.1 ++ "," ++ showConst kv.2))
  | _ => "X"

def showErr : Err → String
  | .fuel => "E:fuel"
  | .depth => "E:depth"
  | .badop => "E:badop"
  | .oob => "E:oob"
  | .user v => "E:user:" ++ showVal v
  | .matchErr l c => s!"E:match:{l}:{c}"
  | .call => "E:call"


def pNat : List String → Option (Nat × List String)
  | t :: ts => t.toNat?.map (·, ts)
  | [] => none

def pInt : List String → Option (Int × List String)
  | t :: ts => t.toInt?.map (·, ts)
  | [] => none

def pHex : List String → Option (List Nat × List String)
  | t :: ts => (hexOrEmpty t).map (·, ts)
  | [] => none

def pKey : List String → Option (Key × List String)
  | "s" :: ts => do let (b, r) ← pHex ts; pure (.str b, r)
  | "i" :: ts => do let (n, r) ← pInt ts; pure (.int n, r)
  | _ => none

partial def pVal : List String → Option (Val × List String)
  | "n" :: ts => some (.nil, ts)
  | "t" :: ts => some (.bool true, ts)
  | "f" :: ts => some (.bool false, ts)
  | "i" :: ts => do let (n, r) ← pInt ts; pure (.int n, r)
  | "s" :: ts => do let (b, r) ← pHex ts; pure (.str b, r)
  | "k" :: ts => do let (b, r) ← pHex ts; pure (.kw b, r)
  | "F" :: name :: ts => some (.fn name, ts)
  | "S" :: ts => do
    let (k, r) ← pNat ts
    let rec go (k : Nat) (r : List String) (acc : List (Key × Val)) : Option (List (Key × Val) × List String) :=
      if k == 0 then some (acc.reverse, r) else do
        let (key, r1) ← pKey r
        let (v, r2) ← pVal r1
        go (k - 1) r2 ((key, v) :: acc)
    let (kvs, r') ← go k r []
    pure (.struct kvs, r')
  | _ => none

partial def pVals (k : Nat) (ts : List String) (acc : List Val) : Option (List Val × List String) :=
  if k == 0 then some (acc.reverse, ts) else do
    let (v, r) ← pVal ts
    pVals (k - 1) r (v :: acc)

def pValList (field : String) : Option (List Val) := do
  let ts := field.splitOn ","
  let (k, r) ← pNat ts
  let (vs, _) ← pVals k r []
  pure vs

mutual
partial def pPatt : List String → Option (Patt × List String)
  | "str" :: ts => do let (b, r) ← pHex ts; pure (.str b, r)
  | "int" :: ts => do let (n, r) ← pInt ts; pure (.int n, r)
  | "bool" :: ts => do let (n, r) ← pNat ts; pure (.bool (n != 0), r)
  | "ref" :: name :: ts => some (.ref name, ts)
  | "range" :: ts => do
    let (k, r) ← pNat ts
    let rec go (k : Nat) (r : List String) (acc : List (Nat × Nat)) : Option (List (Nat × Nat) × List String) :=
      if k == 0 then some (acc.reverse, r) else do
        let (lo, r1) ← pNat r
        let (hi, r2) ← pNat r1
        go (k - 1) r2 ((lo, hi) :: acc)
    let (rs, r') ← go k r []
    pure (.range rs, r')
  | "set" :: ts => do let (b, r) ← pHex ts; pure (.set b, r)
  | "look" :: ts => do let (o, r) ← pInt ts; let (p, r) ← pPatt r; pure (.look o p, r)
  | "choice" :: ts => do let (k, r) ← pNat ts; let (ps, r) ← pPatts k r []; pure (.choice ps, r)
  | "seq" :: ts => do let (k, r) ← pNat ts; let (ps, r) ← pPatts k r []; pure (.seq ps, r)
  | "if" :: ts => do let (a, r) ← pPatt ts; let (b, r) ← pPatt r; pure (.if_ a b, r)
  | "ifnot" :: ts => do let (a, r) ← pPatt ts; let (b, r) ← pPatt r; pure (.ifnot a b, r)
  | "not" :: ts => do let (a, r) ← pPatt ts; pure (.not a, r)
  | "any" :: ts => do let (a, r) ← pPatt ts; pure (.any a, r)
  | "some" :: ts => do let (a, r) ← pPatt ts; pure (.some a, r)
  | "opt" :: ts => do let (a, r) ← pPatt ts; pure (.opt a, r)
  | "between" :: ts => do let (lo, r) ← pNat ts; let (hi, r) ← pNat r; let (a, r) ← pPatt r; pure (.between lo hi a, r)
  | "atleast" :: ts => do let (n, r) ← pNat ts; let (a, r) ← pPatt r; pure (.atleast n a, r)
  | "atmost" :: ts => do let (n, r) ← pNat ts; let (a, r) ← pPatt r; pure (.atmost n a, r)
  | "repeat" :: ts => do let (n, r) ← pNat ts; let (a, r) ← pPatt r; pure (.repeat_ n a, r)
  | "to" :: ts => do let (a, r) ← pPatt ts; pure (.to a, r)
  | "thru" :: ts => do let (a, r) ← pPatt ts; pure (.thru a, r)
  | "capture" :: ts => do let (t, r) ← pNat ts; let (a, r) ← pPatt r; pure (.capture a t, r)
  | "accumulate" :: ts => do let (t, r) ← pNat ts; let (a, r) ← pPatt r; pure (.accumulate a t, r)
  | "group" :: ts => do let (t, r) ← pNat ts; let (a, r) ← pPatt r; pure (.group a t, r)
  | "drop" :: ts => do let (a, r) ← pPatt ts; pure (.drop a, r)
  | "onlytags" :: ts => do let (a, r) ← pPatt ts; pure (.onlytags a, r)
  | "replace" :: ts => do let (t, r) ← pNat ts; let (v, r) ← pVal r; let (a, r) ← pPatt r; pure (.replace a v t, r)
  | "cmt" :: ts => do let (t, r) ← pNat ts; let (v, r) ← pVal r; let (a, r) ← pPatt r; pure (.cmt a v t, r)
  | "constant" :: ts => do let (t, r) ← pNat ts; let (v, r) ← pVal r; pure (.constant v t, r)
  | "argument" :: ts => do let (n, r) ← pNat ts; let (t, r) ← pNat r; pure (.argument n t, r)
  | "position" :: ts => do let (t, r) ← pNat ts; pure (.position t, r)
  | "line" :: ts => do let (t, r) ← pNat ts; pure (.line t, r)
  | "column" :: ts => do let (t, r) ← pNat ts; pure (.column t, r)
  | "backref" :: ts => do let (s, r) ← pNat ts; let (t, r) ← pNat r; pure (.backref s t, r)
  | "backmatch" :: ts => do let (t, r) ← pNat ts; pure (.backmatch t, r)
  | "unref" :: ts => do let (t, r) ← pNat ts; let (a, r) ← pPatt r; pure (.unref a t, r)
  | "nth" :: ts => do let (n, r) ← pNat ts; let (t, r) ← pNat r; let (a, r) ← pPatt r; pure (.nth n a t, r)
  | "error0" :: ts => some (.error none, ts)
  | "error" :: ts => do let (a, r) ← pPatt ts; pure (.error (some a), r)
  | "lenprefix" :: ts => do let (a, r) ← pPatt ts; let (b, r) ← pPatt r; pure (.lenprefix a b, r)
  | "sub" :: ts => do let (a, r) ← pPatt ts; let (b, r) ← pPatt r; pure (.sub a b, r)
  | "split" :: ts => do let (a, r) ← pPatt ts; let (b, r) ← pPatt r; pure (.split a b, r)
  | "til" :: ts => do let (a, r) ← pPatt ts; let (b, r) ← pPatt r; pure (.til a b, r)
  | "readint" :: ts => do
    let (w, r) ← pNat ts; let (sg, r) ← pNat r; let (be, r) ← pNat r; let (t, r) ← pNat r
    pure (.readint w (sg != 0) (be != 0) t, r)
  | "number" :: ts => do let (b, r) ← pNat ts; let (t, r) ← pNat r; let (a, r) ← pPatt r; pure (.number a b t, r)
  | "grammar" :: ts => do
    let (k, r) ← pNat ts
    let (rules, r) ← pRules k r []
    pure (.grammar rules, r)
  | _ => none
partial def pPatts (k : Nat) (ts : List String) (acc : List Patt) : Option (List Patt × List String) :=
  if k == 0 then some (acc.reverse, ts) else do
    let (p, r) ← pPatt ts
    pPatts (k - 1) r (p :: acc)
partial def pRules (k : Nat) (ts : List String) (acc : List (String × Patt)) : Option (List (String × Patt) × List String) :=
  if k == 0 then some (acc.reverse, ts) else
    match ts with
    | name :: r => do
      let (p, r) ← pPatt r
      pRules (k - 1) r ((name, p) :: acc)
    | [] => none
end

def showMatch : Except Err (Option (List Val)) → String
  | .error e => showErr e
  | .ok none => "M-"
  | .ok (some caps) => "M[" ++ ",".intercalate (caps.map showVal) ++ "]"

def runEntry (entry : String) (m : Matcher) (text : List Nat) (start : Nat) (subst : Option Val) : String :=
  match entry with
  | "match" => showMatch (pegMatch m start)
  | "find" =>
    match pegFind m text.length start with
    | .error e => showErr e
    | .ok none => "F-"
    | .ok (some i) => s!"F{i}"
  | "findall" =>
    match pegFindAll m text.length start with
    | .error e => showErr e
    | .ok is => "A[" ++ ",".intercalate (is.map toString) ++ "]"
  | "replace" | "replaceall" =>
    match subst with
    | none => "bad-op"
    | some sv =>
      match pegReplace m text sv (entry == "replace") start with
      | .error e => showErr e
      | .ok out => "R" ++ hexOfBytes out
  | _ => "bad-op"

def fuelC : Nat := 20000

def parseSubst (rest : List String) : Option (Option Val) :=
  match rest with
  | [] => some none
  | [f] => (pVal (f.splitOn ",")).map (fun vr => some vr.1)
  | _ => none

def step (_ : Unit) (toks : List String) : Unit × String :=
  match toks with
  | kind :: entry :: hb :: leak :: bc :: consts :: text :: start :: args :: rest =>
    if kind == "op" ∨ kind == "den" then
      let r : Option String := do
        let words ← (bc.splitOn ",").mapM String.toNat?
        let cs ← pValList consts
        let tx ← hexOrEmpty text
        let st ← start.toNat?
        let ar ← pValList args
        let sb ← parseSubst rest
        let leak ← leak.toNat?
        let P : Program := { bytecode := words.toArray, constants := cs.toArray }
        let E : Env := { text := tx, args := ar, hasBackref := hb == "1", lenprefixLeak := leak % 2 == 1, numRaw := leak / 2 % 2 == 1 }
        let m : Matcher :=
          if kind == "op" then opMatcher E (decode P) 0 fuelC JanetModel.Gen.Peg.recursionGuard
          else denMatcher E (decode P) 0 fuelC JanetModel.Gen.Peg.recursionGuard
        pure (runEntry entry m tx st sb)
      ((), r.getD "bad-op")
    else ((), "bad-op")
  | ["compile", g] =>
    -- the compile model (Peg/Compile.lean) on `grammar [main := source, default-peg-grammar entries...]`:
    -- "B <has_backref> <words> <consts>" in the format of the harness' dump of the REAL peg/compile, then the entry address
    let r : Option String := do
      let (p, _) ← pPatt (g.splitOn ",")
      let (mainp, dflt) ← (match p with
        | .grammar ((_, mp) :: dfl) => some (mp, dfl)
        | _ => none)
      match Compile.compile dflt mainp with
      | none => pure "-"
      | some o =>
        pure (s!"B {if o.hasBackref then 1 else 0} " ++ ",".intercalate (o.code.map toString) ++ s!" {o.consts.length}"
              ++ String.join (o.consts.map (fun v => "," ++ showConst v)) ++ s!" E{o.entry}")
    ((), r.getD "bad-op")
  | ["notag", bc, consts] =>
    -- certificate that `has_backref` is unobservable for this bytecode (Props.C12.compiled_backref_flag_certified): the set of
    -- addresses reachable from the entry, checked by `closedNoTag`
    let r : Option String := do
      let words ← (bc.splitOn ",").mapM String.toNat?
      let cs ← pValList consts
      let P : Program := { bytecode := words.toArray, constants := cs.toArray }
      let S := Backref.reach (decode P) (4 * words.length + 16) [0] []
      pure (if S.contains 0 && Backref.closedNoTag (decode P) S then s!"T1 {S.length}" else "T0")
    ((), r.getD "bad-op")
  | ["validate", bc, consts, g] =>
    -- translation validation of real peg/compile output against the source grammar
    let r : Option String := do
      let words ← (bc.splitOn ",").mapM String.toNat?
      let cs ← pValList consts
      let (p, _) ← pPatt (g.splitOn ",")
      let (mainp, dflt) ← (match p with
        | .grammar ((_, mp) :: dfl) => some (mp, dfl)
        | _ => none)
      let P : Program := { bytecode := words.toArray, constants := cs.toArray }
      pure (if validate (decode P) (Spec.fetch dflt) 48 0 ⟨[], mainp⟩ then "V1" else "V0")
    ((), r.getD "bad-op")
  | "spec" :: entry :: g :: text :: start :: args :: rest =>
    let r : Option String := do
      let (p, _) ← pPatt (g.splitOn ",")
      let tx ← hexOrEmpty text
      let st ← start.toNat?
      let ar ← pValList args
      let sb ← parseSubst rest
      let E : Env := { text := tx, args := ar, hasBackref := true, lenprefixLeak := false }
      -- the line carries `grammar [main := the source grammar, default-peg-grammar entries...]`
      let (mainp, dflt) ← (match p with
        | .grammar ((_, mp) :: dfl) => some (mp, dfl)
        | _ => none)
      let m : Matcher := denMatcher E (Spec.fetch dflt) ⟨[], mainp⟩ fuelC JanetModel.Gen.Peg.recursionGuard
      pure (runEntry entry m tx st sb)
    ((), r.getD "bad-op")
  | _ => ((), "bad-op")

def main : IO Unit := runLoop () step
