-- line-protocol model driver for C12 (stub)
def main : IO Unit := IO.println "stub C12"
