-- line-protocol model driver for C08 (stub)
def main : IO Unit := IO.println "stub C08"
