/- Line-protocol model driver for C08 (threaded channel, single event loop, deterministic schedule).
   One line = one history:   <requeue> <head> <redispatch> <check> <forwardOwn> <limit> op op op ...
     g<f>:<x>   fiber f gives item x (blocks when the queue is over capacity)         t<f>   fiber f takes        a<f>   fiber f abandons its wait
     c          close
   After every op the (single) self-pipe is drained: `handle 0` until no message is in flight.
   Output: one observation per op, separated by " ; " :   <#items> d=<fiber>:<item>,... w=<fiber>,... g=<fiber>,...
   (delivered log; takers woken by close; givers whose ev/give has returned: immediately, by a write wake-up or by close)
-/
import Driver.Util
import JanetModel.Thread.Model
open Driver JanetModel.Thread

def pump (cfg : Cfg) : Nat → St → St
  | 0, s => s
  | n + 1, s => if s.flight.isEmpty then s else pump cfg n (handle cfg s 0)

def sortNat (l : List Nat) : List Nat := l.foldl (fun acc x => (acc.filter (· < x)) ++ [x] ++ (acc.filter (· ≥ x))) []

/-- `givers`: fibers that did a give; `imm`: givers whose give did not block -/
def obs (s : St) (givers imm : List Nat) : String :=
  let d := String.intercalate "," (s.delivered.map (fun p => s!"{p.1}:{p.2}"))
  let w := String.intercalate "," ((sortNat ((s.woken.filter (fun p => p.2 == Kind.close && !givers.contains p.1)).map (·.1))).map toString)
  let g := sortNat (imm ++ (s.woken.filter (fun p => givers.contains p.1 && (p.2 == Kind.write || p.2 == Kind.close))).map (·.1))
  s!"{s.items.length} d={d} w={w} g={String.intercalate "," (g.map toString)}"

def parseOp (tok : String) : Option Act :=
  match tok.toList with
  | 'g' :: rest =>
    match (String.ofList rest).splitOn ":" with
    | [f, x] => match f.toNat?, x.toNat? with
      | some f, some x => some (.give 0 f x)
      | _, _ => none
    | _ => none
  | 't' :: rest => (String.ofList rest).toNat?.map (fun f => .take 0 f)
  | 'a' :: rest => (String.ofList rest).toNat?.map (fun f => .abandon f)
  | ['c'] => some (.close 0)
  | _ => none

def b (s : String) : Bool := s == "1"

def runLine (toks : List String) : String :=
  match toks with
  | rq :: hd :: rd :: ck :: fo :: lim :: ops =>
    match lim.toNat? with
    | none => "bad-op"
    | some l =>
      let cfg : Cfg := ⟨b rq, b hd, b rd, b ck, b fo⟩
      let rec go (s : St) (givers imm : List Nat) (ops : List String) (acc : List String) : List String :=
        match ops with
        | [] => acc.reverse
        | o :: rest =>
          match parseOp o with
          | none => ("bad-op" :: acc).reverse
          | some a =>
            let s1 := step cfg s a
            let (givers', imm') := match a with
              | .give _ f _ => (f :: givers, if !s.closed && s1.writers.length == s.writers.length then f :: imm else imm)
              | _ => (givers, imm)
            let s' := pump cfg 64 s1
            go s' givers' imm' rest (obs s' givers' imm' :: acc)
      String.intercalate " ; " (go (init l) [] [] ops [])
  | _ => "bad-op"

def main : IO Unit := runLoop () (fun _ toks => ((), runLine toks))
