/- Line-protocol model driver for C08 (threaded channel, single event loop, deterministic schedule).
   One line = one history:   <requeue> <head> <redispatch> <check> <forwardOwn> <resumeBumps> <limit> op op op ...
     g<f>:<x>   fiber f gives item x (blocks when the queue is over capacity)         t<f>   fiber f takes        a<f>   fiber f abandons its wait
     c          close
     s<f>:<x>   a task of fiber f ends and janet_loop1 reports it to the channel as its supervisor: mode-2 push of item x (never parks)
     a token with a trailing `+` (g / t only) belongs to a burst: the ops of a burst run back to back in one run phase of the loop,
     the pipe is not looked at in between, one observation after the last op of the burst
   After every op the (single) self-pipe is drained (`handle 0` until no message is in flight) and then the run queue
   (`resume 0` until no task is queued) - the implementation side runs the loop for several turns.
   Output: one observation per op, separated by " ; " :   <#items> d=<fiber>:<item>,... w=<fiber>,... g=<fiber>,...
   (`got` events of the log = fibers resumed with an item, in order; takers woken by close; givers whose ev/give has returned:
   immediately, by a write wake-up or by close).  A second line protocol (`X ...`) runs an explicit schedule, see `runX`.
-/
import Driver.Util
import JanetModel.Thread.Model
open Driver JanetModel.Thread

def pumpPipe (cfg : Cfg) : Nat → St → St
  | 0, s => s
  | n + 1, s => if s.flight.isEmpty then s else pumpPipe cfg n (handle cfg s 0)

def pumpRunq (cfg : Cfg) : Nat → St → St
  | 0, s => s
  | n + 1, s => if s.runq.isEmpty then s else pumpRunq cfg n (resume cfg s 0)

def pump (cfg : Cfg) (n : Nat) (s : St) : St := pumpRunq cfg n (pumpPipe cfg n s)

def sortNat (l : List Nat) : List Nat := l.foldl (fun acc x => (acc.filter (· < x)) ++ [x] ++ (acc.filter (· ≥ x))) []

/-- `givers`: fibers that did a give; `imm`: givers whose give did not block -/
def obs (s : St) (givers imm : List Nat) : String :=
  let d := String.intercalate "," ((gotAll s.log).map (fun p => s!"{p.1}:{p.2}"))
  let w := String.intercalate "," ((sortNat ((s.woken.filter (fun p => p.2 == Kind.close && !givers.contains p.1)).map (·.1))).map toString)
  let g := sortNat (imm ++ (s.woken.filter (fun p => givers.contains p.1 && (p.2 == Kind.write || p.2 == Kind.close))).map (·.1))
  s!"{s.items.length} d={d} w={w} g={String.intercalate "," (g.map toString)}"

def parseOp (tok : String) : Option Act :=
  match tok.toList with
  | 'g' :: rest =>
    match (String.ofList rest).splitOn ":" with
    | [f, x] => match f.toNat?, x.toNat? with
      | some f, some x => some (.give 0 f x)
      | _, _ => none
    | _ => none
  | 's' :: rest =>
    match (String.ofList rest).splitOn ":" with
    | [f, x] => match f.toNat?, x.toNat? with
      | some f, some x => some (.giveNB f x)
      | _, _ => none
    | _ => none
  | 't' :: rest => (String.ofList rest).toNat?.map (fun f => .take 0 f)
  | 'a' :: rest => (String.ofList rest).toNat?.map (fun f => .abandon f)
  | ['c'] => some (.close 0)
  | _ => none

def b (s : String) : Bool := s == "1"

def runLine (toks : List String) : String :=
  match toks with
  | rq :: hd :: rd :: ck :: fo :: rb :: lim :: ops =>
    match lim.toNat? with
    | none => "bad-op"
    | some l =>
      let cfg : Cfg := ⟨b rq, b hd, b rd, b ck, b fo, b rb⟩
      let rec go (s : St) (givers imm : List Nat) (ops : List String) (acc : List String) : List String :=
        match ops with
        | [] => acc.reverse
        | o0 :: rest =>
          -- a token ending in `+` is part of a burst: executed without running the loop and without an observation
          let burst := o0.endsWith "+"
          let o := if burst || o0.endsWith "!" then (o0.dropEnd 1).toString else o0
          match parseOp o with
          | none => ("bad-op" :: acc).reverse
          | some a =>
            let s1 := step cfg s a
            let (givers', imm') := match a with
              | .give _ f _ => (f :: givers, if !s.closed && s1.writers.length == s.writers.length then f :: imm else imm)
              | _ => (givers, imm)
            if burst then go s1 givers' imm' rest acc
            else
              let s' := pump cfg 256 s1
              go s' givers' imm' rest (obs s' givers' imm' :: acc)
      String.intercalate " ; " (go (init l) [] [] ops [])
  | _ => "bad-op"

def main : IO Unit := runLoop () (fun _ toks => ((), runLine toks))
