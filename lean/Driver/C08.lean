/- Line-protocol model driver for C08 (threaded channel, single event loop, deterministic schedule).
   One line = one history:   <requeue> <head> <redispatch> <check> <limit> op op op ...
     g<f>:<x>   fiber f gives item x          t<f>   fiber f takes        a<f>   fiber f abandons its wait
     c          close
   After every op the (single) self-pipe is drained: `handle 0` until no message is in flight.
   Output: one observation per op, separated by " ; " :   <#items> d=<fiber>:<item>,... w=<fiber>,...  (delivered log, close wake-ups)
-/
import Driver.Util
import JanetModel.Thread.Model
open Driver JanetModel.Thread

def pump (cfg : Cfg) : Nat → St → St
  | 0, s => s
  | n + 1, s => if s.flight.isEmpty then s else pump cfg n (handle cfg s 0)

def obs (s : St) : String :=
  let d := String.intercalate "," (s.delivered.map (fun p => s!"{p.1}:{p.2}"))
  let w := String.intercalate "," ((s.woken.filter (fun p => p.2 == Kind.close)).map (fun p => toString p.1))
  s!"{s.items.length} d={d} w={w}"

def parseOp (tok : String) : Option Act :=
  match tok.toList with
  | 'g' :: rest =>
    match (String.ofList rest).splitOn ":" with
    | [f, x] => match f.toNat?, x.toNat? with
      | some f, some x => some (.give 0 f x)
      | _, _ => none
    | _ => none
  | 't' :: rest => (String.ofList rest).toNat?.map (fun f => .take 0 f)
  | 'a' :: rest => (String.ofList rest).toNat?.map (fun f => .abandon f)
  | ['c'] => some (.close 0)
  | _ => none

def b (s : String) : Bool := s == "1"

def runLine (toks : List String) : String :=
  match toks with
  | rq :: hd :: rd :: ck :: lim :: ops =>
    match lim.toNat? with
    | none => "bad-op"
    | some l =>
      let cfg : Cfg := ⟨b rq, b hd, b rd, b ck⟩
      let rec go (s : St) (ops : List String) (acc : List String) : List String :=
        match ops with
        | [] => acc.reverse
        | o :: rest =>
          match parseOp o with
          | none => ("bad-op" :: acc).reverse
          | some a =>
            let s' := pump cfg 64 (step cfg s a)
            go s' rest (obs s' :: acc)
      String.intercalate " ; " (go (init l) ops [])
  | _ => "bad-op"

def main : IO Unit := runLoop () (fun _ toks => ((), runLine toks))
