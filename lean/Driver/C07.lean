import JanetModel.Wait.Model
import Driver.Util
/- Line-protocol driver for the C07 wait model: folds `step` over operation lines, reports every executed task.
   cfg <11 x 0/1> | reset | spawn f | give f c v ch | take f c ch | close c | cancel f code | sleep f us | timeout f us |
   deadline f b us | bodystart b | bodydone b | dead f | advance dt | timers | run | chan c -/
open JanetModel.Wait

structure DS where
  cfg : Cfg := Cfg.full
  w : World := {}

def showVal : Val → String
  | .nil => "nil"
  | .kw n => s!":k{n}"
  | .chan c => s!"c{c}"
  | .giveR c => s!"(:give,c{c})"
  | .takeR c v => s!"(:take,c{c},:k{v})"
  | .closeR c => s!"(:close,c{c})"
  | .err 0 => "\"timeout\""
  | .err 1 => "\"deadline_expired\""
  | .err n => s!"\"e{n}\""
  | .int n => s!"{n}"
  | .buf n => s!"buf{n}"

def b (s : String) : Bool := s == "1"
def n (s : String) : Nat := s.toNat!

def showPending (w : World) (l : List Pending) : String :=
  ",".intercalate (l.map fun p => s!"f{p.fiber}:{p.schedId}:{if live w p.fiber p.schedId then "live" else "stale"}")

def stepLine (s : DS) (toks : List String) : DS × String :=
  let op (o : Op) : DS × String := ({ s with w := step s.cfg s.w o }, "ok")
  match toks with
  | ["cfg", a1, a2, a3, a4, a5, a6, a7, a8, a9, a10, a11] =>
      ({ s with cfg := ⟨b a1, b a2, b a3, b a4, b a5, b a6, b a7, b a8, b a9, b a10, b a11⟩ }, "ok")
  | ["reset"] => ({ s with w := {} }, "ok")
  | ["spawn", f] => op (.spawn (n f))
  | ["give", f, c, v, ch] => op (.give (n f) (n c) (.kw (n v)) (b ch))
  | ["take", f, c, ch] => op (.take (n f) (n c) (b ch))
  | ["close", c] => op (.close (n c))
  | ["cancel", f, code] => op (.cancel (n f) (.err (n code)))
  | ["sleep", f, us] => op (.sleep (n f) (n us))
  | ["timeout", f, us] => op (.timeout (n f) (n us))
  | ["deadline", f, bd, us] => op (.deadline (n f) (n bd) (n us))
  | ["bodystart", bd] => op (.bodyStart (n bd))
  | ["bodydone", bd] => op (.bodyDone (n bd))
  | ["dead", f] => op (.fiberDead (n f))
  | ["advance", dt] => op (.advance (n dt))
  | ["timers"] => op .timers
  | ["run"] =>
      let w' := step s.cfg s.w .run
      let out :=
        if s.w.queue.isEmpty then "idle"
        else if w'.log.length == s.w.log.length then "skip"
        else match w'.log with
          | e :: _ => s!"ran {e.tick} f{e.fiber} sid={e.schedIdAtRun} val={showVal e.task.value}"
          | [] => "skip"
      ({ s with w := w' }, out)
  | ["chan", c] =>
      let ch := s.w.chans (n c)
      (s, s!"chan c{n c} items={ch.items.length} closed={if ch.closed then 1 else 0} rp=[{showPending s.w ch.rp}] wp=[{showPending s.w ch.wp}]")
  | _ => (s, "error unknown-op")

def main : IO Unit := Driver.runLoop ({} : DS) stepLine
