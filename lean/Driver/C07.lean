-- line-protocol model driver for C07 (stub)
def main : IO Unit := IO.println "stub C07"
