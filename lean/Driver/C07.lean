import JanetModel.Wait.Interp
import Driver.Util
/- Line-protocol driver for the C07 wait model: folds `step` over operation lines, reports every executed task.
   cfg <11 x 0/1> | reset | spawn f | give f c v ch | take f c ch | close c | cancel f code | sleep f us | timeout f us |
   deadline f b us | bodystart b | bodydone b | dead f | advance dt | timers | run | chan c -/
open JanetModel.Wait

open JanetModel.Wait.Interp in
structure DS where
  cfg : Cfg := Cfg.full
  w : World := {}
  sc : IS := {}            -- scenario being defined (`new` … `run`)
  cur : Option Nat := none -- fiber whose statements are being read

namespace Scn
open JanetModel.Wait.Interp

def intern (a : Array String) (x : String) : Array String × Nat :=
  match indexOf a x with
  | some i => (a, i)
  | none => (a.push x, a.size)

def chanIdx (s : IS) (x : String) : Nat := (indexOf s.chans x).getD 999
def strIdx (s : IS) (x : String) : Nat := (indexOf s.streams x).getD 999
def fibIdx (s : IS) (x : String) : Nat := ((s.fibers.toList.map (·.name)).findIdx? (· == x)).getD 999

partial def parseClauses (s : IS) : Nat → List String → List Clause → IS × List Clause × List String
  | 0, toks, acc => (s, acc.reverse, toks)
  | k + 1, "t" :: c :: rest, acc => parseClauses s k rest (.take (chanIdx s c) :: acc)
  | k + 1, "g" :: c :: v :: rest, acc =>
      let (kws, i) := intern s.kws v
      parseClauses { s with kws := kws } k rest (.give (chanIdx s c) i :: acc)
  | _, toks, acc => (s, acc.reverse, toks)

partial def parseWait (s : IS) : List String → IS × Wait
  | "sleep" :: us :: _ => (s, .sleep us.toNat!)
  | "take" :: c :: _ => (s, .take (chanIdx s c))
  | "give" :: c :: v :: _ =>
      let (kws, i) := intern s.kws v
      ({ s with kws := kws }, .give (chanIdx s c) i)
  | "select" :: k :: rest =>
      let (s, cl, _) := parseClauses s k.toNat! rest []
      (s, .select cl)
  | "deadline" :: us :: rest =>
      let (s, inner) := parseWait s rest
      (s, .deadline us.toNat! inner)
  | "read" :: p :: n :: _ => (s, .read (strIdx s p) n.toNat! false)
  | "chunk" :: p :: n :: _ => (s, .read (strIdx s p) n.toNat! true)
  | "readt" :: p :: n :: us :: _ => (s, .timed us.toNat! (.read (strIdx s p) n.toNat! false))
  | "write" :: p :: n :: _ => (s, .write (strIdx s p) n.toNat!)
  | "writet" :: p :: n :: us :: _ => (s, .timed us.toNat! (.write (strIdx s p) n.toNat!))
  | "pwait" :: k :: _ => (s, .pwait ((indexOf s.procs k).getD 999))
  | "twait" :: k :: _ => (s, .twait ((indexOf s.thrs k).getD 999))
  | _ => (s, .sleep 0)

def parseStmt (s : IS) : List String → IS × Option Stmt
  | "w" :: rest => let (s, w) := parseWait s rest; (s, some (.w w))
  | ["close", c] => (s, some (.close (chanIdx s c)))
  | ["cancel", f, m] =>
      let (msgs, i) := intern s.msgs m
      ({ s with msgs := msgs }, some (.cancel (fibIdx s f) i))
  | ["spawn", f] => (s, some (.spawn (fibIdx s f)))
  | ["dump", t] => (s, some (.dump t))
  | ["count", c] => (s, some (.count (chanIdx s c)))
  | ["closestream", p] => (s, some (.closeStream (strIdx s p)))
  | ["exitproc", k] => (s, some (.exitproc ((indexOf s.procs k).getD 999)))
  | ["enter"] => (s, some .enter)
  | ["enterdl", us] => (s, some (.enterDl us.toNat!))
  | ["leave"] => (s, some .leave)
  | ["goself"] => (s, some .goSelf)
  | ["finish", k] => (s, some (.finish ((indexOf s.thrs k).getD 999)))
  | _ => (s, none)

def parseRes (t : String) : KRes :=
  if t == "again" then .again
  else match t.splitOn ":" with
    | "err" :: rest => .err (":".intercalate rest)
    | n :: rest => .bytes n.toNat! (":".intercalate rest)
    | [] => .again

def parseK : List String → Option KIn
  | ["rd", nm, lim, res] => some (.rd nm lim.toNat! (parseRes res))
  | ["wr", nm, lim, res] => some (.wr nm lim.toNat! (parseRes res))
  | ["poll", n, t] => some (.poll n.toNat! t.toNat!)
  | ["ev", nm, mask] => some (.ev nm mask)
  | ["self"] => some .self
  | ["timer"] => some .timer
  | _ => none

def runScenario (s : IS) : String :=
  let m := fibIdx s "M"
  let s := { s with w := step s.cfg s.w (.spawn m), fibers := s.fibers.modify m fun fb => { fb with spawned := true } }
  let s := loop s 100000
  "\t".intercalate s.out.toList

end Scn

def showVal : Val → String
  | .nil => "nil"
  | .kw n => s!":k{n}"
  | .chan c => s!"c{c}"
  | .giveR c => s!"(:give,c{c})"
  | .takeR c v => s!"(:take,c{c},:k{v})"
  | .closeR c => s!"(:close,c{c})"
  | .err 0 => "\"timeout\""
  | .err 1 => "\"deadline_expired\""
  | .err n => s!"\"e{n}\""
  | .int n => s!"{n}"
  | .buf n => s!"buf{n}"
  | .sup sig f => s!"(sup{sig},f{f})"

def b (s : String) : Bool := s == "1"
def n (s : String) : Nat := s.toNat!

def showPending (w : World) (l : List Pending) : String :=
  ",".intercalate (l.map fun p => s!"f{p.fiber}:{p.schedId}:{if live w p.fiber p.schedId then "live" else "stale"}")

def stepLine (s : DS) (toks : List String) : DS × String :=
  let op (o : Op) : DS × String := ({ s with w := step s.cfg s.w o }, "ok")
  match toks with
  | ["cfg", a1, a2, a3, a4, a5, a6, a7, a8, a9, a10, a11, a12, a13, a14, a15, a16, a17] =>
      ({ s with cfg := ⟨b a1, b a2, b a3, b a4, b a5, b a6, b a7, b a8, b a9, b a10, b a11, b a12, b a13, b a14, b a15, b a16, b a17⟩ }, "ok")
  | ["reset"] => ({ s with w := {} }, "ok")
  | ["new", _] => ({ s with sc := { cfg := s.cfg }, cur := none }, "ok")
  | ["chan", name, cap] =>
      let sc := s.sc
      let i := sc.chans.size
      ({ s with sc := { sc with chans := sc.chans.push name, w := { sc.w with chans := set sc.w.chans i { limit := cap.toNat! } } } }, "ok")
  | ["stream", name] =>
      let sc := s.sc
      ({ s with sc := { sc with streams := sc.streams.push name, sclosed := sc.sclosed.push false } }, "ok")
  | ["proc", name, flags] =>
      let sc := s.sc
      let x := flags.toList.contains 'x'
      ({ s with sc := { sc with procs := sc.procs.push name, w := step sc.cfg sc.w (.procFlag sc.procs.size x) } }, "ok")
  | ["thr", name, kind] =>
      let sc := s.sc
      ({ s with sc := { sc with thrs := sc.thrs.push name, thrShell := sc.thrShell.push (kind == "shell") } }, "ok")
  | "k" :: rest =>
      match Scn.parseK rest with
      | some k => ({ s with sc := { s.sc with kin := s.sc.kin ++ [k] } }, "ok")
      | none => (s, "error bad-k")
  | ["fiber", name, _] =>
      let sc := s.sc
      ({ s with sc := { sc with fibers := sc.fibers.push { name := name } }, cur := some sc.fibers.size }, "ok")
  | ["fiber", name, _, supc] =>
      let sc := s.sc
      ({ s with sc := { sc with fibers := sc.fibers.push { name := name, sup := some (Scn.chanIdx sc supc) } }, cur := some sc.fibers.size }, "ok")
  | "s" :: rest =>
      match s.cur with
      | none => (s, "error no-fiber")
      | some f =>
        match Scn.parseStmt s.sc rest with
        | (sc, some st) => ({ s with sc := { sc with fibers := sc.fibers.modify f fun fb => { fb with prog := fb.prog ++ [st] } } }, "ok")
        | (_, none) => (s, "error bad-stmt")
  | ["run"] =>
      if s.sc.fibers.size > 0 then (s, Scn.runScenario s.sc)
      else (s, "idle")
  | ["spawn", f] => op (.spawn (n f))
  | ["give", f, c, v, ch] => op (.give (n f) (n c) (.kw (n v)) (b ch))
  | ["take", f, c, ch] => op (.take (n f) (n c) (b ch))
  | ["close", c] => op (.close (n c))
  | ["cancel", f, code] => op (.cancel (n f) (.err (n code)))
  | ["sleep", f, us] => op (.sleep (n f) (n us))
  | ["timeout", f, us] => op (.timeout (n f) (n us))
  | ["deadline", f, bd, us] => op (.deadline (n f) (n bd) (n us))
  | ["bodystart", bd] => op (.bodyStart (n bd))
  | ["bodydone", bd] => op (.bodyDone (n bd))
  | ["dead", f] => op (.fiberDead (n f))
  | ["advance", dt] => op (.advance (n dt))
  | ["timers"] => op .timers
  | ["runop"] =>
      let w' := step s.cfg s.w .run
      let out :=
        if s.w.queue.isEmpty then "idle"
        else if w'.log.length == s.w.log.length then "skip"
        else match w'.log with
          | e :: _ => s!"ran {e.tick} f{e.fiber} sid={e.schedIdAtRun} val={showVal e.task.value}"
          | [] => "skip"
      ({ s with w := w' }, out)
  | ["chan", c] =>
      let ch := s.w.chans (n c)
      (s, s!"chan c{n c} items={ch.items.length} closed={if ch.closed then 1 else 0} rp=[{showPending s.w ch.rp}] wp=[{showPending s.w ch.wp}]")
  | _ => (s, "error unknown-op")

def main : IO Unit := Driver.runLoop ({} : DS) stepLine
