/-
C09 — marshal / unmarshal round trips.  Property theorems only (proofs of the lemmas live in JanetModel/Marsh/*Lemmas.lean,
GraphRoundtrip.lean, GraphInbounds.lean).

Model: JanetModel/Marsh/IntCodec.lean (pushint/readint), Size.lean (push64/read64), Graph.lean (marshal_one /
unmarshal_one on data value graphs).  Constants, lead bytes, the recursion guard and the numbering point of every
container type (before / after its children, on the marshal side and on the unmarshal side) are regenerated from
marsh.c on every run (Gen/Marsh.lean), so e.g. moving MARK_SEEN for tuples breaks `roundtrip_graph` below.
-/
import JanetModel.Marsh.IntCodecLemmas
import JanetModel.Marsh.SizeLemmas
import JanetModel.Marsh.GraphRoundtrip
import JanetModel.Marsh.GraphInbounds
import JanetModel.Asm.OperandLemmas
import JanetModel.Marsh.EnvBitsetLemmas
import JanetModel.Marsh.CodeRoundtrip
import JanetModel.Marsh.AbstractLemmas
import JanetModel.Marsh.AbsDepthLemmas
import JanetModel.Asm.InstrLemmas
import JanetModel.Asm.DefLemmas
import JanetModel.Marsh.CodeData
import JanetModel.Marsh.PresentLemmas
import JanetModel.Marsh.PresentFixed

namespace JanetModel.Props.C09
open JanetModel.Marsh JanetModel.Gen.Marsh

/-! ### integer codec -/

theorem signExtMid_eq (u : Nat) (h : u < 16384) :
    signExtMid u = if u < 8192 then (u : Int) else (u : Int) - 16384 := Marsh.signExtMid_eq u h

/-- Every `int32_t` survives `pushint` then `readint`, whatever follows it in the buffer. -/
theorem readint_pushint (x : Int) (tl : List Nat) (hlo : -2147483648 ≤ x) (hhi : x < 2147483648) :
    readint (pushint x ++ tl) = some (x, tl) := Marsh.readint_pushint x tl hlo hhi

/-- The three encodings are the shortest-first partition of int32 (sizes 1, 2, 5). -/
theorem pushint_length (x : Int) :
    (pushint x).length = if 0 ≤ x ∧ x < 128 then 1 else if -8192 ≤ x ∧ x ≤ 8191 then 2 else 5 := Marsh.pushint_length x

/-- `readint` is total and never consumes more than it was given (no read past the end). -/
theorem readint_consumes (bs : List Nat) (x : Int) (tl : List Nat) (h : readint bs = some (x, tl)) :
    ∃ pre, bs = pre ++ tl ∧ 1 ≤ pre.length ∧ pre.length ≤ 5 := Marsh.readint_consumes bs x tl h

/-! ### size codec (int/s64, int/u64, channel and peg payloads) -/

/-- Every `uint64_t` survives `push64` then `read64`, whatever follows it in the buffer. -/
theorem read64_push64 (x : Nat) (tl : List Nat) (h : x < 18446744073709551616) :
    read64 (push64 x ++ tl) = some (x, tl) := Marsh.read64_push64' x tl h

/-! ### data value graphs

A graph is a value `x` plus a heap `H` listed in reference-number order (see Graph.lean): isomorphism of graphs -
same shape, same sharing, same cycles - is equality of `(x, H)`.  `HeapWF` / `ValWF` say what the C types guarantee
(int32 ranges, 8-byte reals, tables and structs are finite maps without nil keys or values). -/

/-- **Round trip, with sharing and cycles, at any recursion depth, for any continuation of the buffer.**
If `marshal_one` at depth budget `fuel`, with `n` values already numbered, emits `bs` and numbers the objects
`n .. n'-1`, then `unmarshal_one` with the same budget and `n` values already in its lookup table reads exactly `bs`,
returns the same value and appends exactly the objects `n .. n'-1` of the heap to the lookup table - contents, order,
internal pointers (i.e. sharing and cycles) included. -/
theorem roundtrip_graph (H : List Obj) (hH : HeapWF H) (fuel n : Nat) (x : Val) (bs : List Nat) (n' : Nat) (tl : List Nat)
    (hn : n ≤ H.length) (hx : ValWF x) (hm : marshalOne fuel H n x = some (bs, n')) :
    unmarshalOne fuel n (bs ++ tl) = some (x, tl, slice H n n') :=
  (one_roundtrip H hH fuel n x bs n' tl hn hx hm).2.2.2

/-- Key lemma (`ids_agree`): the k-th value numbered while marshalling is the k-th value pushed into the lookup table while
unmarshalling - after any value, the unmarshaller's table has grown by exactly the number of ids the marshaller handed out. -/
theorem ids_agree (H : List Obj) (hH : HeapWF H) (fuel n : Nat) (x : Val) (bs : List Nat) (n' : Nat) (tl : List Nat)
    (hn : n ≤ H.length) (hx : ValWF x) (hm : marshalOne fuel H n x = some (bs, n')) :
    ∃ objs, unmarshalOne fuel n (bs ++ tl) = some (x, tl, objs) ∧ n + objs.length = n' ∧
      ∀ k, k < objs.length → objs[k]? = H[n + k]? := by
  obtain ⟨h1, h2, _, h4⟩ := one_roundtrip H hH fuel n x bs n' tl hn hx hm
  refine ⟨slice H n n', h4, ?_, ?_⟩
  · rw [slice_length H n n' h2]; omega
  · intro k hk
    rw [slice_length H n n' h2] at hk
    unfold slice
    rw [List.getElem?_take_of_lt hk, List.getElem?_drop]

/-- Entry points: `janet_unmarshal (janet_marshal x)` gives back the value and the whole reachable heap, and reads exactly
the bytes that were written.  (`marshalOne … = some (bs, H.length)`: every object of the description was numbered, i.e.
the heap contains no garbage.) -/
theorem roundtrip_graph_top (H : List Obj) (hH : HeapWF H) (x : Val) (hx : ValWF x) (bs : List Nat)
    (hm : marshalOne topFuel H 0 x = some (bs, H.length)) :
    marshal H x = some bs ∧ unmarshal bs = some (x, H, bs.length) := by
  refine ⟨by simp [marshal, hm], ?_⟩
  have h := roundtrip_graph H hH topFuel 0 x bs H.length [] (Nat.zero_le _) hx hm
  simp only [List.append_nil] at h
  simp [unmarshal, h, slice]

/-- Acyclic, unshared data is the special case in which no `LB_REFERENCE` is emitted; it needs no separate statement.
This corollary records the form the DESIGN calls `roundtrip_tree`: whenever marshalling succeeds, decoding the bytes
(followed by anything) succeeds, and marshalling the decoded graph again gives the same bytes. -/
theorem roundtrip_tree (H : List Obj) (hH : HeapWF H) (x : Val) (hx : ValWF x) (bs : List Nat) (n' : Nat) (tl : List Nat)
    (hm : marshalOne topFuel H 0 x = some (bs, n')) :
    ∃ H', unmarshalOne topFuel 0 (bs ++ tl) = some (x, tl, H') ∧ H' = H.take n' := by
  refine ⟨slice H 0 n', roundtrip_graph H hH topFuel 0 x bs n' tl (Nat.zero_le _) hx hm, by simp [slice]⟩

/-- **The decoder never reads past the end** (and always makes progress): whatever `unmarshal_one` returns as the
unread rest is a strict suffix of its input; in particular it is total on every byte string (it is a Lean function) and
every byte it inspected was inside the buffer (it pattern-matches on the list). -/
theorem read_total_inbounds (fuel n : Nat) (data : List Nat) (v : Val) (rest : List Nat) (objs : List Obj)
    (h : unmarshalOne fuel n data = some (v, rest, objs)) :
    ∃ pre, data = pre ++ rest ∧ 1 ≤ pre.length := by
  obtain ⟨⟨pre, hp⟩, hl⟩ := unmarshalOne_tail fuel n data v rest objs h
  refine ⟨pre, hp.symm, ?_⟩
  rw [← hp] at hl; simp at hl; omega

/-- Truncated input is rejected, not over-read: the empty buffer decodes to nothing at every depth. -/
theorem unmarshal_nil (fuel n : Nat) : unmarshalOne fuel n [] = none := by
  cases fuel <;> simp [unmarshalOne]

/-! ### closure environments marshalled from a live frame (early detach path of `marshal_one_env`)

The indexing expression `1 & (bitset[i >> envWordShift] >> (i & envBitMask))` is generated from marsh.c. -/

/-- The slot test reads bit `i` of the closure bitset (32-bit words, least significant first) - for every slot index, in
particular across the word boundaries 31/32, 63/64, … -/
theorem env_slot_test_is_bit (bitset : List Nat) (hw : ∀ w ∈ bitset, w < 4294967296) (i : Nat) :
    slotCaptured bitset i = (bitsetValue bitset).testBit i := slotCaptured_spec' bitset hw i

/-- The loop writes exactly one item per slot of the frame, for any frame size: the slot's value where the bit is set, nil
elsewhere - no captured slot is dropped, no uncaptured slot leaks. -/
theorem env_walk_visits_set_bits {α : Type} (bitset : List Nat) (hw : ∀ w ∈ bitset, w < 4294967296) (nil : α)
    (values : List α) :
    (envWalk bitset nil values).length = values.length ∧
    ∀ k, k < values.length →
      (envWalk bitset nil values)[k]? = some (if (bitsetValue bitset).testBit k then values.getD k nil else nil) := by
  refine ⟨envWalkFrom_length bitset nil values 0, ?_⟩
  intro k hk
  have h := envWalkFrom_spec bitset nil values 0 k hk
  rw [Nat.zero_add, env_slot_test_is_bit bitset hw k] at h
  exact h

example : envWalk [0x80000001, 0x3] 0 (List.range 40 |>.map (· + 100)) =
    [100, 0, 0, 0, 0, 0, 0, 0, 0, 0, 0, 0, 0, 0, 0, 0, 0, 0, 0, 0, 0, 0, 0, 0, 0, 0, 0, 0, 0, 0, 0, 131, 132, 133, 0, 0, 0, 0, 0, 0] := by decide

/-! ### assembler operands (asm ∘ disasm)

`doarg` (asm.c) range-checks every operand of an instruction before placing it in the word; the disassembler and the VM
read the field back by shifting and masking.  The operand layout of every instruction type and the lower-bound formula
are generated from the current asm.c. -/

/-- **Every value a field can hold is accepted by the assembler and reads back as itself** - for every instruction type
of the generated table, every operand of it, and every value in the two's-complement (resp. unsigned) range of the
operand's width; in particular the minimum (-128, -32768, -8388608) that the compiler emits for `(+ x -128)` or a literal
-32768.  (If `doarg` computes `min` as `-max`, `doargMinSlack` is generated as 0 and this no longer checks.) -/
theorem asm_operand_roundtrip (t : JanetModel.Gen.Bytecode.IType) (f : JanetModel.Gen.Asm.Field)
    (hf : f ∈ JanetModel.Gen.Asm.fieldsOf t) (arg : Int) (h : JanetModel.Asm.Encodable f arg) :
    ∃ w, JanetModel.Asm.doarg f arg = some w ∧ JanetModel.Asm.fieldRead f w = arg :=
  JanetModel.Asm.doarg_roundtrip' f (JanetModel.Asm.fields_ok t f hf) arg h

/-- the assembler accepts nothing outside the field (so no operand is silently truncated) -/
theorem asm_operand_rejects (f : JanetModel.Gen.Asm.Field) (arg : Int) (w : Nat)
    (h : JanetModel.Asm.doarg f arg = some w) :
    JanetModel.Asm.fieldMin f ≤ arg ∧ arg ≤ JanetModel.Asm.fieldMax f := by
  unfold JanetModel.Asm.doarg at h
  by_cases c1 : arg < JanetModel.Asm.fieldMin f
  · simp [c1] at h
  · by_cases c2 : arg > JanetModel.Asm.fieldMax f
    · simp [c1, c2] at h
    · omega

example : JanetModel.Asm.encode .addImmediate [0, 1, -128] = some 0x80010005 := by decide
example : JanetModel.Asm.encode .loadInteger [0, -32768] = some (0x80000000 ||| JanetModel.Gen.Bytecode.Op.loadInteger.toNat) := by decide
example : JanetModel.Asm.encode .loadInteger [0, -32769] = none := by decide

/-- non-vacuity: boundary values of each width -/
example : readint (pushint (-8193) ++ [7]) = some (-8193, [7]) := by decide
example : pushint 8191 = [159, 255] ∧ pushint (-8192) = [160, 0] ∧ pushint 128 = [128, 128] := by decide

/-- non-vacuity of the size codec at the one-byte / multi-byte boundary and at 2^64-1 -/
example : push64 240 = [240] ∧ push64 241 = [241, 241] ∧ push64 18446744073709551615 = [248, 255, 255, 255, 255, 255, 255, 255, 255] := by decide

/-- non-vacuity of the graph theorem: an array that contains itself and (twice) a bracket tuple that points back to the
array; the hypotheses of `roundtrip_graph_top` hold and the wire bytes are the ones janet produces. -/
def exHeap : List Obj := [.array false [.int 1, .ref 0, .ref 1, .ref 1], .tuple 1 [.int 300, .ref 0]]

example : HeapWF exHeap := by
  refine ⟨by decide, ?_⟩
  intro o ho
  simp only [exHeap, List.mem_cons, List.mem_nil_iff, or_false] at ho
  rcases ho with rfl | rfl
  · refine ⟨by decide, ?_⟩
    intro v hv
    simp only [List.mem_cons, List.mem_nil_iff, or_false] at hv
    rcases hv with rfl | rfl | rfl | rfl <;> simp [ValWF, Marsh.Int32]
  · refine ⟨by simp [Marsh.Int32], by decide, ?_⟩
    intro v hv
    simp only [List.mem_cons, List.mem_nil_iff, or_false] at hv
    rcases hv with rfl | rfl <;> simp [ValWF, Marsh.Int32]

example : marshalOne topFuel exHeap 0 (.ref 0) = some ([209, 4, 1, 218, 0, 210, 2, 1, 129, 44, 218, 0, 218, 1], 2) := by decide

/-- a table whose prototype is itself and which is its own key -/
example : marshalOne topFuel [.table 0 (some (.ref 0)) [(.ref 0, .int 7)]] 0 (.ref 0) = some ([212, 1, 218, 0, 218, 0, 7], 1) := by decide

/-- heaps that are not in reference-number order are rejected by the model (so the hypothesis of the theorems is not vacuous
for the wrong reason) -/
example : marshalOne topFuel [.tuple 0 [.ref 1], .array false []] 0 (.ref 0) = none := by decide

/-! ### value graphs with code objects: functions, funcdefs, closure environments  (Marsh/Code.lean)

A graph is a value `x` plus three tables `T` - heap objects (data objects and functions), funcdefs, environments - each listed
in the order marsh.c numbers its entries (`st->seen` / `st->seen_defs` / `st->seen_envs`).  Two closures share a funcdef, or an
environment (their mutable captured variables), iff they carry the same index; so "same shape, same sharing and cycles,
same code" is equality of `(x, T)`.  `HeapCWF` says what the C types, `janet_def_addflags` and `janet_verify` guarantee (int32
ranges, optional parts present iff their flag bit is set, at most 255 environments per function, no empty detached
environment, every funcdef passes the verifier `vf`). -/

/-- **Round trip of `marshal_one` / `unmarshal_one` on graphs with functions**, with sharing of objects, funcdefs and
environments, from any counter state, for any continuation of the buffer, and for **every unmarshal depth budget `fu` that is at
least the marshal budget `fm`**: if `marshal_one` emits `bs` and numbers table entries `c .. c'`, then `unmarshal_one` reads
exactly `bs`, returns the same value and appends exactly those entries - function objects with the same funcdef and
environment indices, funcdefs field by field (flags, arities, constants, symbol map, bytecode words, environment indices,
sub-funcdefs, source map, closure bitset), environments value by value (detached) or with their fiber (still on a stack),
suspended fibers frame by frame (flags, previous frame, pc offset, function, frame environment, every stack slot), with
their environment table, child fiber and last value.  With `fu = fm` this is "whatever can be marshalled
can be unmarshalled" at the recursion limit; it needs the depth discipline `CodeObligations.unmarshal_never_deeper` of the
current source (false before fix a382df0). -/
theorem roundtrip_code (T : Heap) (vf : Def → Bool) (hT : HeapCWF vf T) (fm fu : Nat) (hfu : fm ≤ fu) (c : Ct) (x : Val)
    (bs : List Nat) (c' : Ct) (tl : List Nat) (hc : c ≤ T.size) (hx : ValWF x) (hm : marshalC fm T x c = some (bs, c')) :
    unmarshalC fu vf c (bs ++ tl) = some (x, tl, T.slice c c') :=
  ((all_roundtrip T vf hT fm).1 fu hfu x hx c bs c' tl hc hm).2.2

/-- the same for `marshal_one_def` / `unmarshal_one_def` alone: a funcdef already in `seen_defs` comes back as the same index
(LB_FUNCDEF_REF), a new one is rebuilt field by field together with everything below it -/
theorem roundtrip_funcdef (T : Heap) (vf : Def → Bool) (hT : HeapCWF vf T) (fm fu : Nat) (hfu : fm ≤ fu) (c : Ct) (di : Nat)
    (bs : List Nat) (c' : Ct) (tl : List Nat) (hc : c ≤ T.size) (hm : marshalDef fm T di c = some (bs, c')) :
    unmarshalDef fu vf c (bs ++ tl) = some (di, tl, T.slice c c') :=
  ((all_roundtrip T vf hT fm).2.1 fu hfu di c bs c' tl hc hm).2.2

/-- the same for `marshal_one_env` / `unmarshal_one_env`: an environment already in `seen_envs` comes back as the same index
(LB_FUNCENV_REF) - that is what keeps two closures over one variable connected after the round trip -/
theorem roundtrip_funcenv (T : Heap) (vf : Def → Bool) (hT : HeapCWF vf T) (fm fu : Nat) (hfu : fm ≤ fu) (c : Ct) (ei : Nat)
    (bs : List Nat) (c' : Ct) (tl : List Nat) (hc : c ≤ T.size) (hm : marshalEnv fm T ei c = some (bs, c')) :
    unmarshalEnvWith (fun c d => unmarshalC fu vf c d) c (bs ++ tl) = some (ei, tl, T.slice c c') :=
  ((all_roundtrip T vf hT fm).2.2 fu hfu ei c bs c' tl hc hm).2.2

/-- **No image-only pseudo flag survives in the in-memory fiber**: whatever 32-bit flags word is read from the image, the
flags `unmarshal_one_fiber` stores (`fiberMemFlags`, used by `unmarshalFiberBody`) have neither `JANET_FIBER_FLAG_HASENV`
nor `JANET_FIBER_FLAG_HASCHILD` set, and no other bit is touched.  So the copy satisfies the `noEnvBit` / `noChildBit` clauses
of `FiberWF` again, which is what `roundtrip_code` needs for the *next* generation (copy of the copy). -/
theorem fiber_flags_no_wire_bits (ff : Int) :
    hasFlag (fiberMemFlags ff) JanetModel.Gen.MarshCode.fiberHasEnv = false ∧
    hasFlag (fiberMemFlags ff) JanetModel.Gen.MarshCode.fiberHasChild = false ∧
    fiberMemFlags ff % JanetModel.Gen.MarshCode.fiberHasChild = ff % JanetModel.Gen.MarshCode.fiberHasChild ∧
    fiberMemFlags ff / (2 * JanetModel.Gen.MarshCode.fiberHasEnv) = ff / (2 * JanetModel.Gen.MarshCode.fiberHasEnv) := by
  have h30 : (ff / 1073741824) % 2 = 1 ∨ (ff / 1073741824) % 2 = 0 := by omega
  have h29 : (ff / 536870912) % 2 = 1 ∨ (ff / 536870912) % 2 = 0 := by omega
  rcases h30 with a | a <;> rcases h29 with b | b <;>
    simp [fiberMemFlags, hasFlag, JanetModel.Gen.MarshCode.fiberHasEnv, JanetModel.Gen.MarshCode.fiberHasChild, a, b] <;>
    omega

example : fiberMemFlags (1073741824 + 536870912 + 5) = 5 := by decide

/-- all three lookup tables of the unmarshaller grow by exactly the numbers the marshaller handed out -/
theorem code_ids_agree (T : Heap) (vf : Def → Bool) (hT : HeapCWF vf T) (fuel : Nat) (c : Ct) (x : Val)
    (bs : List Nat) (c' : Ct) (tl : List Nat) (hc : c ≤ T.size) (hx : ValWF x) (hm : marshalC fuel T x c = some (bs, c')) :
    ∃ o, unmarshalC fuel vf c (bs ++ tl) = some (x, tl, o) ∧ c.add o = c' ∧ c ≤ c' ∧ c' ≤ T.size := by
  obtain ⟨h1, h2, h3⟩ := (all_roundtrip T vf hT fuel).1 fuel (Nat.le_refl _) x hx c bs c' tl hc hm
  exact ⟨T.slice c c', h3, Ct.add_slice T c c' h1 h2, h1, h2⟩

/-- entry points: `janet_unmarshal (janet_marshal x)` gives back the value and all three tables and reads exactly the bytes
written (`… = some (bs, T.size)`: every entry of the description was numbered, the description contains no garbage) -/
theorem roundtrip_code_top (T : Heap) (vf : Def → Bool) (hT : HeapCWF vf T) (x : Val) (hx : ValWF x) (bs : List Nat)
    (hm : marshalC topFuel T x ⟨0, 0, 0⟩ = some (bs, T.size)) :
    marshalCode T x = some bs ∧ unmarshalCode vf bs = some (x, ⟨T.objs, T.defs, T.envs⟩, bs.length) := by
  refine ⟨by simp [marshalCode, hm], ?_⟩
  have h := roundtrip_code T vf hT topFuel topFuel (Nat.le_refl _) ⟨0, 0, 0⟩ x bs T.size [] ⟨Nat.zero_le _, Nat.zero_le _, Nat.zero_le _⟩ hx hm
  simp only [List.append_nil] at h
  simp [unmarshalCode, h, Heap.slice, Heap.size, slc]

/-- non-vacuity: two closures (`inc`, `get`) over one captured variable, made by one outer funcdef: both functions carry
environment 0, the second funcdef is a sub-funcdef listed by index; the tuple of both is the root.  The model marshals it,
the second closure's environment goes out as LB_FUNCENV_REF 0 (`219, 0`), and unmarshalling gives the same three tables. -/
def exCode : Heap :=
  { objs := [.func 0 [0], .func 1 [0], .data (.tuple 0 [.ref 0, .ref 1])],
    defs := [⟨4194304, 1, 0, 0, 0, none, none, [], [], [0x0000012D, 0x00000003], [-1], [], [], []⟩,
             ⟨4194304, 1, 0, 0, 0, none, none, [.int 300], [], [0x00000003], [-1], [], [], []⟩],
    envs := [.detached [.int 5, .nil]] }

example : marshalC topFuel exCode (.ref 2) ⟨0, 0, 0⟩ =
    some ([210, 2, 0, 215, 1, 205, 0, 64, 0, 0, 1, 0, 0, 0, 0, 2, 1, 45, 1, 0, 0, 3, 0, 0, 0, 191, 255, 0, 2, 5, 201,
           215, 1, 205, 0, 64, 0, 0, 1, 0, 0, 0, 1, 1, 1, 129, 44, 3, 0, 0, 0, 191, 255, 219, 0], ⟨3, 2, 1⟩) := by decide

example : (unmarshalCode (fun _ => true) [210, 2, 0, 215, 1, 205, 0, 64, 0, 0, 1, 0, 0, 0, 0, 2, 1, 45, 1, 0, 0, 3, 0, 0, 0, 191, 255, 0, 2, 5, 201,
           215, 1, 205, 0, 64, 0, 0, 1, 0, 0, 0, 1, 1, 1, 129, 44, 3, 0, 0, 0, 191, 255, 219, 0]).map (·.1) = some (.ref 2) := by decide +kernel

/-- the hypotheses of the theorems hold for it -/
example : HeapCWF (fun _ => true) exCode := by
  refine ⟨by decide, by decide, by decide, ?_, ?_, ?_⟩
  · intro o ho
    simp only [exCode, List.mem_cons, List.mem_nil_iff, or_false] at ho
    rcases ho with rfl | rfl | rfl <;> simp [CObjWF, ObjWF, ValWF, Marsh.Int32, JanetModel.Gen.MarshCode.maxFuncEnvs]
  · intro d hd
    simp only [exCode, List.mem_cons, List.mem_nil_iff, or_false] at hd
    rcases hd with rfl | rfl <;> constructor <;>
      simp [Marsh.Int32, OptWF, hasFlag, ValWF, SymWF, JanetModel.Gen.MarshCode.maxSlotcount, JanetModel.Gen.MarshCode.fdHasName,
        JanetModel.Gen.MarshCode.fdHasSource, JanetModel.Gen.MarshCode.fdHasSymbolMap, JanetModel.Gen.MarshCode.fdHasEnvs,
        JanetModel.Gen.MarshCode.fdHasDefs, JanetModel.Gen.MarshCode.fdHasSourceMap, JanetModel.Gen.MarshCode.fdHasCloBitset]
  · intro e he
    simp only [exCode, List.mem_cons, List.mem_nil_iff, or_false] at he
    subst he
    simp [EnvWF, ValWF, Marsh.Int32]

/-- non-vacuity for fibers: a fiber suspended in one frame of a two-instruction function, one stack slot; wire bytes as the
model (and, on generated fibers, janet) produces them; `FiberWF` holds for it -/
def exFiber : Heap :=
  { objs := [.fiber 8 4 9 9 100 [⟨2, 0, 1, .ref 1, none, [.int 10]⟩] none none (.int 10), .func 0 []],
    defs := [⟨0, 1, 0, 0, 0, none, none, [], [], [3, 3], [], [], [], []⟩],
    envs := [] }

example : marshalC topFuel exFiber (.ref 0) ⟨0, 0, 0⟩ =
    some ([204, 8, 4, 9, 9, 100, 2, 0, 1, 215, 0, 0, 1, 0, 0, 0, 0, 2, 3, 0, 0, 0, 3, 0, 0, 0, 10, 10], ⟨2, 1, 0⟩) := by decide +kernel

example : FiberWF 8 4 9 9 100 [⟨2, 0, 1, .ref 1, none, [.int 10]⟩] none none (.int 10) := by
  refine ⟨by decide, by decide, by decide, by decide, ?_, by simp, by simp, by simp [ValWF, Marsh.Int32]⟩
  simp [FramesWF, ValWF, Marsh.Int32, JanetModel.Gen.MarshCode.frameSize]

/-- a description whose funcdefs are not in `seen_defs` order is rejected (the hypothesis of the theorems is not vacuous for
the wrong reason) -/
example : marshalC topFuel { exCode with objs := [.func 1 [0]] } (.ref 0) ⟨0, 0, 0⟩ = none := by decide


/-! ### abstract types: the hook protocol, boxed 64-bit integers, channels with queued items  (Marsh/Abstract.lean)

An abstract's marshal hook writes through its context: calls before `janet_marshal_abstract` (`pre`), MARK_SEEN, calls after
(`post`).  Its unmarshal hook is a program over the context calls (`Prog`).  `WellPaired prog pre post` is a statement about
the two hooks alone (no wire): the program, fed `pre`, reaches `janet_unmarshal_abstract` exactly then, and fed `post`,
returns exactly then, asking each time for the kind of item that was written. -/

/-- **Round trip for every well-paired hook pair**, at the wire level, with values passed through `janet_marshal_janet`
handled by `marshal_one` / `unmarshal_one` of Code.lean (so they may be shared with, or point back into, the rest of the graph):
the unmarshal hook reads back exactly the calls the marshal hook made, the abstract gets the reference number the marshaller
gave it, objects created inside `pre` / `post` are numbered before / after it, and the buffer is left where the marshaller
stopped.  (`mk` is how a description records an abstract; the dispatch on the type name is outside the model.) -/
theorem abstract_hook_roundtrip (T : Heap) (vf : Def → Bool) (hT : HeapCWF vf T) (fm fu : Nat) (hfu : fm ≤ fu)
    (prog : Prog) (pre post : List AItem) (hwp : WellPaired prog pre post)
    (hpre : ∀ it ∈ pre, ItemWF it) (hpost : ∀ it ∈ post, ItemWF it)
    (mk : List AItem → List AItem → CObj) (id : Nat) (ho : T.objs[id]? = some (mk pre post))
    (c : Ct) (bs : List Nat) (c' : Ct) (tl : List Nat) (hc : c ≤ T.size)
    (hm : marshalHook (fun v c => marshalC fm T v c) id pre post c = some (bs, c')) :
    unmarshalHook (fun c d => unmarshalC fu vf c d) prog mk c (bs ++ tl) = some (.ref id, tl, T.slice c c') :=
  (hook_paired T _ _ (fun v hv => (all_roundtrip T vf hT fm).1 fu hfu v hv) prog pre post hwp hpre hpost mk id ho
    c bs c' tl hc hm).2.2

/-- `int64_marshal` / `int64_unmarshal` (int/s64 and int/u64 boxes) are well paired, for every 64-bit value -/
theorem int64_hooks_paired (u : Nat) : WellPaired int64Prog (int64Items u).1 (int64Items u).2 := int64_wellPaired u

/-- … so a boxed 64-bit integer survives: the value read back is the value written (every `uint64_t`) -/
theorem int64_box_roundtrip (T : Heap) (vf : Def → Bool) (hT : HeapCWF vf T) (fuel : Nat) (u : Nat) (hu : u < 18446744073709551616)
    (name : Val) (id : Nat) (ho : T.objs[id]? = some (.abs name [] [.i64 u]))
    (c : Ct) (bs : List Nat) (c' : Ct) (tl : List Nat) (hc : c ≤ T.size)
    (hm : marshalHook (fun v c => marshalC fuel T v c) id [] [.i64 u] c = some (bs, c')) :
    unmarshalHook (fun c d => unmarshalC fuel vf c d) int64Prog (CObj.abs name) c (bs ++ tl) = some (.ref id, tl, T.slice c c') :=
  abstract_hook_roundtrip T vf hT fuel fuel (Nat.le_refl _) int64Prog [] [.i64 u] (int64_wellPaired u)
    (by simp) (by simp [ItemWF, hu]) (CObj.abs name) id ho c bs c' tl hc hm

/-- `janet_chanat_marshal` / `janet_chanat_unmarshal` are well paired for every channel state: any flags, any limit, any
number of queued items -/
theorem channel_hooks_paired (threaded closed : Nat) (limit : Int) (items : List Val) (h : items.length < 2147483648) :
    WellPaired chanProg (chanItems threaded closed limit items).1 (chanItems threaded closed limit items).2 :=
  chan_wellPaired threaded closed limit items h

/-- … so a channel with queued items survives: flags, limit, and the queued values in queue order, each value with its
sharing (a value queued twice, or also reachable from elsewhere in the graph, is one object after the round trip) -/
theorem channel_roundtrip (T : Heap) (vf : Def → Bool) (hT : HeapCWF vf T) (fuel : Nat) (threaded closed : Nat) (limit : Int)
    (items : List Val) (hl : Marsh.Int32 limit) (hn : items.length < 2147483648) (hv : ∀ v ∈ items, ValWF v)
    (name : Val) (id : Nat)
    (ho : T.objs[id]? = some (.abs name (chanItems threaded closed limit items).1 (chanItems threaded closed limit items).2))
    (c : Ct) (bs : List Nat) (c' : Ct) (tl : List Nat) (hc : c ≤ T.size)
    (hm : marshalHook (fun v c => marshalC fuel T v c) id (chanItems threaded closed limit items).1
            (chanItems threaded closed limit items).2 c = some (bs, c')) :
    unmarshalHook (fun c d => unmarshalC fuel vf c d) chanProg (CObj.abs name) c (bs ++ tl) = some (.ref id, tl, T.slice c c') := by
  refine abstract_hook_roundtrip T vf hT fuel fuel (Nat.le_refl _) chanProg _ _ (chan_wellPaired threaded closed limit items hn)
    ?_ ?_ (CObj.abs name) id ho c bs c' tl hc hm
  · intro it hit; simp [chanItems] at hit; subst hit; simp [ItemWF]
  · intro it hit
    simp only [chanItems, List.cons_append, List.nil_append, List.mem_cons, List.mem_map] at hit
    rcases hit with rfl | rfl | rfl | ⟨v, hvm, rfl⟩
    · simp [ItemWF]
    · exact hl
    · simp only [ItemWF, Marsh.Int32]; constructor <;> omega
    · exact hv v hvm

/-- `peg_marshal` / the reading part of `peg_unmarshal` are well paired for every compiled PEG: any bytecode length, any
constants (through `abstract_hook_roundtrip`: the words and the constants, with their sharing, come back; that `peg_unmarshal`
then accepts them - its bytecode verifier - and recomputes `has_backref` is tested by `pegfields.c`, not modelled) -/
theorem peg_hooks_paired (bytecode : List Int) (constants : List Val) (hb : bytecode.length ≤ 2147483647)
    (hc : constants.length < 2147483648) :
    WellPaired pegProg (pegItems bytecode constants).1 (pegItems bytecode constants).2 :=
  peg_wellPaired bytecode constants hb hc

/-- … so a compiled PEG survives at the wire level: every bytecode word (as `peg_marshal` writes it, one int32 per word) and
every constant, each with its sharing (a constant that is also reachable from elsewhere in the graph is one object after the
round trip), for any bytecode length and any number of constants.  Not in this statement: `peg_unmarshal` then runs its
bytecode verifier and recomputes `has_backref` (tested field by field and behaviourally by `pegfields.c`). -/
theorem peg_roundtrip (T : Heap) (vf : Def → Bool) (hT : HeapCWF vf T) (fuel : Nat) (bytecode : List Int) (constants : List Val)
    (hb : bytecode.length ≤ 2147483647) (hk : constants.length < 2147483648) (hw : ∀ w ∈ bytecode, Marsh.Int32 w)
    (hv : ∀ v ∈ constants, ValWF v) (name : Val) (id : Nat)
    (ho : T.objs[id]? = some (.abs name (pegItems bytecode constants).1 (pegItems bytecode constants).2))
    (c : Ct) (bs : List Nat) (c' : Ct) (tl : List Nat) (hc : c ≤ T.size)
    (hm : marshalHook (fun v c => marshalC fuel T v c) id (pegItems bytecode constants).1 (pegItems bytecode constants).2 c = some (bs, c')) :
    unmarshalHook (fun c d => unmarshalC fuel vf c d) pegProg (CObj.abs name) c (bs ++ tl) = some (.ref id, tl, T.slice c c') := by
  refine abstract_hook_roundtrip T vf hT fuel fuel (Nat.le_refl _) pegProg _ _ (peg_wellPaired bytecode constants hb hk)
    ?_ ?_ (CObj.abs name) id ho c bs c' tl hc hm
  · intro it hit
    simp only [pegItems, List.mem_cons, List.mem_nil_iff, or_false] at hit
    rcases hit with rfl | rfl
    · simp only [ItemWF]; omega
    · simp only [ItemWF, Marsh.Int32]; constructor <;> omega
  · intro it hit
    simp only [pegItems, List.mem_append, List.mem_map] at hit
    rcases hit with ⟨w, hwm, rfl⟩ | ⟨v, hvm, rfl⟩
    · exact hw w hwm
    · exact hv v hvm

/-- non-vacuity: a channel holding the same array twice (and an integer); the second occurrence goes out as a reference
(`218, 1`) and comes back as the same object; bytes as `(marshal ch)` produces them after the type name -/
example : marshalHook (fun v c => marshalC 5 ⟨[.abs .nil [.byte 0] [.byte 0, .int 10, .int 3, .janet (.ref 1), .janet (.int 7), .janet (.ref 1)],
      .data (.array false [])], [], []⟩ v c) 0 (chanItems 0 0 10 [.ref 1, .int 7, .ref 1]).1 (chanItems 0 0 10 [.ref 1, .int 7, .ref 1]).2 ⟨0, 0, 0⟩
    = some ([0, 0, 10, 3, 209, 0, 7, 218, 1], ⟨2, 0, 0⟩) := by decide

/-- a hook pair that is not well paired (the reader asks for an int where a byte was written) is not accepted -/
example : acceptsPre chanProg [.int 0] = none := by decide


/-! ### recursion depth along the abstract-hook path  (Marsh/AbsDepth.lean)

`marshal_one` → `marshal_one_abstract` → `JanetMarshalContext.flags` → `janet_marshal_janet` → `marshal_one`: a value that a hook
hands back to the marshaller (PEG constant, queued channel item) is visited `call + ctx + item` levels below its abstract, the
type-name symbol `call + name` levels below; `unmarshal_one` has the same four edges with its own increments.  `Incs` holds the
four increments of one side; the ones of the current marsh.c are regenerated (`Gen.MarshCode.mAbs…` / `uAbs…`, instantiated in
`CodeObligations.abstract_nesting_roundtrips`). -/

/-- **Whatever nests through abstract payloads and is marshalled can be unmarshalled**, at every depth: if no reader edge of the
abstract path consumes more depth than the corresponding writer edge, then for every value (arrays and abstracts holding values,
any shape), every writer budget `fm` (= `recursionGuard + 1 - depth`) and every reader budget `fu ≥ fm`, the reader accepts the
bytes the writer produced, returns the same nesting and stops where the writer stopped.  (With a context initialiser that does
not add to the local depth on the marshal side — seed C19-8: `st->flags` — the hypothesis `hi` is false, and the second
`example` below is a value that is written and then rejected.) -/
theorem abstract_depth_roundtrip (pm pu : AbsDepth.Incs) (hn : pu.nameTotal ≤ pm.nameTotal) (hi : pu.itemExtra ≤ pm.itemExtra)
    (v : AbsDepth.DV) (fm fu : Nat) (h : fm ≤ fu) (bs tl : List AbsDepth.Tok) (hm : AbsDepth.marshalD pm fm v = some bs) :
    AbsDepth.unmarshalD pu fu (bs ++ tl) = some (v, tl) :=
  AbsDepth.roundtripD pm pu hn hi v fm fu h bs tl hm

/-- the converse edge-wise condition gives the converse acceptance: bytes of a value that the reader accepts at budget `fu` are
accepted by the writer at every budget `fm ≥ fu`, and the reader returned that value -/
theorem abstract_depth_accept_converse (pm pu : AbsDepth.Incs) (hn : pm.nameTotal ≤ pu.nameTotal) (hi : pm.itemExtra ≤ pu.itemExtra)
    (v : AbsDepth.DV) (fm fu : Nat) (h : fu ≤ fm) (tl : List AbsDepth.Tok) (r : AbsDepth.DV × List AbsDepth.Tok)
    (hu : AbsDepth.unmarshalD pu fu (AbsDepth.enc v ++ tl) = some r) :
    AbsDepth.marshalD pm fm v = some (AbsDepth.enc v) ∧ r = (v, tl) :=
  AbsDepth.acceptD pm pu hn hi v fm fu h tl r hu

/-- **Depth symmetry of the abstract path** (the a382df0-style statement): with equal increments on both sides, `marshal`
accepts a value at depth `d` iff `unmarshal` accepts its bytes at depth `d` -/
theorem abstract_depth_symmetric (p : AbsDepth.Incs) (v : AbsDepth.DV) (f : Nat) (tl : List AbsDepth.Tok) :
    (AbsDepth.marshalD p f v).isSome = (AbsDepth.unmarshalD p f (AbsDepth.enc v ++ tl)).isSome :=
  AbsDepth.symmetricD p v f tl

/-- the same in the Code/Abstract model: the values a hook passes to `janet_marshal_janet` are written by `marshalC` at the
budget of the abstract minus the writer's increments and read by `unmarshalC` at the budget minus the reader's; when the reader's
increments are not larger, every well-paired hook round-trips (`abstract_hook_roundtrip` with the two budgets made explicit) -/
theorem abstract_hook_roundtrip_at_depth (pm pu : AbsDepth.Incs) (hi : pu.itemExtra ≤ pm.itemExtra)
    (T : Heap) (vf : Def → Bool) (hT : HeapCWF vf T) (fuel : Nat)
    (prog : Prog) (pre post : List AItem) (hwp : WellPaired prog pre post)
    (hpre : ∀ it ∈ pre, ItemWF it) (hpost : ∀ it ∈ post, ItemWF it)
    (mk : List AItem → List AItem → CObj) (id : Nat) (ho : T.objs[id]? = some (mk pre post))
    (c : Ct) (bs : List Nat) (c' : Ct) (tl : List Nat) (hc : c ≤ T.size)
    (hm : marshalHook (fun v c => marshalC (fuel - pm.itemExtra) T v c) id pre post c = some (bs, c')) :
    unmarshalHook (fun c d => unmarshalC (fuel - pu.itemExtra) vf c d) prog mk c (bs ++ tl) = some (.ref id, tl, T.slice c c') :=
  abstract_hook_roundtrip T vf hT _ _ (by omega) prog pre post hwp hpre hpost mk id ho c bs c' tl hc hm

/-- non-vacuity: with the increments of marsh.c (0, 1, 1, 1) and budget 5, two abstracts around a leaf are written … -/
example : AbsDepth.marshalD ⟨0, 1, 1, 1⟩ 5 (AbsDepth.chainW 0 2) = some [.abs 1, .sym, .abs 1, .sym, .nil] := by decide
/-- … three are not (the leaf would be at budget 0), and by symmetry their bytes are not read either -/
example : AbsDepth.marshalD ⟨0, 1, 1, 1⟩ 6 (AbsDepth.chainW 0 3) = none ∧
    (AbsDepth.unmarshalD ⟨0, 1, 1, 1⟩ 6 (AbsDepth.enc (AbsDepth.chainW 0 3))).isSome = false := by
  have h : AbsDepth.marshalD ⟨0, 1, 1, 1⟩ 6 (AbsDepth.chainW 0 3) = none := by decide
  refine ⟨h, ?_⟩
  have := abstract_depth_symmetric ⟨0, 1, 1, 1⟩ (AbsDepth.chainW 0 3) 6 []
  rw [h] at this
  simpa using this.symm
/-- a writer whose context does not add to the depth (`ctx = 0`; seed C19-8 restarts it altogether) against the reader of
marsh.c: the value is written, and its bytes are rejected -/
example : (AbsDepth.marshalD ⟨0, 1, 0, 1⟩ 6 (AbsDepth.chainW 0 3)).isSome = true ∧
    (AbsDepth.unmarshalD ⟨0, 1, 1, 1⟩ 6 (AbsDepth.enc (AbsDepth.chainW 0 3))).isSome = false := by
  refine ⟨by decide, ?_⟩
  have h : AbsDepth.marshalD ⟨0, 1, 1, 1⟩ 6 (AbsDepth.chainW 0 3) = none := by decide
  have := abstract_depth_symmetric ⟨0, 1, 1, 1⟩ (AbsDepth.chainW 0 3) 6 []
  rw [h] at this
  simpa using this.symm


/-! ### asm ∘ disasm on whole instruction words and bytecode arrays  (Asm/Instr.lean)

`decode` mirrors `janet_asm_decode_instruction` (operand fields generated from its switch), `encode` mirrors
`read_instruction` + `doarg`.  A word is `Canonical` when its breakpoint bit is clear (the assembler has no syntax for it) and no
bit lies outside the operand fields the assembler writes (only JINT_0 and the upper byte of JINT_S have such bits). -/

/-- **Every opcode, every canonical word**: assembling the disassembly of an instruction word gives the word back - all operand
layouts of the generated table, signed operands at their minimum included. -/
theorem asm_disasm_instr (w : Nat) (hc : JanetModel.Asm.Canonical w) (op : JanetModel.Gen.Bytecode.Op) (args : List Int)
    (hd : JanetModel.Asm.decode w = some (op, args)) : JanetModel.Asm.encode op args = some w :=
  JanetModel.Asm.encode_decode w hc op args hd

/-- **Whole bytecode array**: `asm (disasm bytecode) = bytecode`, word for word, for any length. -/
theorem asm_disasm_bytecode (ws : List Nat) (h : ∀ w ∈ ws, JanetModel.Asm.Canonical w) :
    JanetModel.Asm.asmBytecode (JanetModel.Asm.disasmBytecode ws) = some ws :=
  JanetModel.Asm.asm_disasm_bytecode ws h

example : JanetModel.Asm.decode 0x80010005 = some (.addImmediate, [0, 1, -128]) := by decide
example : (JanetModel.Asm.decode 0x80010005).bind (fun p => JanetModel.Asm.encode p.1 p.2) = some 0x80010005 := by decide
/-- the breakpoint bit is not reproduced (so such a word is excluded by `Canonical`) -/
example : (JanetModel.Asm.decode 0x80010085).bind (fun p => JanetModel.Asm.encode p.1 p.2) = some 0x80010005 := by decide


/-! ### asm ∘ disasm at funcdef level: slot count and `janet_verify`  (Asm/Def.lean)

`verify` mirrors `janet_verify` (header tests, the comparisons of every `case JINT_x` in source order — generated —, the
symbol-map loop, the terminal-opcode test); `asmOf` mirrors the part of `janet_asm1` that decides acceptance: the three arity
assertions, `slotcount = !!(flags & VARARG) + arity` (whether the flag is already set at that point is generated:
`slotInitCountsVararg`), the bytecode loop in which every JANET_OAT_SLOT operand `≥ slotcount` raises it (operand kinds
generated), the final `janet_verify`.  The `:slotcount` entry of the disassembly is not read by the assembler. -/

/-- **asm (disasm d) is accepted by its own verifier**, for every funcdef janet_verify accepts whose words are canonical
and whose arities are ordered as the assembler asserts; the result is `d` with the recomputed slot count.  `extra` = the
captured-slot operands of `ldu` / `setu` instructions of sub-funcdefs that `read_instruction` counts in this (enclosing)
funcdef — any list of one-byte values.  Two generated facts carry the proof: the vararg flag is set before the slot count is
initialised (otherwise the `maxslot > sc` test fails for every variadic function whose rest slot is not an operand:
`slotInit_eq` no longer checks) and the symbol-map loop counts the slots of named locals (otherwise the `slot_index >= sc`
test fails for a local that no instruction mentions, e.g. the unused last binding of a destructuring whose final move `movopt`
deleted: `sym_counts` no longer checks — the defect fixed by patches/fix-C09-asm-symbolmap-slotcount.diff, /repo 709ad9e). -/
theorem asm_disasm_def (extra : List Int) (d : JanetModel.Asm.FDef) (hv : JanetModel.Asm.verify d = 0)
    (hc : ∀ w ∈ d.bytecode, JanetModel.Asm.Canonical w) (hmin : d.minArity ≤ d.arity) (hmax : d.arity ≤ d.maxArity)
    (hx : ∀ x ∈ extra, x < 256) :
    JanetModel.Asm.asmOfX extra d = some { d with slotcount := JanetModel.Asm.asmSlotcountX extra d } :=
  JanetModel.Asm.asm_disasm_def extra d hv hc hmin hmax hx

/-- the recomputed slot count covers the parameters (rest parameter included), every slot operand, every named local and
every operand arriving from a sub-funcdef … -/
theorem asm_slotcount_covers (extra : List Int) (d : JanetModel.Asm.FDef) (hv : JanetModel.Asm.verify d = 0) :
    d.arity + (if d.vararg then 1 else 0) ≤ JanetModel.Asm.asmSlotcountX extra d ∧
    (∀ w ∈ d.bytecode, ∀ a ∈ JanetModel.Asm.slotArgsW w, a < JanetModel.Asm.asmSlotcountX extra d) ∧
    (∀ e ∈ d.symbolmap, e.birth ≠ 4294967295 → (e.slot : Int) < JanetModel.Asm.asmSlotcountX extra d) ∧
    (∀ x ∈ extra, x < JanetModel.Asm.asmSlotcountX extra d) :=
  JanetModel.Asm.asmSlotcount_covers extra d ((JanetModel.Asm.verify_zero_iff d).1 hv)

/-- … never exceeds the original one when those operands are below it … -/
theorem asm_slotcount_le (extra : List Int) (d : JanetModel.Asm.FDef) (hv : JanetModel.Asm.verify d = 0)
    (hc : ∀ w ∈ d.bytecode, JanetModel.Asm.Canonical w) (hx : ∀ x ∈ extra, x < d.slotcount) :
    JanetModel.Asm.asmSlotcountX extra d ≤ d.slotcount := JanetModel.Asm.asm_slotcount_le extra d hv hc hx

/-- … and equals it when the original count is tight (parameters fill the frame, or the last slot is an operand or a named local). -/
theorem asm_slotcount_eq (extra : List Int) (d : JanetModel.Asm.FDef) (hv : JanetModel.Asm.verify d = 0)
    (hc : ∀ w ∈ d.bytecode, JanetModel.Asm.Canonical w) (hx : ∀ x ∈ extra, x < d.slotcount) (ht : JanetModel.Asm.Tight d) :
    JanetModel.Asm.asmSlotcountX extra d = d.slotcount := JanetModel.Asm.asm_slotcount_eq extra d hv hc hx ht

/-- **asm (disasm d) = d** on every field janet_verify reads, for funcdefs with a tight slot count (compiler output). -/
theorem asm_disasm_def_tight (extra : List Int) (d : JanetModel.Asm.FDef) (hv : JanetModel.Asm.verify d = 0)
    (hc : ∀ w ∈ d.bytecode, JanetModel.Asm.Canonical w) (hmin : d.minArity ≤ d.arity) (hmax : d.arity ≤ d.maxArity)
    (hx : ∀ x ∈ extra, x < d.slotcount) (ht : JanetModel.Asm.Tight d) :
    JanetModel.Asm.asmOfX extra d = some d := JanetModel.Asm.asm_disasm_def_tight extra d hv hc hmin hmax hx ht

section AsmDefExamples
open JanetModel.Asm
/-- `(fn [a & xs] a)`: one instruction `(ret 0)`, the rest slot 1 is no operand -/
def exVariadic : FDef :=
  { vararg := true, arity := 1, minArity := 1, maxArity := 2147483647, slotcount := 2, bytecode := [0x00000003],
    nconsts := 0, ndefs := 0, nenvs := 0, symbolmap := [⟨0, 1, 0⟩, ⟨0, 1, 1⟩] }
example : verify exVariadic = 0 := by decide
example : asmOf exVariadic = some exVariadic := by decide
example : Tight exVariadic ∧ (∀ w ∈ exVariadic.bytecode, Canonical w) := by
  refine ⟨Or.inl (by decide), ?_⟩
  intro w hw
  simp only [exVariadic, List.mem_singleton] at hw
  subst hw
  refine ⟨by decide, by decide, ?_⟩
  show canonArgs Gen.Bytecode.IType.s 3
  show 3 / 16777216 = 0
  decide
/-- `(fn [& xs] nil)` : `(retn)` -/
example : asmOf { exVariadic with arity := 0, minArity := 0, slotcount := 1, bytecode := [0x00000004], symbolmap := [⟨0, 1, 0⟩] }
    = some { exVariadic with arity := 0, minArity := 0, slotcount := 1, bytecode := [0x00000004], symbolmap := [⟨0, 1, 0⟩] } := by decide
/-- a slot count that is not tight shrinks: 3 parameters' worth of frame, `(ldi 5 7) (ret 5)` → 6 -/
example : (asmOf { exVariadic with vararg := false, slotcount := 9, bytecode := [0x0007052B, 0x00000503], symbolmap := [] }).map (·.slotcount)
    = some 6 := by decide
/-- `(fn [[a b] & r] a)` as compiled: `(geti 2 0 0) (movn 3 2) (geti 2 0 1) (ret 3)`, locals r a b in slots 1 3 4 — slot 4 is in
no instruction (movopt deleted the move).  Without the symbol-map statement in janet_asm1 the assembler computed slot count 4 and
its own janet_verify returned 10 -/
def exDestructure : FDef :=
  { exVariadic with slotcount := 5, bytecode := [0x0000023d, 0x0002031b, 0x0100023d, 0x00000303], symbolmap := [⟨0, 4, 1⟩, ⟨1, 4, 3⟩, ⟨3, 4, 4⟩] }
example : verify exDestructure = 0 ∧ asmOf exDestructure = some exDestructure := by decide
example : verify { exDestructure with slotcount := 4 } = 10 := by decide
/-- the arity hypotheses are needed: janet_verify accepts `min-arity > arity`, the assembler asserts the opposite -/
example : verify { exVariadic with minArity := 2 } = 0 ∧ asmOf { exVariadic with minArity := 2 } = none := by decide
/-- `(ldu 0 0 5)` in a 1-slot closure: captured slot 5 is not counted in the closure (slot count stays 1) but in the
enclosing funcdef, where it arrives as `extra` — there the bound `extra < slotcount` is needed for `≤` -/
example : asmSlotcount { exVariadic with vararg := false, arity := 0, minArity := 0, slotcount := 1, nenvs := 1, bytecode := [0x0500002D, 0x00000003], symbolmap := [] } = 1 := by
  decide
example : asmSlotcountX [5] exVariadic = 6 ∧ asmSlotcountX [1] exVariadic = 2 := by decide
end AsmDefExamples


/-! ### every value graph has a presentation in reference-number order, and only one  (Marsh/Present.lean)

`roundtrip_graph` is about heaps listed in the order marsh.c numbers them.  `presentOne` is `marshal_one` on a heap in
*arbitrary* (address) order with the `st->seen` table explicit (newest binding wins, as `janet_table_put`); the description in
reference-number order — what `graph.janet: describe` computes — is a by-product of the same traversal. -/

/-- **Existence**: whenever the seen-table marshaller writes bytes for `x` in a heap of any order (any seen table with
numbers below `nextid`, any depth budget), the description it computes is accepted by `marshalOne` at that counter, wherever
the new objects sit in the heap, and `marshalOne` writes the same bytes and hands out the same numbers. -/
theorem presentation_exists (G : List Obj) (fuel : Nat) (s : Seen) (n : Nat) (x : Val) (bs : List Nat) (x' : Val)
    (objs : List Obj) (s' : Seen) (h : presentOne fuel G s n x = some (bs, x', objs, s')) (hs : SeenBelow s n) :
    SeenBelow s' (n + objs.length) ∧
    ∀ P Q : List Obj, P.length = n → marshalOne fuel (P ++ objs ++ Q) n x' = some (bs, n + objs.length) :=
  presentOne_sound G fuel s n x _ h hs

/-- entry point (`janet_marshal` with a fresh state): bytes of the graph = bytes of its presentation, no garbage in it -/
theorem presentation_exists_top (G : List Obj) (x : Val) (bs : List Nat) (x' : Val) (H : List Obj)
    (h : present G x = some (bs, x', H)) : marshalOne topFuel H 0 x' = some (bs, H.length) :=
  present_sound G x bs x' H h

/-- **Uniqueness**: two descriptions in reference-number order that marshal to the same bytes are equal — so a value graph
has exactly one such presentation (graph isomorphism is equality of presentations), and `unmarshal` returns it. -/
theorem presentation_unique (H1 H2 : List Obj) (x1 x2 : Val) (bs : List Nat) (hw1 : HeapWF H1) (hw2 : HeapWF H2)
    (hx1 : ValWF x1) (hx2 : ValWF x2) (h1 : marshalOne topFuel H1 0 x1 = some (bs, H1.length))
    (h2 : marshalOne topFuel H2 0 x2 = some (bs, H2.length)) : x1 = x2 ∧ H1 = H2 := by
  have r1 := (roundtrip_graph_top H1 hw1 x1 hx1 bs h1).2
  have r2 := (roundtrip_graph_top H2 hw2 x2 hx2 bs h2).2
  rw [r1] at r2
  simp only [Option.some.injEq, Prod.mk.injEq] at r2
  exact ⟨r2.1, r2.2.1⟩

/-- **Canonicity** (uniqueness without mentioning bytes): a description that `marshalOne` accepts, at any counter and depth
budget, is its own presentation — the seen-table marshaller run on it with addresses = reference numbers writes the same
bytes and returns it unchanged; so `present` is a projection onto the accepted descriptions, and the presentation of a
presentation is itself. -/
theorem presentation_canonical (H : List Obj) (fuel : Nat) (s : Seen) (n : Nat) (x : Val) (bs : List Nat) (n' : Nat)
    (h : marshalOne fuel H n x = some (bs, n')) (hn : n ≤ H.length) (hs : SeenId s n) :
    ∃ s', presentOne fuel H s n x = some (bs, x, slice H n n', s') ∧ SeenId s' n' :=
  let ⟨s', p, q, _, _⟩ := presentOne_fixed H fuel s n x bs n' h hn hs
  ⟨s', p, q⟩

theorem presentation_idempotent (G : List Obj) (x : Val) (bs : List Nat) (x' : Val) (H : List Obj)
    (h : present G x = some (bs, x', H)) : present H x' = some (bs, x', H) :=
  present_fixed H x' bs (present_sound G x bs x' H h)

example : present exHeap (.ref 0) = some ([209, 4, 1, 218, 0, 210, 2, 1, 129, 44, 218, 0, 218, 1], .ref 0, exHeap) := by
  decide +kernel

/-- the presentation of a graph round-trips: `unmarshal (marshal g)` is the presentation of `g` -/
theorem presentation_roundtrip (G : List Obj) (x : Val) (bs : List Nat) (x' : Val) (H : List Obj)
    (h : present G x = some (bs, x', H)) (hw : HeapWF H) (hx : ValWF x') : unmarshal bs = some (x', H, bs.length) :=
  (roundtrip_graph_top H hw x' hx bs (present_sound G x bs x' H h)).2

/-- non-vacuity: the cyclic example heap listed backwards (the bracket tuple at address 0, the array that contains itself and
the tuple twice at address 1) is presented as `exHeap`, with the bytes janet writes -/
example : present [.tuple 1 [.int 300, .ref 1], .array false [.int 1, .ref 1, .ref 0, .ref 0]] (.ref 1)
    = some ([209, 4, 1, 218, 0, 210, 2, 1, 129, 44, 218, 0, 218, 1], .ref 0, exHeap) := by
  decide +kernel

/-- **The code-object model extends the data model**: on a heap without functions, fibers or abstracts, `marshalC` of
Code.lean computes exactly what `marshalOne` of Graph.lean computes (bytes and reference counter), at every depth budget -
so `roundtrip_graph` and `roundtrip_code` talk about the same marshaller on data. -/
theorem code_model_extends_data_model (H : List Obj) (fuel : Nat) (x : Val) (n : Nat) :
    marshalC fuel (dataHeap H) x ⟨n, 0, 0⟩ = (marshalOne fuel H n x).map fun p => (p.1, ⟨p.2, 0, 0⟩) :=
  marshalC_data H fuel x n

example : marshalC topFuel (dataHeap exHeap) (.ref 0) ⟨0, 0, 0⟩ = some ([209, 4, 1, 218, 0, 210, 2, 1, 129, 44, 218, 0, 218, 1], ⟨2, 0, 0⟩) := by
  decide +kernel


end JanetModel.Props.C09
