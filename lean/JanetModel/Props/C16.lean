/-
C16 — stream and subprocess I/O delivers every byte once, in order.  Property theorems only.
Model: JanetModel/Stream/Model.lean (ev_callback_read / ev_callback_write / listener slots of src/core/ev.c) against a
nondeterministic kernel.  Every theorem quantifies over ALL event sequences and ALL kernel answer sequences.
-/
import JanetModel.Stream.Lemmas
import JanetModel.Stream.Slots
import JanetModel.Stream.Liveness
import JanetModel.Stream.NetLemmas
import JanetModel.Stream.Compose
import JanetModel.Stream.Refine
import JanetModel.Stream.DispatchLemmas
import JanetModel.Proc.Status
import JanetModel.Proc.SpawnLemmas
import JanetModel.Proc.SetupLemmas

namespace JanetModel.Props.C16
open JanetModel.Stream

/-- ★ Whatever the kernel answers (partial writes, EAGAIN, EINTR, errors) and whatever events arrive: the bytes handed
    to the kernel are exactly the first `start` source bytes, in order, each once; every accepted call asked for the whole
    remainder starting at its offset; and when the operation reports success all source bytes were handed over. -/
theorem write_delivers_all_in_order {α : Type} (src : List α) (evs : List WEv) :
    let t := runWrite src.length false 0 evs
    delivered src t.calls = src.take t.start ∧ t.start ≤ src.length ∧
      (∀ c ∈ t.calls, c.got > 0 → c.len = src.length - c.off) ∧
      (t.res = .done → delivered src t.calls = src) := by
  have g := runWrite_good src src.length false evs 0 (Nat.zero_le _)
  dsimp only
  generalize runWrite src.length false 0 evs = t at g ⊢
  have hst : t.start = 0 + sumGot t.calls := g.adv (Or.inl rfl)
  have hb := g.bound
  refine ⟨?_, by omega, g.offs, ?_⟩
  · have := g.deliv; simp only [List.drop_zero] at this; rw [this, hst, Nat.zero_add]
  · intro hd
    have hge := g.fin hd
    have := g.deliv; simp only [List.drop_zero] at this
    rw [this]
    have : sumGot t.calls = src.length := by omega
    rw [this, List.take_length]

/-- datagram mode (send-to): the kernel never receives anything but a prefix of the message either -/
theorem sendto_delivers_prefix {α : Type} (src : List α) (evs : List WEv) :
    let t := runWrite src.length true 0 evs
    delivered src t.calls = src.take (sumGot t.calls) ∧ sumGot t.calls ≤ src.length := by
  have g := runWrite_good src src.length true evs 0 (Nat.zero_le _)
  dsimp only
  generalize runWrite src.length true 0 evs = t at g ⊢
  refine ⟨?_, by have := g.bound; omega⟩
  have := g.deliv; simp only [List.drop_zero] at this; exact this

/-- ★ A read of `n` bytes never appends more than `n` bytes, and what it appends is exactly the next bytes of the
    arrival sequence, in order, none lost, none twice (`got ++ remaining = arrival`). -/
theorem read_at_most_n {α : Type} (chunk recvfrom : Bool) (limC base n : Nat) (inc : List α) (evs : List REv) :
    let t := runRead chunk recvfrom limC base (rInit n inc) evs
    t.st.got.length ≤ n ∧ t.st.got ++ t.st.inc = inc ∧ t.st.got.length = t.st.read := by
  have h0 : RInv n inc (rInit n inc) := ⟨rfl, by simp [rInit], by simp [rInit]⟩
  have h := runRead_inv chunk recvfrom limC base n inc evs _ h0
  dsimp only
  generalize runRead chunk recvfrom limC base (rInit n inc) evs = t at h ⊢
  exact ⟨by have := h.len; have := h.sum; omega, h.order, h.len⟩

/-- ★ A chunked read that returns a buffer returns exactly `n` bytes, unless the stream ended (a call returned 0 bytes
    after earlier data) or the descriptor reported an error condition. -/
theorem chunk_exact_unless_eof {α : Type} (recvfrom : Bool) (limC base n : Nat) (inc : List α) (evs : List REv) (r : RReason) :
    let t := runRead true recvfrom limC base (rInit n inc) evs
    t.res = .buf r → (r = .full ∧ t.st.got.length = n) ∨ r = .eof ∨ r = .errEvent := by
  have h0 : RInv n inc (rInit n inc) := ⟨rfl, by simp [rInit], by simp [rInit]⟩
  have h := runRead_inv true recvfrom limC base n inc evs _ h0
  have hp := runRead_post true recvfrom limC base evs (rInit n inc)
  dsimp only
  generalize runRead true recvfrom limC base (rInit n inc) evs = t at h hp ⊢
  intro hr
  rw [hr] at hp
  cases r with
  | full =>
    left
    refine ⟨rfl, ?_⟩
    have h1 := h.len; have h2 := h.sum
    have h3 : t.st.left = 0 := hp
    omega
  | eof => right; left; rfl
  | nonchunk => simp [RPost] at hp
  | errEvent => right; right; rfl

/-- ★ At end of stream (kernel queue empty) with nothing read so far, a stream read answers nil — whatever count the
    kernel's answer carries — and an EINTR before it changes nothing. -/
theorem read_returns_nil_at_eof {α : Type} (chunk : Bool) (limC base : Nat) (st : RSt α) (m : Nat) (as : List Ans)
    (h0 : st.read = 0) (he : st.inc = []) :
    (readLoop chunk false limC base st (.bytes m :: as)).res = .nil false ∧
    (readLoop chunk false limC base st (.eintr :: .bytes m :: as)).res = .nil false := by
  have hk : min (min m (readLimit chunk limC st.left)) st.inc.length = 0 := by simp [he]
  have hr : afterReadRes chunk false st 0 = some (.nil false) := by simp [afterReadRes, h0]
  constructor
  · simp only [readLoop, hk, hr]
  · simp only [readLoop, hk, hr]

/-- nil (not caused by close) means that this operation took nothing out of the kernel: no byte is dropped by an
    end-of-stream answer. -/
theorem nil_consumes_nothing {α : Type} (chunk recvfrom : Bool) (limC base n : Nat) (inc : List α) (evs : List REv) :
    let t := runRead chunk recvfrom limC base (rInit n inc) evs
    t.res = .nil false → t.st.got = [] ∧ t.st.inc = inc := by
  have h0 : RInv n inc (rInit n inc) := ⟨rfl, by simp [rInit], by simp [rInit]⟩
  have h := runRead_inv chunk recvfrom limC base n inc evs _ h0
  have hp := runRead_post chunk recvfrom limC base evs (rInit n inc)
  dsimp only
  generalize runRead chunk recvfrom limC base (rInit n inc) evs = t at h hp ⊢
  intro hr
  rw [hr] at hp
  have h3 : t.st.read = 0 := hp
  have hl := h.len
  have hg : t.st.got = [] := List.eq_nil_of_length_eq_zero (by omega)
  exact ⟨hg, by have := h.order; rw [hg] at this; simpa using this⟩

/-- ★ Closing a stream wakes its pending reader (nil) and writer ("stream closed"), in whatever state they are … -/
theorem close_wakes_pending_op {α : Type} (chunk recvfrom : Bool) (limC base : Nat) (st : RSt α) (len : Nat) (dgram : Bool) (start : Nat) :
    (readStep chunk recvfrom limC base st .close).res = .nil true ∧
    (writeStep len dgram start .close).res = .failed .closed := ⟨rfl, rfl⟩

/-- ★ … and, when every waiting fiber is registered in its slot, after `janet_stream_close` no fiber is left waiting. -/
theorem close_wakes_pending (gR gW : Bool) (w : World) (h : w.Inv) (g : Nat) :
    (World.step gR gW w .close).pend g = none := World.close_pend_none_gen gR gW w h g

/-- ☆ FULL STRENGTH, as an obligation over the source: if `janet_async_start_fiber` guards both slots, then for every
    schedule of operations by any number of fibers, readiness events and closes: every fiber that waits on the stream
    is the one registered for its direction (so the next readiness / error / close event reaches it — none is orphaned),
    and a close leaves nobody waiting.  The hypotheses are discharged for the CURRENT source in
    JanetModel/Stream/Current.lean from the regenerated Gen/Stream.lean. -/
theorem every_op_completes_or_errors
    (hR : Gen.Stream.guardsReadSlot = true) (hW : Gen.Stream.guardsWriteSlot = true) (sched : List Act) :
    (∀ f d, (World.runCurrent World.init sched).pend f = some d → (World.runCurrent World.init sched).slot d = some f) ∧
    (∀ g, (World.runCurrent World.init (sched ++ [.close])).pend g = none) := by
  unfold World.runCurrent
  rw [hR, hW]
  have hi := World.run_inv sched World.init World.init_inv
  refine ⟨hi, ?_⟩
  intro g
  rw [World.run_append]
  exact World.close_pend_none _ hi g

/-- ☆ what holds on a tree WITHOUT the guards: the same conclusion for programs that keep one reader and one writer
    per stream at a time (every `start` finds the slot free or stale). -/
theorem every_op_completes_or_errors_partial (gR gW : Bool) (sched : List Act) :
    ∀ w : World, w.Inv →
      (∀ pre a post, sched = pre ++ a :: post → (World.run gR gW w pre).Disciplined a) →
      (World.run gR gW w sched).Inv := by
  induction sched with
  | nil => intro w h _; exact h
  | cons a as ih =>
    intro w h hd
    have h1 : (World.step gR gW w a).Inv := World.step_inv_disciplined gR gW w a h (hd [] a as rfl)
    apply ih _ h1
    intro pre b post e
    have := hd (a :: pre) b post (by rw [e]; rfl)
    exact this

/-- The missing part of `_partial`, on a concrete witness: without the guard a second reader takes over
    `stream->read_fiber`; the first reader is orphaned and NO continuation of the schedule — data arriving, end of
    stream, errors, close, other operations — ever resumes it. -/
theorem second_reader_orphans_first (rest : List Act) :
    ((World.run false false World.init
        ([.start 0 .rd false, .start 1 .rd false] ++ rest)).pend 0).isSome = true := by
  rw [World.run_append]
  have h : (World.run false false World.init [.start 0 .rd false, .start 1 .rd false]).Orphan 0 := by
    refine ⟨by decide, by decide, by decide⟩
  exact (World.run_orphan false false rest 0 _ h).1

theorem second_writer_orphans_first (rest : List Act) :
    ((World.run false false World.init
        ([.start 0 .wr false, .start 1 .wr false] ++ rest)).pend 0).isSome = true := by
  rw [World.run_append]
  have h : (World.run false false World.init [.start 0 .wr false, .start 1 .wr false]).Orphan 0 := by
    refine ⟨by decide, by decide, by decide⟩
  exact (World.run_orphan false false rest 0 _ h).1

/-- with the guard the same schedule makes the second reader raise and the first one completes -/
example : (World.run true true World.init [.start 0 .rd false, .start 1 .rd false, .ready .rd true]).outcome 1 = some .raised ∧
          (World.run true true World.init [.start 0 .rd false, .start 1 .rd false, .ready .rd true]).outcome 0 = some .completed := by
  decide

/-! non-vacuity: concrete runs -/

-- a 10-byte write against a kernel that takes 3, says EAGAIN, is interrupted, takes 4, then the rest
example : (runWrite 10 false 0 [.ready [.bytes 3], .ready [.eagain], .ready [.eintr, .bytes 4], .ready [.bytes 100]]).calls
    = [⟨0, 10, 3⟩, ⟨3, 7, 0⟩, ⟨3, 7, 0⟩, ⟨3, 7, 4⟩, ⟨7, 3, 3⟩] := by decide
example : (runWrite 10 false 0 [.ready [.bytes 3], .ready [.eagain], .ready [.eintr, .bytes 4], .ready [.bytes 100]]).res = .done := by decide
-- a chunked read of 6 bytes: 2 bytes, would-block, 3 bytes, end of stream -> short chunk with reason eof
example : (runRead true false 4096 0 (rInit 6 [1, 2, 3, 4, 5]) [.ready [.bytes 2, .eagain], .ready [.bytes 3, .bytes 0]]).res = .buf .eof := by decide
example : (runRead true false 4096 0 (rInit 6 [1, 2, 3, 4, 5]) [.ready [.bytes 2, .eagain], .ready [.bytes 3, .bytes 0]]).st.got = [1, 2, 3, 4, 5] := by decide
example : (runRead true false 4096 0 (rInit 4 [1, 2, 3, 4, 5]) [.ready [.bytes 2, .eagain], .ready [.bytes 3]]).res = .buf .full := by decide
example : (runRead false false 4096 0 (rInit 4 ([] : List Nat)) [.ready [.eagain], .ready [.bytes 0]]).res = .nil false := by decide

/-- ★ Datagram reads (`net/recv-from`: `mode = RECVFROM`, not chunked): the operation ends with the FIRST call the kernel
    answers with a byte count — after any number of EINTR retries and earlier would-blocks —, returns exactly that one
    message's bytes (at most `n`: a longer datagram is truncated to the buffer space asked for, `len = n` in the call), and
    an EMPTY datagram is a (zero-length) result, not end of stream: it is never reported as nil. -/
theorem recvfrom_one_message_per_call {α : Type} (limC base n m : Nat) (inc : List α) (as : List Ans) :
    let o := readLoop false true limC base (rInit n inc) (.bytes m :: as)
    o.res = .buf .nonchunk ∧ o.calls = [⟨base, n, min (min m n) inc.length⟩] ∧
      o.st.got = inc.take (min (min m n) inc.length) ∧ o.rest = as := by
  simp [readLoop, afterReadRes, afterReadSt, readLimit, rInit]

example : (runRead false true 4096 0 (rInit 5 [1, 2, 3, 4, 5, 6, 7, 8]) [.ready [.eagain], .ready [.eintr, .bytes 8, .bytes 3]]).st.got = [1, 2, 3, 4, 5] := by decide
example : (runRead false true 4096 0 (rInit 5 ([] : List Nat)) [.ready [.bytes 0]]).res = .buf .nonchunk := by decide


/-! ## liveness under an explicit fairness hypothesis on the kernel -/

/-- ★ LIVENESS (bounded form).  A write of `len` bytes has ended — completed or raised — once the schedule has
    delivered `max 1 len` productive events, a read of `n` bytes once it has delivered `max 1 n`: every productive
    event (a readiness report after which the kernel, possibly after EINTR retries, transfers at least one byte or
    fails; an error, hang-up or close event) either ends the operation or strictly advances it.  Unproductive events
    (spurious wake-ups answered with EAGAIN) in between are harmless, in any number. -/
theorem op_ends_within_fair_events :
    (∀ (len : Nat) (dgram : Bool) (evs : List WEv), (∀ ev ∈ evs, ev.complete = true) →
        (evs.filter WEv.productive).length ≥ max 1 len → (runWrite len dgram 0 evs).res.ended = true) ∧
    (∀ {α : Type} (chunk recvfrom : Bool) (limC base n : Nat) (inc : List α) (evs : List REv), (∀ ev ∈ evs, ev.closed = true) →
        (evs.filter REv.productive).length ≥ max 1 n → (runRead chunk recvfrom limC base (rInit n inc) evs).res.ended = true) :=
  ⟨fun len dgram evs hc hp => write_ends_within len dgram evs 0 (Nat.zero_le _) hc (by simpa using hp),
   fun chunk recvfrom limC base n inc evs hc hp => read_ends_within chunk recvfrom limC base evs (rInit n inc) hc (by simpa [rInit] using hp)⟩

/-- ★ LIVENESS (fairness form), replacing the safety reformulation of `every_op_completes_or_errors` for the operation
    itself: against an INFINITE schedule of events in which productive events keep coming (∀ k ∃ j ≥ k) and every call
    is answered, there is a finite prefix after which the write / read has ended.  Together with
    `every_op_completes_or_errors` (the waiting fiber is the one registered in its slot, so these events are delivered
    to it) no operation is left suspended forever.  What remains an assumption is exactly the fairness hypothesis:
    that the kernel reports readiness again after a would-block. -/
theorem every_op_completes_under_fairness :
    (∀ (len : Nat) (dgram : Bool) (evs : Nat → WEv), (∀ i, (evs i).complete = true) →
        (∀ k, ∃ j, k ≤ j ∧ (evs j).productive = true) → ∃ m, (runWrite len dgram 0 (prefixOf evs m)).res.ended = true) ∧
    (∀ {α : Type} (chunk recvfrom : Bool) (limC base n : Nat) (inc : List α) (evs : Nat → REv), (∀ i, (evs i).closed = true) →
        (∀ k, ∃ j, k ≤ j ∧ (evs j).productive = true) →
        ∃ m, (runRead chunk recvfrom limC base (rInit n inc) (prefixOf evs m)).res.ended = true) := by
  refine ⟨?_, ?_⟩
  · intro len dgram evs hc fair
    obtain ⟨m, hm⟩ := fair_count evs WEv.productive fair (max 1 len)
    refine ⟨m, op_ends_within_fair_events.1 len dgram _ ?_ hm⟩
    intro ev hev
    obtain ⟨i, hi⟩ := mem_prefix evs m ev hev
    rw [hi]; exact hc i
  · intro α chunk recvfrom limC base n inc evs hc fair
    obtain ⟨m, hm⟩ := fair_count evs REv.productive fair (max 1 n)
    refine ⟨m, op_ends_within_fair_events.2 chunk recvfrom limC base n inc _ ?_ hm⟩
    intro ev hev
    obtain ⟨i, hi⟩ := mem_prefix evs m ev hev
    rw [hi]; exact hc i

-- non-vacuity: a fair schedule (EAGAIN, then one byte per event, forever) and the prefix after which a 3-byte write is done
example : (runWrite 3 false 0 (prefixOf (fun i => if i % 2 = 0 then WEv.ready [.eagain] else WEv.ready [.bytes 1]) 6)).res = .done := by decide
example : (runWrite 3 false 0 (prefixOf (fun i => if i % 2 = 0 then WEv.ready [.eagain] else WEv.ready [.bytes 1]) 5)).res = .pending := by decide
example : (runRead true false 4096 0 (rInit 2 [7, 8, 9]) (prefixOf (fun _ => REv.ready [.bytes 1, .eagain]) 2)).res = .buf .full := by decide

/-! ## subprocess exit status (`proc_get_status`, src/core/os.c) -/
section ExitStatus
open JanetModel.Proc

/-- ★ Exit status is reported exactly.  For EVERY wait-status word that `waitpid(pid, &status, 0)` can deliver for a
    terminated child on Linux — `exit(c)` for all 256 exit codes, death by signal `s` for every signal number the 7-bit
    field can hold (1 … 126; 127 is the "stopped" marker), with and without the core-dump bit — the decoder of
    `proc_get_status` (macros as expanded by the build's preprocessor, branch order as written) returns the exit code,
    respectively 128 + signal number (POSIX shell convention); and the `WIFSTOPPED` arm, which sits BEFORE the
    `WIFSIGNALED` arm in the C, is never the one taken for such a word.
    (Complete enumeration of the 256 + 2·126 words by kernel evaluation; the statement is about all of them.) -/
theorem exit_status_exact :
    (∀ c, c < 256 → decode modelBranches (exitWord c) = .code (Int.ofNat c)) ∧
    (∀ s, s < 127 → 1 ≤ s → ∀ core : Bool, decode modelBranches (sigWord s core) = .code (Int.ofNat (128 + s))) ∧
    (∀ c, c < 256 → mWIFSTOPPED.eval (exitWord c) = 0) ∧
    (∀ s, s < 127 → 1 ≤ s → ∀ core : Bool, mWIFSTOPPED.eval (sigWord s core) = 0) := by
  refine ⟨?_, ?_, ?_, ?_⟩ <;> decide +kernel

/-- the reported value determines what happened, up to the ambiguity that is inherent in the shell convention
    (exit code 128+s vs. signal s): two terminated children with different exit codes report different values, two
    children killed by different signals report different values, and the core-dump bit never shows. -/
theorem exit_status_injective :
    (∀ c, c < 256 → ∀ d, d < 256 → decode modelBranches (exitWord c) = decode modelBranches (exitWord d) → c = d) ∧
    (∀ s, s < 127 → 1 ≤ s → ∀ t, t < 127 → 1 ≤ t → ∀ k l : Bool,
        decode modelBranches (sigWord s k) = decode modelBranches (sigWord t l) → s = t) := by
  have h := exit_status_exact
  refine ⟨?_, ?_⟩
  · intro c hc d hd e
    rw [h.1 c hc, h.1 d hd] at e
    injection e with e
    exact Int.ofNat.inj e
  · intro s hs hs1 t ht ht1 k l e
    rw [h.2.1 s hs hs1 k, h.2.1 t ht ht1 l] at e
    injection e with e
    have := Int.ofNat.inj e
    omega

/-- words that `waitpid` with options 0 never delivers are characterised too: a stop (WUNTRACED / ptrace) would be
    reported as 128 + stop signal, a continue (0xffff) reaches the final `else` (panic). -/
theorem stop_and_continue_words :
    (∀ s, s < 256 → decode modelBranches (stopWord s) = .code (Int.ofNat (128 + s))) ∧
    decode modelBranches contWord = .panic := by
  refine ⟨?_, ?_⟩ <;> decide +kernel

/-- ☆ why the arms cannot be merged (seeded C16-4) or the offset dropped (builder mutation m5): with `WSTOPSIG` in the
    signaled arm every signal death reads bits 8‥15 (zero) and reports 128; without `+ 128` SIGKILL reports 9, the same
    value as `exit(9)`. -/
theorem merged_or_unshifted_arm_is_wrong :
    decode [(mWIFEXITED, mWEXITSTATUS), (.gt (.add mWIFSTOPPED mWIFSIGNALED) (.lit 0), .add mWSTOPSIG (.lit 128))] (sigWord 9 false)
      = .code 128 ∧
    decode [(mWIFEXITED, mWEXITSTATUS), (mWIFSTOPPED, .add mWSTOPSIG (.lit 128)), (mWIFSIGNALED, mWTERMSIG)] (sigWord 9 false)
      = decode modelBranches (exitWord 9) := by
  refine ⟨?_, ?_⟩ <;> decide +kernel

-- non-vacuity: SIGKILL -> 137, SIGSEGV with core dump -> 139, exit 255 -> 255, exit 0 -> 0
example : decode modelBranches (sigWord 9 false) = .code 137 := by decide +kernel
example : decode modelBranches (sigWord 11 true) = .code 139 := by decide +kernel
example : decode modelBranches (exitWord 255) = .code 255 := by decide +kernel
example : decode modelBranches 0 = .code 0 := by decide +kernel

end ExitStatus

/-! ## descriptor plumbing of os/spawn / os/execute and the life cycle of the process value (src/core/os.c) -/
section Spawn
open JanetModel.Proc

/-- the standard table of a process with only 0, 1, 2 open -/
def stdTab : Tab := fun x => if x < 3 then some ⟨.orig x, false⟩ else none

theorem exec_clearCx (o : Option Ent) : (match o.map clearCx with | some e => if e.cloexec then none else some e | none => none) = o.map clearCx := by
  cases o <;> simp [clearCx]

/-- ★ The child's standard descriptors are exactly the requested redirections.  For every set of handles
    `os_execute_impl` may have computed and every descriptor table of the parent at the time of `posix_spawn` that satisfy
    `Safe` (every source handed to `adddup2` is open and above 2, and no block closes a source that a later block still
    needs — established by the `src_handles` loop and the `!=` tests of the C): the file actions succeed, and when the
    new program starts
    * descriptor 0 / 1 / 2 is the source of its redirection (pipe end, file, stream) — never close-on-exec —, or, when
      the direction was not redirected, what the parent has there; with `:err :out`, 2 is what 1 is;
    * above 2 the child has nothing that the parent did not already have open without close-on-exec: no pipe end is
      duplicated into the child beyond 0 / 1 / 2. -/
theorem child_stdio_exact (p : Plumb) (t : Tab) (h : Safe p t) :
    ∃ t', runActs t (fileActions p) = some t' ∧
      t'.exec 0 = (match effIn p with | some s => (t s).map clearCx | none => t.exec 0) ∧
      t'.exec 1 = (match effOut p with | some s => (t s).map clearCx | none => t.exec 1) ∧
      t'.exec 2 = (match effErr p with
                   | some s => (t s).map clearCx
                   | none => if p.errIsOut then (redirected t (effOut p) 1).map clearCx else t.exec 2) ∧
      (∀ x, 2 < x → t'.exec x = t.exec x ∨ t'.exec x = none) := by
  obtain ⟨t', hr, h0, h1, h2, hx⟩ := child_table p t h
  refine ⟨t', hr, ?_, ?_, ?_, ?_⟩
  · unfold Tab.exec; rw [h0]
    cases effIn p with
    | none => rfl
    | some s => simp only [redirected]; exact exec_clearCx _
  · unfold Tab.exec; rw [h1]
    cases effOut p with
    | none => rfl
    | some s => simp only [redirected]; exact exec_clearCx _
  · unfold Tab.exec; rw [h2]
    cases effErr p with
    | some s => exact exec_clearCx _
    | none =>
      cases p.errIsOut with
      | false => rfl
      | true => exact exec_clearCx _
  · intro x hx2
    unfold Tab.exec
    rcases hx x hx2 with e | e
    · left; rw [e]
    · right; rw [e]

/-- ☆ why the sources have to be above 2 (a3cd080): `{:err stdout}` on the code WITHOUT the `src_handles` loop hands
    `adddup2(1, 2); addclose(1)` to posix_spawn — the child starts without a standard output; with the loop the child's
    1 and 2 are both the parent's standard output. -/
theorem std_source_unmoved_loses_descriptor :
    let rq : Req := ⟨false, .inherit, .inherit, .handle 1 true⟩
    let a : Proc.Ans := ⟨none, none, none, some 3, some 3, some 3, true, none, none, none⟩
    ((osExecute false rq a stdTab).child.map (fun c => (c 1, c.objAt 2))) = some (none, some (.orig 1)) ∧
    ((osExecute true rq a stdTab).child.map (fun c => (c.objAt 1, c.objAt 2, c 3))) = some (some (.orig 1), some (.orig 1), none) ∧
    (osExecute true rq a stdTab).parent 3 = none := by
  refine ⟨?_, ?_, ?_⟩ <;> decide

/-- ★★ END TO END: the child's standard descriptors are exactly the requested redirections, for EVERY request
    (`:in/:out/:err` each inherit, `:pipe`, `:out`, any core/file or core/stream handle — including handles that are
    themselves 0, 1 or 2 —, os/spawn and os/execute) and EVERY kernel that hands out descriptors that are not open
    (`Fresh`: 0, 1, 2 and the handles are open; `pipe()` / `fcntl(F_DUPFD, 3)` return unused numbers, the latter ≥ 3).
    When `os_execute_impl` (with the `src_handles` loop) reaches `posix_spawn`, the file actions it built succeed in the
    child, and when the new program starts, descriptor 0 / 1 / 2 is what the corresponding block asked for (`effIn/Out/Err`
    of the handles: the child's pipe end, the handle given, or its duplicate above 2), never close-on-exec; a direction
    that was not redirected keeps what the parent has; `:err :out` makes 2 what 1 is; and above 2 the child holds nothing
    that the parent did not already have open without close-on-exec. -/
theorem spawn_child_stdio_exact (rq : Req) (a : Proc.Ans) (t0 : Tab) (hf : Fresh rq a t0)
    (he : (setup true rq a t0).err = false) :
    let p := (setup true rq a t0).p
    let t := (setup true rq a t0).s.tab
    (osExecute true rq a t0).plumb = some p ∧ (osExecute true rq a t0).atSpawn = t ∧ (osExecute true rq a t0).acts = fileActions p ∧
    ∃ c, (osExecute true rq a t0).child = some c ∧
      c 0 = (match effIn p with | some s => (t s).map clearCx | none => t.exec 0) ∧
      c 1 = (match effOut p with | some s => (t s).map clearCx | none => t.exec 1) ∧
      c 2 = (match effErr p with
             | some s => (t s).map clearCx
             | none => if p.errIsOut then (redirected t (effOut p) 1).map clearCx else t.exec 2) ∧
      (∀ x, 2 < x → c x = t.exec x ∨ c x = none) := by
  intro p t
  have hs := setup_safe rq a t0 hf he
  obtain ⟨t', hr, h0, h1, h2, hx⟩ := child_stdio_exact p t hs
  have hpl : (osExecute true rq a t0).plumb = some p ∧ (osExecute true rq a t0).atSpawn = t ∧ (osExecute true rq a t0).acts = fileActions p := by
    unfold osExecute
    simp only [he, Bool.false_eq_true, if_false]
    by_cases h1 : a.spawnOk = true
    · by_cases h2 : rq.isSpawn = true
      · simp only [h1, h2, Bool.not_true, Bool.false_eq_true, if_false]
        split
        · exact ⟨rfl, rfl, rfl⟩
        · split
          · exact ⟨rfl, rfl, rfl⟩
          · split <;> exact ⟨rfl, rfl, rfl⟩
      · simp [h1, h2]; exact ⟨rfl, rfl, rfl⟩
    · simp [h1]; exact ⟨rfl, rfl, rfl⟩
  refine ⟨hpl.1, hpl.2.1, hpl.2.2, t'.exec, ?_, h0, h1, h2, hx⟩
  unfold Run.child
  rw [hpl.2.1, hpl.2.2, hr]
  rfl


/-- non-vacuity of `Fresh` and of the set-up succeeding: os/spawn {:in :pipe :out :pipe :err stdout} on a process with 0, 1, 2 open -/
def exRq : Req := ⟨true, .pipe, .pipe, .handle 1 true⟩
def exAns : Proc.Ans := ⟨some (3, 4), some (5, 6), none, none, none, some 7, true, none, none, some 8⟩

theorem exFresh : Fresh exRq exAns stdTab := by
  refine ⟨by decide, ?_, ?_, ?_, ?_, ?_, ?_, ?_⟩
  · intro fd h
    simp [exRq, Redir.handleFd] at h
    subst h; decide
  · intro r w h
    simp [Proc.Ans.isPipeAns, exAns] at h
    rcases h with ⟨rfl, rfl⟩ | ⟨rfl, rfl⟩ <;> decide
  · intro f h
    simp [Proc.Ans.isTmpAns, exAns] at h
    subst h; decide
  · intro r w r' w' h h'
    simp [exAns] at h h'
    obtain ⟨rfl, rfl⟩ := h; obtain ⟨rfl, rfl⟩ := h'; decide
  · intro r w r' w' h h'; simp [exAns] at h'
  · intro r w r' w' h h'; simp [exAns] at h'
  · intro r w f h h'
    simp [Proc.Ans.isPipeAns, Proc.Ans.isTmpAns, exAns] at h h'
    subst h'
    rcases h with ⟨rfl, rfl⟩ | ⟨rfl, rfl⟩ <;> decide

example : (setup true exRq exAns stdTab).err = false := by decide
example : ((osExecute true exRq exAns stdTab).child.map (fun c => [c.objAt 0, c.objAt 1, c.objAt 2, c.objAt 3, c.objAt 4, c.objAt 5, c.objAt 6, c.objAt 7])) =
    some [some (.pipeR 0), some (.pipeW 1), some (.orig 1), none, none, none, none, none] := by decide


/-! life cycle of the process value -/

/-- ★ A process can be waited for once: after the first `os/proc-wait` (or the wait inside `os/proc-close`) every later
    `os/proc-wait` is refused with "cannot wait twice on a process", whatever happens in between (reaper callback,
    closes) — no second reaper thread is ever started for the same pid. -/
theorem wait_once (p : ProcSt) (ops : List ProcOp) (h : p.waited = true ∨ p.waiting = true) :
    ((p.run ops).1.waited = true ∨ (p.run ops).1.waiting = true) ∧
    ((p.run ops).1.step .wait).2 = .errWaitTwice := by
  induction ops generalizing p with
  | nil =>
    refine ⟨h, ?_⟩
    rcases h with h | h <;> simp [ProcSt.run, ProcSt.step, ProcSt.waitImpl, h]
  | cons o os ih =>
    have h' : (p.step o).1.waited = true ∨ (p.step o).1.waiting = true := by
      cases o with
      | wait => rcases h with h | h <;> simp [ProcSt.step, ProcSt.waitImpl, h]
      | reaped st alive => left; rfl
      | close => rcases h with h | h <;> simp [ProcSt.step, ProcSt.waitImpl, h]
    exact ih (p.step o).1 h'

/-- … and the first wait does start the reaper: a fresh process value suspends the caller. -/
theorem first_wait_suspends (p : ProcSt) (h1 : p.waited = false) (h2 : p.waiting = false) :
    (p.step .wait).2 = .suspended ∧ (p.step .wait).1.waiting = true := by
  simp [ProcSt.step, ProcSt.waitImpl, h1, h2]

/-- ★ The reaper callback records the decoded status in the process value whether or not the waiting fiber can still
    be resumed (cancelled, timed out): `(proc :return-code)` is exact even when nobody received the result. -/
theorem reaped_status_recorded (p : ProcSt) (st : Int) (alive : Bool) :
    (p.step (.reaped st alive)).1.returnCode = some st ∧ (p.step (.reaped st alive)).1.waited = true ∧
    (p.step (.reaped st alive)).1.waiting = false ∧
    (p.step (.reaped st alive)).2 = (if alive then .resumed st else .dropped) := ⟨rfl, rfl, rfl, rfl⟩

/-- ★ `os/proc-close` closes each pipe end the process value owns exactly once: the first close closes exactly the
    owned ends (in the order in, out, err), and no later operation sequence closes anything again (the OWNS flags are
    cleared) — a descriptor number is never closed twice, which after reuse would close somebody else's descriptor. -/
theorem close_closes_owned_once (p : ProcSt) (ops : List ProcOp) :
    let p1 := (p.step .close).1
    p1.closedFds = p.closedFds ++ ((if p.owns.1 then p.fds.1.toList else []) ++ (if p.owns.2.1 then p.fds.2.1.toList else []) ++
        (if p.owns.2.2 then p.fds.2.2.toList else [])) ∧
    (p1.run ops).1.closedFds = p1.closedFds := by
  constructor
  · obtain ⟨w, wg, ⟨o1, o2, o3⟩, ⟨f1, f2, f3⟩, rc, cf⟩ := p
    cases o1 <;> cases o2 <;> cases o3 <;> cases f1 <;> cases f2 <;> cases f3 <;>
      by_cases hw : (w || wg) = true <;> simp [ProcSt.step, ProcSt.waitImpl, closeOwned, hw]
  · have key : ∀ (q : ProcSt), q.owns = (false, false, false) → ∀ ops, ((q.run ops).1.closedFds = q.closedFds) := by
      intro q hq ops
      induction ops generalizing q with
      | nil => rfl
      | cons o os ih =>
        have h1 : (q.step o).1.owns = (false, false, false) ∧ (q.step o).1.closedFds = q.closedFds := by
          cases o with
          | wait => by_cases hw : (q.waited || q.waiting) = true <;> simp [ProcSt.step, ProcSt.waitImpl, hw, hq]
          | reaped st alive => exact ⟨hq, rfl⟩
          | close =>
            by_cases hw : (q.waited || q.waiting) = true <;> simp [ProcSt.step, ProcSt.waitImpl, hw, hq, closeOwned]
        show ((q.step o).1.run os).1.closedFds = q.closedFds
        rw [ih (q.step o).1 h1.1, h1.2]
    apply key
    by_cases hw : (p.waited || p.waiting) = true <;> simp [ProcSt.step, ProcSt.waitImpl, hw]

end Spawn

/-! ## sockets: net/connect, net/accept, net/accept-loop (src/core/net.c), datagrams, `:all` -/
section Sockets
open JanetModel.Stream.Net

/-- ★ net/connect completes or raises EXACTLY at the first event that is not in the callback's `return;` group, and never
    before: for every sequence of events and `SO_ERROR` answers, either only quiet events were delivered — then the fiber
    is still registered and no system call was made —, or the sequence splits at its first non-quiet event `ev`, the
    operation ends there (whatever follows is not delivered), a CLOSE raises "stream closed" without a system call, and
    any other event makes exactly one `getsockopt(SO_ERROR)`: the stream is returned iff the answer is (0, 0), otherwise
    the operation raises and the stream is marked JANET_STREAM_TOCLOSE.
    `quiet` / `closeEv` are the case groups regenerated from the source (Gen.Net.connectQuiet / connectClose). -/
theorem connect_ends_exactly_at_first_nonquiet_event (quiet closeEv : List Nat) (evs : List (AEv × SoAns)) :
    ((∀ p ∈ evs, p.1.code ∈ quiet) ∧ runConnect quiet closeEv evs = ⟨.pending, false, 0, evs.length⟩) ∨
    ∃ pre ev a post, evs = pre ++ (ev, a) :: post ∧ (∀ p ∈ pre, p.1.code ∈ quiet) ∧ ev.code ∉ quiet ∧
      (runConnect quiet closeEv evs).consumed = pre.length + 1 ∧ (runConnect quiet closeEv evs).res ≠ .pending ∧
      (ev.code ∈ closeEv → (runConnect quiet closeEv evs).res = .failed .closed ∧ (runConnect quiet closeEv evs).asks = 0) ∧
      (ev.code ∉ closeEv → (runConnect quiet closeEv evs).asks = 1 ∧
        ((runConnect quiet closeEv evs).res = .connected ↔ a = .ok 0) ∧
        ((runConnect quiet closeEv evs).toclose = true ↔ a ≠ .ok 0)) := by
  rcases split_quiet quiet evs with h | ⟨pre, ev, a, post, e, hpre, hev⟩
  · exact Or.inl ⟨h, runConnect_quiet quiet closeEv evs h⟩
  · right
    refine ⟨pre, ev, a, post, e, hpre, hev, ?_⟩
    have hr := runConnect_first quiet closeEv pre post ev a hpre hev
    rw [e, hr]
    by_cases hc : ev.code ∈ closeEv
    · rw [connectStep_close quiet closeEv ev a hev hc]
      exact ⟨rfl, by simp, fun _ => ⟨rfl, rfl⟩, fun h => absurd hc h⟩
    · obtain ⟨h1, h2, h3, h4, _, _⟩ := connectStep_check quiet closeEv ev a hev hc
      refine ⟨rfl, h2, fun h => absurd h hc, fun _ => ⟨?_, h3, h4⟩⟩
      show (if (connectStep quiet closeEv ev a).asked = true then 1 else 0) = 1
      rw [h1]; rfl

/-- ★ A garbage collection never completes a connect: when the source puts INIT, MARK and DEINIT into the quiet group
    (hypothesis, discharged from the regenerated `Gen.Net.connectQuiet` in Stream/NetCurrent.lean), any number of GC mark
    visits of the waiting fiber — with whatever `SO_ERROR` would say at that moment — leaves the operation pending and makes
    no system call. -/
theorem connect_unaffected_by_gc (quiet closeEv : List Nat)
    (hq : AEv.init.code ∈ quiet ∧ AEv.mark.code ∈ quiet ∧ AEv.deinit.code ∈ quiet) (evs : List (AEv × SoAns))
    (h : ∀ p ∈ evs, p.1 = .init ∨ p.1 = .mark ∨ p.1 = .deinit) :
    runConnect quiet closeEv evs = ⟨.pending, false, 0, evs.length⟩ := by
  apply runConnect_quiet
  intro p hp
  rcases h p hp with e | e | e <;> rw [e]
  · exact hq.1
  · exact hq.2.1
  · exact hq.2.2

/-- ☆ the missing case of the source as found (`connectQuiet = [INIT, DEINIT]`): the collector's MARK visit of a fiber
    waiting in net/connect runs the `SO_ERROR` check; while the handshake is still in progress that reports 0, so the
    connect "completes" in the middle of a garbage collection although no readiness event was delivered.  Replayed on the
    implementation (direct oracle `connect-completes-during-gc`). -/
theorem connect_completes_during_gc :
    runConnect [0, 2] [3] [(.init, .ok 0), (.mark, .ok 0)] = ⟨.connected, false, 1, 2⟩ ∧
    runConnect [1, 0, 2] [3] [(.init, .ok 0), (.mark, .ok 0)] = ⟨.pending, false, 0, 2⟩ := by decide

/-- ★ net/accept and net/accept-loop deliver every accepted connection exactly once: whatever events arrive and whatever
    `accept4` answers, the descriptors the kernel handed to the operation are — in order — exactly those passed to handler
    fibers followed by the one returned; an accept-loop never returns a connection to its caller, a single accept never
    spawns a handler (so it takes at most one connection, the one it returns). -/
theorem accept_delivers_every_connection_once (tryEv closeEv : List Nat) (loop : Bool) (evs : List (AEv × AccAns)) :
    let t := runAccept tryEv closeEv loop evs
    t.taken = t.handlers ++ (match t.res with | .accepted fd => [fd] | _ => []) ∧
    (loop = true → ∀ fd, t.res ≠ .accepted fd) ∧ (loop = false → t.handlers = []) :=
  runAccept_conserves tryEv closeEv loop evs

/-- a GC mark visit (or any event outside the try / close groups) does nothing to a pending accept -/
theorem accept_unaffected_by_gc (tryEv closeEv : List Nat) (loop : Bool) (a : AccAns)
    (h : AEv.mark.code ∉ tryEv ∧ AEv.mark.code ∉ closeEv) :
    acceptStep tryEv closeEv loop .mark a = ⟨.pending, none, false⟩ := acceptStep_other tryEv closeEv loop .mark a h.2 h.1

/-- ★ accept-loop against the kernel, safety: for every order of arrivals, loop iterations and (refused) further
    net/accept-loop calls, the connections handed to handlers followed by those still queued are exactly the arrivals, in
    arrival order. -/
theorem accept_loop_conserves (lv it : Bool) (es : List LEv) (h : noSingle es = true) :
    (lrun lv it LSt.init es).handled ++ (lrun lv it LSt.init es).q = arrivals es := by
  have := lrun_loop_conserves lv it es [] LSt.init ⟨rfl, rfl, rfl⟩ h
  simpa using this.cons

/-- ★ accept-loop, LIVENESS with fairness as hypothesis: the listener of an accept loop is level-triggered
    (`janet_sched_accept`: `if (fun) janet_stream_level_triggered(stream)`; Gen.Net.acceptLoopLevelTriggered), so on every
    infinite schedule in which the event loop keeps iterating, every connection that arrives while the loop is registered
    is eventually handed to a handler — however many connections arrive between two iterations. -/
theorem accept_loop_serves_every_connection (it : Bool) (sched : Nat → LEv) (fair : ∀ k, ∃ j, k ≤ j ∧ sched j = .poll)
    (i c : Nat) (hi : sched i = .arrive c) (hloop : (lrun true it LSt.init (prefixOf sched i)).loopOn = true) :
    ∃ m, c ∈ (lrun true it LSt.init (prefixOf sched m)).handled :=
  level_serves_every_connection it sched fair i c hi hloop

/-- ☆ why the switch to level-triggered is needed: on the default EPOLLET registration two connections arriving between
    two loop iterations give ONE readiness report, the callback accepts one connection per report, and the second
    connection is never served, however many iterations follow. -/
theorem accept_loop_edge_triggered_strands (it : Bool) (n : Nat) :
    (lrun false it LSt.init ([.startLoop, .arrive 1, .arrive 2, .poll] ++ List.replicate n .poll)).handled = [1] ∧
    (lrun false it LSt.init ([.startLoop, .arrive 1, .arrive 2, .poll] ++ List.replicate n .poll)).q = [2] :=
  edge_strands it n

/-- ★ single net/accept on the edge-triggered listener is never stranded: because the INIT event already tries `accept4`
    (`initTries`; Gen.Net.acceptTry contains INIT), in every reachable state a waiting accept with a non-empty queue has an
    unreported readiness edge — the next loop iteration serves it. -/
theorem accept_waiting_has_edge (lv : Bool) (es : List LEv) (hn : ∀ e ∈ es, e ≠ .startLoop) :
    AcceptInv (lrun lv true LSt.init es) ∧ (lrun lv true LSt.init es).loopOn = false := by
  have key : ∀ (es : List LEv) (s : LSt), AcceptInv s → s.loopOn = false → (∀ e ∈ es, e ≠ .startLoop) →
      AcceptInv (lrun lv true s es) ∧ (lrun lv true s es).loopOn = false := by
    intro es
    induction es with
    | nil => intro s h hl _; exact ⟨h, hl⟩
    | cons e es ih =>
      intro s h hl hn
      obtain ⟨h1, h2⟩ := lstep_acceptInv lv s e h hl (hn e (by simp))
      exact ih _ h1 h2 (fun e' he' => hn e' (by simp [he']))
  exact key es LSt.init (fun _ hw _ => by simp [LSt.init] at hw) rfl hn

/-- … and WITHOUT the try at INIT (a callback that waits for the first READ event, as the connect callback does) a
    connection that is already queued when net/accept is called would never be reported: witness. -/
theorem accept_without_init_try_strands (n : Nat) :
    (lrun true false LSt.init ([.arrive 7, .poll, .startAccept] ++ List.replicate n .poll)).returned = [] := by
  rw [lrun_append true false [.arrive 7, .poll, .startAccept] (List.replicate n .poll) LSt.init]
  have h0 : lrun true false LSt.init [.arrive 7, .poll, .startAccept] = ⟨[7], false, false, true, [], []⟩ := by decide
  rw [h0]
  induction n with
  | zero => rfl
  | succ k ih =>
    simp only [List.replicate_succ, lrun]
    have : lstep true false ⟨[7], false, false, true, [], []⟩ .poll = ⟨[7], false, false, true, [], []⟩ := by decide
    rw [this]; exact ih

/-- ★ net/connect, synchronous part: `connect()` is retried while it is interrupted; the first other answer decides — success
    or EINPROGRESS registers the fiber for the WRITE event (`connect_ends_exactly_at_first_nonquiet_event` takes over) and
    closes nothing; any other error raises and closes the stream, hence the descriptor, EXACTLY ONCE (the stream owns it;
    a second `close` would hit a reused descriptor number). -/
theorem connect_call_exact (pre post : List ConnAns) (a : ConnAns) (hpre : ∀ x ∈ pre, x = .eintr) (ha : a ≠ .eintr) :
    connectCall (pre ++ a :: post) =
      ⟨(match a with | .err e => .raised e | _ => .registered), pre.length + 1, (match a with | .err _ => 1 | _ => 0)⟩ :=
  connectCall_first pre post a hpre ha

example : connectCall [.eintr, .eintr, .err 111, .ok] = ⟨.raised 111, 3, 1⟩ := by decide
example : connectCall [.eintr, .inprogress] = ⟨.registered, 2, 0⟩ := by decide

-- non-vacuity
example : (runAccept [0, 6] [3] true [(.init, .fail 11), (.read, .conn 9), (.mark, .conn 4), (.read, .conn 10), (.close, .fail 0)]).handlers = [9, 10] := by decide
example : (runAccept [0, 6] [3] false [(.init, .fail 11), (.hup, .conn 4), (.read, .conn 9), (.read, .conn 10)]) = ⟨.accepted 9, [], [9], 2, 3⟩ := by decide
example : (lrun true true LSt.init [.startLoop, .arrive 1, .arrive 2, .poll, .poll]).handled = [1, 2] := by decide
example : (lrun true true LSt.init [.arrive 7, .poll, .startAccept]).returned = [7] := by decide
example : runConnect [1, 0, 2] [3] [(.init, .ok 0), (.mark, .ok 0), (.write, .ok 111), (.hup, .ok 0)] = ⟨.failed (.soError 111), true, 1, 3⟩ := by decide

/-- ★ `net/send-to`, one datagram per call: against a kernel that sends datagrams atomically (answers with the whole
    length or fails) the operation ends with the first answered call — after any EINTR retries before it —, that call asked
    for the whole message at offset 0, and nothing is sent twice. -/
theorem sendto_one_datagram_per_call (len m : Nat) (as : List Ans) (hl : 0 < len) (hm : len ≤ m) :
    (writeEvent len true 0 (.bytes m :: as)).res = .done ∧ (writeEvent len true 0 (.bytes m :: as)).calls = [⟨0, len, len⟩] ∧
    (writeEvent len true 0 (.eintr :: .bytes m :: as)).res = .done ∧
    (writeEvent len true 0 (.eintr :: .bytes m :: as)).calls = [⟨0, len, 0⟩, ⟨0, len, len⟩] := by
  have h1 : min m len = len := Nat.min_eq_right hm
  have h2 : ¬ len = 0 := by omega
  simp [writeEvent, writeCall, hl, h1, h2]

/-- ★ `(ev/read stream :all)` = chunked read of 2^31-1 bytes: a chunked read that asks for more than will ever arrive
    never returns "full"; when it returns a buffer the stream has ended (or reported an error condition) and the buffer
    holds exactly the bytes taken from the kernel, which are a prefix of the arrival sequence with nothing lost. -/
theorem read_all_returns_everything_before_eof {α : Type} (limC base n : Nat) (inc : List α) (evs : List REv) (r : RReason)
    (hn : inc.length < n) :
    let t := runRead true false limC base (rInit n inc) evs
    t.res = .buf r → (r = .eof ∨ r = .errEvent) ∧ t.st.got ++ t.st.inc = inc := by
  intro t hr
  have h1 := read_at_most_n true false limC base n inc evs
  have h2 := chunk_exact_unless_eof false limC base n inc evs r hr
  refine ⟨?_, h1.2.1⟩
  rcases h2 with ⟨_, hfull⟩ | h | h
  · exfalso
    have h3 : (t.st.got ++ t.st.inc).length = inc.length := by rw [h1.2.1]
    rw [List.length_append] at h3
    have h4 : t.st.got.length = n := hfull
    omega
  · exact Or.inl h
  · exact Or.inr h

end Sockets

/-! ## one stream shared by several fibers: operations composed with the slot registry -/
section Shared
open JanetModel.Stream.Compose

/-- ★ ISOLATION (any callback machine `step`, ending on CLOSE).  With the slot guards of `janet_async_start_fiber`, an
    operation that was admitted to its slot behaves, under EVERY continuation of the schedule — other fibers starting
    operations in either direction, readiness events in either direction, close —, exactly like the same machine run
    ALONE on the events dispatched in its direction (`foldOp step s (evsOf …)`): still registered with that state while
    the lone run is pending, recorded as ended with the lone run's final state otherwise.  Hence every single-operation
    theorem above holds for each operation on a shared stream. -/
theorem shared_stream_isolation {σ ε : Type} (step : σ → ε → σ × Bool) (c : ε) (hclose : ∀ s, (step s c).2 = true)
    (f : Nat) (d : Dir) (as : List (Act2 σ ε)) (w : W2 σ) (s : σ) (hinv : Inv2 w) (ho : w.op f = some (d, s)) :
    ((foldOp step s (evsOf c d as)).2 = false → (run2 step c w as).op f = some (d, (foldOp step s (evsOf c d as)).1)) ∧
    ((foldOp step s (evsOf c d as)).2 = true → (f, d, (foldOp step s (evsOf c d as)).1) ∈ (run2 step c w as).done) := by
  have h := isolation step c f d as w s hinv ho
  rw [track_eq_foldOp step c d hclose as s] at h
  exact h

/-- the invariant that makes isolation applicable is established by the machine itself from the empty stream -/
theorem shared_stream_invariant {σ ε : Type} (step : σ → ε → σ × Bool) (c : ε) (as : List (Act2 σ ε)) :
    Inv2 (run2 step c W2.init as) := by
  have key : ∀ (as : List (Act2 σ ε)) (w : W2 σ), Inv2 w → Inv2 (run2 step c w as) := by
    intro as
    induction as with
    | nil => intro w h; exact h
    | cons a as ih => intro w h; exact ih _ (step2_inv step c w a h)
  exact key as W2.init (fun f d s h => by simp [W2.init] at h)

/-- ★ several writers on ONE stream: while a write is pending, a write (or any operation in the write direction) by
    another fiber is REFUSED — the fiber raises "cannot listen for duplicate event on stream" — and nothing else changes:
    slot, pending operation, its offset and call log stay as they are.  Per-writer byte order on a shared stream is thus
    enforced by exclusion, not by queueing; programs that need several concurrent writers must serialise them. -/
theorem concurrent_writer_refused {σ ε : Type} (step : σ → ε → σ × Bool) (c : ε) (w : W2 σ) (f g : Nat) (d : Dir) (s s0 : σ) (e0 : ε)
    (h : Inv2 w) (ho : w.op f = some (d, s)) (hg : g ≠ f) (hgp : w.op g = none) (hc : w.closed = false) :
    step2 step c w (.start g d s0 e0) = { w with refused := w.refused ++ [g] } :=
  concurrent_start_refused step c w f g d s s0 e0 h ho hg hgp hc

/-- ★ SHARED STREAM, writes, all schedules: the pending write of fiber `f` makes exactly the system calls of `runWrite`
    against the write-direction events of the schedule and ends with its result; the bytes handed to the kernel are a
    prefix of the source, in order, each once — all of them on success —, whatever other fibers do on the stream. -/
theorem shared_stream_write_delivers_in_order {α : Type} (src : List α) (dgram : Bool) (f : Nat) (as : List (Act2 WS WEv)) (w : W2 WS)
    (hinv : Inv2 w) (ho : w.op f = some (.wr, ⟨src.length, dgram, 0, [], .pending⟩)) :
    let t := runWrite src.length dgram 0 (evsOf .close .wr as)
    (t.res = .pending → ∃ s, (run2 wstep .close w as).op f = some (.wr, s) ∧ s.start = t.start ∧ s.calls = t.calls) ∧
    (t.res ≠ .pending → ∃ s, (f, .wr, s) ∈ (run2 wstep .close w as).done ∧ s.start = t.start ∧ s.calls = t.calls ∧ s.res = t.res) ∧
    delivered src t.calls = src.take (sumGot t.calls) ∧ (dgram = false → t.res = .done → delivered src t.calls = src) :=
  shared_stream_write_exact src dgram f as w hinv ho

/-- ★ LIVENESS OF THE WHOLE SYSTEM with fairness as explicit hypothesis: on every infinite schedule of a shared stream
    in which productive write-direction events (the kernel transfers ≥ 1 byte or fails; error / hang-up / close) keep
    coming and every call is answered, the pending write of fiber `f` has ended after a finite prefix — whatever the
    other fibers do.  (`fair` is the kernel's side of the contract; it is what remains assumed.) -/
theorem shared_stream_write_terminates_under_fairness (len : Nat) (dgram : Bool) (f : Nat) (sched : Nat → Act2 WS WEv) (w : W2 WS)
    (hinv : Inv2 w) (ho : w.op f = some (.wr, ⟨len, dgram, 0, [], .pending⟩))
    (hc : ∀ i e, sched i = .ev .wr e → e.complete = true)
    (fair : ∀ k, ∃ j, k ≤ j ∧ fairAct (sched j) = true) :
    ∃ m s, (f, Dir.wr, s) ∈ (run2 wstep .close w (prefixOf sched m)).done ∧ s.res.ended = true :=
  shared_stream_write_ends_under_fairness len dgram f sched w hinv ho hc fair

-- non-vacuity: fiber 0 writes 10 bytes (3 accepted at INIT), fiber 1 tries to write meanwhile (refused), fiber 2 reads
-- (admitted: other direction), then the kernel takes the remaining 7 bytes: fiber 0's write is done with offset 10
def exSched : List (Act2 WS WEv) :=
  [.start 0 .wr ⟨10, false, 0, [], .pending⟩ (.ready [.bytes 3]), .start 1 .wr ⟨5, false, 0, [], .pending⟩ (.ready [.bytes 5]),
   .start 2 .rd ⟨1, false, 0, [], .pending⟩ (.ready [.eagain]), .ev .wr (.ready [.eintr, .bytes 100])]
example : (run2 wstep .close W2.init exSched).refused = [1] := by decide
example : (run2 wstep .close W2.init exSched).done.map (fun x => (x.1, x.2.2.start, x.2.2.calls)) =
    [(0, 10, [⟨0, 10, 3⟩, ⟨3, 7, 0⟩, ⟨3, 7, 7⟩])] := by decide
example : ((run2 wstep .close W2.init exSched).op 2).isSome = true := by decide
example : fairAct (.ev .wr (.ready [.eintr, .bytes 1])) = true ∧ fairAct (.ev .wr (.ready [.eagain])) = false := by decide

/-- ★ SHARED STREAM, reads, all schedules (the read counterpart of `shared_stream_write_delivers_in_order`). -/
theorem shared_stream_read_in_order {α : Type} (chunk recvfrom : Bool) (limC base n : Nat) (inc : List α) (f : Nat)
    (as : List (Act2 (RS α) REv)) (w : W2 (RS α)) (hinv : Inv2 w)
    (ho : w.op f = some (.rd, ⟨chunk, recvfrom, limC, base, rInit n inc, [], .pending⟩)) :
    let t := runRead chunk recvfrom limC base (rInit n inc) (evsOf .close .rd as)
    (t.res = .pending → ∃ s, (run2 rstep .close w as).op f = some (.rd, s) ∧ s.st = t.st ∧ s.calls = t.calls) ∧
    (t.res ≠ .pending → ∃ s, (f, .rd, s) ∈ (run2 rstep .close w as).done ∧ s.st = t.st ∧ s.calls = t.calls ∧ s.res = t.res) ∧
    t.st.got.length ≤ n ∧ t.st.got ++ t.st.inc = inc :=
  shared_stream_read_exact chunk recvfrom limC base n inc f as w hinv ho

/-- ★ system-level liveness for reads, fairness of the kernel as explicit hypothesis -/
theorem shared_stream_read_terminates_under_fairness {α : Type} (chunk recvfrom : Bool) (limC base n : Nat) (inc : List α) (f : Nat)
    (sched : Nat → Act2 (RS α) REv) (w : W2 (RS α)) (hinv : Inv2 w)
    (ho : w.op f = some (.rd, ⟨chunk, recvfrom, limC, base, rInit n inc, [], .pending⟩))
    (hc : ∀ i e, sched i = .ev .rd e → e.closed = true)
    (fair : ∀ k, ∃ j, k ≤ j ∧ fairActR (sched j) = true) :
    ∃ m s, (f, Dir.rd, s) ∈ (run2 rstep .close w (prefixOf sched m)).done ∧ s.res.ended = true :=
  shared_stream_read_ends_under_fairness chunk recvfrom limC base n inc f sched w hinv ho hc fair

/-- ★ closing a shared stream wakes everybody: in every reachable state, after `janet_stream_close` no fiber has an
    operation pending on the stream (each registered callback got its CLOSE event: the reader returns nil, the writer
    raises "stream closed" — `close_wakes_pending_op`), for any callback machines. -/
theorem shared_stream_close_wakes_all {σ ε : Type} (step : σ → ε → σ × Bool) (c : ε) (as : List (Act2 σ ε)) (g : Nat) :
    (run2 step c W2.init (as ++ [.close])).op g = none := by
  have happ : ∀ (a b : List (Act2 σ ε)) (w : W2 σ), run2 step c w (a ++ b) = run2 step c (run2 step c w a) b := by
    intro a
    induction a with
    | nil => intro b w; rfl
    | cons x a ih => intro b w; exact ih b _
  rw [happ]
  exact close_leaves_nothing_pending step c _ (shared_stream_invariant step c as) g

example : ((run2 wstep .close W2.init (exSched ++ [.close])).done.map (fun x => (x.1, x.2.2.res))) = [(0, .done), (2, .failed .closed)] := by decide

/-- ★ REFINEMENT of the registry by the composed machine: for every schedule of the shared stream (any machines) there is a
    schedule of registry actions of the same length — start / ready / close with the `fin` flags the machines decided —
    along which the listener-slot model `World` (the model that `every_op_completes_or_errors` is about and that the `S`
    correspondence compares with the implementation) and the composed machine agree on both slots, on who waits in which
    direction, and on closedness. -/
theorem shared_stream_refines_registry {σ ε : Type} (step : σ → ε → σ × Bool) (c : ε) (as : List (Act2 σ ε)) :
    ∃ as' : List Act, as'.length = as.length ∧
      coreOfWorld (World.run true true World.init as') = coreOfW2 (run2 step c W2.init as) :=
  run2_refines step c as W2.init World.init rfl (fun d f h => by simp [W2.init] at h)

end Shared

/-! ## Readiness dispatch of `janet_loop1_impl` (epoll): one event WORD → ordered callback events, composed with the
read / write machines.  `tbl` is the per-flag-combination delivery table (regenerated: `Gen.Dispatch.table`); the hypotheses
`dataFirst` / `outFirst` are decidable facts about the table, discharged for the current source in Stream/DispatchCurrent.lean. -/
section Dispatch

/-- ★ COMPOSITION: for ANY delivery table, a read operation driven by epoll event words is a run of the callback-level
    machine `runRead` on the event sequence the table prescribes (each read-loop event sees the answers not yet consumed) —
    so every theorem about `runRead` (all event sequences) holds for every sequence of epoll words. -/
theorem read_words_refine_events {α : Type} (tbl : DTable) (chunk recvfrom : Bool) (limC base : Nat) (st : RSt α) (es : List WordEv) :
    runReadWords tbl chunk recvfrom limC base st es =
      runRead chunk recvfrom limC base st (readWordsEvs tbl chunk recvfrom limC base st es) :=
  runReadWords_eq_runRead tbl chunk recvfrom limC base es st

/-- … in particular `read_at_most_n` at the level of epoll words, for any table: at most `n` bytes, exactly the next bytes of the
    arrival sequence, none lost from the kernel's queue, none twice. -/
theorem read_words_at_most_n {α : Type} (tbl : DTable) (chunk recvfrom : Bool) (limC base n : Nat) (inc : List α) (es : List WordEv) :
    let t := runReadWords tbl chunk recvfrom limC base (rInit n inc) es
    t.st.got.length ≤ n ∧ t.st.got ++ t.st.inc = inc ∧ t.st.got.length = t.st.read := by
  rw [read_words_refine_events]
  exact read_at_most_n chunk recvfrom limC base n inc _

/-- ★ NO BYTE THE KERNEL REPORTED READABLE IS DROPPED.  If the dispatch delivers data first (`dataFirst tbl`), then for every
    epoll word containing EPOLLIN — alone or together with EPOLLERR / EPOLLHUP / EPOLLOUT in any combination — delivered to a
    pending stream read (any state reachable for a read of `n` bytes of the arrival sequence `inc0`, room left), when the
    kernel has bytes queued and answers the read call with data: the operation takes at least one of those bytes BEFORE any
    error / hang-up event of the same word can end it, it does not end with nil (end-of-stream), and what it has appended
    is still a prefix of the arrival sequence (`got ++ still-queued = inc0`). -/
theorem readable_byte_never_dropped {α : Type} (tbl : DTable) (hd : dataFirst tbl = true)
    (chunk : Bool) (limC base n : Nat) (inc0 : List α) (st : RSt α) (hinv : RInv n inc0 st)
    (hl : 0 < st.left) (hc : 0 < limC) (hq : st.inc ≠ [])
    (w : Nat) (hw : hasBit (w % 16) wIN = true) (m : Nat) (hm : 0 < m) (as : List Ans) :
    let o := readWord tbl chunk false limC base st ⟨w, .bytes m :: as⟩
    st.got.length < o.st.got.length ∧ o.res ≠ .nil false ∧ o.st.got ++ o.st.inc = inc0 := by
  obtain ⟨ks, hks⟩ := dataFirst_head tbl hd w hw
  have hi := readDeliver_inv chunk false limC base n inc0 (kindsFor tbl 0 w) st (.bytes m :: as) hinv
  have hp := readDeliver_post chunk false limC base (kindsFor tbl 0 w) st (.bytes m :: as)
  have hprog : st.read < (readDeliver chunk false limC base st (kindsFor tbl 0 w) (.bytes m :: as)).st.read := by
    rw [hks]
    have h1 := readLoop_bytes_progress chunk false limC base st m as hm hl hc hq
    simp only [readDeliver, readKind, kREAD, true_or, if_true]
    cases hr : (readLoop chunk false limC base st (.bytes m :: as)).res with
    | pending =>
      exact Nat.lt_of_lt_of_le h1 (readDeliver_read_mono chunk false limC base ks _ _)
    | nil b => exact h1
    | buf r => exact h1
    | failed c => exact h1
    | starved => exact h1
  dsimp only [readWord]
  generalize readDeliver chunk false limC base st (kindsFor tbl 0 w) (.bytes m :: as) = o at hi hp hprog
  refine ⟨?_, ?_, hi.order⟩
  · have := hi.len; have := hinv.len; omega
  · intro hn
    rw [hn] at hp
    have h0 : o.st.read = 0 := hp
    omega

/-- ★ … and when such a word ends a read with nil although nothing was read, the descriptor WAS read from in this very
    word first (the nil is the kernel's own end-of-stream / would-block answer followed by the error condition, never the
    error condition alone). -/
theorem nil_at_readable_word_only_after_reading {α : Type} (tbl : DTable) (hd : dataFirst tbl = true)
    (chunk recvfrom : Bool) (limC base : Nat) (st : RSt α) (w : Nat) (hw : hasBit (w % 16) wIN = true) (a : Ans) (as : List Ans) :
    (readWord tbl chunk recvfrom limC base st ⟨w, a :: as⟩).calls ≠ [] := by
  obtain ⟨ks, hks⟩ := dataFirst_head tbl hd w hw
  have hne := readLoop_calls_ne chunk recvfrom limC base st a as
  simp only [readWord, hks, readDeliver, readKind, kREAD, true_or, if_true]
  cases hr : (readLoop chunk recvfrom limC base st (a :: as)).res with
  | pending => simp only []; intro h; exact hne (List.append_eq_nil_iff.mp h).1
  | nil b => exact hne
  | buf r => exact hne
  | failed c => exact hne
  | starved => exact hne

/-- the order of the kqueue back end put into the epoll dispatch (seeded mutation C16-7): error first -/
def errFirstTable : DTable :=
  [(0, []), (1, [(0, 0)]), (2, [(1, 1)]), (3, [(0, 0), (1, 1)]), (4, [(0, 2), (1, 2)]), (5, [(0, 2), (0, 0), (1, 2)]),
   (6, [(0, 2), (1, 2), (1, 1)]), (7, [(0, 2), (0, 0), (1, 2), (1, 1)]), (8, [(0, 3), (1, 3)]), (9, [(0, 0), (0, 3), (1, 3)]),
   (10, [(0, 3), (1, 1), (1, 3)]), (11, [(0, 0), (0, 3), (1, 1), (1, 3)]), (12, [(0, 2), (0, 3), (1, 2), (1, 3)]),
   (13, [(0, 2), (0, 0), (0, 3), (1, 2), (1, 3)]), (14, [(0, 2), (0, 3), (1, 2), (1, 1), (1, 3)]),
   (15, [(0, 2), (0, 0), (0, 3), (1, 2), (1, 1), (1, 3)])]

/-- WITNESS (why `dataFirst` is needed): with ERR delivered before READ, a reader suspended when EPOLLIN|EPOLLERR arrive in one
    word is told end-of-stream although three bytes are queued and the kernel would hand them out — they are never read. -/
theorem err_first_drops_readable_bytes :
    dataFirst errFirstTable = false ∧
    (readWord errFirstTable false false 4096 0 (rInit 10 [1, 2, 3]) ⟨wIN + wERR, [.bytes 3]⟩).res = .nil false ∧
    (readWord errFirstTable false false 4096 0 (rInit 10 [1, 2, 3]) ⟨wIN + wERR, [.bytes 3]⟩).st.got = [] ∧
    (readWord errFirstTable false false 4096 0 (rInit 10 [1, 2, 3]) ⟨wIN + wERR, [.bytes 3]⟩).st.inc = [1, 2, 3] := by decide

/-- ★ COMPOSITION, write side: a write driven by epoll words is a `runWrite` run, for any table … -/
theorem write_words_refine_events (tbl : DTable) (len : Nat) (dgram : Bool) (start : Nat) (es : List WordEv) :
    runWriteWords tbl len dgram start es = runWrite len dgram start (writeWordsEvs tbl len dgram start es) :=
  runWriteWords_eq_runWrite tbl len dgram es start

/-- … so `write_delivers_all_in_order` holds for every sequence of epoll words (after the INIT attempt `init`). -/
theorem write_words_deliver_all_in_order {α : Type} (tbl : DTable) (src : List α) (init : List Ans) (es : List WordEv) :
    let t := runWrite src.length false 0 (.ready init :: writeWordsEvs tbl src.length false
                (writeEvent src.length false 0 init).start es)
    delivered src t.calls = src.take t.start ∧ t.start ≤ src.length ∧ (t.res = .done → delivered src t.calls = src) := by
  have h := write_delivers_all_in_order src (.ready init :: writeWordsEvs tbl src.length false (writeEvent src.length false 0 init).start es)
  exact ⟨h.1, h.2.1, h.2.2.2⟩

/-- ★ If the dispatch tries the write first (`outFirst tbl`): for every word containing EPOLLOUT (also together with EPOLLERR /
    EPOLLHUP), when the kernel accepts the whole remainder, the write COMPLETES — an error condition reported in the same
    word does not turn bytes the kernel accepted into a failed operation. -/
theorem accepted_write_completes (tbl : DTable) (ho : outFirst tbl = true) (len start : Nat) (hs : start < len)
    (w : Nat) (hw : hasBit (w % 16) wOUT = true) (m : Nat) (hm : len - start ≤ m) (as : List Ans) :
    (writeWord tbl len false start ⟨w, .bytes m :: as⟩).res = .done ∧
    (writeWord tbl len false start ⟨w, .bytes m :: as⟩).start = len := by
  obtain ⟨ks, hks⟩ := outFirst_head tbl ho w hw
  have hk : min m (len - start) = len - start := Nat.min_eq_right hm
  have hpos : len - start > 0 := by omega
  have hst : (if len - start > 0 then start + (len - start) else len) = len := by rw [if_pos hpos]; omega
  have hne' : ¬ (len - start = 0 ∧ True) := by omega
  simp only [writeWord, hks, writeDeliver, writeKind, kWRITE, if_true, writeEvent, if_pos hs, writeCall, hk, if_neg hne', hst,
    ge_iff_le, Nat.le_refl]
  exact ⟨trivial, trivial⟩

/-- the order of the epoll back end as it is at the time of writing (data first) — for the non-vacuity examples; the obligations
    over the CURRENT source use the regenerated `Gen.Dispatch.table` (Stream/DispatchCurrent.lean) -/
def dataFirstTable : DTable :=
  [(0, []), (1, [(0, 0)]), (2, [(1, 1)]), (3, [(0, 0), (1, 1)]), (4, [(0, 2), (1, 2)]), (5, [(0, 0), (0, 2), (1, 2)]),
   (6, [(0, 2), (1, 1), (1, 2)]), (7, [(0, 0), (0, 2), (1, 1), (1, 2)]), (8, [(0, 3), (1, 3)]), (9, [(0, 0), (0, 3), (1, 3)]),
   (10, [(0, 3), (1, 1), (1, 3)]), (11, [(0, 0), (0, 3), (1, 1), (1, 3)]), (12, [(0, 2), (0, 3), (1, 2), (1, 3)]),
   (13, [(0, 0), (0, 2), (0, 3), (1, 2), (1, 3)]), (14, [(0, 2), (0, 3), (1, 1), (1, 2), (1, 3)]),
   (15, [(0, 0), (0, 2), (0, 3), (1, 1), (1, 2), (1, 3)])]
example : dataFirst dataFirstTable = true ∧ outFirst dataFirstTable = true ∧ condReaches dataFirstTable = true ∧
    noSpurious dataFirstTable = true ∧ tableComplete dataFirstTable = true := by decide
example : (readWord dataFirstTable true false 4096 0 (rInit 10 [1, 2, 3]) ⟨wIN + wERR + wHUP, [.bytes 3, .eagain]⟩).res = .buf .errEvent ∧
    (readWord dataFirstTable true false 4096 0 (rInit 10 [1, 2, 3]) ⟨wIN + wERR + wHUP, [.bytes 3, .eagain]⟩).st.got = [1, 2, 3] := by decide
example : (writeWord dataFirstTable 5 false 2 ⟨wOUT + wERR, [.bytes 3]⟩).res = .done := by decide
example : (writeWord dataFirstTable 5 false 2 ⟨wOUT + wERR, [.bytes 2]⟩).res = .failed .streamErr := by decide
example : RInv 10 [1, 2, 3] (rInit 10 [1, 2, 3]) := ⟨rfl, rfl, rfl⟩

end Dispatch

end JanetModel.Props.C16
