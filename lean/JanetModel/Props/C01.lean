/-
C01 — garbage collection is transparent and never frees a reachable object.  Property theorems only.
Model: JanetModel/GC/Model.lean (mirrors src/core/gc.c); tie: Gen/GC.lean (regenerated) + harness/C01 (heap dumps).
-/
import JanetModel.GC.Collect
import JanetModel.GC.Mutator
import JanetModel.GC.Locked
import JanetModel.GC.WeakLemmas
import JanetModel.GC.RingMark
import JanetModel.GC.SymSweep
import JanetModel.GC.ParserMark
import JanetModel.GC.RootWin

namespace JanetModel.Props.C01
open JanetModel.GC Std

/-- The mark phase never runs out of the model's fuel and leaves nothing spilled: the recursion (bounded by the depth
counter, spilling to the root list) and the drain loop terminate for every heap and every depth limit. -/
theorem mark_terminates (h : Heap) (D : Nat) (hD : 1 ≤ D) : (mark D h).stuck = false ∧ (mark D h).spill = [] :=
  ⟨(mark_inv h D hD).1.stuck, (mark_inv h D hD).2⟩

/-- The marked set is exactly the set of reachable blocks — for every depth limit `D ≥ 1`, in particular independent of
`D`: values spilled to the root list when the counter hits 0 are not lost. -/
theorem mark_eq_reachable (h : Heap) (D : Nat) (hD : 1 ≤ D) (i : Id) :
    (mark D h).marked.contains i = true ↔ Reachable h i :=
  ⟨mark_sound h D hD i, mark_complete h D hD i⟩

/-- instance used by the implementation: D = JANET_RECURSION_GUARD (regenerated from janet.h) -/
theorem mark_eq_reachable_impl (h : Heap) (i : Id) :
    (mark Gen.GC.recursionGuard h).marked.contains i = true ↔ Reachable h i :=
  mark_eq_reachable h _ (by decide) i

/-- A collection keeps every reachable block, with its kind and strong references intact. -/
theorem collect_keeps_reachable (h : Heap) (D : Nat) (hD : 1 ≤ D) (i : Id) (r : Reachable h i) :
    ∃ o o', h.get i = some o ∧ (collect D h).get i = some o' ∧ o'.kind = o.kind ∧ o'.strong = o.strong := by
  have hm := mark_complete h D hD i r
  have hs := r.isSome
  cases hx : h.get i with
  | none => rw [hx] at hs; cases hs
  | some o =>
    refine ⟨o, clearWeak (mark D h).marked o, rfl, ?_, rfl, rfl⟩
    rw [collect_get, hx]; simp [hm]

/-- Only unreachable blocks are freed. -/
theorem collect_frees_only_unmarked (h : Heap) (D : Nat) (hD : 1 ≤ D) (i : Id) (o : Obj) (hx : h.get i = some o)
    (hfreed : (collect D h).get i = none) : (mark D h).marked.contains i = false ∧ ¬ Reachable h i := by
  rw [collect_get, hx] at hfreed
  by_cases c : (mark D h).marked.contains i = true
  · simp [c] at hfreed
  · exact ⟨by simpa using c, fun r => c (mark_complete h D hD i r)⟩

/-- and every unreachable block is freed (no floating garbage in the model) -/
theorem collect_frees_unreachable (h : Heap) (D : Nat) (hD : 1 ≤ D) (i : Id) (hn : ¬ Reachable h i) :
    (collect D h).get i = none := by
  rw [collect_get]
  cases hx : h.get i with
  | none => rfl
  | some o =>
    have : (mark D h).marked.contains i = false := by
      by_cases c : (mark D h).marked.contains i = true
      · exact absurd (mark_sound h D hD i c) hn
      · simpa using c
    simp [this]

/-- After a collection no surviving block refers to a freed block: every strong reference that pointed to a block still
points to a block, and every weak slot that is left refers only to survivors (dead weak slots are removed). -/
theorem collect_closed (h : Heap) (D : Nat) (hD : 1 ≤ D) (i : Id) (o' : Obj) (hx : (collect D h).get i = some o') :
    (∀ e ∈ outEdges o', (h.get e.tgt).isSome → ((collect D h).get e.tgt).isSome) ∧
    (∀ en ∈ o'.entries, ∀ w ∈ en.weak, ((collect D h).get w).isSome) := by
  rw [collect_get] at hx
  cases hg : h.get i with
  | none => rw [hg] at hx; cases hx
  | some o =>
    rw [hg] at hx
    by_cases c : (mark D h).marked.contains i = true
    · simp only [c, if_true, Option.some.injEq] at hx
      subst hx
      have ri : Reachable h i := mark_sound h D hD i c
      constructor
      · intro e he hs
        have rt : Reachable h e.tgt := Reachable.step ri hg (mem_outEdges_clearWeak he) hs
        obtain ⟨_, _, _, h2, _, _⟩ := collect_keeps_reachable h D hD e.tgt rt
        simp [h2]
      · intro en hen w hw
        simp only [clearWeak, List.mem_filter, List.all_eq_true] at hen
        have mw := hen.2 w hw
        have rw' : Reachable h w := mark_sound h D hD w mw
        obtain ⟨_, _, _, h2, _, _⟩ := collect_keeps_reachable h D hD w rw'
        simp [h2]
    · simp [c] at hx

/-- **Transparency.**  For every program of the path-addressed mutator, every collection schedule (any subset of the
safepoints) and every initial heap, the observations equal those of the run that never collects. -/
theorem gc_transparent (D : Nat) (hD : 1 ≤ D) (prog : List Step) (sched : Nat → Bool) (h : Heap) :
    run D prog sched 0 h = run D prog (fun _ => false) 0 h :=
  run_agree D hD sched prog 0 h h (Agree.refl h)

/-- the same from any safepoint counter, in particular for "collect at every safepoint" -/
theorem gc_transparent_always (prog : List Step) (h : Heap) :
    run Gen.GC.recursionGuard prog (fun _ => true) 0 h = run Gen.GC.recursionGuard prog (fun _ => false) 0 h :=
  gc_transparent _ (by decide) prog _ h

/-! ### non-vacuity: concrete heaps -/

/-- bounding the reachable set of a concrete heap by a finite candidate set (decidable side conditions) -/
theorem reachable_subset (h : Heap) (S : List Id) (hr : ∀ e ∈ h.roots, e.tgt ∈ S)
    (hc : ∀ i ∈ S, ∀ e ∈ (match h.get i with | some o => outEdges o | none => []), e.tgt ∈ S) (i : Id)
    (r : Reachable h i) : i ∈ S := by
  induction r with
  | root he _ => exact hr _ he
  | step _ ho he _ ih =>
    have := hc _ ih
    simp only [ho] at this
    exact this _ he

/-- a cycle 0 ⇄ 1 hanging off the root fiber, and an unreferenced block 2 -/
def cyclicHeap : Heap := Heap.ofList
  [Obj.array false [.ref 1, .imm], Obj.array false [.ref 0], Obj.array false [.ref 0]] [⟨true, 0, false⟩]

example : Reachable cyclicHeap 1 ∧ ¬ Reachable cyclicHeap 2 ∧
    (mark 1 cyclicHeap).marked.contains 1 = true ∧ (collect 1 cyclicHeap).get 2 = none := by
  have r0 : Reachable cyclicHeap 0 := Reachable.root (e := ⟨true, 0, false⟩) (by decide) (by decide)
  have r1 : Reachable cyclicHeap 1 :=
    Reachable.step (o := Obj.array false [.ref 1, .imm]) (e := ⟨true, 1, false⟩) r0 (by decide) (by decide) (by decide)
  have n2 : ¬ Reachable cyclicHeap 2 := fun r => by
    have := reachable_subset cyclicHeap [0, 1] (by decide) (by decide) 2 r
    simp at this
  exact ⟨r1, n2, (mark_eq_reachable _ 1 (Nat.le_refl 1) 1).mpr r1, collect_frees_unreachable _ 1 (Nat.le_refl 1) 2 n2⟩

/-- an array (5) reachable ONLY through the environment (3) of a closure (1) whose fiber (4) has died: the collector
detaches the environment, keeps the captured array and frees the dead fiber -/
def deadFiberHeap : Heap := Heap.ofList
  [ Obj.fiber .imm [] [⟨none, none, [.ref 1]⟩] none none none [] none,     -- 0 root fiber, slot holds the closure
    Obj.function (some 2) [3],                                              -- 1 closure
    Obj.funcdef [] [] none none [],                                         -- 2 its funcdef
    Obj.funcenv (some 4) Gen.GC.statusError [.ref 5],                                     -- 3 env on the stack of finished fiber 4
    Obj.fiber .imm [] [⟨none, none, [.ref 5]⟩] none none none [] none,     -- 4 the dead fiber
    Obj.array false [.imm] ]                                                -- 5 captured array
  [⟨false, 0, false⟩]

example : Reachable deadFiberHeap 5 ∧ ¬ Reachable deadFiberHeap 4 ∧
    ((collect Gen.GC.recursionGuard deadFiberHeap).get 5).isSome ∧ (collect Gen.GC.recursionGuard deadFiberHeap).get 4 = none := by
  have r0 : Reachable deadFiberHeap 0 := Reachable.root (e := ⟨false, 0, false⟩) (by decide) (by decide)
  have r1 : Reachable deadFiberHeap 1 :=
    Reachable.step (o := Obj.fiber .imm [] [⟨none, none, [.ref 1]⟩] none none none [] none) (e := ⟨true, 1, false⟩) r0 (by decide) (by decide) (by decide)
  have r3 : Reachable deadFiberHeap 3 :=
    Reachable.step (o := Obj.function (some 2) [3]) (e := ⟨false, 3, false⟩) r1 (by decide) (by decide) (by decide)
  have r5 : Reachable deadFiberHeap 5 :=
    Reachable.step (o := Obj.funcenv (some 4) Gen.GC.statusError [.ref 5]) (e := ⟨true, 5, false⟩) r3 (by decide) (by decide) (by decide)
  have n4 : ¬ Reachable deadFiberHeap 4 := fun r => by
    have := reachable_subset deadFiberHeap [0, 1, 2, 3, 5] (by decide) (by decide) 4 r
    simp at this
  have hD : 1 ≤ Gen.GC.recursionGuard := by decide
  obtain ⟨_, _, _, h5, _, _⟩ := collect_keeps_reachable deadFiberHeap Gen.GC.recursionGuard hD 5 r5
  exact ⟨r5, n4, by rw [h5]; rfl, collect_frees_unreachable _ _ hD 4 n4⟩

/-- a weak-key table (1) with a live key (2) and a dead key (4): the dead slot is dropped by the sweep, the live one kept,
and nothing that survives refers to a freed block -/
def weakHeap : Heap := Heap.ofList
  [ Obj.fiber .imm [] [⟨none, none, [.ref 1, .ref 2]⟩] none none none [] none,   -- 0 root fiber holds the table and key 2
    Obj.table true false [(.ref 2, .ref 3), (.ref 4, .ref 5)] none,                -- 1 weak-key table
    Obj.leaf Gen.GC.memString, Obj.leaf Gen.GC.memString,                          -- 2 live key, 3 its value
    Obj.leaf Gen.GC.memString, Obj.leaf Gen.GC.memString ]                         -- 4 dead key, 5 its value
  [⟨false, 0, false⟩]

example : ¬ Reachable weakHeap 4 ∧ (collect Gen.GC.recursionGuard weakHeap).get 4 = none ∧
    ∃ o', (collect Gen.GC.recursionGuard weakHeap).get 1 = some o' ∧ o'.entries = [⟨[2], [⟨true, 3, false⟩]⟩] := by
  have r0 : Reachable weakHeap 0 := Reachable.root (e := ⟨false, 0, false⟩) (by decide) (by decide)
  have r1 : Reachable weakHeap 1 :=
    Reachable.step (o := Obj.fiber .imm [] [⟨none, none, [.ref 1, .ref 2]⟩] none none none [] none) (e := ⟨true, 1, false⟩) r0 (by decide) (by decide) (by decide)
  have r2 : Reachable weakHeap 2 :=
    Reachable.step (o := Obj.fiber .imm [] [⟨none, none, [.ref 1, .ref 2]⟩] none none none [] none) (e := ⟨true, 2, false⟩) r0 (by decide) (by decide) (by decide)
  have n4 : ¬ Reachable weakHeap 4 := fun r => by
    have := reachable_subset weakHeap [0, 1, 2, 3, 5] (by decide) (by decide) 4 r
    simp at this
  have m1 := (mark_eq_reachable weakHeap Gen.GC.recursionGuard (by decide) 1).mpr r1
  have m2 := (mark_eq_reachable weakHeap Gen.GC.recursionGuard (by decide) 2).mpr r2
  have m4 : (mark Gen.GC.recursionGuard weakHeap).marked.contains 4 = false := by
    by_cases c : (mark Gen.GC.recursionGuard weakHeap).marked.contains 4 = true
    · exact absurd ((mark_eq_reachable weakHeap _ (by decide) 4).mp c) n4
    · simpa using c
  refine ⟨n4, collect_frees_unreachable _ _ (by decide) 4 n4, ?_⟩
  have hg : weakHeap.get 1 = some (Obj.table true false [(.ref 2, .ref 3), (.ref 4, .ref 5)] none) := by decide
  refine ⟨clearWeak (mark Gen.GC.recursionGuard weakHeap).marked (Obj.table true false [(.ref 2, .ref 3), (.ref 4, .ref 5)] none),
    by rw [collect_get, hg]; simp only [m1, if_true], ?_⟩
  simp [clearWeak, Obj.table, Val.ids, Val.edges, m2, m4]

/-- a program that allocates, links, drops a root and observes: the hypotheses of `gc_transparent` are met by real runs -/
example : run 1 [.alloc 3 [], .alloc 3 [.root 0], .store (.root 0) 0 (.root 1), .unroot 1, .emit (.field (.root 0) 0),
    .same (.root 0) (.field (.root 0) 0)] (fun _ => false) 0 (Heap.ofList [] []) = [Obs.obj 3 0, Obs.same false] := by
  decide

/-! ### the collector's one semantic action during marking: detaching closure environments -/

/-- a fiber in this status can still run its frames: it can be resumed, or it is running right now -/
def fiberCanStillRun (s : Nat) : Bool := !(Gen.GC.cannotResumeStatuses.contains s) || s == Gen.GC.statusAlive

/-- **A collection does not change which environments are on-stack unless the owning fiber is finished.**  The status
test of `janet_env_maybe_detach` and the one of `janet_check_can_resume` are both evaluated by the translator over the
whole `JanetFiberStatus` enum; for every status in which the fiber's frames can still run (new, pending, debug,
user5–user9, alive) the mark phase leaves the environment on the stack, so the frame and its closures keep sharing the
same slots whatever the collection schedule. -/
theorem collect_preserves_env_mode (s : Nat) (hs : s < Gen.GC.statusNames.length) (hrun : fiberCanStillRun s = true)
    (f : Id) (values : List Val) :
    envModeAfterMark (some f) s = .onStack f ∧ (Obj.funcenv (some f) s values).strong = [⟨true, f, false⟩] := by
  have key : ∀ s, s < Gen.GC.statusNames.length → fiberCanStillRun s = true → detachOnMark s = false := by decide
  have hd := key s hs hrun
  simp [envModeAfterMark, Obj.funcenv, hd]

/-- and the finished statuses are exactly the ones detached (so that a dead fiber does not keep its whole stack alive) -/
theorem detach_iff_finished (s : Nat) (hs : s < Gen.GC.statusNames.length) :
    detachOnMark s = !(fiberCanStillRun s) := by
  revert s; decide

/-! ### tie to the source: the generated mark-site table is the field list the model's constructors mirror -/

/-- Every marking call of gc.c's `janet_mark_*` functions and of the gcmark / event callbacks of the abstract types
(streams, channels, parser, peg, processes, file watchers, ffi signatures and struct types), regenerated from the current
source on every run.  A removed, added or re-routed mark line changes `Gen.GC.markSites` and breaks this.
The ffi rows say what a signature holds: the struct type of its RETURN value and of each argument.  On the tree without
the first `signature_mark` row this obligation fails and corpus/C01/edges/ffi_signature_ret_struct.janet is the failing
scenario (the return struct type is freed while the signature is alive; `ffi/call` reads freed memory). -/
theorem markSites_as_modelled : Gen.GC.markSites = [
  ("janet_mark_string", "janet_gc_mark", "janet_string_head(str)"),
  ("janet_mark_buffer", "janet_gc_mark", "buffer"),
  ("janet_mark_abstract", "janet_gc_mark", "janet_abstract_head(adata)"),
  ("janet_mark_abstract", "gcmark-callback", "type"),
  ("janet_mark_many", "janet_mark", "*values"),
  ("janet_mark_keys", "janet_mark", "kvs->key"),
  ("janet_mark_values", "janet_mark", "kvs->value"),
  ("janet_mark_kvs", "janet_mark", "kvs->key"),
  ("janet_mark_kvs", "janet_mark", "kvs->value"),
  ("janet_mark_array", "janet_gc_mark", "array"),
  ("janet_mark_array", "janet_mark_many", "array->data,array->count"),
  ("janet_mark_table", "janet_gc_mark", "table"),
  ("janet_mark_table", "janet_mark_values", "table->data,table->capacity"),
  ("janet_mark_table", "janet_mark_keys", "table->data,table->capacity"),
  ("janet_mark_table", "janet_mark_kvs", "table->data,table->capacity"),
  ("janet_mark_table", "tail-loop", "table->proto"),
  ("janet_mark_struct", "janet_gc_mark", "janet_struct_head(st)"),
  ("janet_mark_struct", "janet_mark_kvs", "st,janet_struct_capacity(st)"),
  ("janet_mark_struct", "tail-loop", "janet_struct_proto(st)"),
  ("janet_mark_tuple", "janet_gc_mark", "janet_tuple_head(tuple)"),
  ("janet_mark_tuple", "janet_mark_many", "tuple,janet_tuple_length(tuple)"),
  ("janet_mark_funcenv", "janet_gc_mark", "env"),
  ("janet_mark_funcenv", "janet_env_maybe_detach", "env"),
  ("janet_mark_funcenv", "janet_mark", "janet_wrap_fiber(env->as.fiber)"),
  ("janet_mark_funcenv", "janet_mark_many", "env->as.values,env->length"),
  ("janet_mark_funcdef", "janet_gc_mark", "def"),
  ("janet_mark_funcdef", "janet_mark_many", "def->constants,def->constants_length"),
  ("janet_mark_funcdef", "janet_mark_funcdef", "def->defs[i]@depth-1"),
  ("janet_mark_funcdef", "janet_mark_funcdef", "def->defs[i]"),
  ("janet_mark_funcdef", "janet_mark_string", "def->source"),
  ("janet_mark_funcdef", "janet_mark_string", "def->name"),
  ("janet_mark_funcdef", "janet_mark_string", "def->symbolmap[i].symbol"),
  ("janet_mark_function", "janet_gc_mark", "func"),
  ("janet_mark_function", "janet_mark_funcenv", "func->envs[i]"),
  ("janet_mark_function", "janet_mark_funcdef", "func->def"),
  ("janet_mark_fiber", "janet_gc_mark", "fiber"),
  ("janet_mark_fiber", "janet_mark", "fiber->last_value"),
  ("janet_mark_fiber", "janet_mark_many", "fiber->data+fiber->stackstart,fiber->stacktop-fiber->stackstart"),
  ("janet_mark_fiber", "janet_mark_function", "frame->func"),
  ("janet_mark_fiber", "janet_mark_funcenv", "frame->env"),
  ("janet_mark_fiber", "janet_mark_many", "fiber->data+i,j-i"),
  ("janet_mark_fiber", "janet_mark_table", "fiber->env"),
  ("janet_mark_fiber", "janet_mark_abstract", "fiber->supervisor_channel"),
  ("janet_mark_fiber", "janet_mark_abstract", "fiber->ev_stream"),
  ("janet_mark_fiber", "ev-callback", "JANET_ASYNC_EVENT_MARK"),
  ("janet_mark_fiber", "tail-loop", "fiber->child"),
  ("janet_stream_mark", "janet_mark", "janet_wrap_fiber(rf)"),
  ("janet_stream_mark", "janet_mark", "janet_wrap_fiber(wf)"),
  ("janet_ev_mark", "janet_mark", "janet_wrap_fiber(tasks[i].fiber)"),
  ("janet_ev_mark", "janet_mark", "tasks[i].value"),
  ("janet_ev_mark", "janet_mark", "janet_wrap_fiber(janet_vm.tq[i].fiber)"),
  ("janet_ev_mark", "janet_mark", "janet_wrap_fiber(janet_vm.tq[i].curr_fiber)"),
  ("janet_chanat_mark_fq", "janet_mark", "janet_wrap_fiber(pending[i].fiber)"),
  ("janet_chanat_mark", "janet_mark", "data[i]"),
  ("parsermark", "janet_mark", "parser->args[i]"),
  ("parsermark", "janet_mark", "janet_wrap_string((constuint8_t*)parser->error)"),
  ("peg_mark", "janet_mark", "peg->constants[i]"),
  ("janet_proc_mark", "janet_mark", "janet_wrap_abstract(proc->in)"),
  ("janet_proc_mark", "janet_mark", "janet_wrap_abstract(proc->out)"),
  ("janet_proc_mark", "janet_mark", "janet_wrap_abstract(proc->err)"),
  ("janet_filewatch_mark", "janet_mark", "janet_wrap_fiber(ow->fiber)"),
  ("janet_filewatch_mark", "janet_mark", "janet_wrap_abstract(ow->stream)"),
  ("janet_filewatch_mark", "janet_mark", "janet_wrap_string(ow->dir_path)"),
  ("janet_filewatch_mark", "janet_mark", "janet_wrap_abstract(watcher->stream)"),
  ("janet_filewatch_mark", "janet_mark", "janet_wrap_abstract(watcher->channel)"),
  ("janet_filewatch_mark", "janet_mark", "janet_wrap_table(watcher->watch_descriptors)"),
  ("signature_mark", "janet_mark", "janet_wrap_abstract(sig->ret.type.st)"),
  ("signature_mark", "janet_mark", "janet_wrap_abstract(t.st)"),
  ("struct_mark", "janet_mark", "janet_wrap_abstract(t.st)"),
  ("ev_callback_read", "janet_mark", "janet_wrap_buffer(state->buf)"),
  ("ev_callback_write", "janet_mark", "state->is_buffer?janet_wrap_buffer(state->src.buf):janet_wrap_string(state->src.str)"),
  ("ev_callback_write", "janet_mark", "janet_wrap_abstract(state->dest_abst)")] := rfl

/-- rank of a per-type mark function: a typed (not depth-checked) call must go strictly down -/
def markRank (f : String) : Nat :=
  if f = "janet_mark_fiber" then 4 else if f = "janet_mark_function" then 3 else if f = "janet_mark_funcenv" then 2
  else if f = "janet_mark_funcdef" then 1 else 0

/-- **Bounded C recursion of the mark phase.**  Every cycle of calls between `janet_mark_*` functions passes through
`janet_mark` (where the depth counter is checked and the value is spilled when it reaches 0): the typed calls, regenerated
from gc.c, strictly decrease `markRank` — except `janet_mark_funcdef → janet_mark_funcdef`, whose depth is the nesting
depth of function definitions, bounded when the funcdef is built (compiler / unmarshal recursion guards); since a60a379
each nested funcdef also takes one level of the marking depth while one is left (model: `Edge.lvl`), so the values
below it are deferred to the root list earlier.
On the pinned tree this failed: `janet_mark_funcenv → janet_mark_fiber → janet_mark_function → janet_mark_funcenv`
(witness: corpus/C01/regress/mark_recursion_chain.janet segfaults in the collector). -/
theorem mark_typed_calls_acyclic :
    ∀ c ∈ Gen.GC.directCalls, c = ("janet_mark_funcdef", "janet_mark_funcdef") ∨ markRank c.2 < markRank c.1 := by
  decide

/-- the weak-heap threshold of janet_gcalloc is the first weak memory type, and the depth limit is positive -/
theorem gen_facts : Gen.GC.weakThreshold = Gen.GC.memTableWeakK ∧ 1 ≤ Gen.GC.recursionGuard ∧
    Gen.GC.memTableWeakK < Gen.GC.memTableWeakV ∧ Gen.GC.memTableWeakV < Gen.GC.memTableWeakKV ∧
    Gen.GC.memTableWeakKV < Gen.GC.memArrayWeak ∧ Gen.GC.memFuncDef < Gen.GC.memTableWeakK ∧
    Gen.GC.markCases = ["JANET_STRING", "JANET_KEYWORD", "JANET_SYMBOL", "JANET_FUNCTION", "JANET_ARRAY", "JANET_TABLE",
      "JANET_STRUCT", "JANET_TUPLE", "JANET_BUFFER", "JANET_FIBER", "JANET_ABSTRACT"] ∧
    Gen.GC.liverefCases = ["JANET_ABSTRACT", "JANET_ARRAY", "JANET_BUFFER", "JANET_FIBER", "JANET_FUNCTION", "JANET_KEYWORD",
      "JANET_STRING", "JANET_STRUCT", "JANET_SYMBOL", "JANET_TABLE", "JANET_TUPLE"] :=
  ⟨by decide, by decide, by decide, by decide, by decide, by decide, rfl, rfl⟩

/-! ## Session 3 — the root-set protocol, suspension, and transparency with C locals under `janet_gclock`

Model: GC/Roots.lean (janet_gcroot / janet_gcunroot / janet_gcunrootall / janet_gc_idequals / janet_gclock / janet_gcunlock /
janet_gcpressure / maybe_collect / the prologue and epilogue of janet_collect), tied by regeneration (Gen/GC.lean: growth
factor, always-equal types, loop shape of janet_gcunrootall, interval constants, every reader/writer of gc_suspend) and by
op-history correspondence against the real functions (harness/C01/roots.c, whole `janet_vm.roots` array compared). -/

/-- **The roots array refines a multiset, under every op history.**  Reading `janet_vm.roots[0..root_count)` as a
multiset of `janet_gc_idequals`-classes, `janet_gcroot` adds one element, `janet_gcunroot` removes one occurrence (if
there is one), `janet_gcunrootall` — with the loop that re-examines the refilled slot — removes all, and nothing else
(locks, pressure, allocation, collections incl. the spill/drain use of the array, scratch calls) changes it. -/
theorem roots_refine_multiset (D : Nat) (s : Heap × VM) (ops : List ROp)
    (hcfg : Gen.GC.unrootallRescans = true ∨ ∀ op ∈ ops, op.isUnrootall = false) :
    ((runOps D s ops).2.roots.map RVal.norm).Perm (ops.foldl absRoots (s.2.roots.map RVal.norm)) :=
  runOps_roots D ops s hcfg

/-- **`janet_gcunroot` removes exactly one occurrence**: it returns 1 iff some root is id-equal to `x`; then the array
afterwards is a permutation of the array before with its FIRST id-equal element erased (so the class of `x` loses one
occurrence, every other class keeps its count, `root_count` drops by one); otherwise nothing changes. -/
theorem gcunroot_removes_exactly_one (vm : VM) (x : RVal) :
    ((gcunroot vm x).2 = 1 ↔ ∃ v ∈ vm.roots, idEq x v = true) ∧
    ((gcunroot vm x).2 = 1 → (gcunroot vm x).1.roots.Perm (vm.roots.eraseP (fun v => idEq x v)) ∧
        (gcunroot vm x).1.roots.length + 1 = vm.roots.length ∧
        ∀ y : RVal, ((gcunroot vm x).1.roots.map RVal.norm).count y.norm =
          (vm.roots.map RVal.norm).count y.norm - (if y.norm = x.norm then 1 else 0)) ∧
    ((gcunroot vm x).2 ≠ 1 → (gcunroot vm x).1 = vm) := by
  unfold gcunroot
  cases hu : unrootGo x vm.roots with
  | none =>
    have hn := (unrootGo_none x vm.roots).mp hu
    refine ⟨⟨fun h => by simp at h, fun ⟨v, hv, he⟩ => by rw [hn v hv] at he; cases he⟩, fun h => by simp at h, fun _ => rfl⟩
  | some rs =>
    have hp := unrootGo_some x vm.roots rs hu
    have hex : ∃ v ∈ vm.roots, idEq x v = true := by
      by_cases c : ∀ v ∈ vm.roots, idEq x v = false
      · rw [(unrootGo_none x vm.roots).mpr c] at hu; cases hu
      · simp only [Classical.not_forall] at c
        obtain ⟨v, hv, hne⟩ := c
        exact ⟨v, hv, by simpa using hne⟩
    refine ⟨⟨fun _ => hex, fun _ => rfl⟩, fun _ => ⟨hp, length_unrootGo x _ _ hu, ?_⟩, fun h => absurd rfl h⟩
    intro y
    have hm := hp.map RVal.norm
    rw [map_norm_eraseP] at hm
    simp only
    rw [hm.count_eq, List.count_erase]
    by_cases c : y.norm = x.norm
    · simp [c]
    · have : (x.norm == y.norm) = false := by simpa using fun e => c e.symm
      simp [c, this]

/-- **`janet_gcunrootall` with the re-examining loop removes every occurrence** and nothing else; returns 1 iff there was one. -/
theorem gcunrootall_removes_all (vm : VM) (x : RVal) :
    (gcunrootallWith true vm x).1.roots.Perm (vm.roots.filter (fun v => !idEq x v)) ∧
    (∀ v ∈ (gcunrootallWith true vm x).1.roots, idEq x v = false) ∧
    ((gcunrootallWith true vm x).2 = 1 ↔ ∃ v ∈ vm.roots, idEq x v = true) := by
  refine ⟨unrootAllGo_rescan_perm x _ _ (by omega), unrootAllGo_rescan_clean x _ _ (by omega), ?_⟩
  simp only [gcunrootallWith, unrootAllGo_ret true x _ _ (Nat.le_succ _)]
  cases h : vm.roots.any (fun v => idEq x v) <;> simp_all

/-- What holds for `janet_gcunrootall` **whatever its loop shape** (in particular for the pinned one, whose `v++` steps
over the slot it has just refilled with the last root): roots not id-equal to `x` are all kept, none is added, the return
value is right.  NOT proved for the pinned shape — and false, see the witness below — "no root id-equal to `x` is left";
that part is `gcunrootall_removes_all`, which needs `Gen.GC.unrootallRescans = true`. -/
theorem gcunrootall_partial (rescan : Bool) (vm : VM) (x : RVal) :
    ((gcunrootallWith rescan vm x).1.roots.filter (fun v => !idEq x v)).Perm (vm.roots.filter (fun v => !idEq x v)) ∧
    (gcunrootallWith rescan vm x).1.roots.length ≤ vm.roots.length ∧
    ((gcunrootallWith rescan vm x).2 = 1 ↔ ∃ v ∈ vm.roots, idEq x v = true) := by
  refine ⟨unrootAllGo_keeps rescan x _ _ (by omega), unrootAllGo_length_le rescan x _ _, ?_⟩
  simp only [gcunrootallWith, unrootAllGo_ret rescan x _ _ (Nat.le_succ _)]
  cases h : vm.roots.any (fun v => idEq x v) <;> simp_all

/-- witness for the pinned loop shape: a value rooted twice in adjacent top slots is still rooted after
`janet_gcunrootall` (replayed on the implementation by corpus/C01/roots/unrootall_dup.ops) -/
theorem gcunrootall_pinned_leaves_occurrence :
    (gcunrootallWith false { roots := [⟨Gen.GC.tyTable, 7⟩, ⟨Gen.GC.tyArray, 1⟩, ⟨Gen.GC.tyArray, 1⟩] } ⟨Gen.GC.tyArray, 1⟩).1.roots
      = [⟨Gen.GC.tyTable, 7⟩, ⟨Gen.GC.tyArray, 1⟩] := by decide

/-- **`root_count ≤ root_capacity` under every op history** — the store `roots[root_count] = root` of janet_gcroot is in
bounds; rests on `1 ≤ rootGrowMul` of the regenerated constants. -/
theorem root_capacity_invariant (D : Nat) (s : Heap × VM) (ops : List ROp) (h : s.2.roots.length ≤ s.2.rootCap) :
    (runOps D s ops).2.roots.length ≤ (runOps D s ops).2.rootCap := runOps_cap D ops s h

/-- **What a collection keeps depends only on the multiset of roots**, not on the order `janet_gcunroot`'s swap-with-last
leaves them in: permuted root arrays give the same reachable set, hence (by `mark_eq_reachable`) the same marked set. -/
theorem reachable_roots_perm (h : Heap) (vm vm' : VM) (p : (vm.roots.map RVal.norm).Perm (vm'.roots.map RVal.norm)) (i : Id) :
    Reachable (heapWithRoots h vm) i ↔ Reachable (heapWithRoots h vm') i := by
  have key : ∀ (a b : VM), (a.roots.map RVal.norm).Perm (b.roots.map RVal.norm) →
      Reachable (heapWithRoots h a) i → Reachable (heapWithRoots h b) i := by
    intro a b pab r
    refine Reachable.congr_roots (h := heapWithRoots h a) (h' := heapWithRoots h b) (fun _ => rfl) ?_ r
    intro e he
    simp only [heapWithRoots, List.mem_append] at he ⊢
    exact he.imp id (mem_flatMap_edge_of_perm pab)
  exact ⟨key vm vm' p, key vm' vm p.symm⟩

theorem marked_roots_perm (D : Nat) (hD : 1 ≤ D) (h : Heap) (vm vm' : VM)
    (p : (vm.roots.map RVal.norm).Perm (vm'.roots.map RVal.norm)) (i : Id) :
    (mark D (heapWithRoots h vm)).marked.contains i = (mark D (heapWithRoots h vm')).marked.contains i := by
  have a := mark_eq_reachable (heapWithRoots h vm) D hD i
  have b := mark_eq_reachable (heapWithRoots h vm') D hD i
  have c := reachable_roots_perm h vm vm' p i
  cases h1 : (mark D (heapWithRoots h vm)).marked.contains i <;>
    cases h2 : (mark D (heapWithRoots h vm')).marked.contains i <;> simp_all

/-- **`janet_collect` while `gc_suspend ≠ 0` does nothing**, and a collection that does run leaves the roots array, the
suspension counter and the capacity as they were, clears `gc_mark_phase`, resets `next_collection` and releases all
scratch memory. -/
theorem collect_suspended_noop (D : Nat) (h : Heap) (vm : VM) (hs : vm.gcSuspend ≠ 0) : collectVM D h vm = (h, vm) :=
  collectVM_locked D h vm hs

theorem collect_epilogue (D : Nat) (h : Heap) (vm : VM) (hs : vm.gcSuspend = 0) :
    (collectVM D h vm).2.roots = vm.roots ∧ (collectVM D h vm).2.gcSuspend = 0 ∧ (collectVM D h vm).2.markPhase = false ∧
    (collectVM D h vm).2.nextCollection = 0 ∧ (collectVM D h vm).2.scratch = [] ∧
    (collectVM D h vm).2.collections = vm.collections + 1 ∧
    (collectVM D h vm).1 = { collect D (heapWithRoots h vm) with roots := h.roots } := by
  rw [collectVM_eq, if_pos hs]; exact ⟨rfl, hs, rfl, rfl, rfl, rfl, rfl⟩

/-- `janet_gcunlock(janet_gclock())` restores the counter whatever happened in between — including an unbalanced inner
lock left behind by a longjmp (janet_restore does the same with the saved handle) -/
theorem lock_unlock_restores (D : Nat) (h : Heap) (vm : VM) (body : List ROp) :
    (runOps D (h, vm) (.lock :: body ++ [.unlock vm.gcSuspend])).2.gcSuspend = vm.gcSuspend := by
  simp only [runOps, List.foldl_cons, List.foldl_append, List.foldl_nil]
  rfl

/-- **Inside a suspended region** (counter positive at entry, no unlock down to a handle ≤ 0 — which is what nested
lock/unlock pairs give) **no collection runs and every block keeps its contents**, whatever the pressure and however
many safepoints or explicit `janet_collect` calls the region contains. -/
theorem suspended_region_keeps_heap (D : Nat) (s : Heap × VM) (ops : List ROp) (hs : 0 < s.2.gcSuspend)
    (hk : keepsSuspended ops = true) :
    0 < (runOps D s ops).2.gcSuspend ∧ (runOps D s ops).2.collections = s.2.collections ∧
    (∀ i x, s.1.get i = some x → (runOps D s ops).1.get i = some x) := runOps_suspended D ops s hs hk

/-- **Transparency with C locals.**  For every program of the extended mutator that obeys the rooting discipline
`disc` (objects held only in C locals exist only between `janet_gclock` and the matching `janet_gcunlock`), every forced
schedule, every allocation pressure (so every outcome of `maybe_collect`'s `next_collection >= gc_interval` test) and
every initial heap and GC state with `gc_suspend = 0`: the observations — including the handles `janet_gclock` returns —
equal those of the program's meaning without a collector.  The collector here is the modelled `maybe_collect` →
`janet_collect` (suspend early-out) of GC/Roots.lean and sees only the visible roots. -/
theorem gc_transparent_locked (D : Nat) (hD : 1 ≤ D) (prog : List CStep) (sched : Nat → Bool) (h : Heap) (vm : VM)
    (hs : vm.gcSuspend = 0) (hdisc : disc 0 0 prog = true) :
    runC D prog sched 0 ⟨h, 0, vm, []⟩ = runC0 prog ⟨h, 0, vm, []⟩ :=
  runC_sim D hD sched prog 0 0 0 _ _ ⟨Agree.refl h, rfl, rfl, rfl⟩ rfl rfl rfl (by simp [hs]) (fun _ => rfl) hdisc

/-! ### non-vacuity -/

/-- an op history on three values: root a, root n1, root a, unroot n2 (id-equal to n1: numbers), unroot a -/
example : (runOps 1 (Heap.ofList [] [], {}) [.root ⟨Gen.GC.tyArray, 0⟩, .root ⟨Gen.GC.tyNumber, 1⟩, .root ⟨Gen.GC.tyArray, 0⟩,
    .unroot ⟨Gen.GC.tyNumber, 2⟩, .unroot ⟨Gen.GC.tyArray, 0⟩]).2.roots = [⟨Gen.GC.tyArray, 0⟩] := by decide

/-- a disciplined program: lock, allocate two C locals, link them, keep one, drop the other, unlock, observe -/
def lockedProg : List CStep :=
  [.step (.alloc 3 []), .lock, .newLocal 3 [.root 0], .newLocal 3 [], .step (.emit (.root 1)), .keep, .drop, .unlock,
   .step (.emit (.root 1)), .pressure 5000000, .step (.emit (.field (.root 1) 0))]

example : disc 0 0 lockedProg = true := by decide
example : runC0 lockedProg ⟨Heap.ofList [] [], 0, {}, []⟩ =
    [.handle 0, .obs (.obj 3 1), .obs (.obj 3 1), .obs (.obj 3 0)] := by decide
/-- the discipline is needed: the same allocations without the lock are rejected -/
example : disc 0 0 [.newLocal 3 [], .step (.emit (.root 0))] = false := by decide

/-! ## Session 3 — weak containers at slot level

Model: GC/Weak.lean mirrors the first pass of janet_sweep and janet_check_liveref on `data[0 .. capacity)` / `data[0 .. count)`
(tombstone `(nil, false)`, `count--`, `deleted++`; weak arrays: `nil` in place, `count` unchanged); `absTable` / `absArray`
abstract a block to the heap model's weak entries.  Tie: the pass's shape is asserted by the translator and the slots,
`count` and `deleted` of every weak block are compared before/after the REAL sweep with the model's on sampled dumps. -/

/-- the block a slot value refers to (if any) is reachable through strong references -/
def svalReach (h : Heap) : SVal → Prop
  | .ref j => Reachable h j
  | _ => True

/-- the weakly held side of a slot, by table kind: the key (weak-key), the value (weak-value), both (weak-key-value) -/
def weakSideReachable (h : Heap) (kind : Nat) (kv : KV) : Prop :=
  (checkKeys kind = true → svalReach h kv.key) ∧ (checkValues kind = true → svalReach h kv.value)

theorem checkLiveref_iff_reach (h : Heap) (D : Nat) (hD : 1 ≤ D) (v : SVal) :
    checkLiveref (mark D h).marked v = true ↔ svalReach h v := by
  cases v with
  | ref j => exact mark_eq_reachable h D hD j
  | nil => simp [checkLiveref, svalReach]
  | fls => simp [checkLiveref, svalReach]
  | imm => simp [checkLiveref, svalReach]

theorem dropSlot_iff (h : Heap) (D : Nat) (hD : 1 ≤ D) (kind : Nat) (kv : KV) :
    dropSlot (mark D h).marked kind kv = false ↔ weakSideReachable h kind kv := by
  unfold dropSlot weakSideReachable
  rw [← checkLiveref_iff_reach h D hD kv.key, ← checkLiveref_iff_reach h D hD kv.value]
  cases checkKeys kind <;> cases checkValues kind <;>
    cases checkLiveref (mark D h).marked kv.key <;> cases checkLiveref (mark D h).marked kv.value <;> simp

/-- which side each memory type holds weakly (regenerated numbering) -/
theorem weak_kinds :
    (checkKeys Gen.GC.memTableWeakK, checkValues Gen.GC.memTableWeakK) = (true, false) ∧
    (checkKeys Gen.GC.memTableWeakV, checkValues Gen.GC.memTableWeakV) = (false, true) ∧
    (checkKeys Gen.GC.memTableWeakKV, checkValues Gen.GC.memTableWeakKV) = (true, true) ∧
    (checkKeys Gen.GC.memTable, checkValues Gen.GC.memTable) = (false, false) := by decide

/-- **Weak tables, full strength.**  For every heap, every depth limit and every reachable weak table block (weak-key,
weak-value or weak-key-value) given by its slot array: after `collect` the block is the abstraction of the C-shaped pass
run with the collector's mark bits; slot by slot, an entry is left as it was iff its weak side is reachable through strong
references and is otherwise replaced by the tombstone `(nil, false)`; `count` drops and `deleted` grows by the number of
dropped slots; kind, prototype and every other strongly held reference are unchanged. -/
theorem weak_table_survives_iff_reachable (h : Heap) (D : Nat) (hD : 1 ≤ D) (i : Id) (t : WTable)
    (hk : checkKeys t.kind = true ∨ checkValues t.kind = true) (hg : h.get i = some (absTable t)) (r : Reachable h i) :
    let m := (mark D h).marked
    (collect D h).get i = some (absTable (sweepWeakTable m t)) ∧
    (sweepWeakTable m t).data = t.data.map (fun kv => if dropSlot m t.kind kv then tombstone else kv) ∧
    (∀ kv, dropSlot m t.kind kv = false ↔ weakSideReachable h t.kind kv) ∧
    (sweepWeakTable m t).count = t.count - (t.data.filter (dropSlot m t.kind)).length ∧
    (sweepWeakTable m t).deleted = t.deleted + (t.data.filter (dropSlot m t.kind)).length ∧
    (absTable (sweepWeakTable m t)).kind = (absTable t).kind ∧ (absTable (sweepWeakTable m t)).strong = (absTable t).strong := by
  intro m
  have hm : (mark D h).marked.contains i = true := mark_complete h D hD i r
  refine ⟨?_, sweepSlots_data m t.kind t.data t.count t.deleted, fun kv => dropSlot_iff h D hD t.kind kv, ?_, ?_, ?_, ?_⟩
  · rw [absTable_sweep m t hk, collect_get, hg]; simp only [hm, if_true]; rfl
  · simp [sweepWeakTable, sweepSlots_counts]
  · simp [sweepWeakTable, sweepSlots_counts]
  · rw [absTable_sweep m t hk]; rfl
  · rw [absTable_sweep m t hk]; rfl

/-- the table bookkeeping invariant (`count` = number of occupied slots, empty slots hold no reference) survives the pass -/
theorem weak_table_wf_preserved (m : Std.HashSet Nat) (t : WTable) (hw : t.wf = true) : (sweepWeakTable m t).wf = true :=
  sweepWeakTable_wf m t hw

/-- **Weak arrays, full strength.**  After `collect` a reachable weak array keeps its length; slot by slot, an item is
left as it was iff it is an immediate or its block is reachable through strong references, and is `nil` otherwise. -/
theorem weak_array_survives_iff_reachable (h : Heap) (D : Nat) (hD : 1 ≤ D) (i : Id) (items : List SVal)
    (hg : h.get i = some (absArray items)) (r : Reachable h i) :
    let m := (mark D h).marked
    (collect D h).get i = some (absArray (sweepWeakArray m items)) ∧
    (sweepWeakArray m items).length = items.length ∧
    (∀ v, (nilIfDead m v = v ∧ svalReach h v) ∨ (nilIfDead m v = .nil ∧ ¬ svalReach h v)) := by
  intro m
  have hm : (mark D h).marked.contains i = true := mark_complete h D hD i r
  refine ⟨?_, by simp [sweepWeakArray], ?_⟩
  · rw [absArray_sweep, collect_get, hg]; simp only [hm, if_true]; rfl
  · intro v
    by_cases c : checkLiveref m v = true
    · exact Or.inl ⟨by simp [nilIfDead, c], (checkLiveref_iff_reach h D hD v).mp c⟩
    · exact Or.inr ⟨by simp [nilIfDead, c], fun hr => c ((checkLiveref_iff_reach h D hD v).mpr hr)⟩

/-- non-vacuity: a weak-key-value table with capacity 4: an empty slot, a live pair, a pair with a dead value, a tombstone -/
def wkvTable : WTable :=
  { kind := Gen.GC.memTableWeakKV, data := [⟨.nil, .nil⟩, ⟨.ref 2, .ref 3⟩, ⟨.ref 2, .ref 4⟩, ⟨.nil, .fls⟩], count := 2, deleted := 1 }

example : wkvTable.wf = true := by decide
example : (absTable wkvTable).entries = [⟨[2, 3], []⟩, ⟨[2, 4], []⟩] := by decide

/-! ### session 4: the mark phase's walks over ring buffers (run queue = a root set, channel pending queues, channel items)

`Gen.GC.ringWalks` is the loop structure of `janet_ev_mark`, `janet_chanat_mark_fq` and `janet_chanat_mark` as written in the
current source (initialiser, comparison, bound and step of every for-loop over the queue, and the head/tail branch). -/
section ring
open JanetModel.GC.RingMark JanetModel.Ev

/-- every ring walk of the current source has one of the two shapes proved right in `GC/RingMark.lean`
(a loop with `i < tail` and the wrapping step, a bound off by one, a dropped second segment … make this `decide` fail) -/
theorem ring_walks_as_modelled : (Gen.GC.ringWalks.all fun p => knownSound p.2) = true ∧
    Gen.GC.ringWalks.map (·.1) = ["janet_ev_mark", "janet_chanat_mark_fq", "janet_chanat_mark"] := by decide

/-- For every queue state that satisfies the representation invariant of `JanetQueue` (empty, contiguous, wrapped round,
write position at slot 0, just reallocated), each of the three walks, run as the source writes it, hands to `janet_mark`
exactly the abstract content of the queue, head first - nothing skipped, nothing stale, and the loops stop by themselves
(any iteration budget ≥ capacity gives the same result). -/
theorem mark_ring_walk_visits_all {α : Type} (name : String) (w : Gen.GC.RingWalk) (hw : (name, w) ∈ Gen.GC.ringWalks)
    (q : RingQ α) (h : q.WF) (fuel : Nat) (hf : q.cap ≤ fuel) : marked fuel w q = q.toList := by
  have hs : knownSound w = true := by
    have := ring_walks_as_modelled.1
    rw [List.all_eq_true] at this
    exact this (name, w) hw
  exact marked_eq_toList w hs q h fuel hf

/-- … and therefore after EVERY history of `janet_q_push` / `janet_q_push_head` / `janet_q_pop` (with the reallocation and the
move of the upper segment inside `janet_q_maybe_resize`) from `janet_q_init`: what the walk marks is the list obtained by
running the same operations on a plain list.  So a value in flight in a channel, a fiber parked on a channel and a
scheduled task are marked wherever the ring's read and write positions happen to be. -/
theorem mark_ring_walk_all_histories {α : Type} (name : String) (w : Gen.GC.RingWalk) (hw : (name, w) ∈ Gen.GC.ringWalks)
    (d : α) (maxCap : Nat) (ops : List (QOp α)) (q : RingQ α) (hr : runQ maxCap (RingQ.init d) ops = some q)
    (fuel : Nat) (hf : q.cap ≤ fuel) : marked fuel w q = ops.foldl absStep [] := by
  have := runQ_spec maxCap ops (RingQ.init d) q (init_wf d) hr
  rw [mark_ring_walk_visits_all name w hw q this.1 fuel hf, this.2, init_toList]

/-- non-vacuity: ring of capacity 4 after give,give,take,take,give,give,give: read position 2, write position 1, three
items in slots 2,3,0 - the walks visit 2,3,0; the loop `for (i = head; i < tail; i = i+1 < cap ? i+1 : 0)` visits nothing -/
example : WF ⟨2, 1, 4⟩ ∧ ringSlots ⟨2, 1, 4⟩ = [2, 3, 0] ∧ runWalk 4 ⟨2, 1, 4⟩ Gen.GC.ringWalkChanItems = [2, 3, 0] ∧
    runWalk 9 ⟨2, 1, 4⟩ wrapLoop = [2, 3, 0] ∧
    runWalk 9 ⟨2, 1, 4⟩ (.seq [⟨.head, .lt, .tail, .wrapInc⟩]) = [] ∧ knownSound (.seq [⟨.head, .lt, .tail, .wrapInc⟩]) = false := by
  decide

example : (runQ 100 (RingQ.init 0) [.push 1, .push 2, .pop, .pop, .push 3, .push 4, .push 5]).map (fun q => (q.head, q.tail, q.cap, q.toList))
    = some (2, 1, 4, [3, 4, 5]) := by decide

end ring

/-! ### session 4: the sweep's side effect on the symbol cache (gc.c janet_sweep → janet_deinit_block → symcache.c
janet_symbol_deinit).  Model = composition of `collect` with the symbol-cache model of `Value/SymCache.lean`
(`GC/SymSweep.lean`). -/
section symcache
open JanetModel.GC.SymSweep JanetModel.Value.SymCache

/-- the facts about symcache.c / janet_deinit_block regenerated by THIS check agree with the constants the cache model is
built from (Gen/Value.lean, C03's translator): a vacated bucket gets the tombstone, never NULL -/
theorem symcache_facts_agree :
    Gen.GC.symDeinitWritesDeleted = Gen.Value.symDeinitWritesDeleted ∧ Gen.GC.symMoveVacatedDeleted = Gen.Value.symMoveVacatedDeleted ∧
    Gen.GC.symCacheInitCap = Gen.Value.symCacheInitCap ∧ Gen.GC.symDeinitWritesDeleted = true ∧
    Gen.GC.symMoveVacatedDeleted = true ∧ Gen.GC.sweepDeinitsFreedSymbols = true := by decide

/-- The tie between heap and symbol cache - the cache holds exactly the existing symbol blocks, each under its bytes at its
own address, no duplicates, every entry reachable along its probe path, `cache_count` = number of entries - is preserved by a
collection: for every heap, cache state, depth limit D ≥ 0 and order of the block list. -/
theorem collect_keeps_symcache_tied (D : Nat) (order : List Id) (s : SymVM) (hc : CInvC s.cache)
    (ht : Tied s.heap s.names s.cache)
    (hall : ∀ i, (s.heap.get i).isSome = true → i ∈ order) (hex : ∀ i, i ∈ order → (s.heap.get i).isSome = true) :
    CInvC (collectSym D order s).cache ∧ Tied (collectSym D order s).heap (collectSym D order s).names (collectSym D order s).cache :=
  collectSym_tied D order s hc ht hall hex

/-- **Interning is transparent**: for the bytes of every REACHABLE symbol / keyword block, `janet_symbol` returns the same
object after the collection as without it - whichever other symbols were freed and wherever they sat on its probe path
(its home bucket, the last bucket before the probe wraps to bucket 0, the middle of the chain). -/
theorem intern_same_after_collect (D : Nat) (hD : 1 ≤ D) (order : List Id) (s : SymVM) (hc : CInvC s.cache)
    (ht : Tied s.heap s.names s.cache)
    (hall : ∀ i, (s.heap.get i).isSome = true → i ∈ order) (hex : ∀ i, i ∈ order → (s.heap.get i).isSome = true)
    (i : Id) (b : List UInt8) (hn : s.names i = some b) (r : Reachable s.heap i) :
    (∃ c', intern s.cache b = some (c', i)) ∧ (∃ c', intern (collectSym D order s).cache b = some (c', i)) :=
  intern_after_collect D hD order s hc ht hall hex i b hn r

/-- after the collection no cache entry points to a freed block -/
theorem symcache_no_dangling_after_collect (D : Nat) (order : List Id) (s : SymVM) (hc : CInvC s.cache)
    (ht : Tied s.heap s.names s.cache)
    (hall : ∀ i, (s.heap.get i).isSome = true → i ∈ order) (hex : ∀ i, i ∈ order → (s.heap.get i).isSome = true) :
    (∀ q x, Live (collectSym D order s).cache.slots q x → ((collectSym D order s).heap.get q).isSome = true) ∧
    (collectSym D order s).cache.count = liveCount (collectSym D order s).cache.slots :=
  cache_after_collect_no_dangling D order s hc ht hall hex

/-- non-vacuity: a 4-bucket cache; the bytes [1], [4], [8] all have the LAST bucket (3) as home, so the chain wraps: buckets
3, 0, 1.  The symbol in the last bucket is not marked.  The collection leaves the tombstone there, and the lookup of [8]
still finds it (moving it into the tombstone, as janet_symcache_findmem does); with NULL instead of the tombstone the same
lookup misses - the situation of a `janet_symbol_deinit` that empties the last bucket. -/
def symCache0 : Cache := { slots := [.live 1 [4], .live 2 [8], .empty, .live 0 [1]], count := 3, deleted := 0, next := 3 }
def symNames : Names := fun i => [some [1], some [4], some [8]].getD i none

example (m : HashSet Nat) (h0 : m.contains 0 = false) (h1 : m.contains 1 = true) (h2 : m.contains 2 = true) :
    (sweepCache m symNames [0, 1, 2] symCache0).slots = [.live 1 [4], .live 2 [8], .empty, .deleted] ∧
    (find (sweepCache m symNames [0, 1, 2] symCache0).slots [8]).2 = .hit 3 ∧
    (find [.live 1 [4], .live 2 [8], .empty, .empty] [8]).2 = .miss (some 3) := by
  have e : sweepCache m symNames [0, 1, 2] symCache0 = deinit symCache0 [1] := by
    simp [sweepCache, symNames, h0, h1, h2]
  rw [e]
  decide

end symcache

/-! ### session 4: the conditional mark of `parsermark` (parse.c).  `parser->error` is marked as a heap string only when the
flag bit JANET_PARSER_GENERATED_ERROR is set; `Gen.GC.parserSites` is every write of `->error` / `->flag` in parse.c. -/
section parser
open JanetModel.GC.ParserMark

/-- the finite certificate over the regenerated write table: every function keeps "bit set ⇔ error is the heap string",
from every state in which it can run (a `flag = JANET_PARSER_DEAD` in janet_parser_eof, a cleared bit without clearing the
pointer, a static message stored while the bit is set … make this `decide` fail) -/
theorem parser_sites_keep_inv : sitesKeepInv Gen.GC.parserSites = true := by decide

/-- **Whenever a collection can see a parser, `parsermark` marks its error message iff the message is heap-allocated** -
after every history of parser API calls (consume with any callback outcome, eof, error, clone from any parser that satisfies
the same, re-init) from `janet_parser_init`. -/
theorem parser_error_marked_iff_heap (es : List Ev) (hall : ∀ e ∈ es, e.site ∈ Gen.GC.parserSites ∧ ParserMark.Inv e.src = true) :
    marksError (run ⟨.null, false, false⟩ es) = true ↔ (run ⟨.null, false, false⟩ es).err = .heap := by
  have h := run_inv Gen.GC.parserSites parser_sites_keep_inv es ⟨.null, false, false⟩ (by decide) hall
  unfold ParserMark.Inv at h
  unfold marksError
  cases hg : (run ⟨.null, false, false⟩ es).gen <;> simp [hg] at h ⊢ <;> exact h

/-- non-vacuity: consume hits a static error, parser/error clears it, eof inside an open delimiter generates the heap message
and kills the parser: the message is marked.  With `flag = JANET_PARSER_DEAD` in janet_parser_eof (seed C01-6) the same history
ends with a heap message that is not marked, and the certificate is false. -/
example :
    run ⟨.null, false, false⟩ [⟨("root", true, [.errStatic, .errStatic]), ⟨.null, false, false⟩⟩, ⟨("janet_parser_error", false, [.errNull, .clearGen]), ⟨.null, false, false⟩⟩,
      ⟨("delim_error", true, [.errHeap, .setGen]), ⟨.null, false, false⟩⟩, ⟨("janet_parser_eof", false, [.setDead]), ⟨.null, false, false⟩⟩] = ⟨.heap, true, true⟩ ∧
    run ⟨.null, false, false⟩ [⟨("delim_error", true, [.errHeap, .setGen]), ⟨.null, false, false⟩⟩, ⟨("janet_parser_eof", false, [.flagOnlyDead]), ⟨.null, false, false⟩⟩] = ⟨.heap, false, true⟩ ∧
    sitesKeepInv [("janet_parser_eof", false, [.flagOnlyDead])] = false := by decide

end parser

section rootwin
open JanetModel.GC.RootWin
open JanetModel.Gen.GCRoot (edges edgesU edgesLocked lockUsers mayCollectMask mayCollectUnlockedMask collectId gcallocId runVmId nFuncs family
  familyClosure beginEndRows beginEndEscapes mayWindows)

/-- the finite side of the call-graph certificate, evaluated by the kernel on the regenerated graph (6 757 edges over 1 501
functions on the pinned tree): the complement of the claimed may-collect set is closed under every call edge - direct,
type-compatible indirect, address-mentioned - and `janet_collect` itself is in the set -/
theorem callgraph_maycollect_closed :
    closedOK edges mayCollectMask = true ∧ inMask mayCollectMask collectId = true := by
  constructor <;> decide +kernel

/-- **A function outside the regenerated may-collect set can never be interrupted by a collection**: no chain of calls, of any
length, leads from it to `janet_collect`.  Every C local of such a function (and of everything it calls) is safe without
being rooted. -/
theorem nocollect_sound (f : Nat) (hf : inMask mayCollectMask f = false) : ¬ Reaches edges f collectId :=
  outside_never_reaches callgraph_maycollect_closed.1 callgraph_maycollect_closed.2 hf

/-- allocation does not collect (`janet_gcalloc` only adds to `next_collection`; collections happen at the interpreter's
safepoints and in `gccollect`): an allocation-between-allocation window is never by itself a danger -/
theorem alloc_cannot_collect : ¬ Reaches edges gcallocId collectId := nocollect_sound _ (by decide +kernel)

/-- **the delimited family**: the value builders (`janet_{tuple,struct,string,abstract}_begin/_end`, `janet_tuple_n`,
`janet_table_clone`, `janet_array_n`, `janet_table_to_struct` …), marshal / unmarshal with their state, PEG compilation and
the parser - and everything they can call (452 functions on the pinned tree) - cannot be interrupted by a collection. -/
theorem builder_family_cannot_collect (f : Nat) (hf : f ∈ familyClosure) : ¬ Reaches edges f collectId :=
  nocollect_sound f (allOutside_mem (by decide +kernel : allOutside mayCollectMask familyClosure = true) hf)

theorem family_in_closure : family.all (fun f => familyClosure.contains f) = true := by decide +kernel

/-- **every builder window is covered**: in every function of the library, every call made on some control-flow path between
a `_begin` call and the matching `_end` (while the unfinished tuple / struct / string / abstract is held in a C local only)
goes to a function that cannot reach `janet_collect`; and no unfinished object leaves its function. -/
theorem begin_end_windows_covered :
    beginEndEscapes = [] ∧ ∀ r ∈ beginEndRows, ¬ Reaches edges r.2.2 collectId := by
  refine ⟨by decide, fun r hr => nocollect_sound _ ?_⟩
  have h : allOutside mayCollectMask (beginEndRows.map fun r => r.2.2) = true := by decide +kernel
  exact allOutside_mem h (List.mem_map_of_mem hr)

/-- the same certificate over the call edges that exist OUTSIDE every `janet_gclock .. janet_gcunlock` region (must-analysis on
the caller's control-flow graph; `edges = edgesU ++ edgesLocked`), and: the edges that exist only inside such a region all
start in the regenerated list of lock users (janet_call - which runs the interpreter with the collector suspended -,
lookup_missing, macroexpand1) -/
theorem callgraph_unlocked_closed :
    closedOK edgesU mayCollectUnlockedMask = true ∧ inMask mayCollectUnlockedMask collectId = true ∧
    edgesLocked.all (fun e => lockUsers.contains (e / 4096)) = true := by
  refine ⟨?_, ?_, ?_⟩ <;> decide +kernel

/-- **recognised protection `janet_gclock`**: for a function outside the (smaller) unlocked may-collect set, EVERY call chain
that leads to `janet_collect` passes through a call site inside a gclock region of one of the lock users - where the
collector is suspended and `janet_collect` returns at once (`collect_suspended_noop`, `suspended_region_keeps_heap`). -/
theorem collect_chain_passes_gclock (f : Nat) (hf : inMask mayCollectUnlockedMask f = false) (hr : Reaches edges f collectId) :
    ∃ x y, Reaches edgesU f x ∧ x * 4096 + y ∈ edgesLocked ∧ x ∈ lockUsers := by
  rcases reaches_split (U := edgesU) (L := edgesLocked) hr with h | ⟨x, y, h1, hy, h3, _⟩
  · exact absurd h (outside_never_reaches callgraph_unlocked_closed.1 callgraph_unlocked_closed.2.1 hf)
  · refine ⟨x, y, h1, h3, ?_⟩
    have := (List.all_eq_true.mp callgraph_unlocked_closed.2.2) _ h3
    have e2 : (x * 4096 + y) / 4096 = x := by omega
    rw [e2] at this
    simpa using this

/-- What is NOT certified (tested only, by the schedule-differential runs): the functions that CAN be interrupted by an
unsuspended collection.  Every function of the library is either never interrupted (no chain to `janet_collect` outside gclock
regions) or listed in the regenerated table `mayWindows` with its number of (allocating call, later collecting call) pairs;
the protection of those windows - value already stored on the fiber stack, value dead afterwards - is not established
statically.  Missing for the full statement: a liveness / rootedness analysis of those 56 functions (3 619 of the 3 820 raw
pairs lie in `run_vm`, 120 in `peg_rule`). -/
theorem c_local_windows_partial (f : Nat) (hf : f < nFuncs) :
    (¬ Reaches edgesU f collectId) ∨ f ∈ mayWindows.map Prod.fst := by
  have h : coveredOrListed mayCollectUnlockedMask nFuncs (mayWindows.map Prod.fst) = true := by decide +kernel
  have := (List.all_eq_true.mp h) f (List.mem_range.mpr hf)
  cases hm : inMask mayCollectUnlockedMask f with
  | false => exact Or.inl (outside_never_reaches callgraph_unlocked_closed.1 callgraph_unlocked_closed.2.1 hm)
  | true =>
    rw [hm] at this
    simp at this
    exact Or.inr (by simpa using this)

/-- non-vacuity: the interpreter does reach the collector (so the mask is not vacuous), and the closure condition rejects a
mask that leaves out a caller of `janet_collect` -/
example : Reaches edgesU runVmId collectId := .step (by decide) (by decide +kernel) (.refl _)
example : closedOK edges (mayCollectMask - 2 ^ runVmId) = false := by decide +kernel
example : inMask mayCollectMask runVmId = true ∧ inMask mayCollectMask gcallocId = false := by constructor <;> decide +kernel

end rootwin

end JanetModel.Props.C01
