/- C08 - threads and thread channels deliver every message exactly once.
   Property theorems over the model JanetModel/Thread/Model.lean; each is an invariant over ALL interleavings
   (`run cfg acts s` for an arbitrary action list).  The model is parametrised by the shape of the source (`Cfg`, `TCfg`,
   `RCfg`); JanetModel/Thread/Current.lean instantiates the full theorems at the configuration regenerated from the current
   source (Gen/Thread.lean) - it only builds when the current source satisfies their hypotheses.

   What is NOT proved here (tested only, see notes/C08.md): data races and memory errors (TSan / ASan).
   Session 3: the model carries the run queues (`janet_vm.spawn`), the waiting state of fibers and an event log; the step from
   hand-out order to resume order per receiving fiber is now proved (`per_sender_order`, executions without abandoned waits). -/
import JanetModel.Thread.EndToEnd
import JanetModel.Thread.Requeue
import JanetModel.Thread.SpawnLemmas
import JanetModel.Thread.Payload
import JanetModel.Thread.LockCert

namespace JanetModel.Props.C08
open JanetModel.Thread

/-- ☆ exactly once: if janet_thread_chan_cb re-dispatches a stale read message and puts the item back when no reader waits,
    then under every interleaving (including abandoned waits, close, any number of loops) every item accepted by a give is
    in exactly one of: `items`, a pipe message in flight, delivered to exactly one fiber. -/
theorem exactly_once (cfg : Cfg) (hq : cfg.requeue = true) (hd : cfg.redispatch = true) (limit : Nat) (acts : List Act) :
    Conserved (run cfg acts (init limit)) :=
  run_conserved cfg hq hd acts (init limit) (conserved_init limit)

/-- what holds for EVERY configuration (in particular the unchanged tree, which drops the item): exactly-once in all
    executions in which no read message is found stale by janet_thread_chan_cb (no reader abandoned a wait that an item
    was dispatched to).  Missing part = the stale case, false on the unchanged tree: `exactly_once_counterexample`. -/
theorem exactly_once_partial (cfg : Cfg) (limit : Nat) (acts : List Act)
    (h : (run cfg acts (init limit)).staleReads = 0) : Conserved (run cfg acts (init limit)) :=
  run_conserved_partial cfg acts (init limit) h (conserved_init limit)

/-- the unchanged tree (`requeue = false`): reader 0 waits, abandons its wait, thread 1 gives item 7, loop 0 handles the
    message: the item is nowhere (not queued, not in flight, not delivered) although the give succeeded. -/
theorem exactly_once_counterexample :
    let s := run ⟨false, false, true, true, true, true⟩ [.take 0 0, .abandon 0, .give 1 1 7, .handle 0] (init 4)
    s.sent = [7] ∧ s.items = [] ∧ s.flight = [] ∧ s.delivered = [] ∧ ¬ Conserved s := by
  refine ⟨by decide, by decide, by decide, by decide, ?_⟩
  intro h
  have := h 7
  revert this
  decide

example : gotAll (run ⟨true, true, true, true, true, true⟩ [.take 0 0, .abandon 0, .give 1 1 7, .handle 0, .take 0 2, .resume 0, .resume 0] (init 4)).log = [(2, 7)] := by
  decide

/-- ★ (partial) per-sender order: in every execution in which no read message is found stale, items leave the channel
    (taken directly, or dispatched to a pending reader) exactly in the order in which they were given: the hand-out log
    followed by the queue content IS the send log.  Hence two items of one sender are handed out in the order sent.
    Missing for the full statement: stale readers - false, see `per_sender_order_counterexample`, also on the
    implementation (known finding reorder-stale-reader).  The step from hand-out order to resume order per receiver is
    `per_sender_order` below. -/
theorem per_sender_order_partial (cfg : Cfg) (limit : Nat) (acts : List Act)
    (h : (run cfg acts (init limit)).staleReads = 0) :
    let s := run cfg acts (init limit)
    s.handed.map Prod.snd ++ s.items = s.sent :=
  (run_fifo cfg acts (init limit) h ⟨Or.inl rfl, rfl⟩).2

/-- ★ per-sender order, end to end on the event log (from the `gave` events of one sender to the `got` events of one receiver):
    in every execution in which no waiting fiber is abandoned (no ev/cancel, deadline or other select clause hits a fiber that
    waits on the channel), for every configuration, capacity, number of loops and interleaving of gives, takes, closes, pipe
    hand-offs and run-queue resumptions: the items that fiber `receiver` was resumed with, restricted to those that carry the
    tag of `sender`, appear in the order in which `sender` gave them.  (`tag` = any labelling of items by their giving fiber,
    as in the harness where every message carries its producer id.)
    Proof: tickets invariant (a waiting fiber has exactly one claim on its next resumption - pending entry, pipe message or
    queued task - carrying its current sched_id, so janet_thread_chan_cb and janet_loop1 never find it stale) + per fiber
    `got ++ queued ++ in flight = handed` + hand-out order = send order (`Fifo`).
    Not covered: executions with abandoned waits - genuinely false, `per_sender_order_counterexample` (known finding). -/
theorem per_sender_order (cfg : Cfg) (limit : Nat) (acts : List Act)
    (hclean : (run cfg acts (init limit)).abandons = 0)
    (tag : Item → Nat) (htag : ∀ f x, Ev.gave f x ∈ (run cfg acts (init limit)).log → tag x = f)
    (sender receiver : Nat) :
    ((gotSeq receiver (run cfg acts (init limit)).log).filter (fun x => tag x == sender)).Sublist
      (gaveBy sender (run cfg acts (init limit)).log) := by
  have hc : Clean (run cfg acts (init limit)) := run_clean cfg acts (init limit) hclean (clean_init limit)
  have h1 := (hc.got_sublist_sent receiver).filter (fun x => tag x == sender)
  rw [← run_logOK cfg acts (init limit) rfl, gaveBy_eq_filter tag sender _ htag] at h1
  exact h1

/-- the same without tags: what any fiber got is, in order, a sub-sequence of the global (atomic) give order -/
theorem got_in_send_order (cfg : Cfg) (limit : Nat) (acts : List Act) (hclean : (run cfg acts (init limit)).abandons = 0)
    (receiver : Nat) :
    (gotSeq receiver (run cfg acts (init limit)).log).Sublist (gaveSeq (run cfg acts (init limit)).log) := by
  have hc : Clean (run cfg acts (init limit)) := run_clean cfg acts (init limit) hclean (clean_init limit)
  rw [run_logOK cfg acts (init limit) rfl]
  exact hc.got_sublist_sent receiver

/-- without abandoned waits no message is ever found stale and the run loop skips no task -/
theorem no_abandon_no_stale_no_drop (cfg : Cfg) (limit : Nat) (acts : List Act) (hclean : (run cfg acts (init limit)).abandons = 0) :
    (run cfg acts (init limit)).staleReads = 0 ∧ (run cfg acts (init limit)).dropped = [] :=
  ⟨(run_clean cfg acts (init limit) hclean (clean_init limit)).stale, run_nodrop cfg acts (init limit) hclean (clean_init limit)⟩

-- non-vacuity: two senders (fibers 1, 2; items tagged x / 10), capacity 1 so that fiber 2 parks, receivers 5 (thread 0, first
-- pending then direct) and 6 (thread 3); pipe hand-offs and run-queue resumptions interleaved; no abandoned wait
example :
    let s := run ⟨true, true, true, true, true, true⟩
      [.take 0 5, .give 1 1 10, .give 1 1 11, .give 2 2 20, .handle 0, .take 3 6, .resume 0, .resume 0, .handle 0, .resume 0,
       .give 2 2 21, .take 0 5, .resume 0, .take 0 5, .resume 0] (init 1)
    s.abandons = 0 ∧ gotSeq 5 s.log = [10, 20, 21] ∧ gotSeq 6 s.log = [11] ∧ gaveBy 2 s.log = [20, 21] := by
  decide

/-- even with the put-back fix: item 1 is dispatched to a reader that abandoned its wait, item 2 is queued and taken by
    fiber 5, item 1 comes back and is taken by fiber 5 afterwards: fiber 5 is resumed with 2 before 1 although 1 was given
    before 2 (event log). -/
theorem per_sender_order_counterexample :
    let s := run ⟨true, true, true, true, true, true⟩
      [.take 0 0, .abandon 0, .give 1 1 1, .give 1 1 2, .take 0 5, .resume 0, .resume 0, .handle 0, .take 0 5, .resume 0] (init 4)
    gaveBy 1 s.log = [1, 2] ∧ gotSeq 5 s.log = [2, 1] ∧ s.abandons = 1 := by
  decide

example : (run ⟨true, true, true, true, true, true⟩ [.take 0 0, .give 1 1 1, .give 1 1 2, .handle 0, .resume 0, .take 0 5] (init 4)).staleReads = 0 := by
  decide

/-- ★ per-sender order across a REQUEUED stale hand-off (session 4c).  Situation: item `x` was dispatched to a pending reader
    that has abandoned its wait; when janet_thread_chan_cb finds the message stale NO other reader is pending (requeue branch,
    not re-dispatch) and nothing that was given after `x` has left the channel yet (`ReturnPoint`: `x` is the last hand-out,
    every later give is still queued - any number of them, from any senders).  If the source puts the item back at the HEAD
    (`requeueHead`, janet_q_push_head) then after the step, and after ANY continuation `acts` (gives, takes, closes, pipe
    hand-offs, resumptions, any number of loops) in which no further message is found stale, items leave the channel exactly
    in give order: hand-out log (the returned dispatch discounted) ++ queue = send log.  In particular the later gives of the
    same sender are handed out AFTER `x`.  `requeueHead = true` is needed: `per_sender_order_requeue_counterexample`.
    Outside this theorem (known finding reorder-stale-reader): the message is re-dispatched to another pending reader, or a
    later item was already taken / dispatched before the stale message is handled, or several stale hand-offs are in flight. -/
theorem per_sender_order_requeue (cfg : Cfg) (hc : cfg.checkSched = true) (hd : cfg.redispatch = true) (hq : cfg.requeue = true)
    (hh : cfg.requeueHead = true) (s : St) (m : Msg) (x : Item) (h1 : List (Nat × Item)) (hk : m.kind = .read x)
    (hst : s.sched m.fiber ≠ m.sched) (hp : ReturnPoint s m.fiber x h1) (acts : List Act)
    (hz : (run cfg acts { cb cfg s m with handed := h1 }).staleReads = (cb cfg s m).staleReads) :
    let s1 : St := { cb cfg s m with handed := h1 }
    s1.items = x :: s.items ∧
      (run cfg acts s1).handed.map Prod.snd ++ (run cfg acts s1).items = (run cfg acts s1).sent := by
  refine ⟨?_, (run_fifo cfg acts _ hz (requeue_restores_fifo cfg hc hd hq hh s m x h1 hk hst hp)).2⟩
  rw [cb_requeue cfg s m x hk hc hd hq hst hp.noReader]
  simp [hh]

/-- the hypotheses of `per_sender_order_requeue` are met by a reachable state with TWO later gives of the same sender queued:
    fiber 0 waits, abandons, is resumed; sender 9 gives 1 (dispatched to the stale entry), 2 and 3 (queued) -/
example :
    let s := run ⟨true, true, true, true, true, true⟩ [.take 0 0, .abandon 0, .resume 0, .give 1 9 1, .give 1 9 2, .give 1 9 3] (init 8)
    s.flight = [⟨0, 0, 0, .read 1⟩] ∧ s.sched 0 ≠ 0 ∧ s.items = [2, 3] ∧ ReturnPoint s 0 1 [] := by
  refine ⟨by decide, by decide, by decide, ⟨by decide, by decide, by decide⟩⟩

/-- `requeueHead` is NEEDED (seed C08-8: janet_q_push instead of janet_q_push_head): the same history - one receiver fiber 0
    abandons its wait, sender 9 gives 1, 2, 3 before the receiver's loop looks at its pipe, no other reader is pending, nothing
    is taken in between, the message is requeued (one stale read, never re-dispatched: nothing is in flight afterwards and the
    queue holds all three items) - then fiber 5 takes three times: with the item put back at the head it gets 1, 2, 3; with
    the item put back at the tail it gets 2, 3, 1 although fiber 9 gave 1 first. -/
theorem per_sender_order_requeue_counterexample :
    let pre : List Act := [.take 0 0, .abandon 0, .resume 0, .give 1 9 1, .give 1 9 2, .give 1 9 3, .handle 0]
    let takes : List Act := [.take 0 5, .resume 0, .take 0 5, .resume 0, .take 0 5, .resume 0]
    let head := run ⟨true, true, true, true, true, true⟩ (pre ++ takes) (init 8)
    let tail := run ⟨true, false, true, true, true, true⟩ (pre ++ takes) (init 8)
    let mid := run ⟨true, false, true, true, true, true⟩ pre (init 8)
    gaveBy 9 head.log = [1, 2, 3] ∧ gotSeq 5 head.log = [1, 2, 3] ∧
      gaveBy 9 tail.log = [1, 2, 3] ∧ gotSeq 5 tail.log = [2, 3, 1] ∧
      mid.staleReads = 1 ∧ mid.flight = [] ∧ mid.items = [2, 3, 1] ∧ mid.readers = [] := by
  decide

/-- per receiving THREAD the order is not kept even without abandoned waits (two fibers of one thread take from one channel):
    item 1 is posted to the pipe of thread 0 for the pending fiber 7, item 2 is queued and taken directly by fiber 8 of the
    same thread before the thread looks at its pipe: thread 0 resumes fiber 8 with 2, then fiber 7 with 1.  Each FIBER still
    sees send order (`per_sender_order`); a receiver is a fiber. -/
theorem per_thread_order_counterexample :
    let s := run ⟨true, true, true, true, true, true⟩ [.take 0 7, .give 1 1 1, .give 1 1 2, .take 0 8, .resume 0, .handle 0, .resume 0] (init 4)
    s.abandons = 0 ∧ gotAll s.log = [(8, 2), (7, 1)] := by
  decide

/-! ### the self pipe and the run queue of a loop are FIFO -/

/-- janet_ev_handle_selfpipe: the message handed to janet_thread_chan_cb is the OLDEST message of that loop's pipe, and the
    rest of the pipe keeps its order (whatever the other loops' messages are doing in between) -/
theorem pipe_fifo (s : St) (i : Nat) (m : Msg) (rest : List Msg) (hx : extract i s.flight = some (m, rest))
    (hen : (s.flight.take i).all (fun m' => m'.loop != m.loop) = true) :
    s.flight.filter (fun y => y.loop == m.loop) = m :: rest.filter (fun y => y.loop == m.loop) :=
  extract_first_of_key Msg.loop s.flight i m rest hx hen

/-- janet_loop1: the task that is run is the OLDEST task of that loop's run queue (janet_q_push at the tail, janet_q_pop at the
    head), the rest keeps its order -/
theorem runq_fifo (s : St) (i : Nat) (k : Task) (rest : List Task) (hx : extract i s.runq = some (k, rest))
    (hen : (s.runq.take i).all (fun k' => k'.thread != k.thread) = true) :
    s.runq.filter (fun y => y.thread == k.thread) = k :: rest.filter (fun y => y.thread == k.thread) :=
  extract_first_of_key Task.thread s.runq i k rest hx hen

/-! ### exactly once up to the resumption of the receiving fiber -/

/-- ☆ end to end: with re-dispatch and put-back, under every interleaving every accepted item is in exactly one of: the
    channel queue, a pipe message, a queued run-queue task, the `got` events of the log (delivered to exactly one fiber),
    or the tasks that janet_loop1 skipped because the fiber had been rescheduled in the meantime (`dropped`). -/
theorem exactly_once_resumed (cfg : Cfg) (hq : cfg.requeue = true) (hd : cfg.redispatch = true) (limit : Nat) (acts : List Act) (x : Item) :
    let s := run cfg acts (init limit)
    (gaveSeq s.log).countP (· == x) =
      s.items.countP (· == x) + s.flight.countP (fun m => m.item == some x) + s.runq.countP (fun k => k.item == some x) +
        (gotAll s.log).countP (fun d => d.2 == x) + s.dropped.countP (fun d => d.2 == x) := by
  have h1 := exactly_once cfg hq hd limit acts x
  have h2 := run_conserved2 cfg acts (init limit) (conserved2_init limit) x
  have h3 := run_logOK cfg acts (init limit) rfl
  simp only [h3]
  omega

/-- ... and `dropped` is empty unless a waiting fiber was abandoned: then exactly-once holds up to the `got` events -/
theorem exactly_once_resumed_clean (cfg : Cfg) (hq : cfg.requeue = true) (hd : cfg.redispatch = true) (limit : Nat) (acts : List Act)
    (hclean : (run cfg acts (init limit)).abandons = 0) (x : Item) :
    let s := run cfg acts (init limit)
    (gaveSeq s.log).countP (· == x) =
      s.items.countP (· == x) + s.flight.countP (fun m => m.item == some x) + s.runq.countP (fun k => k.item == some x) +
        (gotAll s.log).countP (fun d => d.2 == x) := by
  have h := exactly_once_resumed cfg hq hd limit acts x
  have hd0 := (no_abandon_no_stale_no_drop cfg limit acts hclean).2
  simp only [hd0] at h
  simpa using h

/-- the run loop does drop a value when the fiber is rescheduled between janet_thread_chan_cb and its resumption (a deadline
    that expires in the same loop turn; known finding lost-deadline-same-turn): fiber 0 waits, item 7 is given, the callback
    schedules fiber 0 with it, the deadline cancels fiber 0, janet_loop1 skips the task that carries the item. -/
theorem scheduled_then_abandoned_counterexample :
    let s := run ⟨true, true, true, true, true, true⟩ [.take 0 0, .give 1 1 7, .handle 0, .abandon 0, .resume 0, .resume 0] (init 4)
    gaveSeq s.log = [7] ∧ gotAll s.log = [] ∧ s.items = [] ∧ s.flight = [] ∧ s.runq = [] ∧ s.dropped = [(0, 7)] := by
  decide

/-! ### blocked writers: a wake-up forwarded past a writer that gave up reaches the next writer -/

/-- janet_thread_chan_cb on a stale WRITE wake-up with another writer pending: the wake-up is forwarded with that writer's OWN
    `sched_id`, so the writer's loop will accept it (next theorem). -/
theorem writer_wakeup_forwarded (cfg : Cfg) (hf : cfg.forwardOwnSched = true) (hd : cfg.redispatch = true)
    (hc : cfg.checkSched = true) (s : St) (ml mf ms : Nat) (w : Pending) (ws : List Pending)
    (hst : s.sched mf ≠ ms) (hw : s.writers = w :: ws) :
    (cb cfg s ⟨ml, mf, ms, .write⟩).flight = s.flight ++ [⟨w.thread, w.fiber, w.sched, .write⟩] ∧
      (cb cfg s ⟨ml, mf, ms, .write⟩).writers = ws := by
  have h1 : ¬ ((!cfg.checkSched || s.sched mf == ms) = true) := by simp [hc, hst]
  simp [cb, h1, hd, hf, hw]

/-- ... and a writer that is still waiting (its `sched_id` unchanged) is resumed by the forwarded wake-up. -/
theorem writer_wakeup_accepted (cfg : Cfg) (s : St) (w : Pending) (hcur : s.sched w.fiber = w.sched) :
    (cb cfg s ⟨w.thread, w.fiber, w.sched, .write⟩).woken = s.woken ++ [(w.fiber, .write)] := by
  simp [cb, hcur]

/-- if the forwarded wake-up kept the STALE entry's `sched_id`: channel of capacity 1, fibers 2 and 3 are parked writers
    (fiber 3 has a different sched counter), fiber 2 gives up, fiber 4 takes: the wake-up is forwarded to fiber 3 with
    fiber 2's id, rejected there, forwarded off the end of the queue - fiber 3 is never resumed. -/
theorem writer_wakeup_counterexample :
    let acts := [Act.give 0 1 10, .give 0 2 20, .abandon 3, .give 0 3 30, .abandon 2, .take 0 4, .handle 0, .handle 0]
    (run ⟨true, true, true, true, false, true⟩ acts (init 1)).woken = [] ∧
    (run ⟨true, true, true, true, false, true⟩ acts (init 1)).flight = [] ∧
    (run ⟨true, true, true, true, true, true⟩ acts (init 1)).woken = [(3, Kind.write)] := by
  decide

/-! ### structurally equal to what was sent -/

/-- a fiber is only ever resumed with an item that some give put into the channel (no invention, for every interleaving,
    abandoned waits included): the channel machinery moves the PACKED value (`Item`) unchanged -/
theorem got_was_given (cfg : Cfg) (hq : cfg.requeue = true) (hd : cfg.redispatch = true) (limit : Nat) (acts : List Act)
    (r : Nat) (x : Item) (hg : (r, x) ∈ gotAll (run cfg acts (init limit)).log) : x ∈ gaveSeq (run cfg acts (init limit)).log := by
  have h := exactly_once_resumed cfg hq hd limit acts x
  have hpos : 0 < (gotAll (run cfg acts (init limit)).log).countP (fun d => d.2 == x) :=
    List.countP_pos_iff.mpr ⟨(r, x), hg, by simp⟩
  have : 0 < (gaveSeq (run cfg acts (init limit)).log).countP (· == x) := by
    simp only at h; omega
  obtain ⟨y, hy, hyx⟩ := List.countP_pos_iff.mp this
  have : y = x := by simpa using hyx
  exact this ▸ hy

open JanetModel.Marsh in
/-- `Props.C09.roundtrip_graph_top`, word for word and with the same proof from `Marsh.one_roundtrip` (the lemma that IS
    C09's `roundtrip_graph`).  Restated here instead of importing `Props/C09` so that this module does not depend on the
    code-object files of C09's closure (`Marsh/CodeRoundtrip` ..), which other builders edit. -/
theorem roundtrip_graph_top' (H : List Obj) (hH : HeapWF H) (x : Val) (hx : ValWF x) (bs : List Nat)
    (hm : marshalOne topFuel H 0 x = some (bs, H.length)) :
    marshal H x = some bs ∧ unmarshal bs = some (x, H, bs.length) := by
  refine ⟨by simp [marshal, hm], ?_⟩
  have h := (one_roundtrip H hH topFuel 0 x bs H.length [] (Nat.zero_le _) hx hm).2.2.2
  simp only [List.append_nil] at h
  simp [unmarshal, h, slice]

open JanetModel.Marsh JanetModel.Thread.Payload in
/-- ★ structurally equal: unpacking what janet_chan_pack produced gives back the value AND its whole reachable heap - same
    shape, same sharing, same cycles (equality of reference-order presentations, C09's notion of graph isomorphism) - for every
    data graph.  The marshalled case IS C09's `roundtrip_graph_top` (= `roundtrip_graph_top'` above; thread channels use the same `janet_marshal` /
    `janet_unmarshal`; JANET_MARSHAL_UNSAFE changes pointer-like cases only - regenerated flags, `Thread.Current.payload_codec_shape`);
    nil / booleans / numbers travel as the Janet word.  Side condition as in C09: `(x, H)` is a reference-order presentation
    of the payload with no garbage (checked there by correspondence).  Not covered (tested by topo.py / C09's oracles):
    functions, fibers, abstracts other than by the refcount model below, NO_REALLOC pointer buffers (sent by address). -/
theorem payload_roundtrip (H : List Obj) (hH : HeapWF H) (x : Val) (hx : ValWF x) (bs : List Nat)
    (hfull : marshalOne topFuel H 0 x = some (bs, H.length)) (p : Packed) (hp : pack H x = some p) :
    unpack p = some (x, H) := by
  unfold pack at hp
  by_cases hpt : passthrough H x = true
  · simp only [hpt, if_true, Option.some.injEq] at hp
    subst hp; rfl
  · have hpf : passthrough H x = false := by simpa using hpt
    obtain ⟨hm, hu⟩ := roundtrip_graph_top' H hH x hx bs hfull
    rw [hpf, hm] at hp
    simp at hp
    subst hp
    simp [unpack, hu]

open JanetModel.Marsh JanetModel.Thread.Payload in
-- non-vacuity: an array that contains the same string twice (sharing) and an int: packed as an image, unpacked equal
example :
    let H : List Obj := [.array false [.ref 1, .ref 1, .int 7], .str .string [104, 105]]
    (pack H (.ref 0)).isSome = true ∧ (pack H (.ref 0)).bind unpack = some (.ref 0, H) ∧ pack H (.int 5) = some (.raw (.int 5) H) := by
  decide

/-! ### supervisor channels

   A supervisor event (`[:ok value task-id]`, `[:error ..]`, ...) is pushed by janet_loop1 with
   `janet_channel_push(chan, make_supervisor_event(..), 2)`, the thread-start error report likewise; `ev/give-supervisor` is an
   ordinary give.  Mode 2 is the action `giveNB` of the model (never parks), so every theorem above that quantifies over
   `acts : List Act` - `exactly_once`, `exactly_once_resumed`, `per_sender_order` - covers supervisor events mixed with gives,
   takes, closes, abandoned waits, in every interleaving.  The two statements below spell the supervisor case out. -/

/-- a mode-2 push behaves like a give into a channel that is never over capacity: it registers no pending writer and the pushing
    side never waits, whatever the limit -/
theorem supervisor_push_never_parks (s : St) (f : Nat) (x : Item) :
    (giveNB s f x).writers = s.writers ∧ (giveNB s f x).waiting = s.waiting ∧
      (s.closed = false → (giveNB s f x).sent = s.sent ++ [x]) := by
  unfold giveNB
  refine ⟨?_, ?_, ?_⟩ <;> (repeat' split) <;> simp_all

/-- ★ every event reported to a supervisor channel arrives exactly once, and the events about one thread / fiber arrive at the
    supervising fiber in the order in which they were reported: instance of `exactly_once_resumed` and `per_sender_order` for
    histories that contain mode-2 pushes (stated for an arbitrary history; `tag` labels an event with the fiber it is about) -/
theorem supervisor_events_exactly_once_in_order (cfg : Cfg) (hq : cfg.requeue = true) (hd : cfg.redispatch = true)
    (limit : Nat) (acts : List Act) (hclean : (run cfg acts (init limit)).abandons = 0)
    (tag : Item → Nat) (htag : ∀ f x, Ev.gave f x ∈ (run cfg acts (init limit)).log → tag x = f) (about supervisor : Nat) (x : Item) :
    let s := run cfg acts (init limit)
    ((gaveSeq s.log).countP (· == x) =
      s.items.countP (· == x) + s.flight.countP (fun m => m.item == some x) + s.runq.countP (fun k => k.item == some x) +
        (gotAll s.log).countP (fun d => d.2 == x)) ∧
    ((gotSeq supervisor s.log).filter (fun y => tag y == about)).Sublist (gaveBy about s.log) :=
  ⟨exactly_once_resumed_clean cfg hq hd limit acts hclean x, per_sender_order cfg limit acts hclean tag htag about supervisor⟩

-- non-vacuity: thread 1's fibers 11 and 12 report three events to a supervisor channel of capacity 1 (the second and third are
-- over capacity: no parking), the supervisor fiber 9 of thread 0 takes them, interleaved with an ordinary give
example :
    let s := run ⟨true, true, true, true, true, true⟩
      [.giveNB 11 110, .giveNB 11 111, .giveNB 12 120, .take 0 9, .resume 0, .give 1 13 130, .take 0 9, .resume 0, .take 0 9, .resume 0,
       .take 0 9, .resume 0] (init 1)
    s.abandons = 0 ∧ s.sent = [110, 111, 120, 130] ∧ gotSeq 9 s.log = [110, 111, 120, 130] ∧ gaveBy 11 s.log = [110, 111] := by
  decide

/-! ### ev/thread: value hand-over to the new thread -/

open JanetModel.Thread.Spawn in
/-- ★ what janet_go_thread_subr unmarshals is what cfun_ev_thread marshalled, for EVERY plan (order and guards of the
    segments), flag word and arguments, provided both sides follow the same plan - the per-run obligation
    `Thread.Current.thread_plans_agree` on the regenerated plans; nothing is left in the buffer -/
theorem thread_args_roundtrip (plan : List PStep) (flags : Nat) (a : Args) :
    readBuf plan flags (writeBuf plan flags a) = some (writeBuf plan flags a, []) := by
  have := read_write plan flags a []
  simpa using this

open JanetModel.Thread.Spawn in
/-- ★ exactly once: for every sequence of ev/thread calls and thread starts (any order, any flags), every call's buffer is
    either still waiting for its thread or was consumed by exactly one thread (`spawned = pending + ran`), one buffer is freed
    per thread that ran, and every thread that ran read back a well-formed buffer with nothing left over -/
theorem thread_handover_exactly_once (plan : List PStep) (acts : List HAct) :
    let s := hrun plan plan acts {}
    s.spawned.length = s.started.length + s.ran.length ∧ s.freed = s.ran.length ∧ ∀ r ∈ s.ran, ∃ got, r = some (got, []) := by
  have h0 : HInv plan {} := ⟨rfl, rfl, fun fb hfb => by simp at hfb, fun r hr => by simp at hr⟩
  have h := hrun_inv plan acts {} h0
  exact ⟨h.count, h.freed, h.ok⟩

open JanetModel.Thread.Spawn in
/-- if the reader took `main` and `value` in the other order than they were written, the thread would start with garbage -/
theorem thread_args_counterexample :
    let w : List PStep := [⟨true, 0, true, .main⟩, ⟨true, 0, true, .value⟩]
    let r : List PStep := [⟨true, 0, true, .value⟩, ⟨true, 0, true, .main⟩]
    readBuf r 0 (writeBuf w 0 (mkArgs (0, 7, 8))) = none := by
  decide

/-! ### ev/thread: completion -/

def TInv (s : TSt) : Prop :=
  (s.posted = true → s.bodyDone = true) ∧ (s.callerResumed = true → s.posted = true) ∧ s.resumedAfterBody = true

theorem tstep_inv (cfg : TCfg) (hc : cfg.completionAfterBody = true) (s : TSt) (a : TAct) (h : TInv s) : TInv (tstep cfg s a) := by
  obtain ⟨h1, h2, h3⟩ := h
  cases a <;> simp only [tstep, hc] <;> (repeat' split) <;> simp_all [TInv]

/-- ★ the fiber that called `ev/thread` is resumed only after the thread body (the whole event loop of the new thread) has
    finished - for every interleaving of body steps, completion write and caller loop, and every body length. -/
theorem thread_returns_after_body (cfg : TCfg) (hc : cfg.completionAfterBody = true) (n : Nat) (acts : List TAct) :
    let s := trun cfg acts { bodyLeft := n }
    (s.callerResumed = true → s.bodyDone = true) ∧ s.resumedAfterBody = true := by
  have : ∀ (acts : List TAct) (s : TSt), TInv s → TInv (trun cfg acts s) := by
    intro acts
    induction acts with
    | nil => intro s h; exact h
    | cons a acts ih => intro s h; exact ih _ (tstep_inv cfg hc s a h)
  have h := this acts { bodyLeft := n } (by simp [TInv])
  exact ⟨fun hr => h.1 (h.2.1 hr), h.2.2⟩

/-- if the completion record were written before `subr` returns, the caller can be resumed while the body still runs -/
theorem thread_returns_after_body_counterexample :
    let s := trun ⟨false⟩ [.start, .post, .callerLoop] { bodyLeft := 3 }
    s.callerResumed = true ∧ s.bodyDone = false := by
  decide

example : (trun ⟨true⟩ [.start, .bodyStep, .bodyStep, .post, .callerLoop] { bodyLeft := 1 }).callerResumed = true := by decide

/-! ### reference count of a shared abstract -/

def RInv (s : RSt) : Prop :=
  (s.freed = false → s.refcount = s.holds.length + s.transit) ∧ (s.freed = true → s.holds = [] ∧ s.transit = 0) ∧
    s.useAfterFree = false

/-- a thread that reaches the object has a table entry for it -/
def RReach (s : RSt) : Prop := ∀ t, s.reach t = true → t ∈ s.holds

theorem rstep_reach (cfg : RCfg) (s : RSt) (a : RAct) (h : RReach s) : RReach (rstep cfg s a) := by
  cases a with
  | send t => simp only [rstep]; split <;> exact h
  | recv t =>
    simp only [rstep]
    split
    · exact h
    · split
      · rename_i hm
        intro u hu
        simp only [Bool.or_eq_true, beq_iff_eq] at hu
        rcases hu with rfl | hu
        · exact hm
        · exact h u hu
      · intro u hu
        simp only [Bool.or_eq_true, beq_iff_eq] at hu
        rcases hu with rfl | hu
        · exact List.mem_cons_self
        · exact List.mem_cons_of_mem _ (h u hu)
  | drop t =>
    intro u hu
    simp only [rstep] at hu
    by_cases hut : u = t
    · simp [hut] at hu
    · simp [hut] at hu; exact h u hu
  | sweep t =>
    simp only [rstep]
    split
    · rename_i hm
      intro u hu
      have hne : u ≠ t := by intro e; rw [e, hm.2] at hu; cases hu
      exact (List.mem_erase_of_ne hne).mpr (h u hu)
    · exact h
  | use t => simp only [rstep]; split <;> exact h
  | discard =>
    simp only [rstep]
    split
    · exact h
    · split <;> exact h
  | failSend t => simp only [rstep]; split <;> exact h

theorem rrun_reach (cfg : RCfg) : ∀ (acts : List RAct) (s : RSt), RReach s → RReach (rrun cfg acts s) := by
  intro acts
  induction acts with
  | nil => intro s h; exact h
  | cons a acts ih => intro s h; exact ih _ (rstep_reach cfg s a h)

theorem rstep_inv (cfg : RCfg) (hc : cfg.increfBeforeSend = true) (hk : cfg.recvKnownDecref = true) (hd : cfg.deinitDecref = true)
    (hp : cfg.packFailDecref = true) (s : RSt) (a : RAct) (h : RInv s) (hre : RReach s) : RInv (rstep cfg s a) := by
  obtain ⟨h1, h2, h3⟩ := h
  cases hf : s.freed with
  | true =>
    obtain ⟨hh, ht⟩ := h2 hf
    have hnr : ∀ t, s.reach t = false := by
      intro t
      cases hr : s.reach t with
      | false => rfl
      | true => have := hre t hr; rw [hh] at this; cases this
    cases a <;> simp [rstep, hh, ht, RInv, hf, h3, hnr]
  | false =>
    have hr := h1 hf
    cases a with
    | send t =>
      simp only [rstep, hc]
      split
      · simp [RInv, hf, h3, hr]; omega
      · exact ⟨h1, h2, h3⟩
    | recv t =>
      simp only [rstep, hk]
      split
      · exact ⟨h1, h2, h3⟩
      · split
        · simp [RInv, hf, h3, hr]; omega
        · simp [RInv, hf, h3, hr]; omega
    | drop t => simp [rstep, RInv, hf, h3, hr]
    | use t =>
      simp only [rstep]
      split
      · simp [RInv, hf, h3, hr]
      · exact ⟨h1, h2, h3⟩
    | failSend t =>
      simp only [rstep, hp]
      split
      · simp [RInv, hf, h3, hr]
      · exact ⟨h1, h2, h3⟩
    | discard =>
      simp only [rstep, hd, if_true]
      split
      · exact ⟨h1, h2, h3⟩
      · rename_i htr
        simp only [RInv, hf, Bool.false_or, h3, and_true]
        constructor
        · intro _; rw [hr]; omega
        · intro hfr
          have hz : s.refcount - 1 = 0 := by
            simp only [Bool.and_eq_true, beq_iff_eq] at hfr; exact hfr.2
          have hl : s.holds.length = 0 := by omega
          exact ⟨List.eq_nil_of_length_eq_zero hl, by omega⟩
    | sweep t =>
      simp only [rstep]
      split
      · rename_i hm
        have hl := List.length_erase_of_mem hm.1
        have hpos : 0 < s.holds.length := List.length_pos_of_mem hm.1
        simp only [RInv, hf, Bool.false_or, h3, and_true]
        constructor
        · intro hnf
          rw [hl, hr]; omega
        · intro hfr
          have : s.refcount - 1 = 0 := by simpa using hfr
          have hz : (s.holds.erase t).length = 0 := by rw [hl]; omega
          exact ⟨List.eq_nil_of_length_eq_zero hz, by omega⟩
      · exact ⟨h1, h2, h3⟩

theorem rrun_inv (cfg : RCfg) (hc : cfg.increfBeforeSend = true) (hk : cfg.recvKnownDecref = true) (hd : cfg.deinitDecref = true)
    (hp : cfg.packFailDecref = true) :
    ∀ (acts : List RAct) (s : RSt), RInv s → RReach s → RInv (rrun cfg acts s) := by
  intro acts
  induction acts with
  | nil => intro s h _; exact h
  | cons a acts ih => intro s h hre; exact ih _ (rstep_inv cfg hc hk hd hp s a h hre) (rstep_reach cfg s a hre)

theorem rreach_init : RReach {} := by intro t ht; simp at ht; simp [ht]

/-- ★ no free while any thread can reach the object: with the reference taken before sending, at every point of every
    interleaving of send / receive / drop / sweep / carrier-finalizer (`discard`) steps of any number of threads, the count equals the number of holders
    (threads with a table entry + copies in transit); the object is freed only when there is none; nobody uses it after. -/
theorem refcount_ge_reachers (cfg : RCfg) (hc : cfg.increfBeforeSend = true) (hk : cfg.recvKnownDecref = true)
    (hd : cfg.deinitDecref = true) (hp : cfg.packFailDecref = true) (acts : List RAct) :
    let s := rrun cfg acts {}
    (s.freed = false → s.refcount = s.holds.length + s.transit) ∧ (s.freed = true → s.holds = [] ∧ s.transit = 0) ∧
      s.useAfterFree = false :=
  rrun_inv cfg hc hk hd hp acts {} (by simp [RInv]) rreach_init

/-! #### locks (`ev/lock`, `ev/rwlock`) and channels: valid while reachable, released after the last drop

   `janet_mutex_type` / `janet_rwlock_type` are threaded abstracts WITHOUT marshal hooks (regenerated: `Current.lock_types_shape`):
   the only way across a thread boundary is the LB_THREADED_ABSTRACT path of marsh.c (pointer + incref = `send` / `recv`), their
   finalizer only destroys the OS primitive.  `use t` = thread t locks / unlocks (touches the abstract's memory). -/

/-- ★ objects shared between threads (locks, rwlocks, thread channels) remain valid while any thread can reach them: at every
    point of every interleaving of send / receive / use / drop / sweep steps of any number of threads, if some thread still
    references the object, or a copy of the pointer is inside a message in transit, the object has not been freed - and no
    lock / unlock / channel operation ever touched freed memory -/
theorem shared_valid_while_reachable (cfg : RCfg) (hc : cfg.increfBeforeSend = true) (hk : cfg.recvKnownDecref = true)
    (hd : cfg.deinitDecref = true) (hp : cfg.packFailDecref = true) (acts : List RAct) :
    let s := rrun cfg acts {}
    (∀ t, s.reach t = true → s.freed = false) ∧ (0 < s.transit → s.freed = false) ∧ s.useAfterFree = false := by
  have h := rrun_inv cfg hc hk hd hp acts {} (by simp [RInv]) rreach_init
  have hr := rrun_reach cfg acts {} rreach_init
  refine ⟨fun t ht => ?_, fun htr => ?_, h.2.2⟩
  · cases hf : (rrun cfg acts {}).freed with
    | false => rfl
    | true =>
      have := (h.2.1 hf).1
      have hm := hr t ht
      rw [this] at hm; cases hm
  · cases hf : (rrun cfg acts {}).freed with
    | false => rfl
    | true =>
      have := (h.2.1 hf).2
      omega

/-- ★ ... and they are released after the last reference is dropped: from ANY state the protocol can be in with nothing in
    transit, once every thread has dropped its references, the collectors of the holding threads (in table order) free the
    object - the last sweep brings the count to 0 and runs the finalizer (mutexgc / rwlockgc / janet_chanat_gc) -/
theorem shared_released_after_all_dropped (cfg : RCfg) : ∀ (l : List Nat) (s : RSt), s.holds = l → l ≠ [] → l.Nodup →
    RInv s → s.freed = false → s.transit = 0 → (∀ t, s.reach t = false) →
    (rrun cfg (l.map RAct.sweep) s).freed = true := by
  intro l
  induction l with
  | nil => intro s _ hne; exact absurd rfl hne
  | cons t ts ih =>
    intro s hh _ hnd hinv hf htr hre
    have hrc : s.refcount = (t :: ts).length + 0 := by have := hinv.1 hf; rw [hh, htr] at this; exact this
    have hmem : t ∈ s.holds := by rw [hh]; exact List.mem_cons_self
    have hstep : rstep cfg s (.sweep t) =
        { s with holds := s.holds.erase t, refcount := s.refcount - 1, freed := s.freed || (s.refcount - 1 == 0) } := by
      simp [rstep, hmem, hre t]
    show (rrun cfg (ts.map RAct.sweep) (rstep cfg s (.sweep t))).freed = true
    rw [hstep]
    cases ts with
    | nil =>
      simp [rrun, hrc]
    | cons u us =>
      have herase : s.holds.erase t = u :: us := by rw [hh]; simp
      have hnd' : (u :: us).Nodup := (List.nodup_cons.mp hnd).2
      refine ih _ (by simpa using herase) (by simp) hnd' ?_ (by simp [hf, hrc]) htr hre
      refine ⟨fun _ => ?_, fun hfr => ?_, hinv.2.2⟩
      · simp only [herase, htr, hrc]; simp
      · simp [hf, hrc] at hfr

/-- if the marshaller did not take the reference before sending, a lock dies in transit and the receiving thread locks freed
    memory: thread 0 sends the lock, drops it and collects; thread 1 receives the pointer and acquires -/
theorem lock_use_counterexample :
    let s := rrun { increfBeforeSend := false, recvKnownDecref := true } [.send 0, .drop 0, .sweep 0, .recv 1, .use 1] {}
    s.freed = true ∧ s.reach 1 = true ∧ s.useAfterFree = true := by
  decide

example : (rrun { increfBeforeSend := true, recvKnownDecref := true } [.send 0, .recv 1, .use 1, .use 0, .drop 0, .sweep 0, .use 1, .drop 1, .sweep 1] {}).freed = true ∧
    (rrun { increfBeforeSend := true, recvKnownDecref := true } [.send 0, .recv 1, .use 1, .use 0, .drop 0, .sweep 0, .use 1, .drop 1, .sweep 1] {}).useAfterFree = false := by decide

/-- ... and it IS freed by the sweep of the last holder once that thread no longer references it. -/
theorem refcount_freed_after_last_drop (cfg : RCfg) (s : RSt) (t : Nat) (h : RInv s) (hf : s.freed = false)
    (hh : s.holds = [t]) (ht : s.transit = 0) (hr : s.reach t = false) : (rstep cfg s (.sweep t)).freed = true := by
  have := h.1 hf
  simp [rstep, hh, hr, hf] at this ⊢
  omega

/-- without the incref before sending ("death in transit"): thread 0 sends, drops its reference and collects: the object is
    freed while a copy of the pointer is still inside a message. -/
theorem refcount_counterexample :
    let s := rrun { increfBeforeSend := false, recvKnownDecref := true } [.send 0, .drop 0, .sweep 0] {}
    s.freed = true ∧ s.transit = 1 := by
  decide

/-- if a thread that already holds the object does not drop the in-transit reference when it receives it again (e.g. the
    "known?" test looks at the entry's value, which is `false` between mark phases): thread 0 sends the object to itself,
    drops it and collects - nobody holds it, nothing is in transit, and it is never freed. -/
theorem refcount_leak_counterexample :
    let s := rrun { increfBeforeSend := true, recvKnownDecref := false } [.send 0, .recv 0, .drop 0, .sweep 0] {}
    s.freed = false ∧ s.holds = [] ∧ s.transit = 0 ∧ s.refcount = 1 := by
  decide

example : (rrun { increfBeforeSend := true, recvKnownDecref := true } [.send 0, .drop 0, .sweep 0, .recv 1, .drop 1, .sweep 1] {}).freed = true := by decide
example : (rrun { increfBeforeSend := true, recvKnownDecref := true } [.send 0, .drop 0, .sweep 0, .recv 1] {}).freed = false := by decide

/-! #### undelivered messages: the finalizer of the carrying channel (`janet_chan_deinit`, `RAct.discard`) -/

/-- an object that has not been freed is referenced by somebody: the count is positive -/
def RLive (s : RSt) : Prop := s.freed = false → 0 < s.refcount

theorem rstep_live (cfg : RCfg) (hc : cfg.increfBeforeSend = true) (hk : cfg.recvKnownDecref = true) (hd : cfg.deinitDecref = true)
    (hz : cfg.decrefFreesAtZero = true) (hp : cfg.packFailDecref = true) (s : RSt) (a : RAct) (h : RInv s) (hl : RLive s) : RLive (rstep cfg s a) := by
  cases hf : s.freed with
  | true =>
    obtain ⟨hh, ht⟩ := h.2.1 hf
    intro hnf
    cases a <;> simp [rstep, hh, ht, hf] at hnf
    · rename_i t; split at hnf <;> simp [hf] at hnf
  | false =>
    have hr := h.1 hf
    have hpos := hl hf
    cases a with
    | send t =>
      simp only [rstep, hc, if_true]
      split
      · intro _; show 0 < s.refcount + 1; omega
      · exact hl
    | recv t =>
      simp only [rstep, hk, if_true]
      split
      · exact hl
      · split
        · rename_i hm
          have : 0 < s.holds.length := List.length_pos_of_mem hm
          intro _; show 0 < s.refcount - 1; omega
        · intro _; exact hpos
    | drop t => intro _; exact hpos
    | use t =>
      simp only [rstep]
      split
      · intro _; exact hpos
      · exact hl
    | failSend t =>
      simp only [rstep, hp]
      split
      · intro _; simpa using hpos
      · exact hl
    | discard =>
      simp only [rstep, hd, hz, if_true, Bool.true_and]
      split
      · exact hl
      · intro hnf
        have hne : ¬ (s.refcount - 1 = 0) := by
          intro e; simp [hf, e] at hnf
        show 0 < s.refcount - 1; omega
    | sweep t =>
      simp only [rstep]
      split
      · intro hnf
        have hne : ¬ (s.refcount - 1 = 0) := by
          intro e; simp [hf, e] at hnf
        show 0 < s.refcount - 1; omega
      · exact hl

theorem rrun_inv_live (cfg : RCfg) (hc : cfg.increfBeforeSend = true) (hk : cfg.recvKnownDecref = true) (hd : cfg.deinitDecref = true)
    (hz : cfg.decrefFreesAtZero = true) (hp : cfg.packFailDecref = true) :
    ∀ (acts : List RAct) (s : RSt), RInv s → RReach s → RLive s → RInv (rrun cfg acts s) ∧ RLive (rrun cfg acts s) := by
  intro acts
  induction acts with
  | nil => intro s h _ hl; exact ⟨h, hl⟩
  | cons a acts ih =>
    intro s h hre hl
    exact ih _ (rstep_inv cfg hc hk hd hp s a h hre) (rstep_reach cfg s a hre) (rstep_live cfg hc hk hd hz hp s a h hl)

/-- ★ ... and are released after the last reference is dropped, whichever step drops it: at EVERY point of EVERY interleaving
    of send / receive / use / drop / sweep steps and finalizer runs of carrying channels with undelivered messages, an
    object that no thread's table lists and that no message in transit contains HAS been freed - the step that removed the
    last reference (a collector's sweep, or the clean-up unmarshal of an undelivered message) finalized it.  No object is
    ever stranded with a zero count.  (Needs all four facts of the current source; see the two counterexamples.) -/
theorem shared_never_stranded (cfg : RCfg) (hc : cfg.increfBeforeSend = true) (hk : cfg.recvKnownDecref = true)
    (hd : cfg.deinitDecref = true) (hz : cfg.decrefFreesAtZero = true) (hp : cfg.packFailDecref = true) (acts : List RAct) :
    let s := rrun cfg acts {}
    s.holds = [] → s.transit = 0 → s.freed = true := by
  intro s hh ht
  have h := rrun_inv_live cfg hc hk hd hz hp acts {} (by simp [RInv]) rreach_init (by simp [RLive])
  cases hf : s.freed with
  | true => rfl
  | false =>
    have h1 := h.1.1 hf
    have h2 := h.2 hf
    rw [hh, ht] at h1
    simp at h1
    omega

/-- the same from ANY state the protocol can be in (invariants hold): whatever happens next, unreferenced ⇒ freed -/
theorem never_stranded_from (cfg : RCfg) (hc : cfg.increfBeforeSend = true) (hk : cfg.recvKnownDecref = true)
    (hd : cfg.deinitDecref = true) (hz : cfg.decrefFreesAtZero = true) (hp : cfg.packFailDecref = true) (acts : List RAct) (s0 : RSt)
    (hi : RInv s0) (hr : RReach s0) (hl : RLive s0) :
    let s := rrun cfg acts s0
    s.holds = [] → s.transit = 0 → s.freed = true := by
  intro s hh ht
  have h := rrun_inv_live cfg hc hk hd hz hp acts s0 hi hr hl
  cases hf : s.freed with
  | true => rfl
  | false =>
    have h1 := h.1.1 hf
    have h2 := h.2 hf
    rw [hh, ht] at h1
    simp at h1
    omega

theorem rrun_append (cfg : RCfg) (a b : List RAct) (s : RSt) : rrun cfg (a ++ b) s = rrun cfg b (rrun cfg a s) := by
  simp [rrun, List.foldl_append]

/-- sweeps by every holder (none of which references the object any more) empty the table list and leave `transit` alone -/
theorem sweeps_empty_holds (cfg : RCfg) : ∀ (l : List Nat) (s : RSt), s.holds = l → l.Nodup → (∀ t, s.reach t = false) →
    (rrun cfg (l.map RAct.sweep) s).holds = [] ∧ (rrun cfg (l.map RAct.sweep) s).transit = s.transit ∧
      (∀ t, (rrun cfg (l.map RAct.sweep) s).reach t = false) := by
  intro l
  induction l with
  | nil => intro s hh _ hre; simp [rrun, hh, hre]
  | cons t ts ih =>
    intro s hh hnd hre
    have hmem : t ∈ s.holds := by rw [hh]; exact List.mem_cons_self
    have hstep : rstep cfg s (.sweep t) =
        { s with holds := s.holds.erase t, refcount := s.refcount - 1, freed := s.freed || (s.refcount - 1 == 0) } := by
      simp [rstep, hmem, hre t]
    have e : rrun cfg ((t :: ts).map RAct.sweep) s = rrun cfg (ts.map RAct.sweep) (rstep cfg s (.sweep t)) := rfl
    rw [e, hstep]
    have herase : s.holds.erase t = ts := by rw [hh]; simp
    exact ih { s with holds := s.holds.erase t, refcount := s.refcount - 1, freed := s.freed || (s.refcount - 1 == 0) }
      herase (List.nodup_cons.mp hnd).2 hre

/-- finalizer runs of the carriers of all undelivered copies bring `transit` to 0 and leave the table list alone -/
theorem discards_empty_transit (cfg : RCfg) : ∀ (n : Nat) (s : RSt), s.transit = n →
    (rrun cfg (List.replicate n RAct.discard) s).transit = 0 ∧ (rrun cfg (List.replicate n RAct.discard) s).holds = s.holds := by
  intro n
  induction n with
  | zero => intro s h; simp [rrun, h]
  | succ n ih =>
    intro s h
    have hne : s.transit ≠ 0 := by omega
    have e : rrun cfg (List.replicate (n + 1) RAct.discard) s = rrun cfg (List.replicate n RAct.discard) (rstep cfg s .discard) := rfl
    rw [e]
    by_cases hdd : cfg.deinitDecref = true
    · have := ih (rstep cfg s .discard) (by simp [rstep, hne, hdd]; omega)
      refine ⟨this.1, ?_⟩
      rw [this.2]; simp [rstep, hne, hdd]
    · have hdf : cfg.deinitDecref = false := by simpa using hdd
      have := ih (rstep cfg s .discard) (by simp [rstep, hne, hdf]; omega)
      refine ⟨this.1, ?_⟩
      rw [this.2]; simp [rstep, hne, hdf]

/-- ★ released after the last reference is dropped, undelivered messages included: from ANY state the protocol can be in,
    once no thread references the object any more, the collectors of the threads that list it and the finalizers of the
    channels that still carry a copy - sweeps first, then the carriers - leave it freed (whoever comes last frees it) -/
theorem shared_released_after_drops_and_discards (cfg : RCfg) (hc : cfg.increfBeforeSend = true) (hk : cfg.recvKnownDecref = true)
    (hd : cfg.deinitDecref = true) (hz : cfg.decrefFreesAtZero = true) (hp : cfg.packFailDecref = true) (s : RSt) (hi : RInv s) (hr : RReach s)
    (hl : RLive s)
    (hnd : s.holds.Nodup) (hre : ∀ t, s.reach t = false) :
    (rrun cfg (s.holds.map RAct.sweep ++ List.replicate s.transit RAct.discard) s).freed = true := by
  have h1 := sweeps_empty_holds cfg s.holds s rfl hnd hre
  have h2 := discards_empty_transit cfg s.transit (rrun cfg (s.holds.map RAct.sweep) s) h1.2.1
  have hfin := never_stranded_from cfg hc hk hd hz hp (s.holds.map RAct.sweep ++ List.replicate s.transit RAct.discard) s hi hr hl
  apply hfin
  · rw [rrun_append, h2.2, h1.1]
  · rw [rrun_append]; exact h2.1

example : (rrun { increfBeforeSend := true, recvKnownDecref := true }
    ([.send 0, .send 0, .recv 1, .drop 0, .drop 1] ++ ([1, 0].map RAct.sweep ++ List.replicate 1 RAct.discard)) {}).freed = true := by decide

/-- the clean-up unmarshal decrements WITHOUT finalizing at zero (repo e480e68 and before): thread 0 puts the object into a
    message nobody takes, drops it and collects; then the carrying channel is collected: count 0, in no table, in no
    message - and not freed.  Replayed on the implementation: corpus/C08/undelivered_shared_released.janet. -/
theorem stranded_counterexample :
    let s := rrun { increfBeforeSend := true, recvKnownDecref := true, deinitDecref := true, decrefFreesAtZero := false }
      [.send 0, .drop 0, .sweep 0, .discard] {}
    s.freed = false ∧ s.holds = [] ∧ s.transit = 0 ∧ s.refcount = 0 := by
  decide

/-- the finalizer of the carrying channel frees the packed buffers without the DECREF unmarshal: the in-transit reference is
    never given back - after the last holder dropped the object and collected, the count is still 1: never released -/
theorem deinit_leak_counterexample :
    let s := rrun { increfBeforeSend := true, recvKnownDecref := true, deinitDecref := false, decrefFreesAtZero := true }
      [.send 0, .discard, .drop 0, .sweep 0] {}
    s.freed = false ∧ s.holds = [] ∧ s.transit = 0 ∧ s.refcount = 1 := by
  decide

/-- a give that fails to pack after the pointer was written into the buffer, without the clean-up of the partial buffer
    (repo ≤ fe0649e): the reference taken for the transit is never given back - after the only holder dropped the object and
    collected, the count is still 1 -/
theorem pack_failure_leak_counterexample :
    let s := rrun { increfBeforeSend := true, recvKnownDecref := true, packFailDecref := false } [.failSend 0, .drop 0, .sweep 0] {}
    s.freed = false ∧ s.holds = [] ∧ s.transit = 0 ∧ s.refcount = 1 := by
  decide

example : (rrun { increfBeforeSend := true, recvKnownDecref := true } [.failSend 0, .send 0, .failSend 0, .discard, .drop 0, .sweep 0] {}).freed = true := by decide

-- non-vacuity: both orders of "holder goes away" / "carrier is finalized" end with the object freed, never used after
example : (rrun { increfBeforeSend := true, recvKnownDecref := true } [.send 0, .drop 0, .sweep 0, .discard] {}).freed = true := by decide
example : (rrun { increfBeforeSend := true, recvKnownDecref := true } [.send 0, .discard, .use 0, .drop 0, .sweep 0] {}).freed = true ∧
    (rrun { increfBeforeSend := true, recvKnownDecref := true } [.send 0, .discard, .use 0, .drop 0, .sweep 0] {}).useAfterFree = false := by decide
example : (rrun { increfBeforeSend := true, recvKnownDecref := true } [.send 0, .send 0, .recv 1, .discard, .drop 0, .sweep 0] {}).freed = false := by decide

/-! ### lock discipline of the threaded-channel functions (path-level certificate, `Thread/LockCert.lean`) -/

open JanetModel.Thread.LockCert in
/-- ★ every path through an accepted function - every branch, any number of loop iterations, a panic at any panic site or
    inside a `..._with_lock` callee - ends by leaving the function with the channel mutex RELEASED; on the way the mutex is
    never taken while held, never released while not held, the channel's queues / `closed` / `limit` are only touched while
    it is held, and the path released exactly as often as it acquired (+1 when the function is entered with the lock held):
    every acquisition is released exactly once.  `accepts` is evaluated by the kernel on the statement trees regenerated
    from ev.c (`Current.lock_discipline_current`). -/
theorem lock_paths_release_exactly_once (pre : Bool) (body : LS) (hacc : accepts pre body = true) (o : Out)
    (hr : Run (.seq body .ret) { held := pre } o) :
    ∃ s', o = .exit s' ∧ s'.held = false ∧ s'.rel = s'.acq + b2n pre := by
  have hc : chk (.seq body .ret) pre none = some none := by simpa [accepts] using hacc
  have g := chk_sound hr none none hc
  cases o with
  | fall s' => simp [Good] at g
  | brk s' => simp [Good] at g
  | cont s' => simp [Good] at g
  | fault => exact absurd g (by simp [Good])
  | exit s' =>
    have hh : s'.held = false := g
    have hcnt := run_counts hr s' rfl
    refine ⟨s', rfl, hh, ?_⟩
    simp only [hh, b2n] at hcnt ⊢
    simp at hcnt
    omega

open JanetModel.Thread.LockCert in
/-- the checker rejects the two classic slips: an early return that keeps the mutex (seed C08-3: the closed-channel panic
    of janet_channel_push_with_lock without its unlock), and a second unlock on one path -/
theorem lock_discipline_counterexamples :
    accepts true (.seq (.ite true .panic .skip) (.seq .unlock .ret)) = false ∧
    accepts false (.seq .lock (.seq (.ite true (.seq .unlock .ret) .skip) (.seq .unlock (.seq .unlock .ret)))) = false ∧
    accepts false (.seq .access (.seq .lock (.seq .unlock .ret))) = false := by
  decide

open JanetModel.Thread.LockCert in
example : accepts true (.seq (.ite true (.seq .unlock .panic) .skip) (.seq (.loop true (.ite false .brk .skip)) (.seq .unlock .ret))) = true := by decide
open JanetModel.Thread.LockCert in
example : Run (.seq (.seq .lock (.seq .access .unlock)) .ret) { held := false } (.exit { held := false, acq := 1, rel := 1 }) :=
  .seq_fall _ _ _ _ _ (.seq_fall _ _ _ _ _ (.lock_ok _ rfl) (.seq_fall _ _ _ _ _ (.access_ok _ rfl) (.unlock_ok _ rfl))) (.ret _)

end JanetModel.Props.C08
