/- C05 — fibers follow the coroutine and signal protocol: property theorems over Fiber/Model.lean + Fiber/Boot.lean.
   Every statement quantifies over all machine states / stacks (nesting depths) / scripts; constants (signal and
   status numbers, mask letters, refused-status sets) come from Gen/Fiber.lean, regenerated from the C on every run. -/
import JanetModel.Fiber.Macros
import JanetModel.Fiber.GuardLemmas
import JanetModel.Fiber.GuardCleanup
import JanetModel.Fiber.SchedLemmas
import JanetModel.Fiber.GuardSchedLemmas
import JanetModel.Fiber.Dyn
import JanetModel.Fiber.Named
namespace JanetModel.Props.C05
open JanetModel.Fiber JanetModel.Gen.Fiber

/-! ## finished fibers -/

/-- ★ A finished fiber (dead, error, user0-4) is refused by `janet_check_can_resume`, for resume and for cancel. -/
theorem finished_never_resumes (fp : Fiber) (isCancel : Bool) (h : isFinished fp.status = true) :
    (checkCanResume fp isCancel).isSome = true := by
  unfold isFinished at h
  have h1 : refuseResume.contains fp.status = true := ((Bool.and_eq_true _ _).mp h).1
  unfold checkCanResume
  by_cases hr : fp.root = true
  · simp [hr]
  · rw [if_neg hr, if_pos h1]; rfl

/-- … and at instruction level: `(resume f a)` / `(cancel f a)` on a finished fiber raises an error in the caller;
    the finished fiber is not entered (the state handed to `raise` is the unchanged `s`). -/
theorem resume_finished_raises (s : State) (p : FId) (fp : Fiber) (rest : List FId) (l : Nat) (k : Tm) (f a : Atom)
    (g : FId) (fg : Fiber) (hf : evalAtom s fp.env f = .fib g) (hg : s.fiber? g = some fg) (hfin : isFinished fg.status = true) :
    (∃ msg, execPrim s p fp rest l (.resume f a) k = raise s p fp rest sigError msg) ∧
    (∃ msg, execPrim s p fp rest l (.cancel f a) k = raise s p fp rest sigError msg) := by
  have h0 := finished_never_resumes fg false hfin
  have h1 := finished_never_resumes fg true hfin
  constructor
  · cases hc : checkCanResume fg false with
    | none => simp [hc] at h0
    | some msg => exact ⟨msg, by simp [execPrim, hf, hg, hc]⟩
  · cases hc : checkCanResume fg true with
    | none => simp [hc] at h1
    | some msg => exact ⟨msg, by simp [execPrim, hf, hg, hc]⟩

/-- Non-vacuity: the finished statuses are exactly dead, error, user0 … user4; new / pending / user5-9 / debug are resumable. -/
example : (List.range 16).filter isFinished = [stDead, stError, stUser0, stUser1, stUser2, stUser3, stUser4] := by decide
example : checkCanResume { status := stPending, mask := 0, ctl := .run (.ret (.lit .nil)) } false = none := by decide
example : checkCanResume { status := stNew, mask := 0, ctl := .run (.ret (.lit .nil)) } true = none := by decide

/-! ## a task of the event loop reached through a child link (finding 6) -/

/-- ★ (patched tree: `cancelWalkRefusesRoot`) `(cancel f a)` whose walk to the innermost child meets a fiber with
    JANET_FIBER_FLAG_ROOT — a task of the event loop linked as a child by `propagate`, or by `ev/go` on a fiber that already
    was somebody's child — is refused before anything is marked: the only write is the caller's own block / child link
    (`fiber->child = child` in JOP_CANCEL), no fiber gets a pending signal, no status changes, and the refusal text goes
    through the mask test of `g` like any signal of `g` (`unwind`).  On the tree before the fix the flag is `false` (the
    walk marked the task — in C: overwrote its ROOT / SUSPENDED scheduler bits — and `janet_continue` then ran it on the
    canceller's C stack); corpus/C05/cancel-chain-root-task.janet is that execution on the implementation. -/
theorem cancel_root_chain_refused_unmarked (s : State) (p : FId) (fp : Fiber) (rest : List FId) (l : Nat) (k : Tm) (f a : Atom)
    (g : FId) (fg : Fiber) (hf : evalAtom s fp.env f = .fib g) (hg : s.fiber? g = some fg) (hok : checkCanResume fg true = none)
    (hflag : cancelWalkRefusesRoot = true)
    (hroot : walkMeetsRoot (s.setFiber p { fp with ctl := .wait (.bindK l k false), child := some g })
               (3 * chainFuel (s.setFiber p { fp with ctl := .wait (.bindK l k false), child := some g })) g g 0 = true) :
    execPrim s p fp rest l (.cancel f a) k =
      unwind (s.setFiber p { fp with ctl := .wait (.bindK l k false), child := some g }) (p :: rest) g sigError cancelRootMsg := by
  have hr : cancelRefusedRoot (s.setFiber p { fp with ctl := .wait (.bindK l k false), child := some g }) g = true := by
    unfold cancelRefusedRoot
    rw [hflag, hroot]; rfl
  simp only [execPrim, hf, hg, hok]
  rw [if_pos hr]

/-- … and the walk itself: a root fiber below `g` is found through any number of suspended non-root links; a running
    (alive) descendant ends the walk first, as in the marking walk.  Non-vacuity: fiber 1 propagated from the suspended
    task 0 (`child := some 0`), fiber 2 was suspended by 1's signal; the walks from 2 and from 1 meet the task, the walk from
    the task itself (the event loop's own `ev/cancel`) does not refuse it. -/
example :
    let t : Fiber := { status := stUser9, mask := 0, ctl := .wait (.bindK 0 (.ret (.lit .nil)) false), root := true }
    let w : Fiber := { status := stUser9, mask := 0, ctl := .wait (.bindK 0 (.ret (.lit .nil)) false), child := some 0 }
    let o : Fiber := { status := stUser9, mask := 0, ctl := .wait (.bindK 0 (.ret (.lit .nil)) false), child := some 1 }
    let s : State := { fibers := [t, w, o] }
    walkMeetsRoot s (3 * chainFuel s) 2 2 0 = true ∧ walkMeetsRoot s (3 * chainFuel s) 1 1 0 = true ∧
    walkMeetsRoot s (3 * chainFuel s) 0 0 0 = false ∧
    walkMeetsRoot { fibers := [{ t with status := stAlive }, w, o] } 15 2 2 0 = false := by decide

/-! ## values -/

/-- ★ Values pass unchanged (downwards, through any depth of child chaining): `janet_continue_no_check f v` either
    enters run_vm of the innermost fiber of the chain with exactly `v`, or is refused with an error, or stops. -/
theorem values_pass_unchanged_in_order : ∀ (fuel : Nat) (s : State) (stk : List FId) (f : FId) (v : Val),
    (∃ s' stk' d fd, contNoCheck fuel s stk f v = startRun s' stk' d fd v) ∨
    (∃ s' stk' c msg, contNoCheck fuel s stk f v = unwind s' stk' c sigError msg) ∨
    (∃ s' h, contNoCheck fuel s stk f v = State.stop s' h) := by
  intro fuel
  induction fuel with
  | zero => intro s stk f v; exact Or.inr (Or.inr ⟨s, _, rfl⟩)
  | succ n ih =>
    intro s stk f v
    unfold contNoCheck
    split
    · exact Or.inr (Or.inr ⟨s, _, rfl⟩)
    · simp only []
      split
      · split
        · exact Or.inr (Or.inr ⟨_, _, rfl⟩)
        · split
          · exact Or.inr (Or.inl ⟨_, _, _, _, rfl⟩)
          · exact ih _ _ _ _
      · exact Or.inl ⟨_, _, _, _, rfl⟩

/-- … and `startRun` / `deliverValue` hand that same value to the blocked instruction: it is bound, unchanged, to the
    next slot of the receiving fiber, whose code continues with the instruction's continuation. -/
theorem deliver_binds_value (s : State) (p : FId) (fp : Fiber) (l : Nat) (k : Tm) (v : Val) (hp : p < s.fibers.length) :
    (deliverValue s p fp (.bindK l k false) v).fiber? p = some { fp with env := fp.env ++ [v], ctl := .run k } := by
  unfold deliverValue
  rw [fiber?_log]
  unfold State.setFiber State.fiber?
  simp [hp]

/-- ★ The first resume value reaches the fiber function unchanged, for every signature shape `fiber/new` accepts
    (no parameters, required, `&opt`, `& rest`, `&keys`, combinations): with at least one positional parameter — required
    OR optional — parameter 0 is exactly `v` (nil included); with only a collector, `& rest` receives `(v)`; every other
    positional parameter keeps its default nil; the number of slots is that of the signature.  Mentions the regenerated
    `firstValueUsesArity`: with `min_arity` in place of `arity` in janet_continue_no_check the first conjunct is false for
    `(fn [&opt x] …)` and this proof does not check. -/
theorem first_resume_value_bound (sg : Sig) (v : Val) :
    (0 < sg.arity → (firstParams sg v)[0]? = some v) ∧
    (sg.arity = 0 → sg.rest ≠ 0 → v ≠ .nil → (firstParams sg v)[0]? = some (.single v)) ∧
    (firstParams sg v).length = sg.arity + (if sg.rest = 0 then 0 else 1) ∧
    (∀ i, 0 < i → i < sg.arity → (firstParams sg v)[i]? = some .nil) := by
  have hlen : (baseParams sg).length = sg.arity + (if sg.rest = 0 then 0 else 1) := by
    unfold baseParams
    by_cases h0 : sg.rest = 0
    · simp [h0]
    · by_cases h1 : sg.rest = 1 <;> simp [h0, h1]
  have hget : ∀ i, i < sg.arity → (baseParams sg)[i]? = some Val.nil := by
    intro i hi
    unfold baseParams
    rw [List.getElem?_append_left (by simpa using hi)]; simp [hi]
  refine ⟨?_, ?_, ?_, ?_⟩
  · intro ha
    unfold firstParams
    simp only [firstValueUsesArity, if_true]
    by_cases hv : v = .nil
    · subst hv; simp only [if_true]; exact hget 0 ha
    · simp only [hv, if_false, ha, if_true]
      rw [List.getElem?_set_self (by rw [hlen]; omega)]
  · intro ha hr hv
    unfold firstParams
    simp only [firstValueUsesArity, if_true, hv, if_false, ha, Nat.lt_irrefl, ne_eq, hr, not_false_eq_true]
    rw [List.getElem?_set_self (by rw [hlen]; simp [hr])]
  · unfold firstParams
    simp only [firstValueUsesArity, if_true]
    split
    · exact hlen
    · split
      · rw [List.length_set]; exact hlen
      · split
        · rw [List.length_set, hlen]; simp_all
        · exact hlen
  · intro i hi hia
    unfold firstParams
    simp only [firstValueUsesArity, if_true]
    split
    · exact hget i hia
    · split
      · rw [List.getElem?_set_ne (by omega)]; exact hget i hia
      · split
        · rw [List.getElem?_set_ne (by omega)]; exact hget i hia
        · exact hget i hia

/-- … and that is what the machine does at a new fiber's first resume: its environment is extended by exactly these slots -/
theorem first_resume_enters (s : State) (stk : List FId) (f : FId) (ff : Fiber) (v : Val) (t : Tm)
    (hlen : f < s.fibers.length) (hpend : ff.pending = none) (hctl : ff.ctl = .run t) :
    ((startRun s stk f ff v).fiber? f).map (·.env) = some (ff.env ++ firstParams ff.sig v) := by
  unfold startRun
  simp only [hpend, hctl]
  unfold State.setFiber State.fiber?
  simp [hlen]

example : firstParams { arity := 1, minArity := 0 } (.int 7) = [.int 7] := by decide
example : firstParams { arity := 1, minArity := 0, rest := 1 } (.int 7) = [.int 7, .unit] := by decide
example : firstParams { arity := 0, minArity := 0, rest := 1 } (.int 7) = [.single (.int 7)] := by decide
example : firstParams { arity := 0, minArity := 0, rest := 2 } .nil = [.estruct] := by decide
example : firstParams {} (.int 7) = [] := by decide

/-! ### `&named` parameters -/

theorem namedPrologue_estruct : ∀ (keys : List String), namedPrologue .estruct keys = .ok (keys.map fun _ => Val.nil)
  | [] => rfl
  | k :: ks => by simp [namedPrologue, inKey, namedPrologue_estruct ks]

/-- ★ `&named` parameters never receive the first-resume value.  With at least one positional parameter (required or
    `&opt`) the value goes to parameter 0 unchanged and every named parameter is nil; with a nil first value every
    parameter is nil.  (All key lists, all arities.) -/
theorem named_params_at_first_resume (arity minArity : Nat) (keys : List String) (v : Val) (h : 0 < arity ∨ v = .nil) :
    ∃ ps, firstResumeNamed arity minArity keys v = .ok (ps, keys.map fun _ => Val.nil) ∧ ps.length = arity ∧
      (0 < arity → ps[0]? = some v) := by
  have hb : (baseParams { arity := arity, minArity := minArity, rest := 2 }) = List.replicate arity Val.nil ++ [Val.estruct] := by
    simp [baseParams]
  have hslot : (firstParams { arity := arity, minArity := minArity, rest := 2 } v).getD arity .nil = .estruct ∧
      ((firstParams { arity := arity, minArity := minArity, rest := 2 } v).take arity).length = arity ∧
      (0 < arity → ((firstParams { arity := arity, minArity := minArity, rest := 2 } v).take arity)[0]? = some v) := by
    unfold firstParams
    simp only [firstValueUsesArity, if_true, hb]
    by_cases hv : v = .nil
    · subst hv
      simp only [if_true]
      refine ⟨by simp [List.getD], by simp, fun ha => ?_⟩
      rw [List.getElem?_take_of_lt ha, List.getElem?_append_left (by simpa using ha)]; simp [ha]
    · have ha : 0 < arity := by rcases h with h | h; exact h; exact absurd h hv
      simp only [hv, if_false, ha, if_true]
      refine ⟨?_, by simp, fun _ => ?_⟩
      · simp [List.getD, List.getElem?_set, List.getElem?_append_right, Nat.ne_of_lt ha]
      · rw [List.getElem?_take_of_lt ha]; simp [ha]
  unfold firstResumeNamed
  simp only [hslot.1, namedPrologue_estruct]
  exact ⟨_, rfl, hslot.2.1, hslot.2.2⟩

/-- ★ … and a fiber function with ONLY named parameters that is first resumed with a non-nil value fails before its body
    starts: janet_continue_no_check's VARARG branch replaces the `{}` of the struct slot by the tuple `(v)`, and the
    prologue's first `(in slot :k)` raises.  (Behaviour of the current tree, modelled and compared with the implementation
    on every run; the value is not delivered anywhere — there is no parameter it could go to.) -/
theorem named_only_nonnil_first_value_fails (minArity : Nat) (k : String) (ks : List String) (v : Val) (hv : v ≠ .nil) :
    firstResumeNamed 0 minArity (k :: ks) v = .error ("expected integer key for tuple in range [0, 1), got :" ++ k) := by
  unfold firstResumeNamed firstParams
  simp [firstValueUsesArity, baseParams, hv, List.getD, namedPrologue, inKey]

example : firstResumeNamed 1 0 ["b", "a"] (.int 7) = .ok ([.int 7], [.nil, .nil]) := by rfl
example : firstResumeNamed 0 0 ["b", "a"] (.int 7) = .error "expected integer key for tuple in range [0, 1), got :b" := by rfl

/-! ## signals: nearest accepting fiber, and no other -/

/-- The signal `(sig, v)` raised by `c` passes the callers `pre` (innermost first): each is blocked, not inside a
    janet_call, and the fiber directly below it does not have `sig` in its mask.  `s'` is `s` where exactly those callers
    took status `sig` (their code, environment and continuation untouched); `c'` is the outermost fiber passed. -/
inductive Passes (sig : Nat) (v : Val) : State → FId → List FId → State → FId → Prop where
  | nil (s : State) (c : FId) : Passes sig v s c [] s c
  | cons (s : State) (c p : FId) (pre : List FId) (s' : State) (c' : FId) (fp fc : Fiber) (cont : Cont) :
      s.fiber? p = some fp → s.fiber? c = some fc → fp.ctl = .wait cont → inCcall fp = false →
      sig ≠ sigOk → testBit fc.mask sig = false →
      Passes sig v (s.setFiber p { fp with status := sig, last := if fp.passThrough = false then v else fc.last,
                                           child := if (staleChildCleared && fp.passThrough && fc.status == stAlive) = true then none else fp.child,
                                           passThrough := false })
        p pre s' c' →
      Passes sig v s c (p :: pre) s' c'

theorem unwind_passes {sig : Nat} {v : Val} {s : State} {c : FId} {pre : List FId} {s' : State} {c' : FId}
    (h : Passes sig v s c pre s' c') (rest : List FId) :
    unwind s (pre ++ rest) c sig v = unwind s' rest c' sig v := by
  induction h with
  | nil s c => rfl
  | cons s c p pre s' c' fp fc cont hp hc hw hcc hsig hrej _ ih =>
    rw [List.cons_append, unwind]
    simpa [hp, hc, hw, hcc, hsig, hrej] using ih

/-- ★ A signal raised inside nested fibers is delivered to the nearest enclosing fiber whose mask accepts it:
    after passing every rejecting level (any number of them — induction on the nesting depth), the first fiber `x`
    whose mask has the bit hands the value to ITS resumer `q`, which continues with exactly that value. -/
theorem signal_delivered_to_nearest_accepting {sig : Nat} {v : Val} {s : State} {c : FId} {pre : List FId} {s' : State} {x : FId}
    (h : Passes sig v s c pre s' x) (q : FId) (rest : List FId) (fq fx : Fiber) (cont : Cont)
    (hq : s'.fiber? q = some fq) (hx : s'.fiber? x = some fx) (hw : fq.ctl = .wait cont)
    (hacc : testBit fx.mask sig = true) (halive : fq.passThrough = false) (hnn : cont.isNext = false) :
    unwind s (pre ++ q :: rest) c sig v
      = deliverValue { s' with stack := q :: rest } q { fq with child := none } cont v := by
  rw [unwind_passes h, unwind]
  simp [hq, hx, hw, hacc, halive, hnn]

/-- ★ … and no other fiber sees it: a fiber that is not one of the callers the signal is handed to is left exactly
    as it was (status, code, environment, child, pending signal), whatever the depth. -/
theorem no_other_fiber_sees_it (stack : List FId) (s : State) (c : FId) (sig : Nat) (v : Val) (g : FId) (hg : g ∉ stack) :
    (unwind s stack c sig v).fiber? g = s.fiber? g :=
  unwind_other stack s c sig v g hg

/-- … in particular callers outside the passed prefix, other than the catcher's resumer, are untouched as well. -/
theorem delivery_touches_only_receiver (s : State) (q : FId) (fq : Fiber) (cont : Cont) (v : Val) (g : FId) (hg : g ≠ q) :
    (deliverValue s q fq cont v).fiber? g = s.fiber? g :=
  deliverValue_other s q fq cont v g hg

/-- The documented meaning of the `fiber/new` mask letters, checked against the regenerated table and bit layout. -/
theorem mask_letters_sound :
    (∀ sig, sig < 14 → testBit (maskOfFlags [116]) sig = [sigError, sigUser0, sigUser1, sigUser2, sigUser3, sigUser4].contains sig) ∧
    (∀ sig, sig < 14 → testBit (maskOfFlags [97]) sig = (sig != sigOk)) ∧
    (∀ sig, sig < 14 → testBit (maskOfFlags [101]) sig = (sig == sigError)) ∧
    (∀ sig, sig < 14 → testBit (maskOfFlags [121]) sig = (sig == sigYield)) ∧
    (∀ sig, sig < 14 → testBit (maskOfFlags [117]) sig = (sigUser0 ≤ sig && sig ≤ sigUser9)) ∧
    (∀ n, n < 10 → ∀ sig, sig < 14 → testBit (maskOfFlags [48 + n]) sig = (sig == userBase + n)) ∧
    (∀ sig, sig < 14 → testBit (maskOfFlags [105, 112]) sig = false) ∧
    userBase = sigUser0 ∧ userMax = 9 ∧ cancelSignal = sigError ∧
    (∀ i, i < 14 → i ≠ 12 → i ≠ 13 → signalNames.getD i "" = statusNames.getD i "" ∨ i = 0 ∨ i = 3) := by
  decide

/-! ## cleanup forms -/

/-- the instruction at which the parent of a `defer` body is blocked: `(def r (resume f))`, then the cleanup `form` -/
def deferCont (n : Nat) (form : Tm) : Cont :=
  .bindK 0 (.block 0 form (.prim 0 (.status (.var n))
    (.ite (.var (n + 3)) (kwA "dead") (.ret (.var (n + 1)))
      (.prim 0 (.propagate (.var (n + 1)) (.var n)) (.ret (.var (n + 4))))))) false

/-- `deferTm` is: create the body fiber with mask :ti, then block in `deferCont`. -/
theorem deferTm_shape (n l : Nat) (form body k : Tm) :
    deferTm n l form body k = .block l (.new 0 body flagsTI (.prim 0 (.resume (.var n) nilA)
      (match deferCont n form with | .bindK _ k' _ => k' | .loopK .. => .ret nilA))) k := rfl

/-- signals after which a fiber is finished / still resumable -/
def exitSignals : List Nat := [sigOk, sigError, sigUser0, sigUser1, sigUser2, sigUser3, sigUser4]
def suspendSignals : List Nat := [sigDebug, sigYield, sigUser5, sigUser6, sigUser7, sigUser8, sigUser9]

/-- One arrival of a signal of the body fiber `f` (mask :ti) at the parent `p` blocked in `cont`
    (the transducer step behind defer / edefer / with):
    * exit signal (return, error — which is also what `cancel` injects —, user0-4): the parent continues with the code
      after the resume, i.e. the cleanup form runs next, with the value bound; the body fiber is then finished, so by
      `finished_never_resumes` no second arrival can follow: **once**;
    * any other signal (yield, user5-9, debug): the parent does NOT run; it takes the signal's status, stays blocked at
      the same instruction with the same continuation, and the signal goes further up: **not before the exit**. -/
theorem cleanup_arrival (s : State) (p f : FId) (rest : List FId) (fp ff : Fiber) (cont : Cont) (sig : Nat) (v : Val)
    (hp : s.fiber? p = some fp) (hf : s.fiber? f = some ff) (hw : fp.ctl = .wait cont) (hnn : cont.isNext = false)
    (hmask : ff.mask = maskOfFlags flagsTI) (halive : fp.passThrough = false) (hcc : inCcall fp = false) :
    (sig ∈ exitSignals →
      unwind s (p :: rest) f sig v = deliverValue { s with stack := p :: rest } p { fp with child := none } cont v) ∧
    (sig ∈ suspendSignals →
      unwind s (p :: rest) f sig v
        = unwind (s.setFiber p { fp with status := sig, last := v }) rest p sig v) := by
  constructor
  · intro hs
    have hcase : sig = sigOk ∨ testBit ff.mask sig = true := by
      rw [hmask]
      simp only [exitSignals, List.mem_cons, List.mem_nil_iff, or_false] at hs
      rcases hs with h | h | h | h | h | h | h <;> subst h <;> decide
    rw [unwind]
    simp [hp, hf, hw, hcase, halive, hnn]
  · intro hs
    have hrej : sig ≠ sigOk ∧ testBit ff.mask sig = false := by
      rw [hmask]
      simp only [suspendSignals, List.mem_cons, List.mem_nil_iff, or_false] at hs
      rcases hs with h | h | h | h | h | h | h <;> subst h <;> decide
    rw [unwind]
    simp [hp, hf, hw, hrej.1, hrej.2, halive, hcc]

/-- one arrival at a `defer` parent, spelled out on the parent's record (the whole-execution statement is
    `defer_runs_exactly_once` below) -/
theorem defer_arrival (n : Nat) (form : Tm) (s : State) (p f : FId) (rest : List FId) (fp ff : Fiber)
    (sig : Nat) (v : Val) (hp : s.fiber? p = some fp) (hf : s.fiber? f = some ff) (hw : fp.ctl = .wait (deferCont n form))
    (hmask : ff.mask = maskOfFlags flagsTI) (halive : fp.passThrough = false) (hcc : inCcall fp = false) (hlen : p < s.fibers.length) :
    (sig ∈ exitSignals →
      (unwind s (p :: rest) f sig v).fiber? p
        = some { fp with child := none, env := fp.env ++ [v],
                         ctl := .run (.block 0 form (.prim 0 (.status (.var n))
                            (.ite (.var (n + 3)) (kwA "dead") (.ret (.var (n + 1)))
                              (.prim 0 (.propagate (.var (n + 1)) (.var n)) (.ret (.var (n + 4))))))) } ∧
      isFinished sig = true) ∧
    (sig ∈ suspendSignals → p ∉ rest →
      (unwind s (p :: rest) f sig v).fiber? p = some { fp with status := sig, last := v } ∧ isFinished sig = false) := by
  have h := cleanup_arrival s p f rest fp ff (deferCont n form) sig v hp hf hw rfl hmask halive hcc
  constructor
  · intro hs
    constructor
    · rw [h.1 hs]
      exact deliver_binds_value _ p _ 0 _ v hlen
    · simp only [exitSignals, List.mem_cons, List.mem_nil_iff, or_false] at hs
      rcases hs with h | h | h | h | h | h | h <;> subst h <;> decide
  · intro hs hnr
    constructor
    · rw [h.2 hs, unwind_other _ _ _ _ _ _ hnr]
      unfold State.setFiber State.fiber?
      simp [hlen]
    · simp only [suspendSignals, List.mem_cons, List.mem_nil_iff, or_false] at hs
      rcases hs with h | h | h | h | h | h | h <;> subst h <;> decide


/-- `edefer` and `with` create the body fiber with the same mask :ti -/
theorem edefer_mask_facts (n l : Nat) (form body k : Tm) :
    (∃ K, edeferTm n l form body k = .block l (.new 0 body flagsTI (.prim 0 (.resume (.var n) nilA) K)) k) ∧
    (∀ sig, sig ∈ exitSignals → sig = sigOk ∨ testBit (maskOfFlags flagsTI) sig = true) ∧
    (∀ sig, sig ∈ suspendSignals → sig ≠ sigOk ∧ testBit (maskOfFlags flagsTI) sig = false) := by
  refine ⟨⟨_, rfl⟩, ?_, ?_⟩ <;> decide

theorem with_is_defer (n l : Nat) (ctor : Prim) (dtor body k : Tm) :
    withTm n l ctor dtor body k
      = .block l (.prim 0 ctor (deferTm (n + 1) 0 (.prim 0 (.pure (.var n)) dtor) body (.ret (.var (n + 1))))) k := rfl

/-- `try`: the body fiber has mask :ie — only an error (or the return) reaches the parent, whose next instruction
    tests `(= (fiber/status f) :error)`; every other signal, including user0-4 which finish the body, passes the
    parent by (it takes the same status and its catch clause never runs).
    This is the per-arrival lemma; the whole-execution statement is `try_catch_runs_exactly_once` below. -/
theorem try_arrival (s : State) (p f : FId) (rest : List FId) (fp ff : Fiber) (cont : Cont) (sig : Nat) (v : Val)
    (hp : s.fiber? p = some fp) (hf : s.fiber? f = some ff) (hw : fp.ctl = .wait cont) (hnn : cont.isNext = false)
    (hmask : ff.mask = maskOfFlags flagsIE) (halive : fp.passThrough = false) (hcc : inCcall fp = false) (hs : sig < 14) :
    ((sig = sigOk ∨ sig = sigError) →
      unwind s (p :: rest) f sig v = deliverValue { s with stack := p :: rest } p { fp with child := none } cont v) ∧
    (¬ (sig = sigOk ∨ sig = sigError) →
      unwind s (p :: rest) f sig v = unwind (s.setFiber p { fp with status := sig, last := v }) rest p sig v) := by
  constructor
  · intro h
    have hcase : sig = sigOk ∨ testBit ff.mask sig = true := by
      rw [hmask]; rcases h with h | h <;> subst h <;> decide
    rw [unwind]
    simp [hp, hf, hw, hcase, halive, hnn]
  · intro h
    have hrej : sig ≠ sigOk ∧ testBit ff.mask sig = false := by
      rw [hmask]
      have : ∀ n, n < 14 → ¬ (n = sigOk ∨ n = sigError) → n ≠ sigOk ∧ testBit (maskOfFlags flagsIE) n = false := by decide
      exact this sig hs h
    rw [unwind]
    simp [hp, hf, hw, hrej.1, hrej.2, halive, hcc]

/-! ## status -/

/-- ★ status_monotone, full strength: along EVERY execution (any script, any number of steps, from the initial state
    or from any state satisfying the machine invariant `Inv`: activation stack duplicate-free and all alive, pending
    signals well-formed) each fiber stays in the registry, keeps its mask, and its status only moves forward:
    `Fwd a b := a = b ∨ (a not finished ∧ b ≠ new)` — nothing ever returns to `new`, and a finished fiber
    (dead / error / user0-4) never changes status again.  Proof: `step_res` (Fiber/Invariant.lean) shows that one step
    preserves `Inv` and moves statuses forward, by induction over the depth of the caller chain (`unwind_res`) and of
    the child chain (`contNoCheck_res`).  Needs the patched janet_continue_no_check (`chainAliveMarked`). -/
theorem status_monotone (s : State) (hinv : Inv s) (n : Nat) (g : FId) (fg : Fiber) (hg : s.fiber? g = some fg) :
    ∃ fg', (run n s).fiber? g = some fg' ∧ Fwd fg.status fg'.status ∧ fg'.mask = fg.mask :=
  let ⟨fg', h1, h2, h3, _⟩ := (run_res n s hinv).1 g fg hg
  ⟨fg', h1, h2, h3⟩

/-- … in particular for every script from the initial state -/
theorem status_monotone_from_init (t : Tm) (flags : List Nat) (m n : Nat) (g : FId) (fg : Fiber)
    (hg : (run m (init t flags)).fiber? g = some fg) :
    ∃ fg', (run n (run m (init t flags))).fiber? g = some fg' ∧ Fwd fg.status fg'.status ∧ fg'.mask = fg.mask :=
  status_monotone _ (run_res m _ (init_inv t flags)).2 n g fg hg

/-- ★ once finished, finished for ever, with the same status -/
theorem finished_is_forever (s : State) (hinv : Inv s) (n : Nat) (g : FId) (fg : Fiber) (hg : s.fiber? g = some fg)
    (hfin : isFinished fg.status = true) : ∃ fg', (run n s).fiber? g = some fg' ∧ fg'.status = fg.status := by
  obtain ⟨fg', h1, h2, _⟩ := status_monotone s hinv n g fg hg
  refine ⟨fg', h1, ?_⟩
  rcases h2 with h | ⟨h, _⟩
  · exact h.symm
  · rw [hfin] at h; cases h

/-- the invariant is not vacuous: every initial state satisfies it, and so does every state reached from it -/
theorem reachable_inv (t : Tm) (flags : List Nat) (n : Nat) : Inv (run n (init t flags)) :=
  (run_res n _ (init_inv t flags)).2

/-- the first movement is `new → alive` (or, after a cancel, straight to the injected signal's status) -/
theorem new_becomes_alive (s : State) (stk : List FId) (f : FId) (ff : Fiber) (v : Val) (t : Tm)
    (hlen : f < s.fibers.length) (hpend : ff.pending = none) (hctl : ff.ctl = .run t) :
    ((startRun s stk f ff v).fiber? f).map (·.status) = some stAlive := by
  unfold startRun
  simp only [hpend, hctl]
  unfold State.setFiber State.fiber?
  simp [hlen]

/-- non-vacuity of the cleanup theorems: a concrete parent blocked in a defer, body fiber with mask :ti -/
example : ∃ (s : State) (fp ff : Fiber), s.fiber? 1 = some fp ∧ s.fiber? 2 = some ff ∧ fp.ctl = .wait (deferCont 0 (.ret nilA)) ∧
    ff.mask = maskOfFlags flagsTI ∧ fp.passThrough = false ∧ inCcall fp = false ∧ 1 < s.fibers.length :=
  ⟨{ fibers := [default, { status := stAlive, mask := 0, ctl := .wait (deferCont 0 (.ret nilA)) },
                { status := stAlive, mask := maskOfFlags flagsTI, ctl := .run (.ret nilA) }] }, _, _, rfl, rfl, rfl, rfl, rfl, rfl, by decide⟩

/-- the model really runs: a defer whose body yields, is cancelled, and whose cleanup then runs exactly once (label 6) -/
example :
    let body : Tm := .prim 3 (.pure (.lit (.int 10))) (.prim 4 (.yield (.lit (.int 11))) (.ret (.lit (.int 13))))
    let form : Tm := .prim 6 (.pure (.lit (.int 20))) (.ret (.lit (.int 21)))
    let fb : Tm := deferTm 0 7 form body (.ret (.var 0))
    let t : Tm := .new 1 fb [121] (.prim 8 (.resume (.var 0) (.lit (.int 30))) (.prim 9 (.cancel (.var 0) (.lit (.int 31))) (.ret (.var 2))))
    let s := run 200 (init t [97])
    ((s.trace.filter (fun e => e.l == 6)).length, s.halt.isSome) = (1, true) := by
  decide

/-! ## cleanup forms: composition over whole executions -/

/-- the conclusion of the cleanup theorems: after `n` steps from `s`, still blocked with the body not exited, or a first
    step `i ≤ n` at which the body is finished (for ever) and the code after the macro's resume is what `p` runs -/
def ExactlyOnce (p f : FId) (cont : Cont) (s : State) (n : Nat) : Prop :=
  Blk (maskOfFlags flagsTI) p f cont (run n s) (run n s).stack ∨
  ∃ i, i ≤ n ∧ (∀ j, j < i → Blk (maskOfFlags flagsTI) p f cont (run j s) (run j s).stack) ∧
    (Stuck (run i s) ∨
     (Exited p f cont (run i s) ∧ ∀ m, ∃ ff, (run m (run i s)).fiber? f = some ff ∧ isFinished ff.status = true))

/-- the same for a macro whose body fiber has an arbitrary mask `m` (try / protect :ie, prompt :i0, with-dyns :p): a third
    outcome exists — the body exited with a signal its mask does not hand to the parent (`Passed`: for `try` user0-4); then
    body AND parent are finished for ever with that status, the parent is never on the activation stack again, and the
    code after the resume (the catch clause) has not run and never will.
    `Stuck` = the model stopped on hang / unmodelled / ill-formed; control returning to the C caller (`done`) is not an escape. -/
def ExactlyOnceM (m : Nat) (p f : FId) (cont : Cont) (s : State) (n : Nat) : Prop :=
  Blk m p f cont (run n s) (run n s).stack ∨
  ∃ i, i ≤ n ∧ (∀ j, j < i → Blk m p f cont (run j s) (run j s).stack) ∧
    (Stuck (run i s) ∨
     (Exited p f cont (run i s) ∧ ∀ k, ∃ ff, (run k (run i s)).fiber? f = some ff ∧ isFinished ff.status = true) ∨
     (Passed m p f cont (run i s) ∧ ∀ k,
        (∃ ff, (run k (run i s)).fiber? f = some ff ∧ isFinished ff.status = true) ∧
        (∃ fp, (run k (run i s)).fiber? p = some fp ∧ isFinished fp.status = true) ∧
        ((run k (run i s)).halt = none → p ∉ (run k (run i s)).stack)))

theorem finished_forever' (s : State) (hinv : Inv s) (g : FId) (fg : Fiber) (hg : s.fiber? g = some fg)
    (hfin : isFinished fg.status = true) (k : Nat) : ∃ fg', (run k s).fiber? g = some fg' ∧ isFinished fg'.status = true := by
  obtain ⟨fg', h1, h2⟩ := finished_is_forever s hinv k g fg hg hfin
  exact ⟨fg', h1, h2 ▸ hfin⟩

/-- ★ whole-execution theorem for every fiber-based macro whose mask only accepts exit signals (`AccFin m`) -/
theorem macro_runs_exactly_once (m : Nat) (hm : AccFin m) (p f : FId) (cont : Cont) (s : State) (hinv : Inv s) (hne : p ≠ f)
    (hb : Blk m p f cont s s.stack) (hpriv : ∀ i, Priv p f (run i s)) (n : Nat) : ExactlyOnceM m p f cont s n := by
  unfold ExactlyOnceM
  rcases blocked_until_exit hm n s hinv hne hb hpriv with h | ⟨i, hi, hbefore, hat⟩
  · exact Or.inl h
  · refine Or.inr ⟨i, hi, hbefore, ?_⟩
    have hinv' := (run_res i s hinv).2
    rcases hat with h | h | h
    · exact Or.inl h
    · refine Or.inr (Or.inl ⟨h, fun k => ?_⟩)
      obtain ⟨⟨ff, hff, hfin⟩, _⟩ := h
      exact finished_forever' _ hinv' f ff hff hfin k
    · refine Or.inr (Or.inr ⟨h, fun k => ?_⟩)
      obtain ⟨ff, fp, hff, hfp, hfin, _, _, hst, _, _⟩ := h
      have hpf := finished_forever' _ hinv' p fp hfp (hst ▸ hfin) k
      refine ⟨finished_forever' _ hinv' f ff hff hfin k, hpf, fun hh hmem => ?_⟩
      obtain ⟨fp', h1, h2⟩ := hpf
      obtain ⟨x, hx1, hx2⟩ := ((run_res k _ hinv').2.2 hh).2 p hmem
      rw [h1] at hx1; cases hx1
      rw [hx2] at h2; exact absurd h2 (by decide)

/-- ★ `defer` / `edefer` / `with` — exactly once, on exit, for EVERY body script, EVERY exit path (return, error, user
    signals, cancel from anywhere, propagate, refusals, C re-entry coercion), EVERY interleaving with other fibers and
    any number of steps.  `p` is the fiber blocked in the macro's `(resume f)` (`Blk`: waiting in `cont`, child `f`, no
    pending signal, not inside a janet_call; `f` has mask :ti and has not exited).  Then at every later time either
    `p` is still blocked and `f` still has not exited (no cleanup yet, none missed), or there was a FIRST step `i` before
    which `p` was blocked all along and after which the body fiber is finished and the code following the resume
    (`contK cont`: for `defer` the cleanup form, for `edefer` the status test that guards it) is what `p` executes; and from
    then on `f` is finished for ever, so (`resume_finished_raises`) the macro's resume can never complete a second time.
    Hypothesis `Priv`: the body fiber is private to the macro — no other fiber has it as child, no instruction names it as
    its fiber operand, and no `cancel` walk ends on `p` (the gensym'd `f` of boot.janet guarantees the first two unless the
    body leaks `(fiber/current)`; the third can only fail on a cyclic child chain).  `priv_is_needed` shows the
    hypothesis cannot be dropped.  Needs the patched janet_continue_no_check (`chainAliveMarked`): on the unpatched tree
    the body can re-enter its own suspended ancestor and the statement is false (corpus/C05/ancestor-reentry.json). -/
theorem defer_runs_exactly_once (p f : FId) (cont : Cont) (s : State) (hinv : Inv s) (hne : p ≠ f)
    (hb : Blk (maskOfFlags flagsTI) p f cont s s.stack) (hpriv : ∀ i, Priv p f (run i s)) (n : Nat) : ExactlyOnce p f cont s n := by
  unfold ExactlyOnce
  rcases macro_runs_exactly_once _ accFin_TI p f cont s hinv hne hb hpriv n with h | ⟨i, hi, hbefore, hat⟩
  · exact Or.inl h
  · refine Or.inr ⟨i, hi, hbefore, ?_⟩
    rcases hat with h | h | ⟨h, _⟩
    · exact Or.inl h
    · exact Or.inr h
    · -- mask :ti hands every finishing signal to the parent: `Passed` cannot occur
      obtain ⟨ff, _, _, _, hfin, hlt, hrej, _⟩ := h
      rw [rejected_unfinished ff.status hlt hrej] at hfin; cases hfin

/-- what `p` executes after the exit: for `defer` the cleanup form itself … -/
theorem defer_next_is_cleanup (n : Nat) (form : Tm) :
    contK (deferCont n form) = .block 0 form (.prim 0 (.status (.var n))
      (.ite (.var (n + 3)) (kwA "dead") (.ret (.var (n + 1)))
        (.prim 0 (.propagate (.var (n + 1)) (.var n)) (.ret (.var (n + 4)))))) := rfl

/-- the instruction in which the parent of an `edefer` body is blocked -/
def edeferCont (n : Nat) (form : Tm) : Cont :=
  .bindK 0 (.prim 0 (.status (.var n))
    (.ite (.var (n + 2)) (kwA "dead") (.ret (.var (n + 1)))
      (.block 0 form (.prim 0 (.propagate (.var (n + 1)) (.var n)) (.ret (.var (n + 4))))))) false

/-- … for `edefer` the test `(= (fiber/status f) :dead)` that guards the cleanup form (so: cleanup iff the exit was abnormal) -/
theorem edefer_shape (n l : Nat) (form body k : Tm) :
    edeferTm n l form body k = .block l (.new 0 body flagsTI (.prim 0 (.resume (.var n) nilA) (contK (edeferCont n form)))) k := rfl

theorem defer_shape (n l : Nat) (form body k : Tm) :
    deferTm n l form body k = .block l (.new 0 body flagsTI (.prim 0 (.resume (.var n) nilA) (contK (deferCont n form)))) k := rfl


/-- ★ `edefer`: same statement with `edeferCont` — the code that runs at the exit is the status test guarding the form -/
theorem edefer_runs_exactly_once (p f : FId) (n : Nat) (form : Tm) (s : State) (hinv : Inv s) (hne : p ≠ f)
    (hb : Blk (maskOfFlags flagsTI) p f (edeferCont n form) s s.stack) (hpriv : ∀ i, Priv p f (run i s)) (m : Nat) :
    ExactlyOnce p f (edeferCont n form) s m :=
  defer_runs_exactly_once p f (edeferCont n form) s hinv hne hb hpriv m

/-- ★ `with`: `(def x ctor)` followed by `defer` one slot deeper (`with_is_defer`), destructor call as the form -/
theorem with_runs_exactly_once (p f : FId) (n : Nat) (dtor : Tm) (s : State) (hinv : Inv s) (hne : p ≠ f)
    (hb : Blk (maskOfFlags flagsTI) p f (deferCont (n + 1) (.prim 0 (.pure (.var n)) dtor)) s s.stack) (hpriv : ∀ i, Priv p f (run i s)) (m : Nat) :
    ExactlyOnce p f (deferCont (n + 1) (.prim 0 (.pure (.var n)) dtor)) s m :=
  defer_runs_exactly_once p f (deferCont (n + 1) (.prim 0 (.pure (.var n)) dtor)) s hinv hne hb hpriv m

/-- the hypotheses are satisfiable: run a fiber whose `defer` body yields; after that the parent (fiber 2) is blocked on
    the body fiber (fiber 3), which has not exited -/
example :
    let body : Tm := .prim 3 (.pure (.lit (.int 10))) (.prim 4 (.yield (.lit (.int 11))) (.ret (.lit (.int 13))))
    let form : Tm := .prim 6 (.pure (.lit (.int 20))) (.ret (.lit (.int 21)))
    let t : Tm := .new 1 (deferTm 0 7 form body (.ret (.var 0))) [121] (.prim 8 (.resume (.var 0) (.lit (.int 30))) (.ret (.var 1)))
    let s := run 12 (init t [97])
    (match s.fiber? 2, s.fiber? 3 with
     | some fp, some ff => decide (fp.child = some 3) && decide (fp.pending = none) && !inCcall fp && decide (ff.mask = maskOfFlags flagsTI)
                           && !ff.root && !isFinished ff.status && (match fp.ctl with | .wait c => !c.isNext | _ => false)
                           && !(s.stack.contains 2) && !(s.stack.contains 3) && decide (fp.status ≠ stAlive) && decide (ff.status ≠ stAlive)
     | _, _ => false) = true := by
  decide

/-- `Priv` cannot be dropped: if another fiber resumes the macro's body fiber directly (here the main fiber, through the
    registry), the body finishes while the parent is still blocked — neither "blocked with the body not exited" nor "exited
    with the cleanup next" holds, and the cleanup form (label 6) has not run. -/
theorem priv_is_needed :
    let body : Tm := .prim 3 (.pure (.lit (.int 10))) (.prim 4 (.yield (.lit (.int 11))) (.ret (.lit (.int 13))))
    let form : Tm := .prim 6 (.pure (.lit (.int 20))) (.ret (.lit (.int 21)))
    let t : Tm := .new 1 (deferTm 0 7 form body (.ret (.var 0))) [121]
      (.prim 8 (.resume (.var 0) (.lit (.int 30))) (.prim 9 (.resume (.glob 3) (.lit (.int 31))) (.prim 10 (.pure (.lit .nil)) (.ret (.var 2)))))
    let s := run 16 (init t [97])
    (match s.fiber? 2, s.fiber? 3 with
     | some fp, some ff => isFinished ff.status && (match fp.ctl with | .wait _ => true | _ => false) && decide (fp.child = some 3)
                           && decide ((s.trace.filter (fun e => e.l == 6)).length = 0)
     | _, _ => false) = true := by
  decide

/-! ## try / protect / prompt / with-dyns: whole executions -/

/-- ★ `try` — the catch clause runs exactly once iff the body exits with an error, on every exit path.  `p` is blocked in
    the macro's `(resume f)`, `f` (mask :ie) has not exited.  At every later time: still so; or a first step at which
    (a) the body's return / error (incl. the error `cancel` injects) reached `p`, which now runs the status test
        `try_next_is_status_test` — by `try_catch_iff_error`, two steps later it runs the catch clause iff `f` is :error and
        returns `r` otherwise — and `f` is finished for ever, so this happens once; or
    (b) the body exited with user0-4: the signal passed `p` by, body and parent are finished for ever with that status, `p`
        never runs again: the catch clause is not run, as documented (`try` only catches errors).
    Same `Priv` hypothesis as `defer_runs_exactly_once`. -/
theorem try_catch_runs_exactly_once (p f : FId) (n : Nat) (catch_ : Tm) (s : State) (hinv : Inv s) (hne : p ≠ f)
    (hb : Blk (maskOfFlags flagsIE) p f (tryCont n catch_) s s.stack) (hpriv : ∀ i, Priv p f (run i s)) (k : Nat) :
    ExactlyOnceM (maskOfFlags flagsIE) p f (tryCont n catch_) s k :=
  macro_runs_exactly_once _ accFin_IE p f _ s hinv hne hb hpriv k

theorem try_next_is_status_test (n : Nat) (catch_ : Tm) :
    contK (tryCont n catch_) = .prim 0 (.status (.var n))
      (.ite (.var (n + 2)) (kwA "error") (.prim 0 (.pure (.var (n + 1))) catch_) (.ret (.var (n + 1)))) := rfl

/-- ★ … and the decision taken after the exit: catch clause iff the body fiber's status is :error -/
theorem try_catch_iff_error {s : State} {p f : FId} {rest : List FId} {fp ff : Fiber} {n : Nat} {catch_ : Tm}
    (hh : s.halt = none) (hstk : s.stack = p :: rest) (hp : s.fiber? p = some fp) (hctl : fp.ctl = .run (contK (tryCont n catch_)))
    (hlen : fp.env.length = n + 2) (hn : fp.env[n]? = some (.fib f)) (hf : s.fiber? f = some ff) (hlt : ff.status < stNew) :
    ∃ fp', (run 2 s).fiber? p = some fp' ∧ fp'.env = fp.env ++ [Val.kw (statusName ff.status)] ∧
      fp'.ctl = .run (if ff.status = stError then (.prim 0 (.pure (.var (n + 1))) catch_) else (.ret (.var (n + 1)))) :=
  try_decides hh hstk hp hctl hlen hn hf hlt

/-- which exits of a `try` body reach the parent, which pass it by (regenerated mask letters) -/
theorem try_mask_facts :
    (∀ sig, sig < stNew → ((sig = sigOk ∨ testBit (maskOfFlags flagsIE) sig = true) ↔ (sig = sigOk ∨ sig = sigError))) ∧
    (∀ sig, sig < stNew → ((isFinished sig = true ∧ ¬ (sig = sigOk ∨ testBit (maskOfFlags flagsIE) sig = true)) ↔
        sig ∈ [sigUser0, sigUser1, sigUser2, sigUser3, sigUser4])) := by
  constructor <;> decide

/-- ★ `protect` (mask :ie): same protocol; after the exit the parent builds `[ok? r]` from the status test -/
theorem protect_runs_exactly_once (p f : FId) (n : Nat) (s : State) (hinv : Inv s) (hne : p ≠ f)
    (hb : Blk (maskOfFlags flagsIE) p f (protectCont n) s s.stack) (hpriv : ∀ i, Priv p f (run i s)) (k : Nat) :
    ExactlyOnceM (maskOfFlags flagsIE) p f (protectCont n) s k :=
  macro_runs_exactly_once _ accFin_IE p f _ s hinv hne hb hpriv k

/-- ★ `prompt` (mask :i0): the parent regains control exactly once, at the body's return or `(return tag v)` (= signal user0,
    from any depth below: `signal_delivered_to_nearest_accepting`); an error or user1-4 exit passes the prompt by and
    finishes it — so a `return` can never be answered twice and the code after the prompt's resume never runs early -/
theorem prompt_runs_exactly_once (p f : FId) (n : Nat) (tag : String) (s : State) (hinv : Inv s) (hne : p ≠ f)
    (hb : Blk (maskOfFlags flagsI0) p f (promptCont n tag) s s.stack) (hpriv : ∀ i, Priv p f (run i s)) (k : Nat) :
    ExactlyOnceM (maskOfFlags flagsI0) p f (promptCont n tag) s k :=
  macro_runs_exactly_once _ accFin_I0 p f _ s hinv hne hb hpriv k

theorem prompt_mask_facts :
    (∀ sig, sig < stNew → ((sig = sigOk ∨ testBit (maskOfFlags flagsI0) sig = true) ↔ (sig = sigOk ∨ sig = sigUser0))) ∧
    userBase + 0 = sigUser0 := by
  constructor <;> decide

/-- ★ `with-dyns` (mask :p = no signal accepted): the parent continues only when the body RETURNS; every other exit
    (error, cancel, user0-4) passes through and finishes the parent too; yields and user5-9 leave it blocked -/
theorem with_dyns_runs_exactly_once (p f : FId) (n : Nat) (s : State) (hinv : Inv s) (hne : p ≠ f)
    (hb : Blk (maskOfFlags flagsP) p f (withDynsCont n) s s.stack) (hpriv : ∀ i, Priv p f (run i s)) (k : Nat) :
    ExactlyOnceM (maskOfFlags flagsP) p f (withDynsCont n) s k :=
  macro_runs_exactly_once _ accFin_P p f _ s hinv hne hb hpriv k

/-- `generate` / `coro` (mask :yi) are NOT of this kind: a yield is handed to the resumer without finishing the body, so
    the hypothesis `AccFin` fails — and must fail: a generator is resumed many times.  What holds for them is the value
    protocol (`values_pass_unchanged_in_order`, `deliver_binds_value`) and `finished_never_resumes`. -/
theorem generate_mask_not_accFin : ¬ AccFin (maskOfFlags flagsYI) := by
  intro h
  have := h sigYield (by decide) (Or.inr (by decide))
  revert this; decide

/-! ## finally-style propagate -/

/-- ★ `(propagate x g)` re-raises: the running fiber leaves run_vm with signal = the status of `g` — for a finished `g`
    that IS the signal with which it exited (`janet_fiber_set_status(fiber, sig)`) — with the payload `x` unchanged, and
    with `g` linked as its child, so the original fiber's stack stays attached (stack traces walk `fiber->child`). -/
theorem propagate_reraises_original {s : State} {p f : FId} {rest : List FId} {fp ff : Fiber} {n l : Nat} {k : Tm} {a : Atom}
    (hh : s.halt = none) (hstk : s.stack = p :: rest) (hp : s.fiber? p = some fp)
    (hctl : fp.ctl = .run (.prim l (.propagate a (.var n)) k)) (hn : fp.env[n]? = some (.fib f)) (hf : s.fiber? f = some ff)
    (hst : ff.status ≤ propagateMaxStatus) (hnd : ff.status ≠ stDead) :
    step s = raise s p { fp with ctl := .wait (.bindK l k false), child := some f } rest ff.status (evalAtom s fp.env a) :=
  step_propagate hh hstk hp hctl hn hf hst hnd

/-- … `raise` then hands exactly `(sig, v)` to the callers when no C frame of the fiber is live -/
theorem raise_is_unwind (s : State) (p : FId) (fp : Fiber) (rest : List FId) (sig : Nat) (v : Val) (hsig : sig ≠ sigOk)
    (hcc : inCcall fp = false) :
    raise s p fp rest sig v = unwind (s.setFiber p { fp with status := sig, last := v }) rest p sig v := by
  unfold raise
  simp [hsig, hcc]

/-- ★ the tail of `defer` (after the cleanup form ran): `(if (= (fiber/status f) :dead) r (propagate r f))`.
    With `r` the value bound at the body's exit (`defer_arrival`: slot n+1) and `f` the finished body fiber:
    body returned → the block's value is `r`; body exited abnormally with signal `sg` → three steps later `p` re-raises
    EXACTLY `(sg, r)`, child link = `f`.  So the signal a `defer` / `with` lets out after its cleanup is the original one. -/
theorem defer_propagate_reraises_original {s : State} {p f : FId} {rest : List FId} {fp ff : Fiber} {n : Nat} {r : Val}
    (hh : s.halt = none) (hstk : s.stack = p :: rest) (hp : s.fiber? p = some fp) (hctl : fp.ctl = .run (deferTail n))
    (hlen : fp.env.length = n + 3) (hn : fp.env[n]? = some (.fib f)) (hr : fp.env[n + 1]? = some r)
    (hf : s.fiber? f = some ff) (hne : p ≠ f) (hlt : ff.status < stNew) :
    (ff.status = stDead → ∃ fp', (run 2 s).fiber? p = some fp' ∧ fp'.ctl = .run (.ret (.var (n + 1))) ∧ fp'.env[n + 1]? = some r) ∧
    (ff.status ≠ stDead → ∃ s2 fp2, run 3 s = raise s2 p fp2 rest ff.status r ∧ fp2.child = some f ∧ s2.fiber? f = some ff ∧
        fp2.kont = fp.kont ∧ fp2.mask = fp.mask) :=
  defer_tail hh hstk hp hctl hlen hn hr hf hne hlt

theorem defer_tail_shape (n : Nat) (form : Tm) : contK (deferCont n form) = .block 0 form (deferTail n) := rfl

/-- non-vacuity, by running the model: a `try` whose body errors runs its catch clause (label 6) once; one whose body
    signals user0 does not, and both body and parent end with status user0; a `defer` inside a fiber with mask :a whose body
    signals user2 with payload 11 runs its cleanup (label 6) once and the enclosing resume receives exactly 11 while the
    defer's fiber has status user2 (the re-raised original signal) -/
example :
    let body : Tm := .prim 3 (.error (.lit (.int 11))) (.ret (.lit (.int 13)))
    let catch_ : Tm := .prim 6 (.pure (.var 3)) (.ret (.var 4))
    let t : Tm := tryTm 0 7 body catch_ (.ret (.var 0))
    let s := run 200 (init t [97])
    ((s.trace.filter (fun e => e.l == 6)).map (·.v), s.halt.isSome) = ([.int 11], true) := by
  decide

example :
    let body : Tm := .prim 3 (.signal 0 (.lit (.int 11))) (.ret (.lit (.int 13)))
    let catch_ : Tm := .prim 6 (.pure (.var 3)) (.ret (.var 4))
    let t : Tm := .new 1 (tryTm 0 7 body catch_ (.ret (.var 0))) [97] (.prim 8 (.resume (.var 0) nilA) (.ret (.var 1)))
    let s := run 200 (init t [97])
    ((s.trace.filter (fun e => e.l == 6)).length, (s.trace.filter (fun e => e.l == 8)).map (·.v), s.snapshot) = (0, [.int 11], [stAlive, stDead, stUser0, stUser0]) := by
  decide

example :
    let body : Tm := .prim 3 (.signal 2 (.lit (.int 11))) (.ret (.lit (.int 13)))
    let form : Tm := .prim 6 (.pure (.lit (.int 20))) (.ret (.lit (.int 21)))
    let t : Tm := .new 1 (deferTm 0 7 form body (.ret (.var 0))) [97] (.prim 8 (.resume (.var 0) nilA) (.ret (.var 1)))
    let s := run 200 (init t [97])
    ((s.trace.filter (fun e => e.l == 6)).length, (s.trace.filter (fun e => e.l == 8)).map (·.v), s.snapshot) = (1, [.int 11], [stAlive, stDead, stUser2, stUser2]) := by
  decide

/-! ## cleanup forms and the event loop: cancellation by ev/cancel, timeouts, re-scheduling -/

/-- finished is for ever also along executions in which the event loop dispatches tasks -/
theorem finished_is_forever_sched (s : State) (hinv : Inv s) (ts : List Trans) (hs : SigsOK ts) (g : FId) (fg : Fiber)
    (hg : s.fiber? g = some fg) (hfin : isFinished fg.status = true) :
    ∃ fg', (runT s ts).fiber? g = some fg' ∧ fg'.status = fg.status := by
  obtain ⟨fg', h1, h2, _⟩ := (runT_res ts s hinv hs).1 g fg hg
  refine ⟨fg', h1, ?_⟩
  rcases h2 with h | ⟨h, _⟩
  · exact h.symm
  · rw [hfin] at h; cases h

/-- the conclusion of the cleanup theorems for an execution `ts` that interleaves machine steps with task dispatches of the
    event loop (`Trans.enter g v sig`: janet_loop1 continuing task `g` with value `v`, `sig` = OK for ev/go and wake-ups,
    ERROR for ev/cancel and timeouts) -/
def ExactlyOnceSched (m : Nat) (p f : FId) (cont : Cont) (s : State) (ts : List Trans) : Prop :=
  Blk m p f cont (runT s ts) (runT s ts).stack ∨
  ∃ k, 0 < k ∧ k ≤ ts.length ∧ (∀ j, j < k → Blk m p f cont (runT s (ts.take j)) (runT s (ts.take j)).stack) ∧
    (Stuck (runT s (ts.take k)) ∨
     (Exited p f cont (runT s (ts.take k)) ∧
        ∀ us, SigsOK us → ∃ ff, (runT (runT s (ts.take k)) us).fiber? f = some ff ∧ isFinished ff.status = true) ∨
     (Passed m p f cont (runT s (ts.take k)) ∧
        ∀ us, SigsOK us → (∃ ff, (runT (runT s (ts.take k)) us).fiber? f = some ff ∧ isFinished ff.status = true) ∧
                           (∃ fp, (runT (runT s (ts.take k)) us).fiber? p = some fp ∧ isFinished fp.status = true)))

theorem inv_runT_take (s : State) (hinv : Inv s) (ts : List Trans) (k : Nat)
    (hp : ∀ j (hj : j < ts.length), SigsOK [ts[j]]) : Inv (runT s (ts.take k)) := by
  induction ts generalizing s k with
  | nil => simpa [runT] using hinv
  | cons t ts ih =>
    cases k with
    | zero => simpa [runT] using hinv
    | succ k =>
      simp only [List.take_succ_cons, runT]
      exact ih _ (trans_res s hinv t (hp 0 (by simp))).2 k (fun j hj => by have := hp (j + 1) (by simp; omega); rwa [List.getElem_cons_succ] at this)

/-- ★ `defer` / `edefer` / `with` / `try` / `protect` / `prompt` / `with-dyns` — cleanup exactly once on every exit path
    INCLUDING cancellation that comes from the event loop.  `ts` is any sequence of machine instructions and task dispatches:
    the loop may continue or cancel (janet_cancel → janet_continue_signal with JANET_SIGNAL_ERROR, which walks to the
    innermost suspended child and makes it raise) the macro's own fiber, any ancestor, any unrelated task — anything but the
    private body fiber itself (`PrivT`).  Then: still blocked with the body not exited, or a first transition after which
    the machine is stuck, or the body is finished for ever and the code after the resume (the cleanup) is what `p` runs, or
    (masks other than :ti) the body's exit passed `p` by and both are finished for ever. -/
theorem macro_runs_exactly_once_sched (m : Nat) (hm : AccFin m) (p f : FId) (cont : Cont) (s : State) (hinv : Inv s) (hne : p ≠ f)
    (hb : Blk m p f cont s s.stack) (ts : List Trans)
    (hpriv : ∀ k (hk : k < ts.length), PrivT p f (runT s (ts.take k)) ts[k]) : ExactlyOnceSched m p f cont s ts := by
  unfold ExactlyOnceSched
  rcases blocked_until_exit_sched hm ts s hinv hne hb hpriv with h | ⟨k, hk0, hk, hbefore, hat⟩
  · exact Or.inl h
  · refine Or.inr ⟨k, hk0, hk, hbefore, ?_⟩
    have hinv' : Inv (runT s (ts.take k)) := inv_runT_take s hinv ts k (fun j hj => privT_sigsOK (hpriv j hj))
    rcases hat with h | h | h
    · exact Or.inl h
    · refine Or.inr (Or.inl ⟨h, fun us hus => ?_⟩)
      obtain ⟨⟨ff, hff, hfin⟩, _⟩ := h
      obtain ⟨ff', h1, h2⟩ := finished_is_forever_sched _ hinv' us hus f ff hff hfin
      exact ⟨ff', h1, h2 ▸ hfin⟩
    · refine Or.inr (Or.inr ⟨h, fun us hus => ?_⟩)
      obtain ⟨ff, fp, hff, hfp, hfin, _, _, hst, _, _⟩ := h
      obtain ⟨ff', h1, h2⟩ := finished_is_forever_sched _ hinv' us hus f ff hff hfin
      obtain ⟨fp', h3, h4⟩ := finished_is_forever_sched _ hinv' us hus p fp hfp (hst ▸ hfin)
      exact ⟨⟨ff', h1, h2 ▸ hfin⟩, ⟨fp', h3, h4 ▸ (hst ▸ hfin)⟩⟩

/-- ★ `defer_runs_exactly_once` extended to the event loop (mask :ti: `Passed` cannot occur) -/
theorem defer_runs_exactly_once_sched (p f : FId) (cont : Cont) (s : State) (hinv : Inv s) (hne : p ≠ f)
    (hb : Blk (maskOfFlags flagsTI) p f cont s s.stack) (ts : List Trans)
    (hpriv : ∀ k (hk : k < ts.length), PrivT p f (runT s (ts.take k)) ts[k]) :
    Blk (maskOfFlags flagsTI) p f cont (runT s ts) (runT s ts).stack ∨
    ∃ k, 0 < k ∧ k ≤ ts.length ∧
      (∀ j, j < k → Blk (maskOfFlags flagsTI) p f cont (runT s (ts.take j)) (runT s (ts.take j)).stack) ∧
      (Stuck (runT s (ts.take k)) ∨
       (Exited p f cont (runT s (ts.take k)) ∧
          ∀ us, SigsOK us → ∃ ff, (runT (runT s (ts.take k)) us).fiber? f = some ff ∧ isFinished ff.status = true)) := by
  rcases macro_runs_exactly_once_sched _ accFin_TI p f cont s hinv hne hb ts hpriv with h | ⟨k, hk0, hk, hbefore, hat⟩
  · exact Or.inl h
  · refine Or.inr ⟨k, hk0, hk, hbefore, ?_⟩
    rcases hat with h | h | ⟨h, _⟩
    · exact Or.inl h
    · exact Or.inr h
    · obtain ⟨ff, _, _, _, hfin, hlt, hrej, _⟩ := h
      rw [rejected_unfinished ff.status hlt hrej] at hfin; cases hfin

/-- the machine really does it: a task whose `defer` body yields is left suspended by the loop; `ev/cancel` (dispatch with
    JANET_SIGNAL_ERROR) then makes the BODY fiber raise, and the cleanup (label 6) runs exactly once; a second cancel is
    refused (the task is finished) and runs nothing -/
example :
    let body : Tm := .prim 3 (.pure (.lit (.int 10))) (.prim 4 (.yield (.lit (.int 11))) (.ret (.lit (.int 13))))
    let form : Tm := .prim 6 (.pure (.lit (.int 20))) (.ret (.lit (.int 21)))
    let t : Tm := deferTm 0 7 form body (.ret (.var 0))
    let s1 := run 100 (initTask t [] {} .nil)
    let s2 := run 100 (loopEnter s1 1 (.str "cancelled") sigError)
    let s3 := run 100 (loopEnter s2 1 (.str "again") sigError)
    ((s1.trace.filter (fun e => e.l == 6)).length, s1.snapshot, (s2.trace.filter (fun e => e.l == 6)).length, s2.snapshot,
     (s3.trace.filter (fun e => e.l == 6)).length, s3.snapshot)
      = (0, [stUser9, stPending, stPending], 1, [stUser9, stError, stError], 1, [stUser9, stError, stError]) := by
  decide

/-- the hypotheses of the `_sched` theorems are satisfiable in a state in which control IS in the event loop: after the task's
    defer body yielded, the machine has halted with `done`, the stack is empty, the parent (fiber 1, the task) is blocked on
    the body (fiber 2) which has not exited, neither is alive -/
example :
    let body : Tm := .prim 3 (.pure (.lit (.int 10))) (.prim 4 (.yield (.lit (.int 11))) (.ret (.lit (.int 13))))
    let form : Tm := .prim 6 (.pure (.lit (.int 20))) (.ret (.lit (.int 21)))
    let s := run 100 (initTask (deferTm 0 7 form body (.ret (.var 0))) [] {} .nil)
    (match s.halt, s.fiber? 1, s.fiber? 2 with
     | some (.done sg _), some fp, some ff =>
        decide (sg = sigYield) && s.stack.isEmpty && decide (fp.child = some 2) && decide (fp.pending = none) && !inCcall fp &&
        decide (ff.mask = maskOfFlags flagsTI) && !ff.root && !isFinished ff.status &&
        (match fp.ctl with | .wait c => !c.isNext | _ => false) && decide (fp.status ≠ stAlive) && decide (ff.status ≠ stAlive)
     | _, _, _ => false) = true := by
  decide

/-! ## the C recursion guard (janet_vm.stackn / JANET_RECURSION_GUARD) -/

/-- ★ the counter is restored on EVERY exit path of janet_continue_no_check: normal return, signal, or a longjmp out of
    arbitrarily nested janet_calls that skipped their own `janet_vm.stackn = oldn` (`innerRun` may leave the counter
    anywhere and report a longjmp in flight) — for suspended child chains of any length -/
theorem recursion_counter_restored (innerRun : Nat → Nat × Bool) (chain n : Nat) : contN innerRun chain n = n :=
  contN_restores innerRun chain n

/-- … every run_vm activation that returns (is not left by a longjmp) leaves the counter as it found it, whatever
    sequence of nested janet_calls / resumes / caught panics it performed; and a `resume` is never left by a longjmp -/
theorem run_vm_counter_restored (es : List Ev) (n : Nat) (h : (runEvs n es).2 = false) : (runEvs n es).1 = n :=
  runEvs_restores es n h

theorem resume_counter_restored (chain : Nat) (inner : List Ev) (n : Nat) : runEv n (.resume chain inner) = (n, false) :=
  resume_restores chain inner n

/-- non-vacuity: a callee that panics two janet_calls deep inside a resumed fiber — the counter was 7, is 10 at the panic,
    and is 7 again after the resume; an uncaught panic inside a janet_call is still in flight with the counter NOT restored -/
example : runEv 7 (.resume 1 [.call [.call [.panic]]]) = (7, false) ∧ runEv 7 (.call [.call [.panic]]) = (9, true) := by decide

/-- ★ the guard only fails a fiber that could otherwise be resumed (statement order of the current tree): if
    janet_check_can_resume refuses because of the guard — the only case in which it overwrites the fiber's status with
    :error — then the fiber is not the root, not running and not finished -/
theorem guard_refuses_only_resumable (lim n : Nat) (fp : Fiber) (b : Bool) (msg : Val)
    (h : checkGuarded guardAfterRefusals lim n fp b = some (msg, true)) :
    fp.root = false ∧ isFinished fp.status = false ∧ fp.status ≠ stAlive ∧ n ≥ lim ∧ msg = guardMsg := by
  obtain ⟨hc, hn, hm⟩ := checkGuarded_trip_resumable (show checkGuarded true lim n fp b = some (msg, true) from h)
  obtain ⟨h1, h2⟩ := not_refused (checkCanResume_none hc)
  refine ⟨?_, h1, h2, hn, hm⟩
  unfold checkCanResume at hc
  split at hc
  · cases hc
  · rename_i hr; simpa using hr

/-- ★ status_monotone for the GUARDED machine, full strength: along every execution of `runG` (the machine with the
    recursion guard at any limit `lim`, statement order of the current tree) from any `Inv` state each fiber stays
    registered, keeps its mask and its status only moves forward.  With the guard tested FIRST (the pinned tree) this is
    false: `guard_clobbers_status_in_old_order`; the proof below does not typecheck there. -/
theorem status_monotone_guarded (lim : Nat) (s : State) (hinv : Inv s) (n : Nat) (g : FId) (fg : Fiber) (hg : s.fiber? g = some fg) :
    ∃ fg', (runG guardAfterRefusals lim n s).fiber? g = some fg' ∧ Fwd fg.status fg'.status ∧ fg'.mask = fg.mask :=
  let ⟨fg', h1, h2, h3, _⟩ := (runG_res lim n s hinv).1 g fg hg
  ⟨fg', h1, h2, h3⟩

/-- … and the guarded machine IS the unguarded one as long as the counter stays below the limit, so every theorem about
    `step` / `run` above applies to such executions -/
theorem guarded_is_unguarded_below (after : Bool) (lim : Nat) (s : State) (h : depthOf s + chainFuel s < lim) :
    stepG after lim s = step s := stepG_below after lim s h

/-- ★ the cleanup / catch theorems for the GUARDED machine, at any limit: a recursion-guard trip (on the instruction's own
    target; a trip deeper in a suspended child chain ends in `Stuck`) is one more refused resume — it fails the refused
    fiber, which for the macro's body fiber IS an exit (status :error, handed to the parent by masks :ti / :ie), and never
    makes the code after the macro's resume run early or twice.  Same shape and hypotheses as `macro_runs_exactly_once`,
    along `runG guardAfterRefusals lim`. -/
theorem macro_runs_exactly_once_guarded (m : Nat) (hm : AccFin m) (lim : Nat) (p f : FId) (cont : Cont) (s : State) (hinv : Inv s)
    (hne : p ≠ f) (hb : Blk m p f cont s s.stack) (hpriv : ∀ i, Priv p f (runG guardAfterRefusals lim i s)) (n : Nat) :
    Blk m p f cont (runG guardAfterRefusals lim n s) (runG guardAfterRefusals lim n s).stack ∨
    ∃ i, i ≤ n ∧ (∀ j, j < i → Blk m p f cont (runG guardAfterRefusals lim j s) (runG guardAfterRefusals lim j s).stack) ∧
      (Stuck (runG guardAfterRefusals lim i s) ∨
       (Exited p f cont (runG guardAfterRefusals lim i s) ∧
          ∀ k, ∃ ff, (runG guardAfterRefusals lim k (runG guardAfterRefusals lim i s)).fiber? f = some ff ∧ isFinished ff.status = true) ∨
       (Passed m p f cont (runG guardAfterRefusals lim i s) ∧
          ∀ k, ∃ ff, (runG guardAfterRefusals lim k (runG guardAfterRefusals lim i s)).fiber? f = some ff ∧ isFinished ff.status = true)) := by
  have fin : ∀ (s' : State), Inv s' → ∀ ff, s'.fiber? f = some ff → isFinished ff.status = true →
      ∀ k, ∃ ff', (runG true lim k s').fiber? f = some ff' ∧ isFinished ff'.status = true := by
    intro s' hinv' ff hff hfin k
    obtain ⟨ff', h1, h2, _⟩ := (runG_res lim k s' hinv').1 f ff hff
    refine ⟨ff', h1, ?_⟩
    rcases h2 with h | ⟨h, _⟩
    · rw [← h]; exact hfin
    · rw [hfin] at h; cases h
  rcases blocked_until_exit_guarded hm lim n s hinv hne hb hpriv with h | ⟨i, hi, hbefore, hat⟩
  · exact Or.inl h
  · refine Or.inr ⟨i, hi, hbefore, ?_⟩
    have hinv' := (runG_res lim i s hinv).2
    rcases hat with h | h | h
    · exact Or.inl h
    · have h' := h
      obtain ⟨⟨ff, hff, hfin⟩, _⟩ := h'
      exact Or.inr (Or.inl ⟨h, fin _ hinv' ff hff hfin⟩)
    · have h' := h
      obtain ⟨ff, _, hff, _, hfin, _⟩ := h'
      exact Or.inr (Or.inr ⟨h, fin _ hinv' ff hff hfin⟩)

/-- the witness behind finding 5 (fixed in /repo 3d82764, corpus/C05/guard-clobbers-status.janet): with the guard tested
    BEFORE the refusals, a `(resume d)` of a :dead fiber at the limit turns it :error — a finished fiber changes status;
    with the guard after the refusals the same script leaves it :dead and the caller gets the ordinary refusal -/
theorem guard_clobbers_status_in_old_order :
    let t : Tm := .new 1 (.ret nilA) [101] (.prim 2 (.resume (.var 0) nilA)
      (.new 3 (.prim 5 (.resume (.var 0) nilA) (.ret (.var 3))) [97] (.prim 4 (.resume (.var 2) nilA) (.ret (.var 3)))))
    ((runG false 2 100 (init t [97])).snapshot, (runG true 2 100 (init t [97])).snapshot)
      = ([stAlive, stDead, stError, stError], [stAlive, stDead, stDead, stError]) := by
  decide

/-- non-vacuity of the guard itself: a NEW fiber resumed at the limit is failed by the guard — it ends :error without
    having run (label 9 never logged) and the caller receives the guard's message -/
example :
    let t : Tm := .new 1 (.prim 9 (.pure (.lit (.int 1))) (.ret nilA)) [97] (.prim 2 (.resume (.var 0) nilA) (.ret (.var 1)))
    let s := runG true 1 100 (init t [97])
    (s.snapshot, (s.trace.filter (fun e => e.l == 9)).length, s.halt.isSome) = ([stAlive, stError, stError], 0, true) := by
  decide

/-! ## recursion guard AND event loop in one execution (session 4) -/

/-- ★ statuses only move forward — whole executions in which BOTH happen: instructions of the guarded machine (guard trips
    included, at any limit) and task dispatches of the event loop (continue / cancel, `loopEnterG`), in any order -/
theorem status_monotone_guarded_sched (lim : Nat) (s : State) (hinv : Inv s) (ts : List Trans) (hs : SigsOK ts) (g : FId) (fg : Fiber)
    (hg : s.fiber? g = some fg) :
    ∃ fg', (runTG guardAfterRefusals lim s ts).fiber? g = some fg' ∧ Fwd fg.status fg'.status ∧ fg'.mask = fg.mask :=
  let ⟨fg', h1, h2, h3, _⟩ := (runTG_res lim ts s hinv hs).1 g fg hg
  ⟨fg', h1, h2, h3⟩

theorem finished_is_forever_guarded_sched (lim : Nat) (s : State) (hinv : Inv s) (ts : List Trans) (hs : SigsOK ts) (g : FId) (fg : Fiber)
    (hg : s.fiber? g = some fg) (hfin : isFinished fg.status = true) :
    ∃ fg', (runTG guardAfterRefusals lim s ts).fiber? g = some fg' ∧ fg'.status = fg.status := by
  obtain ⟨fg', h1, h2, _⟩ := (runTG_res lim ts s hinv hs).1 g fg hg
  refine ⟨fg', h1, ?_⟩
  rcases h2 with h | ⟨h, _⟩
  · exact h.symm
  · rw [hfin] at h; cases h

theorem inv_runTG_take (lim : Nat) (s : State) (hinv : Inv s) (ts : List Trans) (k : Nat)
    (hp : ∀ j (hj : j < ts.length), SigsOK [ts[j]]) : Inv (runTG true lim s (ts.take k)) := by
  induction ts generalizing s k with
  | nil => simpa [runTG] using hinv
  | cons t ts ih =>
    cases k with
    | zero => simpa [runTG] using hinv
    | succ k =>
      simp only [List.take_succ_cons, runTG]
      exact ih _ (transG_res lim s hinv t (hp 0 (by simp))).2 k (fun j hj => by have := hp (j + 1) (by simp; omega); rwa [List.getElem_cons_succ] at this)

/-- ★ the cleanup / catch theorem for the COMBINATION that sessions 3 left open: along any execution made of guarded
    instructions (a recursion-guard trip is one more refused resume; a trip inside a suspended child chain — of an
    instruction's target or of a dispatched task — ends in `Stuck`) and event-loop dispatches (the loop continues or
    cancels the macro's own fiber, an ancestor, an unrelated task: anything but the private body fiber), at any guard
    limit: `p` stays blocked in the macro's `(resume f)` with the body not exited, or there is a FIRST transition after
    which the machine is stuck, or the body is finished for ever and the code after the resume is what `p` runs, or the
    body's exit passed `p` by and both are finished for ever.  Same hypotheses as `macro_runs_exactly_once_sched`. -/
theorem macro_runs_exactly_once_guarded_sched (m : Nat) (hm : AccFin m) (lim : Nat) (p f : FId) (cont : Cont) (s : State) (hinv : Inv s)
    (hne : p ≠ f) (hb : Blk m p f cont s s.stack) (ts : List Trans)
    (hpriv : ∀ k (hk : k < ts.length), PrivT p f (runTG guardAfterRefusals lim s (ts.take k)) ts[k]) :
    Blk m p f cont (runTG guardAfterRefusals lim s ts) (runTG guardAfterRefusals lim s ts).stack ∨
    ∃ k, 0 < k ∧ k ≤ ts.length ∧
      (∀ j, j < k → Blk m p f cont (runTG guardAfterRefusals lim s (ts.take j)) (runTG guardAfterRefusals lim s (ts.take j)).stack) ∧
      (Stuck (runTG guardAfterRefusals lim s (ts.take k)) ∨
       (Exited p f cont (runTG guardAfterRefusals lim s (ts.take k)) ∧
          ∀ us, SigsOK us → ∃ ff, (runTG guardAfterRefusals lim (runTG guardAfterRefusals lim s (ts.take k)) us).fiber? f = some ff ∧
            isFinished ff.status = true) ∨
       (Passed m p f cont (runTG guardAfterRefusals lim s (ts.take k)) ∧
          ∀ us, SigsOK us →
            (∃ ff, (runTG guardAfterRefusals lim (runTG guardAfterRefusals lim s (ts.take k)) us).fiber? f = some ff ∧ isFinished ff.status = true) ∧
            (∃ fp, (runTG guardAfterRefusals lim (runTG guardAfterRefusals lim s (ts.take k)) us).fiber? p = some fp ∧ isFinished fp.status = true))) := by
  rcases blocked_until_exit_guarded_sched hm lim ts s hinv hne hb hpriv with h | ⟨k, hk0, hk, hbefore, hat⟩
  · exact Or.inl h
  · refine Or.inr ⟨k, hk0, hk, hbefore, ?_⟩
    have hinv' : Inv (runTG true lim s (ts.take k)) := inv_runTG_take lim s hinv ts k (fun j hj => privT_sigsOK (hpriv j hj))
    rcases hat with h | h | h
    · exact Or.inl h
    · refine Or.inr (Or.inl ⟨h, fun us hus => ?_⟩)
      obtain ⟨⟨ff, hff, hfin⟩, _⟩ := h
      obtain ⟨ff', h1, h2⟩ := finished_is_forever_guarded_sched lim _ hinv' us hus f ff hff hfin
      exact ⟨ff', h1, h2 ▸ hfin⟩
    · refine Or.inr (Or.inr ⟨h, fun us hus => ?_⟩)
      obtain ⟨ff, fp, hff, hfp, hfin, _, _, hst, _, _⟩ := h
      obtain ⟨ff', h1, h2⟩ := finished_is_forever_guarded_sched lim _ hinv' us hus f ff hff hfin
      obtain ⟨fp', h3, h4⟩ := finished_is_forever_guarded_sched lim _ hinv' us hus p fp hfp (hst ▸ hfin)
      exact ⟨⟨ff', h1, h2 ▸ hfin⟩, ⟨fp', h3, h4 ▸ (hst ▸ hfin)⟩⟩

/-- ★ `defer` (mask :ti, `Passed` impossible): cleanup exactly once on every exit path including cancellation from the event
    loop AND refusals by the recursion guard, in one execution -/
theorem defer_runs_exactly_once_guarded_sched (lim : Nat) (p f : FId) (cont : Cont) (s : State) (hinv : Inv s) (hne : p ≠ f)
    (hb : Blk (maskOfFlags flagsTI) p f cont s s.stack) (ts : List Trans)
    (hpriv : ∀ k (hk : k < ts.length), PrivT p f (runTG guardAfterRefusals lim s (ts.take k)) ts[k]) :
    Blk (maskOfFlags flagsTI) p f cont (runTG guardAfterRefusals lim s ts) (runTG guardAfterRefusals lim s ts).stack ∨
    ∃ k, 0 < k ∧ k ≤ ts.length ∧
      (∀ j, j < k → Blk (maskOfFlags flagsTI) p f cont (runTG guardAfterRefusals lim s (ts.take j)) (runTG guardAfterRefusals lim s (ts.take j)).stack) ∧
      (Stuck (runTG guardAfterRefusals lim s (ts.take k)) ∨
       (Exited p f cont (runTG guardAfterRefusals lim s (ts.take k)) ∧
          ∀ us, SigsOK us → ∃ ff, (runTG guardAfterRefusals lim (runTG guardAfterRefusals lim s (ts.take k)) us).fiber? f = some ff ∧
            isFinished ff.status = true)) := by
  rcases macro_runs_exactly_once_guarded_sched _ accFin_TI lim p f cont s hinv hne hb ts hpriv with h | ⟨k, hk0, hk, hbefore, hat⟩
  · exact Or.inl h
  · refine Or.inr ⟨k, hk0, hk, hbefore, ?_⟩
    rcases hat with h | h | ⟨h, _⟩
    · exact Or.inl h
    · exact Or.inr h
    · obtain ⟨ff, _, _, _, hfin, hlt, hrej, _⟩ := h
      rw [rejected_unfinished ff.status hlt hrej] at hfin; cases hfin

/-- the combined machine really does both in ONE execution (guard limit 2 above the loop): the task's `defer` body yields, the
    task is left suspended; the loop re-schedules it (`ev/go`: dispatch with JANET_SIGNAL_OK, re-entry through the child
    chain), the body — now running at the limit — resumes a new worker: the guard refuses it (worker :error without having
    run: label 9 never logged, the resume's own label 8 neither), the body exits with the guard's error and the cleanup
    (label 6) runs exactly once; a later `ev/cancel` of the finished task is refused and runs nothing -/
example :
    let worker : Tm := .prim 9 (.pure (.lit (.int 1))) (.ret nilA)
    let body : Tm := .prim 3 (.pure (.lit (.int 10))) (.prim 4 (.yield (.lit (.int 11)))
      (.new 5 worker [97] (.prim 8 (.resume (.var 2) nilA) (.ret (.lit (.int 13))))))
    let form : Tm := .prim 6 (.pure (.lit (.int 20))) (.ret (.lit (.int 21)))
    let t : Tm := deferTm 0 7 form body (.ret (.var 0))
    let steps : List Trans := List.replicate 40 .step
    let s1 := runTG true 2 (initTask t [] {} .nil) steps
    let s2 := runTG true 2 s1 (.enter 1 (.str "go") sigOk :: steps)
    let s3 := runTG true 2 s2 (.enter 1 (.str "again") sigError :: steps)
    ((s1.trace.filter (fun e => e.l == 6)).length, s1.snapshot,
     (s2.trace.filter (fun e => e.l == 6)).length, (s2.trace.filter (fun e => e.l == 9 || e.l == 8)).length, s2.snapshot,
     (s3.trace.filter (fun e => e.l == 6)).length, s3.snapshot)
      = (0, [stUser9, stPending, stPending], 1, 0, [stUser9, stError, stError, stError], 1, [stUser9, stError, stError, stError]) := by
  decide +kernel

/-! ## dynamic bindings -/

/-- ★ dyn visibility, exactly the env / prototype rules of `fiber/new`:
    (1) a fiber without environment sees nothing;
    (2) a binding is visible in the fiber that set it;
    (3) a child created with :i has the same table, hence sees exactly what the parent sees (and vice versa);
    (4) a child created with :p starts with an empty table whose prototype is the parent's: it sees the parent's bindings;
    (5) … and what it sets itself shadows, without changing the parent's table. -/
theorem dyn_visibility (denvs : List DEnv) (fuel : Nat) (k : Nat) :
    dynLookup denvs (fuel + 1) none k = .nil ∧
    (∀ e d v, denvs[e]? = some d → v ≠ .nil →
        dynLookup (denvs.set e { d with tbl := tblPut d.tbl k v }) (fuel + 1) (some e) k = v) ∧
    (∀ e, dynLookup denvs (fuel + 1) (some e) k = dynLookup denvs (fuel + 1) (some e) k) ∧
    (∀ e, e < denvs.length →
        dynLookup (denvs ++ [{ proto := some e, tbl := [] }]) (fuel + 2) (some denvs.length) k
          = dynLookup (denvs ++ [{ proto := some e, tbl := [] }]) (fuel + 1) (some e) k) ∧
    (∀ e e' d, e ≠ e' → (denvs.set e' d)[e]? = denvs[e]?) := by
  refine ⟨rfl, ?_, fun _ => rfl, ?_, ?_⟩
  · intro e d v he hv
    have hlt : e < denvs.length := by
      rcases Nat.lt_or_ge e denvs.length with h | h
      · exact h
      · simp [List.getElem?_eq_none h] at he
    simp [dynLookup, hlt, tblPut, hv]
  · intro e _
    simp [dynLookup]
  · intro e e' d hne
    exact List.getElem?_set_ne (Ne.symm hne)

/-! ### dynamic bindings along histories: writes, links of any depth, whole executions -/

/-- ★ what a fiber observes is the binding in the nearest table of its chain (own table, then `:p` prototypes) -/
theorem dyn_observes_nearest_binding (denvs : List DEnv) (k fuel : Nat) (eo : Option Nat) :
    dynLookup denvs fuel eo k = firstBound denvs k (chainOf denvs fuel eo) :=
  dynLookup_eq_firstBound denvs k fuel eo

/-- ★ "visible ONLY in the fiber that set them and in children that inherit its environment": a `(setdyn k v)` into table
    `e` changes nothing for any other key, and nothing at all for an observer whose chain does not contain `e` -/
theorem dyn_set_invisible_elsewhere (denvs : List DEnv) (e k : Nat) (v : Val) (fuel : Nat) (eo : Option Nat) (k' : Nat)
    (h : e ∉ chainOf denvs fuel eo ∨ k' ≠ k) :
    dynLookup (writeTbl denvs e k v) fuel eo k' = dynLookup denvs fuel eo k' :=
  setdyn_invisible_elsewhere denvs e k v fuel eo k' h

/-- ★ "… and IN children that inherit": an observer that reaches `e` through any number of links, with no nearer table
    binding `k`, reads the new value (for `:i` the chain starts AT `e`: writes are shared both ways, `pre = []`); a nil write
    removes the binding from `e` only and uncovers what `e`'s own prototypes say -/
theorem dyn_set_visible_through_links (denvs : List DEnv) (e k : Nat) (v : Val) (fuel : Nat) (eo : Option Nat) (pre post : List Nat)
    (d : DEnv) (hd : denvs[e]? = some d) (hc : chainOf denvs fuel eo = pre ++ e :: post)
    (hpre : ∀ a ∈ pre, a ≠ e ∧ bound denvs a k = none) (hpost : e ∉ post) :
    dynLookup (writeTbl denvs e k v) fuel eo k = if v = .nil then firstBound denvs k post else v :=
  setdyn_visible_through_chain denvs e k v fuel eo pre post d hd hc hpre hpost

/-- the instructions are these operations on the running fiber's OWN table / chain -/
theorem setdyn_instruction_writes_own_table (s : State) (p : FId) (fp : Fiber) (rest : List FId) (l k : Nat) (a : Atom) (kk : Tm) :
    (execPrim s p fp rest l (.setdyn k a) kk).denvs
      = writeTbl (ensureEnv s p fp).1.denvs (ensureEnv s p fp).2.2 k (evalAtom s fp.env a) ∨
    (∃ h, (execPrim s p fp rest l (.setdyn k a) kk).halt = some (.bad h)) :=
  setdyn_writes_own_table s p fp rest l k a kk

theorem dyn_instruction_reads_own_chain (s : State) (p : FId) (fp : Fiber) (rest : List FId) (l k : Nat) (kk : Tm) :
    execPrim s p fp rest l (.dyn k) kk
      = deliverValue s p fp (.bindK l kk false) (firstBound s.denvs k (chainOf s.denvs (s.denvs.length + 1) fp.denv)) :=
  dyn_reads_own_chain s p fp rest l k kk

/-- how `fiber/new` links the child: `:i` = the parent's table itself; `:p` = fresh empty table with the parent's as
    prototype (an OLDER table: links cannot form cycles); any other letter = no effect on the environment -/
theorem fiber_new_env_links (p : FId) (acc : State × Fiber × Option Nat) :
    ((newEnvStep p acc letterInherit).2.2 = (newEnvStep p acc letterInherit).2.1.denv ∧ (newEnvStep p acc letterInherit).2.2.isSome = true) ∧
    ((∀ e, acc.2.1.denv = some e → e < acc.1.denvs.length) →
      ∃ e pe, (newEnvStep p acc letterProto).2.2 = some e ∧ (newEnvStep p acc letterProto).2.1.denv = some pe ∧
        (newEnvStep p acc letterProto).1.denvs[e]? = some { proto := some pe, tbl := [] } ∧ pe < e) ∧
    (∀ c, c ≠ letterInherit → c ≠ letterProto → newEnvStep p acc c = acc) :=
  ⟨new_inherit_shares p acc, new_proto_links p acc, fun c h1 h2 => new_plain_isolated p acc c h1 h2⟩

/-- ★ for ALL histories: along every execution of any script no table is ever removed and no prototype link ever changes —
    "inherits from" is a permanent relation, so the three theorems above apply to every later write.
    That a fiber's own `denv` index never changes once set is `denv_never_reassigned` below. -/
theorem dyn_links_permanent (n : Nat) (s : State) : DGrow s.denvs (run n s).denvs := run_dgrow n s

/-- ★ a fiber's environment index is never reassigned (session 4; was "by inspection"): along EVERY execution from a state
    satisfying the machine invariant, a fiber that has an environment table keeps exactly that table — `fiber->env` is
    written in one place only (`ensureEnv` = `if (!janet_vm.fiber->env) janet_vm.fiber->env = janet_table(0)`, and by
    fiber/new for the NEW fiber), and only when it is NULL.  The fact is a conjunct of the machine-wide step relation
    `Mono` (Fiber/Invariant.lean), so it is proved through `unwind` / `contNoCheck` / every instruction at once. -/
theorem denv_never_reassigned (s : State) (hinv : Inv s) (n : Nat) (g : FId) (fg : Fiber) (e : Nat)
    (hg : s.fiber? g = some fg) (he : fg.denv = some e) :
    ∃ fg', (run n s).fiber? g = some fg' ∧ fg'.denv = some e :=
  let ⟨fg', h1, _, _, h4⟩ := (run_res n s hinv).1 g fg hg
  ⟨fg', h1, h4 e he⟩

theorem denv_never_reassigned_from_init (t : Tm) (flags : List Nat) (m n : Nat) (g : FId) (fg : Fiber) (e : Nat)
    (hg : (run m (init t flags)).fiber? g = some fg) (he : fg.denv = some e) :
    ∃ fg', (run n (run m (init t flags))).fiber? g = some fg' ∧ fg'.denv = some e :=
  denv_never_reassigned _ (run_res m _ (init_inv t flags)).2 n g fg e hg he

/-- … also when the recursion guard trips and the event loop dispatches tasks, in any order (`runTG`) -/
theorem denv_never_reassigned_guarded_sched (lim : Nat) (s : State) (hinv : Inv s) (ts : List Trans) (hs : SigsOK ts)
    (g : FId) (fg : Fiber) (e : Nat) (hg : s.fiber? g = some fg) (he : fg.denv = some e) :
    ∃ fg', (runTG guardAfterRefusals lim s ts).fiber? g = some fg' ∧ fg'.denv = some e :=
  let ⟨fg', h1, _, _, h4⟩ := (runTG_res lim ts s hinv hs).1 g fg hg
  ⟨fg', h1, h4 e he⟩

/-- ★ together with `dyn_links_permanent`: the table a fiber reads its dynamic bindings from, and that table's prototype
    link, are the same after any execution — "inherits the environment of" is a permanent relation between FIBERS -/
theorem dyn_table_and_proto_permanent (s : State) (hinv : Inv s) (n : Nat) (g : FId) (fg : Fiber) (e : Nat) (d : DEnv)
    (hg : s.fiber? g = some fg) (he : fg.denv = some e) (hd : s.denvs[e]? = some d) :
    ∃ fg' d', (run n s).fiber? g = some fg' ∧ fg'.denv = some e ∧ (run n s).denvs[e]? = some d' ∧ d'.proto = d.proto := by
  obtain ⟨fg', h1, h2⟩ := denv_never_reassigned s hinv n g fg e hg he
  obtain ⟨d', h3, h4⟩ := (run_dgrow n s).2 e d hd
  exact ⟨fg', d', h1, h2, h3, h4⟩

/-- non-vacuity: a worker created with `:yp` sets a binding (its table is created by fiber/new: index 2, prototype 1 = the
    creator's), yields, is resumed and sets another one: same table index before and after, both bindings in it; the
    creator (the tree's root fiber, table 1 from its first `setdyn`) and the harness fiber (table 0) keep theirs too -/
example :
    let w : Tm := .prim 2 (.setdyn 7 (.lit (.int 1))) (.prim 3 (.yield nilA) (.prim 4 (.setdyn 8 (.lit (.int 2))) (.ret nilA)))
    let t : Tm := .prim 9 (.setdyn 5 (.lit (.int 0))) (.new 1 w [121, 112] (.prim 5 (.resume (.var 1) nilA) (.prim 6 (.resume (.var 1) nilA) (.ret nilA))))
    let s1 := run 12 (init t [97])
    let s2 := run 100 (init t [97])
    (s1.fibers.map (·.denv), s2.fibers.map (·.denv), s2.denvs.map (·.proto), s2.denvs.map (fun d => d.tbl.map (·.1))) =
      ([some 0, some 1, some 2], [some 0, some 1, some 2], [none, none, some 1], [[], [5], [8, 7]]) := by
  decide +kernel

/-- non-vacuity: a chain of three tables 2 → 1 → 0 (grand-child :p of child :p of parent); a write to table 0 is seen from 2,
    a write to table 2 is not seen from 0 or 1, and a nil write to 1 uncovers table 0's binding -/
example :
    let ds : List DEnv := [{ proto := none, tbl := [(7, .int 1)] }, { proto := some 0, tbl := [(7, .int 2)] }, { proto := some 1, tbl := [] }]
    (chainOf ds 4 (some 2), dynLookup (writeTbl ds 0 8 (.int 5)) 4 (some 2) 8, dynLookup (writeTbl ds 2 7 (.int 9)) 4 (some 1) 7,
     dynLookup (writeTbl ds 1 7 .nil) 4 (some 2) 7) = ([2, 1, 0], .int 5, .int 2, .int 1) := by
  decide

end JanetModel.Props.C05
