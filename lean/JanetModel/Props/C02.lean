/- C02: property theorems.  Level claimed for the property: translation validation (checks/C02.py); what is PROVED is the
   emit layer below, on local slots.  No theorem is claimed for compile.c / specials.c.

   Missing for the full-strength `emit_sss_correct` of DESIGN.md (hence the `_partial` names): operand kinds upvalue,
   constant and ref (`janetc_movenear` / `janetc_moveback` through LOAD_UPVALUE / SET_UPVALUE / LOAD_CONSTANT /
   GET_INDEX / PUT_INDEX), the `_s`, `_ss`, `_si` shapes (which go through `janetc_regfar`), and the identification of
   `Emit.exec` with `Bytecode.Exec.step` on MOVE_NEAR / MOVE_FAR.  `sem_context_free` (reference semantics in Lean,
   `Lang/Sem.lean`) is not written; the reference semantics that is used is harness/C02/refint.py. -/
import JanetModel.Emit.Proofs
import JanetModel.Bytecode.Exec
namespace JanetModel.Props.C02
open JanetModel.Emit

/-- `janetc_emit_sss` (wr = 1) on local slots, every near/far combination and every index: the destination receives
    `f a b` of the original operand values, every non-temporary register keeps its value. -/
theorem emit_sss_correct_partial {α : Type} (f : α → α → α) (g : Nat → α → α) (regs : Nat → α) (op dest a b t0 t1 t2 : Nat)
    (h01 : t0 ≠ t1) (h02 : t0 ≠ t2) (h12 : t1 ≠ t2)
    (hd0 : dest ≠ t0) (hd1 : dest ≠ t1) (hd2 : dest ≠ t2)
    (ha0 : a ≠ t0) (ha1 : a ≠ t1) (ha2 : a ≠ t2)
    (hb0 : b ≠ t0) (hb1 : b ≠ t1) (hb2 : b ≠ t2) :
    ∀ r, r ≠ t0 → r ≠ t1 → r ≠ t2 →
      run f g regs (emitSSS op dest a b t0 t1 t2) r = if r = dest then f (regs a) (regs b) else regs r :=
  JanetModel.Emit.emit_sss_correct f g regs op dest a b t0 t1 t2 h01 h02 h12 hd0 hd1 hd2 ha0 ha1 ha2 hb0 hb1 hb2

/-- `janetc_emit_ssi` / `janetc_emit_ssu` (wr = 1) on local slots -/
theorem emit_ssi_correct_partial {α : Type} (f : α → α → α) (g : Nat → α → α) (regs : Nat → α) (op dest a imm t0 t1 : Nat)
    (h01 : t0 ≠ t1) (hd0 : dest ≠ t0) (hd1 : dest ≠ t1) (ha0 : a ≠ t0) (ha1 : a ≠ t1) :
    ∀ r, r ≠ t0 → r ≠ t1 →
      run f g regs (emitSSI op dest a imm t0 t1) r = if r = dest then g imm (regs a) else regs r :=
  JanetModel.Emit.emit_ssi_correct f g regs op dest a imm t0 t1 h01 hd0 hd1 ha0 ha1

/-- `janetc_copy` between local slots -/
theorem copy_correct_partial {α : Type} (f : α → α → α) (g : Nat → α → α) (regs : Nat → α) (dest src t3 : Nat)
    (hd : dest ≠ t3) (hs : src ≠ t3) :
    ∀ r, r ≠ t3 → run f g regs (copy dest src t3) r = if r = dest then regs src else regs r :=
  JanetModel.Emit.copy_correct f g regs dest src t3 hd hs

/-- temporaries for distinct tags held together are distinct near registers; each is a previously free register or a
    reserved one (0xF0+tag), which first-fit allocation never hands out -/
theorem regtemp_disjoint (ra : RA) (fuel tag1 tag2 : Nat) (ht : tag1 ≠ tag2) (h1 : tag1 < 8) (h2 : tag2 < 8)
    (hfree1 : ∃ k, k < fuel ∧ ra.taken k = false)
    (hfree2 : ∃ k, k < fuel ∧ ((regallocTemp ra fuel tag1).2).taken k = false) :
    let r1 := (regallocTemp ra fuel tag1).1
    let ra1 := (regallocTemp ra fuel tag1).2
    let r2 := (regallocTemp ra1 fuel tag2).1
    r1 ≠ r2 ∧ r1 ≤ 0xFF ∧ r2 ≤ 0xFF ∧ (ra.alloc r1 = false ∨ 0xF0 ≤ r1) ∧ (ra.alloc r2 = false ∨ 0xF0 ≤ r2) :=
  JanetModel.Emit.regtemp_disjoint ra fuel tag1 tag2 ht h1 h2 hfree1 hfree2

/-! non-vacuity: far destination, near and far operands, reserved temporaries (more than 255 live locals) -/
example : run (fun x y => x + y) (fun i x => x + i) (fun r => 10 * r) (emitSSS 6 300 5 70000 0xF0 0xF1 0xF2) 300 = 700050 := by
  decide
example : run (fun x y => x + y) (fun i x => x + i) (fun r => 10 * r) (emitSSS 6 300 5 70000 0xF0 0xF1 0xF2) 299 = 2990 := by
  decide
example : (emitSSS 6 300 5 70000 0xF0 0xF1 0xF2).map MI.word =
    [(MI.movn 0xF0 300).word, (MI.movn 0xF2 70000).word, (MI.op3 6 0xF0 5 0xF2).word, (MI.movf 0xF0 300).word] := by
  decide
/-- with 300 registers in use the temporaries for tags 0 and 1 are the reserved 0xF0 and 0xF1 -/
example : (regallocTemp { alloc := fun r => r < 300 } 400 0).1 = 0xF0 ∧
    (regallocTemp (regallocTemp { alloc := fun r => r < 300 } 400 0).2 400 1).1 = 0xF1 := by
  decide +kernel

end JanetModel.Props.C02
