/- C02: property theorems.  Level claimed for the property: translation validation (checks/C02.py); what is PROVED is
   (1) the emit layer: for every combination of slot kinds (near local, far local, upvalue, constant, ref) and every index,
       the instruction sequence emit.c produces around an operation has exactly the abstract three-address effect on the
       named slots and changes nothing but temporaries; the temporaries the allocator hands out are disjoint;
   (2) context independence of the Lean reference semantics (`sem_context_free`, Lang/Sem.lean).
   The emit model is compared word for word with the real emit.c / regalloc.c on every run (harness/C02/emit_wrap.c).
   (3) session 3: compile.c / specials.c have an executable model for a core fragment (Compile/Model.lean, compared word for
       word with the real compiler on every run).  PROVED about it and around it: the regenerated special-form table and
       statement shapes it mirrors (`compile_model_matches_source`); the Lean VM decodes and executes every instruction
       word the emit layer and the compiler model produce as the instruction it stands for (`vm_executes_emit_words`,
       `vm_executes_compiler_words`: the emit machine is identified with `Exec.step` on the shared opcodes); at the
       instruction level the VM and the reference semantics agree on the rules of the language: core-function call incl.
       error value and error position (`call_agrees`), conditional jump vs `truthy`, argument order of the pushes, tuple /
       array construction, return; core functions cannot see frames or pending arguments (`callPrim_frame_independent`).
       A first compositional compile-correctness theorem is proved by induction on the form, for the call fragment
       (literals, local and global symbols, nested one-argument calls of global core functions): `compile_correct_calls`.
       Session 4: the induction is extended to the statement fragment `e ::= literal | symbol | (f e) | (do e ...) | (upscope e ...) | (def x e)`
       (`compile_correct_statements`): block scopes pushed and popped, statements sequenced with the dropped value freed, `def`
       binding a fresh register (copy) or aliasing a named immutable local, the environment of `Lang/Sem` (boxes) tied to registers
       by an invariant split into a compile-time and a run-time part.
       Session 4, second part: the induction is generic in the fragment and carries two more facts (`NameFrame`: nameless
       registers stay nameless / named result registers had a name; the source map stays as long as the code); proved on top
       of it, for the fragment literal | symbol | call of a core function (any arity; global or through a local) | do | upscope |
       def | var | if: the value outcome (`compile_correct_nary_calls`, `compile_correct_local_calls`, `compile_correct_if`,
       `compile_correct_var`), the TAIL-position outcome (`compile_correct_tail`, `compile_correct_tail_calls`), the ERROR outcome
       incl. propagation (`compile_correct_call_error`, `compile_correct_error`, `compile_correct_fn_body_error`), function bodies
       and closed statements for their funcdefs (`compile_correct_fn_body`, `compile_correct_thunk`, `compile_correct_fn_params`),
       one `while` loop without `break` over the fragment and blocks mixing loops and forms (`compile_correct_while`,
       `compile_correct_block_loops`), and the `set` statement (`compile_correct_set`: hinted compiles).  Several compile-ONLY
       theorems carry what the branch / code not executed needs (`tf_shapeM`, `tf_shapeT`, `tf_shapeH`, `tf_maxM`, `tf_maxT`,
       `tf_nobrk`, `tf_NR_b`).
       Session 4d: `while` loops without `break` nested to any depth as loop-body statements (`compile_correct_nested_while`,
       `compile_correct_loops_any_depth`); the entry moves of functions with > 240 parameters (`fn_moveargs_correct`,
       `fn_moveargs_allocated`: first far-register theorems).
       a loop with an unconditional `(break)` (`compile_correct_while_break`: the placeholder patch); `set` whose value contains
       `def`s of other names (`compile_correct_set_def`: `MutInj` across `def`, compile-only induction).
       NOT proved: `set` / loops as constructors of the fragment (assignments inside operands and loop bodies, loops inside operands
       or `if` branches), conditional `break`, closure creation and calls of closures, upvalues, far registers beyond the entry moves (see
       `compile_correct_partial` for the exact list and the reasons). -/
import JanetModel.Emit.Proofs
import JanetModel.Bytecode.Exec
import JanetModel.Lang.SemProps
import JanetModel.Bytecode.ExecFrame
import JanetModel.Gen.FiberFrame
import JanetModel.Gen.Compile
import JanetModel.Compile.Theorem
import JanetModel.Compile.SeqTheorem
import JanetModel.Compile.SeqCore
import JanetModel.Compile.SeqTail
import JanetModel.Compile.SeqCallL
import JanetModel.Compile.SeqCoreIf
import JanetModel.Compile.SeqErr
import JanetModel.Compile.SeqTailAll
import JanetModel.Compile.SeqVar
import JanetModel.Compile.SeqFnBody
import JanetModel.Compile.SeqTailIf
import JanetModel.Compile.SeqErrAll
import JanetModel.Compile.SeqErrIfCond
import JanetModel.Compile.SeqWhileAll
import JanetModel.Compile.SeqNoBrkSem
import JanetModel.Compile.SeqErrTail
import JanetModel.Compile.SeqErrTailIf
import JanetModel.Compile.SeqThunk
import JanetModel.Compile.SeqFnParams
import JanetModel.Compile.SeqBlockLoops
import JanetModel.Compile.SeqHintIf
import JanetModel.Compile.SeqSet
import JanetModel.Compile.SeqBoxInj
import JanetModel.Compile.SeqSetSideH
import JanetModel.Compile.MoveArgs
import JanetModel.Compile.MoveArgsLoop
import JanetModel.Compile.SeqNestN
import JanetModel.Compile.SeqMutInjDefEnv
import JanetModel.Compile.SeqBrkCore
import JanetModel.Compile.SeqBrkIf
namespace JanetModel.Props.C02
open JanetModel.Emit

variable {β : Type}

/-- `janetc_emit_sss`.  `Sim T a b`: states equal except for the registers in `T`.  `s.avoids T`: a local slot is not one of
    the temporaries (allocator: `regtemp_disjoint`). -/
theorem emit_sss_correct (lit : KConst → β) (F : Nat → List (RV β) → RV β) (cidx : KConst → Nat) (m : M β) (op : Nat) (wr : Bool)
    (s1 s2 s3 : Slot) (t0 t1 t2 t5 : Nat) (h01 : t0 ≠ t1) (h02 : t0 ≠ t2) (h12 : t1 ≠ t2) (h50 : t5 ≠ t0)
    (a1 : s1.avoids [t0, t1, t2, t5]) (a2 : s2.avoids [t0, t1, t2, t5]) (a3 : s3.avoids [t0, t1, t2, t5])
    (hw : wr = true → ∀ k, s1 ≠ .const k) :
    Sim [t0, t1, t2, t5] (run lit F m (emitSSS cidx op wr s1 s2 s3 t0 t1 t2 t5))
      (if wr then writeSlot (logged m op [readSlot lit m s2, readSlot lit m s3]) s1 (F op [readSlot lit m s2, readSlot lit m s3])
       else logged m op [readSlot lit m s1, readSlot lit m s2, readSlot lit m s3]) :=
  JanetModel.Emit.emit_sss_correct lit F cidx m op wr s1 s2 s3 t0 t1 t2 t5 h01 h02 h12 h50 a1 a2 a3 hw

theorem emit_ssi_correct (lit : KConst → β) (F : Nat → List (RV β) → RV β) (cidx : KConst → Nat) (m : M β) (op : Nat) (wr : Bool)
    (s1 s2 : Slot) (imm : Nat) (t0 t1 t5 : Nat) (h01 : t0 ≠ t1) (h50 : t5 ≠ t0)
    (a1 : s1.avoids [t0, t1, t5]) (a2 : s2.avoids [t0, t1, t5]) (hw : wr = true → ∀ k, s1 ≠ .const k) :
    Sim [t0, t1, t5] (run lit F m (emitSSI cidx op wr s1 s2 imm t0 t1 t5))
      (if wr then writeSlot (logged m op [readSlot lit m s2]) s1 (F op [readSlot lit m s2])
       else logged m op [readSlot lit m s1, readSlot lit m s2]) :=
  JanetModel.Emit.emit_ssi_correct lit F cidx m op wr s1 s2 imm t0 t1 t5 h01 h50 a1 a2 hw

/-- `janetc_emit_ssu` is the same function (`emit2s`) with an unsigned immediate -/
theorem emit_ssu_correct (lit : KConst → β) (F : Nat → List (RV β) → RV β) (cidx : KConst → Nat) (m : M β) (op : Nat) (wr : Bool)
    (s1 s2 : Slot) (imm : Nat) (t0 t1 t5 : Nat) (h01 : t0 ≠ t1) (h50 : t5 ≠ t0)
    (a1 : s1.avoids [t0, t1, t5]) (a2 : s2.avoids [t0, t1, t5]) (hw : wr = true → ∀ k, s1 ≠ .const k) :
    Sim [t0, t1, t5] (run lit F m (emitSSI cidx op wr s1 s2 imm t0 t1 t5))
      (if wr then writeSlot (logged m op [readSlot lit m s2]) s1 (F op [readSlot lit m s2])
       else logged m op [readSlot lit m s1, readSlot lit m s2]) :=
  JanetModel.Emit.emit_ssi_correct lit F cidx m op wr s1 s2 imm t0 t1 t5 h01 h50 a1 a2 hw

theorem emit_ss_correct (lit : KConst → β) (F : Nat → List (RV β) → RV β) (cidx : KConst → Nat) (m : M β) (op : Nat) (wr : Bool)
    (s1 s2 : Slot) (t0 t1 fr t5 : Nat) (h01 : t0 ≠ t1) (h0f : t0 ≠ fr) (h50 : t5 ≠ t0)
    (a1 : s1.avoids [t0, t1, fr, t5]) (a2 : s2.avoids [t0, t1, fr, t5]) (hw : wr = true → ∀ k, s1 ≠ .const k) :
    Sim [t0, t1, fr, t5] (run lit F m (emitSS cidx op wr s1 s2 t0 t1 fr t5))
      (if wr then writeSlot (logged m op [readSlot lit m s2]) s1 (F op [readSlot lit m s2])
       else logged m op [readSlot lit m s1, readSlot lit m s2]) :=
  JanetModel.Emit.emit_ss_correct lit F cidx m op wr s1 s2 t0 t1 fr t5 h01 h0f h50 a1 a2 hw

theorem emit_si_correct (lit : KConst → β) (F : Nat → List (RV β) → RV β) (cidx : KConst → Nat) (m : M β) (op : Nat) (wr : Bool)
    (s : Slot) (imm : Nat) (t0 t5 : Nat) (h50 : t5 ≠ t0) (a1 : s.avoids [t0, t5]) (hw : wr = true → ∀ k, s ≠ .const k) :
    Sim [t0, t5] (run lit F m (emitSI cidx op wr s imm t0 t5))
      (if wr then writeSlot (logged m op []) s (F op []) else logged m op [readSlot lit m s]) :=
  JanetModel.Emit.emit_si_correct lit F cidx m op wr s imm t0 t5 h50 a1 hw

theorem emit_s_correct (lit : KConst → β) (F : Nat → List (RV β) → RV β) (cidx : KConst → Nat) (m : M β) (op : Nat) (wr : Bool)
    (s : Slot) (t0 fr t5 : Nat) (h50 : t5 ≠ t0) (h5f : t5 ≠ fr) (a1 : s.avoids [t0, fr, t5]) (hw : wr = true → ∀ k, s ≠ .const k) :
    Sim [t0, fr, t5] (run lit F m (emitS cidx op wr s t0 fr t5))
      (if wr then writeSlot (logged m op []) s (F op []) else logged m op [readSlot lit m s]) :=
  JanetModel.Emit.emit_s_correct lit F cidx m op wr s t0 fr t5 h50 h5f a1 hw

/-- `janetc_copy`, all 4 (writable) x 5 kind combinations -/
theorem copy_correct (lit : KConst → β) (F : Nat → List (RV β) → RV β) (cidx : KConst → Nat) (m : M β) (dest src : Slot) (t3 t5 : Nat)
    (h35 : t3 ≠ t5) (ad : dest.avoids [t3, t5]) (as : src.avoids [t3, t5]) (hc : ∀ k, dest ≠ .const k) :
    Sim [t3, t5] (run lit F m (copy cidx dest src t3 t5)) (writeSlot m dest (readSlot lit m src)) :=
  JanetModel.Emit.copy_correct lit F cidx m dest src t3 t5 h35 ad as hc

/-- temporaries for distinct tags held together are distinct near registers; each is a previously free register or a
    reserved one (0xF0+tag), which first-fit allocation never hands out -/
theorem regtemp_disjoint (ra : RA) (fuel tag1 tag2 : Nat) (ht : tag1 ≠ tag2) (h1 : tag1 < 8) (h2 : tag2 < 8)
    (hfree1 : ∃ k, k < fuel ∧ ra.taken k = false)
    (hfree2 : ∃ k, k < fuel ∧ ((regallocTemp ra fuel tag1).2).taken k = false) :
    let r1 := (regallocTemp ra fuel tag1).1
    let ra1 := (regallocTemp ra fuel tag1).2
    let r2 := (regallocTemp ra1 fuel tag2).1
    r1 ≠ r2 ∧ r1 ≤ 0xFF ∧ r2 ≤ 0xFF ∧ (ra.alloc r1 = false ∨ 0xF0 ≤ r1) ∧ (ra.alloc r2 = false ∨ 0xF0 ≤ r2) :=
  JanetModel.Emit.regtemp_disjoint ra fuel tag1 tag2 ht h1 h2 hfree1 hfree2

/-- the allocator function that is compared with regalloc.c returns what `regtemp_disjoint` talks about -/
theorem regtemp_model_eq (ra : RA) (tag : Nat) :
    (ra.allocTemp tag).1 = (regallocTemp ra searchFuel tag).1 ∧
    ∀ x, (ra.allocTemp tag).2.alloc x = (regallocTemp ra searchFuel tag).2.alloc x :=
  JanetModel.Emit.allocTemp_eq ra tag

/-! non-vacuity: > 255 live locals, far destination, upvalue and ref operands, reserved temporaries -/
def m0 : M Nat := { regs := fun r => .v (10 * r), up := fun e i => .v (1000 + e + i), cell := fun id => .v (7000 + id), log := [], ok := true }
def litN : KConst → Nat | .int n => n.toNat | _ => 0
def FN : Nat → List (RV Nat) → RV Nat := fun _ vs => .v (vs.foldl (fun a v => match v with | .v b => a + b | .ref _ => a) 0)

example : (emitSSS (fun _ => 0) 6 true (.loc 300) (.up 1 2) (.ref 3) 0xF0 0xF1 0xF2 0xF5).map MI.word =
    [(MI.movn 0xF0 300).word, (MI.ldu 0xF1 1 2).word, (MI.ldref 0xF2 0 3).word, (MI.geti0 0xF2 0xF2).word,
     (MI.pay 6 .sss true [0xF0, 0xF1, 0xF2] 0).word, (MI.movf 0xF0 300).word] := by decide
def valOf : RV Nat → Nat | .v x => x | .ref _ => 4000000000
example : valOf ((run litN FN m0 (emitSSS (fun _ => 0) 6 true (.loc 300) (.up 1 2) (.ref 3) 0xF0 0xF1 0xF2 0xF5)).regs 300) = 1003 + 7003 := by
  decide
example : valOf ((run litN FN m0 (emitSSS (fun _ => 0) 6 true (.ref 1) (.const (.int 70000)) (.loc 299) 0xF0 0xF1 0xF2 0xF5)).cell 1) = 70000 + 2990 := by
  decide
example : (Slot.loc 300).avoids [0xF0, 0xF1, 0xF2, 0xF5] := by intro i h; injection h with h; subst h; decide

/-! ### frame set-up (calls and tail calls) -/

/-- regenerated from fiber.c on every run: both `janet_fiber_funcframe` and `janet_fiber_funcframe_tail` check the arity,
    pack surplus arguments, and nil every slot that received no argument (normal call: old stack top .. new stack top; tail
    call: the gap before the vararg slot and the locals above the moved arguments).  This is what `Exec.mkRegs` assumes. -/
theorem frame_setup_shape :
    (JanetModel.Gen.FiberFrame.callArityChecks && JanetModel.Gen.FiberFrame.callNilFill && JanetModel.Gen.FiberFrame.callVarargPack &&
     JanetModel.Gen.FiberFrame.tailArityChecks && JanetModel.Gen.FiberFrame.tailNilFillBeforeVararg &&
     JanetModel.Gen.FiberFrame.tailNilFillLocals && JanetModel.Gen.FiberFrame.tailVarargPack &&
     JanetModel.Gen.FiberFrame.structPairsBounded) = true := by decide

/-- in the VM model an omitted optional parameter (any slot at or above the number of arguments) is nil -/
theorem mkRegs_omitted_nil (heap : Array JanetModel.Bytecode.Exec.HeapObj) (d : JanetModel.Bytecode.Exec.FuncDef)
    (args regs : Array JanetModel.Bytecode.Exec.Value) (hv : d.vararg = false)
    (h : JanetModel.Bytecode.Exec.mkRegs heap d args = some regs) (i : Nat) (hi : args.size ≤ i) :
    regs.getD i .nil = .nil :=
  JanetModel.Bytecode.Exec.mkRegs_omitted_nil heap d args regs hv h i hi

/-! ### the reference semantics is context independent -/
section Sem
open JanetModel.Lang JanetModel.Bytecode.Exec

/-- `sem_context_free`: for the embedding contexts of the property — value used in a new scope, value dropped, branch of a
    conditional, argument of a call (non-tail, used), spliced into the enclosing scope (top level), body of a function in
    tail position — evaluating `ctx e` is a fixed post-processing (`closeScope`, `dropValue`, identity, `fnResult`) of
    evaluating `e`: same value, same effect trace (part of the state), same error and error position.  Fuel offsets are the
    evaluation steps the wrapper itself takes.  The function context runs `e` in the state `withLam s env e`, i.e. with the
    closure object of the wrapper added to the heap, and turns a top-level `break` of `e` into the return value.
    Not proved here (tested by the `loop` / `fn_used` contexts of the check): loop body, non-tail function body. -/
theorem sem_context_free (n : Nat) (cur : Pos) (env : Env) (e : Expr) (s : SS)
    (hfree : lookupEnv env "identity" = none) (hsp : isSplice e = none) :
    eval (n + 2) cur env (ctxDoUsed e) s = closeScope env (eval n cur env e s) ∧
    eval (n + 4) cur env (ctxDropped e) s = dropValue env (eval (n + 2) cur env e s) ∧
    eval (n + 3) cur env (ctxBranch e) s = closeScope env (eval (n + 2) cur env e s) ∧
    eval (n + 3) cur env (ctxArg e) s = eval (n + 1) cur env e s ∧
    eval (n + 2) cur env (ctxUpscope e) s = eval n cur env e s ∧
    eval (n + 3) cur env (ctxFnTail e) s = fnResult env (eval n cur env e (withLam s env e)) :=
  ⟨ctx_do_used n cur env e s, ctx_dropped n cur env e s, ctx_branch n cur env e s, ctx_arg n cur env e s hfree hsp,
   ctx_upscope n cur env e s, ctx_fn_tail n cur env e s⟩

/-- non-vacuity: evaluation really runs: `(identity :v)` evaluates to `:v` -/
example : (match eval 10 {} [] (ctxArg (.lit (.kw "v"))) {} with | .ok (.kw x, _) _ => x == "v" | _ => false) = true := by
  decide

/-- `sem_context_free`, seventh context: body of a function in NON-tail position, value used through a local
    (`((fn [] (def r_ e) r_))`, context `fn_used` of the check) -/
theorem sem_context_free_fn_used (n : Nat) (cur : Pos) (env : Env) (e : Expr) (s : SS) :
    eval (n + 6) cur env (ctxFnUsed e) s =
      fnUsedResult env (eval (n + 2) cur env e (withLam2 s env [wrapForm [.sym "def", .sym "r_", e], .sym "r_"])) :=
  ctx_fn_used n cur env e s

/-- non-vacuity: `((fn [] (def r_ :v) r_))` evaluates to `:v` and leaves one box -/
example : (match eval 10 {} [] (ctxFnUsed (.lit (.kw "v"))) {} with | .ok (.kw x, _) s => x == "v" && s.boxes.size == 1 | _ => false) = true := by
  decide

end Sem

/-! ### the compiler model (Compile/Model.lean = compile.c + specials.c, core fragment) -/
section Compile
open JanetModel.Compile JanetModel.Lang JanetModel.Bytecode.Exec JanetModel.Gen.Bytecode

/-- regenerated from specials.c / compile.c / emit.c on every run: the special-form table the model dispatches on, and the
    presence of every statement the model mirrors one for one (which `do` statements are dropped and freed, tail-call test,
    near-hint test of the target, alias / copy decision of `namelocal`, jump range checks and label patches, break tags,
    loop-as-function rewrite, `fn` body flags, register limit) -/
theorem compile_model_matches_source :
    JanetModel.Compile.specials = JanetModel.Gen.Compile.specialNames ∧
    JanetModel.Gen.Compile.specialHandlers.map (·.1) = JanetModel.Gen.Compile.specialNames ∧
    JanetModel.Gen.Compile.allShapes = true := by decide

/-- identification of the emit machine with the VM: the word `MI.word mi` of every load / move instruction of the emit layer
    (near / far moves, the five constant loads, ref-array load, ref cell get / put) is executed by `Exec.step` exactly as
    `vmExecMI` — the VM-state reading of `Emit/Machine.exec` — says.  (Upvalue loads / stores are not covered.) -/
theorem vm_executes_emit_words (p : Program) (st : State) (mi : MI) (hr : MI.inRange mi)
    (hf : (curDef p st).code[st.cur.pc]? = some mi.word) : step p st = vmExecMI p st mi :=
  step_mi p st mi hr hf

/-- the instructions compile.c / specials.c emit raw: jump (24-bit signed offset, both directions), return-nil, call,
    tail call, load-self, closure -/
theorem vm_executes_compiler_words (p : Program) (st : State) :
    (∀ off : Int, -8388608 ≤ off → off ≤ 8388607 → (curDef p st).code[st.cur.pc]? = some (CI.jump off).word → step p st = .next (st.jump off)) ∧
    ((curDef p st).code[st.cur.pc]? = some CI.retNil.word → step p st = doReturn p st .nil) ∧
    (∀ d f, d < 256 → f < 65536 → (curDef p st).code[st.cur.pc]? = some (CI.call d f).word → step p st = doCall p st d (st.getReg f)) ∧
    (∀ r, r < 16777216 → (curDef p st).code[st.cur.pc]? = some (CI.tailcall r).word → step p st = doTailcall p st (st.getReg r)) ∧
    (∀ r, r < 16777216 → (curDef p st).code[st.cur.pc]? = some (CI.loadSelf r).word → step p st = .next (st.setAdv r (.fn st.cur.self))) ∧
    (∀ r d, r < 256 → d < 65536 → (curDef p st).code[st.cur.pc]? = some (CI.closure r d).word → step p st = doClosure p st r d) :=
  ⟨fun off h1 h2 hf => step_jump p st off h1 h2 hf, step_retNil p st, fun d f hd hfr hf => step_call p st d f hd hfr hf,
   fun r hr hf => step_tailcall p st r hr hf, fun r hr hf => step_loadSelf p st r hr hf, fun r d hr hd hf => step_closure p st r d hr hd hf⟩

/-- a core function sees and changes only the world (heap, effect trace, result cell): frames and pending arguments are out
    of its reach.  (By construction: `callPrim` is `callPrimW` on `st.world`.) -/
theorem callPrim_frame_independent (name : String) (args : List Value) (st : State) :
    callPrim name args st =
      (match callPrimW name args st.world with
       | .ok (v, w) => .ok (v, st.withWorld w) | .rt => .rt | .user v => .user v | .unsup w => .unsup w) := rfl

/-- `JOP_CALL` of a core function against `Lang/Sem.applyFn`: same value and world, or the same error value attributed to the
    source-map entry of the call instruction, or both outside the model -/
theorem call_agrees (p : Program) (st : State) (s : SS) (n d f : Nat) (name : String) (hna : name ≠ "apply")
    (hd : d < 256) (hfr : f < 65536)
    (hcode : (curDef p st).code[st.cur.pc]? = some (CI.call d f).word)
    (hfn : st.getReg f = .cfun name) (hw : st.world = s.st.world) :
    (match callPrimW name st.args.toList st.world with
     | .ok (v, w) =>
        step p st = .next ((({ st with args := #[] } : State).withWorld w).setAdv d v) ∧
        applyFn (n + 1) (curPos p st) (.cfun name) st.args.toList s = .ok v { s with st := s.st.withWorld w }
     | .rt =>
        step p st = .err JanetModel.Bytecode.Exec.rtErr (curPos p st) st ∧
        applyFn (n + 1) (curPos p st) (.cfun name) st.args.toList s = .err Lang.rtErr (curPos p st) s
     | .user e =>
        step p st = .err e (curPos p st) st ∧ applyFn (n + 1) (curPos p st) (.cfun name) st.args.toList s = .err e (curPos p st) s
     | .unsup why =>
        step p st = .unsup why ∧ applyFn (n + 1) (curPos p st) (.cfun name) st.args.toList s = .stop why) :=
  JanetModel.Compile.call_agrees p st s n d f name hna hd hfr hcode hfn hw

/-- conditional jump (what `janetc_if` / `janetc_while` emit) = `truthy` test of `Lang/Sem`; pushes append in operand order;
    return; tuple / array construction from the pending arguments (same `allocV` as `Lang/Sem`) -/
theorem control_and_data_agree (p : Program) (st : State) :
    (∀ a off, a < 256 → off < 32768 → (curDef p st).code[st.cur.pc]? = some (MI.pay Op.jumpIfNot.toNat .si false [a] off).word →
        step p st = .next (if truthy (st.getReg a) then st.adv else st.jump (off : Int))) ∧
    (∀ r, r < 16777216 → (curDef p st).code[st.cur.pc]? = some (MI.pay Op.return.toNat .s false [r] 0).word →
        step p st = doReturn p st (st.getReg r)) ∧
    (∀ r, r < 16777216 → (curDef p st).code[st.cur.pc]? = some (MI.pay Op.push.toNat .s false [r] 0).word →
        step p st = .next ({ st with args := st.args.push (st.getReg r) } : State).adv) ∧
    (∀ a e, a < 256 → e < 65536 → (curDef p st).code[st.cur.pc]? = some (MI.pay Op.push2.toNat .ss false [a, e] 0).word →
        step p st = .next ({ st with args := (st.args.push (st.getReg a)).push (st.getReg e) } : State).adv) ∧
    (∀ a b c, a < 256 → b < 256 → c < 256 → (curDef p st).code[st.cur.pc]? = some (MI.pay Op.push3.toNat .sss false [a, b, c] 0).word →
        step p st = .next ({ st with args := ((st.args.push (st.getReg a)).push (st.getReg b)).push (st.getReg c) } : State).adv) ∧
    (∀ r, r < 16777216 → (curDef p st).code[st.cur.pc]? = some (MI.pay Op.makeTuple.toNat .s true [r] 0).word →
        step p st = .next (({ st with args := #[] } : State).setAdv r (.tuple st.args.toList false))) ∧
    (∀ r, r < 16777216 → (curDef p st).code[st.cur.pc]? = some (MI.pay Op.makeArray.toNat .s true [r] 0).word →
        step p st = .next ((allocV ({ st with args := #[] } : State) (.arr st.args.toList.toArray) Value.arr).2.setAdv r
                            (allocV ({ st with args := #[] } : State) (.arr st.args.toList.toArray) Value.arr).1)) :=
  ⟨fun a off ha ho h => jumpIfNot_agrees p st a off ha ho h, fun r hr h => return_agrees p st r hr h,
   fun r hr h => push_agrees p st r hr h, fun a e ha he h => push2_agrees p st a e ha he h,
   fun a b c ha hb hc h => push3_agrees p st a b c ha hb hc h, fun r hr h => makeTuple_agrees p st r hr h,
   fun r hr h => makeArray_agrees p st r hr h⟩

/-- running: a state reached by continuing steps finishes as the state it reached does (so per-segment results compose) -/
theorem run_of_reach (p : Program) (a b : State) (h : Reach p a b) (fuel : Nat) : ∃ fuel', run p fuel' a = run p fuel b :=
  JanetModel.Compile.run_of_reach h fuel

/-- **Compile correctness, call fragment** `e ::= literal | symbol | (f e)` (f a global core function other than `apply`, not a
    special form, not shadowed; nesting arbitrary), value used, near registers (`c.lim ≤ 0xF0`).
    If the compiler model compiles `e` in state `c` to `slot` and state `c'`, and `Lang/Sem.eval` gives `e` the value `v` in world
    `s'`, then for every VM configuration `k` of one activation (frame `f0` on `rest`, any pc) whose world is `s`'s, whose pending
    arguments are empty and whose registers hold the boxes of the names of `env` (`EnvOK`):
      * compile side: `c'` is `c` with code `seg` appended, constants appended to the pool, the value table extended, the
        current scope's allocator replaced by one that keeps everything that was allocated allocated (`max` monotone); `slot` is a
        constant, a named local that was allocated, or a register that was free at entry and is allocated at exit;
      * run side: wherever `seg` sits in the function's code (at `k.pc`), with the function's final constant pool `P` / value
        table `V` extending the ones at this point and the frame large enough for the allocator's `max`, the VM reaches
        pc + |seg| with empty pending arguments and world `s'`, every register allocated at entry unchanged, and `slot` holding `v`.
    By induction on the compile fuel (`Compile/Theorem.lean`), from: the decode / step lemmas, `call_agrees`-style agreement,
    the allocator lemmas (`alloc1_near`, `allocTemp_near`: a target / temporary is a free register below 0xF0), the emit-wrapper
    specifications in the near case, constant-pool and value-table stability.  `FloatFacts` = two IEEE facts about Lean's opaque
    `Float` (`toBits` injective; `Float.ofInt (toInt x) = x` for int16-valued `x`), needed only for number literals.
    `hK`/`hP`: the running funcdef's constants are the final pool (what `janetc_pop_funcdef` does), fewer than 2¹⁶. -/
theorem compile_correct_calls (p : Program) (f0 : Frame) (rest : List Frame) (V : Array Value) (P : List JanetModel.Emit.KConst)
    (hP : P.length < 65536)
    (hK : ∀ i, i < P.length → (p.defs.getD f0.defIdx default).consts.getD i .nil = litOf V (P.getD i .nil))
    (FF : FloatFacts)
    (fuel : Nat) (e : Expr) (c c' : CState) (slot : JSlot) (sc : Scope) (rs : List Scope) (pool : List JanetModel.Emit.KConst)
    (ps : List (List JanetModel.Emit.KConst)) (n : Nat) (cur : Pos) (env env' : Env) (s s' : SS) (v : Value) (k : Cfg)
    (hs : c.scopes = sc :: rs) (hp : c.pools = pool :: ps) (hl : c.lim ≤ 240) (hfrag : TC c e)
    (hcomp : cValue fuel {} e c = some (slot, c')) (hsem : eval n cur env e s = .ok (v, env') s')
    (hw : k.w = s.st.world) (hargs : k.args = #[]) (henv : EnvOK c env s k.regs sc.ra) :
    ∃ (ra' : JanetModel.Emit.RA) (more : List JanetModel.Emit.KConst) (seg : List CI) (segm : List Pos),
      c' = { c with scopes := { sc with ra := ra' } :: rs, pools := (pool ++ more) :: ps, buf := c.buf ++ seg, map := c.map ++ segm, vals := c'.vals } ∧
      PrefA c.vals c'.vals ∧ (∀ r, sc.ra.alloc r = true → ra'.alloc r = true) ∧ sc.ra.max ≤ ra'.max ∧ SlotOK sc ra' c'.vals slot ∧
      (CodeAt (p.defs.getD f0.defIdx default).code k.pc seg → PrefL (pool ++ more) P → PrefA c'.vals V → ra'.max < k.regs.size →
        ∃ regs', Reach p (inj f0 rest k) (inj f0 rest { regs := regs', pc := k.pc + seg.length, args := #[], w := s'.st.world }) ∧
          regs'.size = k.regs.size ∧ (∀ r, sc.ra.alloc r = true → regs'.getD r .nil = k.regs.getD r .nil) ∧ slotVal V regs' slot = v) :=
  tc_correct p f0 rest V P hP hK FF fuel e c c' slot sc rs pool ps n cur env env' s s' v k hs hp hl hfrag hcomp hsem hw hargs henv

/-- non-vacuity: `(emit (tuple 7))` is in the fragment for a state without locals -/
example (c : CState) (h : c.scopes = []) :
    TC c (.form [.sym "emit", .form [.sym "tuple", .lit (.num 7)] {}] {}) := by
  have hl : ∀ x, lookupSlot c x = none := by intro x; simp [lookupSlot, h, searchScopes]
  exact .call1 "emit" _ {} (by decide) (by decide) (hl _) (.call1 "tuple" _ {} (by decide) (by decide) (hl _) (.lit _ trivial))

/-- **Compile correctness, statement fragment** `e ::= literal | symbol | (f e) | (do e ...) | (upscope e ...) | (def x e)` (`TS G`: `f` ranges over the
    names `G` used as global core functions — not `apply`, not special forms — which are never defined; `x` is any other name;
    nesting arbitrary: `def` inside call arguments, `do` inside `def`, ...), value used or dropped (`opts` without tail / hint), near
    registers (`c.lim ≤ 0xF0`), any block or function scope that is not the top level (`sc.top = false`).
    Invariant: `EnvS` (compile time) — every name the scopes resolve is a named near local whose register is allocated and whose
    `Lang/Sem` box exists, every other name is unbound on both sides, the names in `G` are unbound; `EnvD` (run time) — the
    register of every name holds the content of its box.
    If the compiler model compiles `e` in state `c` to `slot` / `c'` and `Lang/Sem.eval` gives `e` the value `v`, environment `env'`
    and state `s'`, then
      * compile side: `c'` is `c` with code `seg` appended, constants appended to the pool, the value table extended, the innermost
        scope's symbol list extended by `nsyms` (new names of `def`, or the hidden names of a closed `do`) and its allocator replaced
        by one that keeps everything that was allocated allocated (`max` monotone); `slot` is a constant, a named local allocated at
        exit, or an unnamed register that was free at entry, is allocated at exit and carries no name; the boxes only grow; the
        compile-time invariant holds again for `c'`, `env'`, `s'`; names and registers are framed (`NameFrame`: a register that was
        allocated and nameless at entry is nameless at exit; a named result register allocated at entry had a visible name at entry);
      * run side: for every VM configuration `k` of one activation (frame `f0` on `rest`, any pc) whose world is `s`'s, whose pending
        arguments are empty and whose registers satisfy `EnvD` — wherever `seg` sits in the function's code, with the function's
        final constant pool / value table extending the ones at this point and the frame large enough — the VM reaches pc + |seg|
        with empty pending arguments and world `s'`, every register allocated at entry unchanged, `slot` holding `v`, and `EnvD` for
        `c'`, `env'`, `s'`.
    By induction on the compile fuel (`Compile/SeqTheorem.lean`; cases in `SeqCall`, `SeqDo` — with an inner induction on the
    statement list —, `SeqDef`), on top of the symbol-table lemmas of `Compile/Scope.lean` (`janetc_nameslot`, `janetc_scope`,
    `janetc_popscope` as functions on name lookup) and the `janetc_copy` specifications. -/
theorem compile_correct_statements (p : Program) (f0 : Frame) (rest : List Frame) (V : Array Value) (P : List JanetModel.Emit.KConst)
    (hP : P.length < 65536)
    (hK : ∀ i, i < P.length → (p.defs.getD f0.defIdx default).consts.getD i .nil = litOf V (P.getD i .nil))
    (FF : FloatFacts) (G : String → Prop)
    (fuel : Nat) (e : Expr) (opts : Fopts) (c c' : CState) (slot : JSlot) (sc : Scope) (rs : List Scope) (pool : List JanetModel.Emit.KConst)
    (ps : List (List JanetModel.Emit.KConst)) (n : Nat) (cur : Pos) (env env' : Env) (s s' : SS) (v : Value)
    (ht : opts.tail = false) (hh : opts.hint = none)
    (hs : c.scopes = sc :: rs) (hp : c.pools = pool :: ps) (hl : c.lim ≤ 240) (htop : sc.top = false) (hfrag : TS G e)
    (hcomp : cValue fuel opts e c = some (slot, c')) (hsem : eval n cur env e s = .ok (v, env') s')
    (henv : EnvS G c.scopes env s.boxes.size sc.ra) :
    ∃ (ra' : JanetModel.Emit.RA) (nsyms : List SymPair) (more : List JanetModel.Emit.KConst) (seg : List CI) (segm : List Pos),
      c' = { c with scopes := { sc with ra := ra', syms := sc.syms ++ nsyms } :: rs, pools := (pool ++ more) :: ps, buf := c.buf ++ seg,
                    map := c.map ++ segm, vals := c'.vals } ∧
      PrefA c.vals c'.vals ∧ (∀ r, sc.ra.alloc r = true → ra'.alloc r = true) ∧ sc.ra.max ≤ ra'.max ∧
      SlotOK2 sc ra' c'.scopes c'.vals slot ∧ PrefA s.boxes s'.boxes ∧ EnvS G c'.scopes env' s'.boxes.size ra' ∧
      NameFrame sc c.scopes c'.scopes slot ∧
      ∀ (k : Cfg), k.w = s.st.world → k.args = #[] → EnvD c.scopes env s k.regs →
        CodeAt (p.defs.getD f0.defIdx default).code k.pc seg → PrefL (pool ++ more) P → PrefA c'.vals V → ra'.max < k.regs.size →
        ∃ regs', Reach p (inj f0 rest k) (inj f0 rest { regs := regs', pc := k.pc + seg.length, args := #[], w := s'.st.world }) ∧
          regs'.size = k.regs.size ∧ (∀ r, sc.ra.alloc r = true → regs'.getD r .nil = k.regs.getD r .nil) ∧ slotVal V regs' slot = v ∧
          EnvD c'.scopes env' s' regs' := by
  obtain ⟨ra', nsyms, more, seg, segm, h1, h2, h3, h4, h5, h6, h7, h8, vm⟩ :=
    ts_correct_strong p f0 rest V P hP hK FF G fuel e opts c c' slot sc rs pool ps n cur env env' s s' v ht hh hs hp hl htop hfrag hcomp hsem henv
  refine ⟨ra', nsyms, more, seg, segm, h1, h2, h3, h4, h5, h6, h7, h8, fun k a1 a2 a3 a4 a5 a6 a7 => ?_⟩
  obtain ⟨regs', r1, r2, r3, r4, r5⟩ := vm k a1 a2 a3 a4 a5 a6 a7
  exact ⟨regs', r1, r2, r3, r4 rfl, r5⟩

/-- non-vacuity: `(do (def x (tuple 7)) (do (def y x) (emit y)) x)` is in the fragment with `G = {tuple, emit}` -/
example : TS (fun f => f = "tuple" ∨ f = "emit")
    (.form [.sym "do", .form [.sym "def", .sym "x", .form [.sym "tuple", .lit (.num 7)] {}] {},
            .form [.sym "do", .form [.sym "def", .sym "y", .sym "x"] {}, .form [.sym "emit", .sym "y"] {}] {}, .sym "x"] {}) := by
  refine .doo _ _ (fun e he => ?_)
  simp only [List.mem_cons, List.not_mem_nil, or_false] at he
  rcases he with rfl | rfl | rfl
  · exact .deff "x" _ {} (by decide) (.call1 "tuple" _ {} (by decide) (by decide) (Or.inl rfl) (.lit _ trivial))
  · refine .doo _ _ (fun e he => ?_)
    simp only [List.mem_cons, List.not_mem_nil, or_false] at he
    rcases he with rfl | rfl
    · exact .deff "y" _ {} (by decide) (.sym "x")
    · exact .call1 "emit" _ {} (by decide) (by decide) (Or.inr rfl) (.sym "y")
  · exact .sym "x"

/-- non-vacuity: the invariant holds at the entry of a function body without parameters (no names on either side) -/
example (G : String → Prop) (sc : Scope) (rs : List Scope) (h : ∀ x, lk (sc :: rs) x = none) (nb : Nat) :
    EnvS G (sc :: rs) [] nb sc.ra := ⟨fun f _ => h f, fun x => Or.inl ⟨h x, rfl⟩⟩
example (x : String) : lk [({ fn := true } : Scope)] x = none := rfl

/-- **Compile correctness, calls with any number of operands** — fragment `TF G false`:
    `e ::= literal | symbol | (f e ...) | (do e ...) | (upscope e ...) | (def x e)` with `(f e₁ … eₙ)`, n ≥ 0, a call of a global core function
    (`G f`; not `apply`, not a special form); same quantification, invariant and conclusion as `compile_correct_statements`.
    New with respect to it: `janetc_toslots` compiles the operands left to right and HOLDS their slots together — an operand's
    value survives the code of the later operands (a constant; a named local; an unnamed register that was free when its operand
    started and stays allocated), and no later operand gives a name to an earlier operand's unnamed register (`NameFrame`, now part
    of the conclusion of every case) — `Lang/Sem.evalArgs` threads environment and state the same way; `janetc_pushslots` pushes
    in groups of three / two / one (`pushN`, Compile/SeqPush.lean: PUSH_3 / PUSH_2 / PUSH with up to three constant operands
    loaded into temporaries held simultaneously, for every mix of constant and local operands; the pending arguments end up in
    operand order); target register, JOP_CALL against `applyFn`; `janetc_freeslots` releases exactly the unnamed operand registers. -/
theorem compile_correct_nary_calls (p : Program) (f0 : Frame) (rest : List Frame) (V : Array Value) (P : List JanetModel.Emit.KConst)
    (hP : P.length < 65536)
    (hK : ∀ i, i < P.length → (p.defs.getD f0.defIdx default).consts.getD i .nil = litOf V (P.getD i .nil))
    (FF : FloatFacts) (G : String → Prop)
    (fuel : Nat) (e : Expr) (opts : Fopts) (c c' : CState) (slot : JSlot) (sc : Scope) (rs : List Scope) (pool : List JanetModel.Emit.KConst)
    (ps : List (List JanetModel.Emit.KConst)) (n : Nat) (cur : Pos) (env env' : Env) (s s' : SS) (v : Value)
    (ht : opts.tail = false) (hh : opts.hint = none)
    (hs : c.scopes = sc :: rs) (hp : c.pools = pool :: ps) (hl : c.lim ≤ 240) (htop : sc.top = false) (hfrag : TF G false e)
    (hcomp : cValue fuel opts e c = some (slot, c')) (hsem : eval n cur env e s = .ok (v, env') s')
    (henv : EnvS G c.scopes env s.boxes.size sc.ra) :
    ∃ (ra' : JanetModel.Emit.RA) (nsyms : List SymPair) (more : List JanetModel.Emit.KConst) (seg : List CI) (segm : List Pos),
      c' = { c with scopes := { sc with ra := ra', syms := sc.syms ++ nsyms } :: rs, pools := (pool ++ more) :: ps, buf := c.buf ++ seg,
                    map := c.map ++ segm, vals := c'.vals } ∧
      PrefA c.vals c'.vals ∧ (∀ r, sc.ra.alloc r = true → ra'.alloc r = true) ∧ sc.ra.max ≤ ra'.max ∧
      SlotOK2 sc ra' c'.scopes c'.vals slot ∧ PrefA s.boxes s'.boxes ∧ EnvS G c'.scopes env' s'.boxes.size ra' ∧
      NameFrame sc c.scopes c'.scopes slot ∧
      ∀ (k : Cfg), k.w = s.st.world → k.args = #[] → EnvD c.scopes env s k.regs →
        CodeAt (p.defs.getD f0.defIdx default).code k.pc seg → PrefL (pool ++ more) P → PrefA c'.vals V → ra'.max < k.regs.size →
        ∃ regs', Reach p (inj f0 rest k) (inj f0 rest { regs := regs', pc := k.pc + seg.length, args := #[], w := s'.st.world }) ∧
          regs'.size = k.regs.size ∧ (∀ r, sc.ra.alloc r = true → regs'.getD r .nil = k.regs.getD r .nil) ∧ slotVal V regs' slot = v ∧
          EnvD c'.scopes env' s' regs' := by
  obtain ⟨ra', nsyms, more, seg, segm, h1, h2, h3, h4, h5, h6, h7, h8, vm⟩ :=
    tf_correct_calls p f0 rest V P hP hK FF G fuel e opts c c' slot sc rs pool ps n cur env env' s s' v ht hh hs hp hl htop hfrag hcomp hsem henv
  refine ⟨ra', nsyms, more, seg, segm, h1, h2, h3, h4, h5, h6, h7, h8, fun k a1 a2 a3 a4 a5 a6 a7 => ?_⟩
  obtain ⟨regs', r1, r2, r3, r4, r5⟩ := vm k a1 a2 a3 a4 a5 a6 a7
  exact ⟨regs', r1, r2, r3, r4 rfl, r5⟩

/-- non-vacuity: `(do (def x (tuple 1 2 3 4)) (emit x (tuple) (tuple x (def y 5) y)))` — calls with 4, 3, 0 operands, a `def` in operand
    position whose name a later operand reads — is in the fragment with `G = {tuple, emit}` -/
example : TF (fun f => f = "tuple" ∨ f = "emit") false
    (.form [.sym "do",
        .form [.sym "def", .sym "x", .form [.sym "tuple", .lit (.num 1), .lit (.num 2), .lit (.num 3), .lit (.num 4)] {}] {},
        .form [.sym "emit", .sym "x", .form [.sym "tuple"] {},
               .form [.sym "tuple", .sym "x", .form [.sym "def", .sym "y", .lit (.num 5)] {}, .sym "y"] {}] {}] {}) := by
  refine .doo _ _ (fun e he => ?_)
  simp only [List.mem_cons, List.not_mem_nil, or_false] at he
  rcases he with rfl | rfl
  · refine .deff "x" _ {} (by decide) (.call "tuple" _ {} (by decide) (by decide) (Or.inl rfl) (fun a ha => ?_))
    simp only [List.mem_cons, List.not_mem_nil, or_false] at ha
    rcases ha with rfl | rfl | rfl | rfl <;> exact .lit _ trivial
  · refine .call "emit" _ {} (by decide) (by decide) (Or.inr rfl) (fun a ha => ?_)
    simp only [List.mem_cons, List.not_mem_nil, or_false] at ha
    rcases ha with rfl | rfl | rfl
    · exact .sym "x"
    · exact .call "tuple" _ {} (by decide) (by decide) (Or.inl rfl) (fun a ha => by simp at ha)
    · refine .call "tuple" _ {} (by decide) (by decide) (Or.inl rfl) (fun a ha => ?_)
      simp only [List.mem_cons, List.not_mem_nil, or_false] at ha
      rcases ha with rfl | rfl | rfl
      · exact .sym "x"
      · exact .deff "y" _ {} (by decide) (.lit _ trivial)
      · exact .sym "y"

/-- **Compile correctness, calls through a local**: `(x e₁ … eₙ)` where `x` is a LOCAL name (`lookupEnv env x = some a`) whose box
    holds a core function at entry (`readBox s a = .cfun f`, `f ≠ apply`; e.g. `(def pr print) … (pr 1 2)`), operands in the fragment
    `TF G b` (either fragment; with `if` among the operands the map-length
    hypothesis `hm` is needed).  `janetc_resolve` gives the local's register as the head slot, no constant is loaded, the code is operands, pushes,
    `CALL d r_x`, and the callee is read from the register WHEN THE CALL IS MADE — after the operands ran; they leave it untouched
    (it is allocated) and cannot change the box (`Lang/Sem` reads the head first).  Conclusion: `Correct2 … false …`, i.e. literally
    the conclusion of `compile_correct_nary_calls` (compile-side shape, slot facts, `EnvS`, `NameFrame`, the VM run reaching value,
    world and `EnvD`).  That the callee is a core function is a hypothesis on the entry state: a closure as callee is the `fn` case
    (not covered), and nothing in the fragment can tell the two apart statically. -/
theorem compile_correct_local_calls (p : Program) (f0 : Frame) (rest : List Frame) (V : Array Value) (P : List JanetModel.Emit.KConst)
    (hP : P.length < 65536)
    (hK : ∀ i, i < P.length → (p.defs.getD f0.defIdx default).consts.getD i .nil = litOf V (P.getD i .nil))
    (FF : FloatFacts) (G : String → Prop)
    (fuel : Nat) (x : String) (args : List Expr) (pp : Pos) (opts : Fopts) (c c' : CState) (slot : JSlot) (sc : Scope) (rs : List Scope)
    (pool : List JanetModel.Emit.KConst) (ps : List (List JanetModel.Emit.KConst)) (n : Nat) (cur : Pos) (env env' : Env) (s s' : SS) (v : Value)
    (f : String) (a : Nat)
    (ht : opts.tail = false) (hh : opts.hint = none)
    (hs : c.scopes = sc :: rs) (hp : c.pools = pool :: ps) (hl : c.lim ≤ 240) (htop : sc.top = false)
    (hxs : specials.contains x = false) (hx : lookupEnv env x = some a) (hbox : readBox s a = .cfun f) (hna : f ≠ "apply")
    (b : Bool) (hargs : ∀ e, e ∈ args → TF G b e) (hm : b = true → c.map.length = c.buf.length)
    (hcomp : cValue (fuel + 1) opts (.form (.sym x :: args) pp) c = some (slot, c'))
    (hsem : eval n cur env (.form (.sym x :: args) pp) s = .ok (v, env') s')
    (henv : EnvS G c.scopes env s.boxes.size sc.ra) :
    Correct2 p f0 rest V P G false c c' slot sc rs pool ps env env' s s' v := by
  rw [cValue_call_o fuel opts ht hh x args pp c hxs] at hcomp
  obtain ⟨q, hq⟩ := curAt_eq c pp
  cases hcc : cCall (cValue fuel) {} (.sym x) args (curAt c pp) with
  | none => rw [hcc] at hcomp; simp [fin] at hcomp
  | some res =>
    obtain ⟨slot0, cq⟩ := res
    rw [hcc] at hcomp
    simp only [fin, Option.some.injEq, Prod.mk.injEq] at hcomp
    obtain ⟨hsl, hc'⟩ := hcomp
    subst hsl hc'
    obtain ⟨n2, vs, s_a, _, hsa, happ⟩ := eval_callL_inv n cur env env' x a args pp s s' v hxs hx hsem
    rw [hbox] at happ
    rw [hq] at hcc
    exact Correct2.recur p f0 rest V P (q := q)
      (callL_core p f0 rest V P hP hK G (TF G b) b fuel
        (tf_correct_b p f0 rest V P hP hK FF G b fuel)
        (tf_ML G b b fuel) (fun e h => h.notSplice) x args f hna hargs
        { c with cur := q } cq slot0 sc rs pool ps n2 (posOf cur pp) env env' s s_a s' vs v a hs hp hl htop hm
        hx hbox hcc hsa happ henv)

/-- non-vacuity: a state in which the local `pr` holds the core function `print` -/
example : lookupEnv [("pr", 0)] "pr" = some 0 ∧ readBox { boxes := #[.cfun "print"] } 0 = .cfun "print" := ⟨rfl, rfl⟩

/-- **Compile correctness with `if`** — fragment `TF G true`:
    `e ::= literal | symbol | (f e ...) | (do e ...) | (upscope e ...) | (def x e) | (if c e [e])` where the condition `c` of an `if` is a
    literal, a symbol, a call or a nested `if` (`CondOK`; a `do` / `upscope` / `def` form as condition is not covered); else-branch
    optional; value used or dropped (a dropped `if` returns the constant-nil slot and materialises no value: the value clause is
    under `opts.drop = false`).  A condition that compiles to a CONSTANT (literal, global symbol) is folded by `janetc_if`: only the
    live branch's code is emitted, the dead branch is compiled by `janetc_throwaway` in an unused scope and its code removed (its
    constants stay in the pool, as in the C); `truthy` of the condition's value = `constTruthy` of its constant.  Otherwise:
    `janetc_if`: target register allocated first (value used), a block scope for the condition (names it defines are visible in both
    branches, as `Lang/Sem` evaluates the branch in the condition's environment), `JUMP_IF_NOT cond` patched to the else label, the
    then-branch in its own block scope, copy of its slot into the target, `JUMP` patched to the end (omitted when the value is
    dropped and there is no else-branch), the else-branch likewise; all scopes popped, so the names visible afterwards are those
    visible before.  The branch `Lang/Sem` does not evaluate has no semantic run: where its code ends and which state the next
    compile step starts from comes from the compile-only shape theorem `tf_shape` (Compile/SeqShape.lean).  The VM run follows
    `truthy` of the condition's value: falls through into the then-branch and jumps over the else-branch, or jumps to the
    else-branch.  Extra hypothesis with respect to `compile_correct_nary_calls`: the source map is as long as the code at entry
    (`janetc_emit` keeps them in step; needed by the folding path, carried already).  Conclusion `Correct2 … opts.drop …` unfolds to
    the conclusion of `compile_correct_nary_calls` with the value clause `opts.drop = false → slotVal V regs' slot = v`. -/
theorem compile_correct_if (p : Program) (f0 : Frame) (rest : List Frame) (V : Array Value) (P : List JanetModel.Emit.KConst)
    (hP : P.length < 65536)
    (hK : ∀ i, i < P.length → (p.defs.getD f0.defIdx default).consts.getD i .nil = litOf V (P.getD i .nil))
    (FF : FloatFacts) (G : String → Prop)
    (fuel : Nat) (e : Expr) (opts : Fopts) (c c' : CState) (slot : JSlot) (sc : Scope) (rs : List Scope) (pool : List JanetModel.Emit.KConst)
    (ps : List (List JanetModel.Emit.KConst)) (n : Nat) (cur : Pos) (env env' : Env) (s s' : SS) (v : Value)
    (ht : opts.tail = false) (hh : opts.hint = none)
    (hs : c.scopes = sc :: rs) (hp : c.pools = pool :: ps) (hl : c.lim ≤ 240) (htop : sc.top = false)
    (hm : c.map.length = c.buf.length) (hfrag : TF G true e)
    (hcomp : cValue fuel opts e c = some (slot, c')) (hsem : eval n cur env e s = .ok (v, env') s')
    (henv : EnvS G c.scopes env s.boxes.size sc.ra) :
    Correct2 p f0 rest V P G opts.drop c c' slot sc rs pool ps env env' s s' v := by
  have h := tf_correct_if p f0 rest V P hP hK FF G fuel e opts c c' slot sc rs pool ps n cur env env' s s' v ht hh hs hp hl htop
    (fun _ => hm) hfrag hcomp hsem henv
  rw [Bool.and_true] at h
  exact h

/-- non-vacuity: `(if (tuple x) (emit 1 2) (do (def y 3) (if (emit y) y)))` — both branch shapes, a nested `if` without else — is in the
    fragment with `G = {tuple, emit}` -/
example : TF (fun f => f = "tuple" ∨ f = "emit") true
    (.form [.sym "if", .form [.sym "tuple", .sym "x"] {}, .form [.sym "emit", .lit (.num 1), .lit (.num 2)] {},
            .form [.sym "do", .form [.sym "def", .sym "y", .lit (.num 3)] {},
                   .form [.sym "if", .form [.sym "emit", .sym "y"] {}, .sym "y"] {}] {}] {}) := by
  refine .iff _ _ _ {} rfl (Or.inr (Or.inr (Or.inl ⟨"tuple", _, {}, rfl, by decide⟩))) (by decide) ?_ ?_ (fun e he => ?_)
  · exact .call "tuple" _ {} (by decide) (by decide) (Or.inl rfl) (fun a ha => by
      simp only [List.mem_cons, List.not_mem_nil, or_false] at ha; subst ha; exact .sym "x")
  · refine .call "emit" _ {} (by decide) (by decide) (Or.inr rfl) (fun a ha => ?_)
    simp only [List.mem_cons, List.not_mem_nil, or_false] at ha
    rcases ha with rfl | rfl <;> exact .lit _ trivial
  · simp only [List.mem_cons, List.not_mem_nil, or_false] at he
    subst he
    refine .doo _ _ (fun e he => ?_)
    simp only [List.mem_cons, List.not_mem_nil, or_false] at he
    rcases he with rfl | rfl
    · exact .deff "y" _ {} (by decide) (.lit _ trivial)
    · refine .iff _ _ _ {} rfl (Or.inr (Or.inr (Or.inl ⟨"emit", _, {}, rfl, by decide⟩))) (by decide) ?_ (.sym "y") (fun e he => by simp at he)
      exact .call "emit" _ {} (by decide) (by decide) (Or.inr rfl) (fun a ha => by
        simp only [List.mem_cons, List.not_mem_nil, or_false] at ha; subst ha; exact .sym "y")

/-- non-vacuity: conditions that are folded (`true`, the global `tuple`) or read from a register (the local `x`):
    `(if true (if x 1 2) (if tuple 3))` -/
example : TF (fun f => f = "tuple") true
    (.form [.sym "if", .lit (.bool true), .form [.sym "if", .sym "x", .lit (.num 1), .lit (.num 2)] {},
            .form [.sym "if", .sym "tuple", .lit (.num 3)] {}] {}) := by
  refine .iff _ _ _ {} rfl (Or.inl ⟨_, rfl⟩) (by decide) (.lit _ trivial) ?_ (fun e he => ?_)
  · refine .iff _ _ _ {} rfl (Or.inr (Or.inl ⟨_, rfl⟩)) (by decide) (.sym "x") (.lit _ trivial) (fun e he => ?_)
    simp only [List.mem_cons, List.not_mem_nil, or_false] at he
    subst he; exact .lit _ trivial
  · simp only [List.mem_cons, List.not_mem_nil, or_false] at he
    subst he
    exact .iff _ _ _ {} rfl (Or.inr (Or.inl ⟨_, rfl⟩)) (by decide) (.sym "tuple") (.lit _ trivial) (fun e he => by simp at he)

/-- **The error outcome of a call**: `(f e₁ … eₙ)`, `f` a global core function, operands in the fragment `TF G b` (either fragment) and evaluating
    to values (`hsa`), and the core function RAISES (`happ`: `applyFn … = .err ev epos s'`, a runtime error or a user error), so that
    `Lang/Sem.eval` of the form is that error (first conjunct), attributed to the position of the call form, in the state after the
    operands (same heap, same effect trace).  The compiled code is that of the non-error case.  From every configuration of the
    activation satisfying the run-time invariant — wherever the segment sits in the function's code AND its map segment in the
    function's source map (`MapAt`), the compiler's mapping cursor agreeing with `Lang/Sem`'s current position (`hcur`) — the VM
    runs the operands and the pushes, reaches the JOP_CALL instruction in the WORLD `Lang/Sem` has at that point (`s'.st.world`:
    the effects of the operands happened, nothing else), and ITS NEXT STEP RAISES THE SAME ERROR VALUE AT THE SAME POSITION:
    `step … = .err ev epos …`.  (Errors raised inside an operand / statement / branch — propagation — are not proved yet.) -/
theorem compile_correct_call_error (p : Program) (f0 : Frame) (rest : List Frame) (V : Array Value) (P : List JanetModel.Emit.KConst)
    (hP : P.length < 65536)
    (hK : ∀ i, i < P.length → (p.defs.getD f0.defIdx default).consts.getD i .nil = litOf V (P.getD i .nil))
    (FF : FloatFacts) (G : String → Prop)
    (fuel : Nat) (f : String) (args : List Expr) (pp : Pos) (opts : Fopts) (c c' : CState) (slot : JSlot) (sc : Scope) (rs : List Scope)
    (pool : List JanetModel.Emit.KConst) (ps : List (List JanetModel.Emit.KConst)) (n2 : Nat) (cur : Pos) (env env_a : Env) (s s_a s' : SS)
    (vs : List Value) (ev : Value) (epos : Pos)
    (ht : opts.tail = false) (hh : opts.hint = none)
    (hs : c.scopes = sc :: rs) (hp : c.pools = pool :: ps) (hl : c.lim ≤ 240) (htop : sc.top = false)
    (hf : specials.contains f = false) (hna : f ≠ "apply") (hG : G f)
    (b : Bool) (hargs : ∀ a, a ∈ args → TF G b a) (hm : c.map.length = c.buf.length) (hcur : c.cur = cur)
    (hcomp : cValue (fuel + 1) opts (.form (.sym f :: args) pp) c = some (slot, c'))
    (hsa : evalArgs (n2 + 1) (posOf cur pp) env args s = .ok (vs, env_a) s_a)
    (happ : applyFn (n2 + 1) (posOf cur pp) (.cfun f) vs s_a = .err ev epos s')
    (henv : EnvS G c.scopes env s.boxes.size sc.ra) :
    eval (n2 + 2) cur env (.form (.sym f :: args) pp) s = .err ev epos s' ∧ epos = posOf cur pp ∧ s' = s_a ∧
    ∃ (mx : Nat) (more : List JanetModel.Emit.KConst) (seg : List CI) (segm : List Pos),
      c'.buf = c.buf ++ seg ∧ c'.map = c.map ++ segm ∧ c'.pools = (pool ++ more) :: ps ∧ PrefA c.vals c'.vals ∧
      (∃ sc', c'.scopes = sc' :: rs ∧ sc'.ra.max = mx) ∧
      ∀ (k : Cfg), k.w = s.st.world → k.args = #[] → EnvD c.scopes env s k.regs →
        CodeAt (p.defs.getD f0.defIdx default).code k.pc seg → MapAt (p.defs.getD f0.defIdx default).smap k.pc segm →
        PrefL (pool ++ more) P → PrefA c'.vals V → mx < k.regs.size →
        ∃ (regs' A : Array Value) (pc' : Nat),
          Reach p (inj f0 rest k) (inj f0 rest { regs := regs', pc := pc', args := A, w := s'.st.world }) ∧ regs'.size = k.regs.size ∧
          step p (inj f0 rest { regs := regs', pc := pc', args := A, w := s'.st.world }) =
            .err ev epos (inj f0 rest { regs := regs', pc := pc', args := A, w := s'.st.world }) := by
  have hgl : lookupEnv env f = none := by
    rcases henv.2 f with ⟨_, h⟩ | ⟨sl, r, a', u, h, _⟩
    · exact h
    · rw [henv.1 f hG] at h; exact absurd h (by simp)
  have hsemE : eval (n2 + 2) cur env (.form (.sym f :: args) pp) s = .err ev epos s' := by
    rw [eval_call (n2 + 1) cur env f args pp s hf, eval_sym_global n2 _ env f s hgl]
    simp only [hsa, happ]
  rw [cValue_call_o fuel opts ht hh f args pp c hf] at hcomp
  have hq : curAt c pp = { c with cur := posOf cur pp } := by
    unfold curAt posOf
    split
    · rfl
    · rw [← hcur]
  cases hcc : cCall (cValue fuel) {} (.sym f) args (curAt c pp) with
  | none => rw [hcc] at hcomp; simp [fin] at hcomp
  | some res =>
    obtain ⟨slot0, cq⟩ := res
    rw [hcc] at hcomp
    simp only [fin, Option.some.injEq, Prod.mk.injEq] at hcomp
    obtain ⟨hsl, hc'⟩ := hcomp
    subst hsl hc'
    rw [hq] at hcc
    obtain ⟨e1, e2, mx, more, seg, segm, b1, b2, b3, b4, b5, vm⟩ :=
      err_call_core p f0 rest V P hP hK FF G b b fuel
        (tf_correct_b p f0 rest V P hP hK FF G b fuel)
        f args hna hG hargs { c with cur := posOf cur pp } cq slot0 sc rs pool ps n2 env env_a s s_a s' vs ev epos hs hp hl htop
        hm hcc hsa happ henv
    exact ⟨hsemE, e1, e2, mx, more, seg, segm, b1, b2, b3, b4, b5, vm⟩

/-- **`while` without `break`**: one loop `(while c e₁ … eₙ)` whose condition (`CondOK`: literal, symbol, call or `if`) and body
    statements are forms of the fragment `TF G b`, value used or dropped, in any block or function scope.  `janetc_while`: a block
    scope flagged as a loop; the condition; a constant falsy condition ⇒ no loop code at all; a constant truthy condition ⇒ an
    infinite loop (then `Lang/Sem` cannot return a value: the fragment has no `break` — `tf_evalSeq_nobrk` — so this case is
    contradictory); otherwise `JUMP_IF_NOT cond` patched to the end, the body (EVERY statement dropped and freed), no closure was
    created in the loop (the fragment has no `fn`: the loop-as-function rewrite is not taken), `JUMP` BACK to the loop start
    (negative offset), the break-placeholder rewrite over the loop's code (the identity: the fragment never emits the placeholder,
    `tf_nobrk`, compile-only), scope popped; result the constant nil.  `Lang/Sem`: `whileLoop` — each iteration evaluates the
    condition in the loop's environment and the body in the condition's environment and discards the bindings.  The VM run is by
    induction on the fuel of `whileLoop`: the loop's code is compiled once and its correctness statements are quantified over all
    configurations, so they are used again at every iteration; the invariant at the loop head is the run-time invariant for the
    names visible outside the loop (their registers are untouched, the boxes only grow).  Conclusion `Correct2 … opts.drop …`
    (value nil, environment unchanged, invariants re-established, registers allocated at entry untouched).
    `Compile/SeqWhileDef.lean`, `SeqWhileBody.lean`, `SeqWhile.lean` (`while_jump_core`), `SeqWhileAll.lean` (`while_core`),
    `SeqNoBrk.lean`, `SeqNoBrkSem.lean`.  `break` is not covered; nested loops: `compile_correct_nested_while`, `compile_correct_loops_any_depth`. -/
theorem compile_correct_while (p : Program) (f0 : Frame) (rest : List Frame) (V : Array Value) (P : List JanetModel.Emit.KConst)
    (hP : P.length < 65536)
    (hK : ∀ i, i < P.length → (p.defs.getD f0.defIdx default).consts.getD i .nil = litOf V (P.getD i .nil))
    (FF : FloatFacts) (G : String → Prop) (b : Bool)
    (fuel : Nat) (cnd : Expr) (body : List Expr) (pp : Pos) (opts : Fopts) (c c' : CState) (slot : JSlot) (sc : Scope) (rs : List Scope)
    (pool : List JanetModel.Emit.KConst) (ps : List (List JanetModel.Emit.KConst)) (n : Nat) (cur : Pos) (env env' : Env) (s s' : SS) (v : Value)
    (ht : opts.tail = false) (hh : opts.hint = none)
    (hs : c.scopes = sc :: rs) (hp : c.pools = pool :: ps) (hl : c.lim ≤ 240) (hm : c.map.length = c.buf.length)
    (hok : CondOK cnd) (hTc : TF G b cnd) (hTb : ∀ e, e ∈ body → TF G b e)
    (hcomp : cValue (fuel + 1) opts (.form (.sym "while" :: cnd :: body) pp) c = some (slot, c'))
    (hsem : eval n cur env (.form (.sym "while" :: cnd :: body) pp) s = .ok (v, env') s')
    (henv : EnvS G c.scopes env s.boxes.size sc.ra) :
    Correct2 p f0 rest V P G opts.drop c c' slot sc rs pool ps env env' s s' v :=
  while_core p f0 rest V P G b b fuel (tf_correct_b p f0 rest V P hP hK FF G b fuel) cnd body pp hTc hTb hok
    (fun n cur env0 s0 v0 s1 hg => tf_evalSeq_nobrk G b n cur env0 body s0 v0 s1 hg hTb)
    opts c c' slot sc rs pool ps n cur env env' s s' v ht hh hs hp hl hm hcomp hsem henv

/-- non-vacuity: `Lang/Sem` runs a loop of the fragment to completion — `(do (def a (array :x :y)) (while (array/pop a) (emit :tick)))`:
    the condition is a call whose value depends on the heap; two iterations, two effects, value nil; the condition and the body
    statement are in the fragment with `G = {array/pop, emit}` -/
example : (match eval 30 {} [] (.form [.sym "do", .form [.sym "def", .sym "a", .form [.sym "array", .lit (.kw "x"), .lit (.kw "y")] {}] {},
            .form [.sym "while", .form [.sym "array/pop", .sym "a"] {}, .form [.sym "emit", .lit (.kw "tick")] {}] {}] {}) {} with
           | .ok (.nil, _) s => s.st.trace.size == 2 | _ => false) = true := by decide
example : CondOK (.form [.sym "array/pop", .sym "a"] {}) ∧
    TF (fun f => f = "array/pop" ∨ f = "emit") false (.form [.sym "array/pop", .sym "a"] {}) ∧
    TF (fun f => f = "array/pop" ∨ f = "emit") false (.form [.sym "emit", .lit (.kw "tick")] {}) := by
  refine ⟨Or.inr (Or.inr (Or.inl ⟨"array/pop", _, {}, rfl, by decide⟩)), ?_, ?_⟩
  · exact .call "array/pop" _ {} (by decide) (by decide) (Or.inl rfl) (fun a ha => by
      simp only [List.mem_cons, List.not_mem_nil, or_false] at ha; subst ha; exact .sym "a")
  · exact .call "emit" _ {} (by decide) (by decide) (Or.inr rfl) (fun a ha => by
      simp only [List.mem_cons, List.not_mem_nil, or_false] at ha; subst ha; exact .lit _ trivial)

/-- **`set`**: the statement `(set x e)` with `e` a form of the fragment `TF G b` and `x` a mutable local.  `janetc_varset` resolves the
    target, compiles the value WITH THE VARIABLE'S SLOT AS HINT, and copies the result slot onto the variable (a no-op, the hinted
    compile already returned the variable's slot).  Hinted compiles are an induction of their own (`HintAtM`, `tf_hint_correct_b`,
    Compile/SeqHint*.lean): a literal / symbol / `def` is followed by `janetc_copy` into the hint (`LDK r_x k`, `MOVN r_x r`, nothing
    for `(set x x)`); a call takes the hint as target — `CALL r_x f`, its operands may read `x`, they run before the CALL writes it —;
    `do` / `upscope` hint their last statement; `if` takes the hint as target and hints both branches (folding and jump path; the
    branch not taken through the shape theorem for hinted compiles `tf_shapeH`).  `Lang/Sem`: the value, then `writeBox` of the
    box of the binding of `x` visible at the `set` form.  Conclusion `SetOK` (Compile/SeqSet.lean): compile side as `Correct2`; the
    VM reaches pc + |seg| in the world of `s'` with `r_x` holding the value, every OTHER register allocated at entry unchanged, and
    the FULL run-time invariant `EnvD` for the new state (register of every name = content of its box after the assignment).
    Side conditions, exactly what the argument needs: the variable's register lies in the frame (`hmaxx`; `EnvS` does not record
    "register ≤ max"); the value does not rebind `x` (`hside.1`, `hsame`: `(set x (def x 5))` is excluded); a mutable name's register
    is held by no other resolvable name at the exit of the value (`MutInj`, `hside.2`: `namelocal` aliases only immutable sources);
    distinct names have distinct boxes at entry (`BoxInj`; preserved across the value: `tf_boxinj`, proved).  `set` is a STATEMENT
    theorem: it is not a constructor of the fragment, because across a `set` two clauses of `Correct2` are false ("every register
    allocated at entry keeps its content", "the box store is prefix-stable") — see `compile_correct_partial`. -/
theorem compile_correct_set (p : Program) (f0 : Frame) (rest : List Frame) (V : Array Value) (P : List JanetModel.Emit.KConst)
    (hP : P.length < 65536)
    (hK : ∀ i, i < P.length → (p.defs.getD f0.defIdx default).consts.getD i .nil = litOf V (P.getD i .nil))
    (FF : FloatFacts) (G : String → Prop) (b : Bool)
    (fuel : Nat) (x : String) (ve : Expr) (pp : Pos) (opts : Fopts) (c c' : CState) (slot : JSlot) (sc : Scope) (rs : List Scope)
    (pool : List JanetModel.Emit.KConst) (ps : List (List JanetModel.Emit.KConst)) (n : Nat) (cur : Pos) (env env' : Env) (s s' : SS) (v : Value)
    (ht : opts.tail = false) (hh : opts.hint = none)
    (hs : c.scopes = sc :: rs) (hp : c.pools = pool :: ps) (hl : c.lim ≤ 240) (htop : sc.top = false)
    (hm : c.map.length = c.buf.length) (hTv : TF G b ve)
    (hcomp : cValue (fuel + 1) opts (.form [.sym "set", .sym x, ve] pp) c = some (slot, c'))
    (hsem : eval n cur env (.form [.sym "set", .sym x, ve] pp) s = .ok (v, env') s')
    (henv : EnvS G c.scopes env s.boxes.size sc.ra)
    (hmaxx : ∀ dest rx u l, lk c.scopes x = some (dest, u, l) → dest.k = .loc rx → rx ≤ sc.ra.max)
    (hside : ∀ (q : Pos) (dest r : JSlot) (c2 : CState), (∃ u l, lk c.scopes x = some (dest, u, l)) →
      cValue fuel { hint := some dest } ve { c with cur := q } = some (r, c2) →
      (∀ u l, lk c.scopes x = some (dest, u, l) → ∃ u2 l2, lk c2.scopes x = some (dest, u2, l2)) ∧ MutInj c2.scopes)
    (hsame : ∀ a, lookupEnv env x = some a → lookupEnv env' x = some a)
    (hbi : BoxInj env s.boxes.size) :
    ∃ rx, SetOK p f0 rest V P G c c' slot rx sc rs pool ps env env' s s' v :=
  set_correct p f0 rest V P G b fuel
    (tf_hint_correct_b p f0 rest V P hP hK FF G b b (tf_correct_b p f0 rest V P hP hK FF G b) fuel)
    x ve pp hTv opts c c' slot sc rs pool ps n cur env env' s s' v ht hh hs hp hl htop hm hcomp hsem henv hmaxx hside hsame
    (fun n2 pos s1 he => (tf_boxinj G b n2 pos env env' ve s s1 v henv.gfree hbi hTv he).1)

/-- **`set` with a value that contains no `def`** (`∀ y, NoBind y ve`: calls, `if`, `do` / `upscope` of such, literals, symbols — the
    common case `(set x (f x …))`, `(set x (if c a b))`): all side conditions of `compile_correct_set` that talk about the EXIT of the
    value follow from facts about the ENTRY state — `MutInj c.scopes` (a mutable name's register is held by no other resolvable
    name), `BoxInj env s.boxes.size` (distinct names have distinct boxes) — by compile-only / semantic preservation theorems
    (`nobind_lk_h`, `tf_mutinj_h`: Compile/SeqSetSideH.lean; `nobind_env`: SeqSetSide.lean; `tf_boxinj`).  What remains is `hmaxx`
    (the variable's register lies in the frame). -/
theorem compile_correct_set_nodef (p : Program) (f0 : Frame) (rest : List Frame) (V : Array Value) (P : List JanetModel.Emit.KConst)
    (hP : P.length < 65536)
    (hK : ∀ i, i < P.length → (p.defs.getD f0.defIdx default).consts.getD i .nil = litOf V (P.getD i .nil))
    (FF : FloatFacts) (G : String → Prop) (b : Bool)
    (fuel : Nat) (x : String) (ve : Expr) (pp : Pos) (opts : Fopts) (c c' : CState) (slot : JSlot) (sc : Scope) (rs : List Scope)
    (pool : List JanetModel.Emit.KConst) (ps : List (List JanetModel.Emit.KConst)) (n : Nat) (cur : Pos) (env env' : Env) (s s' : SS) (v : Value)
    (ht : opts.tail = false) (hh : opts.hint = none)
    (hs : c.scopes = sc :: rs) (hp : c.pools = pool :: ps) (hl : c.lim ≤ 240) (htop : sc.top = false)
    (hm : c.map.length = c.buf.length) (hTv : TF G b ve) (hnd : ∀ y, NoBind y ve)
    (hcomp : cValue (fuel + 1) opts (.form [.sym "set", .sym x, ve] pp) c = some (slot, c'))
    (hsem : eval n cur env (.form [.sym "set", .sym x, ve] pp) s = .ok (v, env') s')
    (henv : EnvS G c.scopes env s.boxes.size sc.ra)
    (hmaxx : ∀ dest rx u l, lk c.scopes x = some (dest, u, l) → dest.k = .loc rx → rx ≤ sc.ra.max)
    (hmi : MutInj c.scopes) (hbi : BoxInj env s.boxes.size) :
    ∃ rx, SetOK p f0 rest V P G c c' slot rx sc rs pool ps env env' s s' v := by
  obtain ⟨n2, s1, a0, _, hev, _, _⟩ := eval_set_inv n cur env env' x ve pp s s' v hsem
  have hsame : lookupEnv env' x = lookupEnv env x :=
    nobind_env G b x n2 (posOf cur pp) env env' ve s s1 v henv.gfree hTv (hnd x) hev
  refine compile_correct_set p f0 rest V P hP hK FF G b fuel x ve pp opts c c' slot sc rs pool ps n cur env env' s s' v ht hh hs hp hl htop hm
    hTv hcomp hsem henv hmaxx ?_ (fun a ha => by rw [hsame]; exact ha) hbi
  intro q dest r c2 hlkx hv
  obtain ⟨u, l, hlk⟩ := hlkx
  obtain ⟨_, _, hcf, rx, a, hk, _, _, _, hr⟩ := henv.found hlk
  have hlk2 := nobind_lk_h G b x fuel ve { hint := some dest } { c with cur := q } c2 r sc rs pool ps dest rx rfl rfl hk hcf hr hs hp htop hm
    hTv (hnd x) henv.lkl hv
  exact ⟨fun u' l' h => ⟨u', l', by rw [hlk2]; exact h⟩,
    tf_mutinj_h G b fuel ve { hint := some dest } { c with cur := q } c2 r sc rs pool ps dest rx rfl rfl hk hcf hr hs hp htop hm hTv hnd
      henv.lkl hv hmi⟩

/-- **`set` with a value that may contain `def`s of other names** (gap (c) of session 4c closed): `NoBind x ve` only for the ASSIGNED
    variable `x` (so `(set x (def x 5))` stays excluded), instead of `∀ y, NoBind y ve`.  The exit-side conditions of
    `compile_correct_set` follow from `MutInj c.scopes` / `BoxInj` at ENTRY: `EnvS` marks every resolvable name's register
    (`EnvS.allocInv`), and a compile-ONLY induction over the fragment, un-hinted and hinted (`tf_pat_at`, `tf_pat_h_at`:
    Compile/SeqMutInjDefM.lean, SeqMutInjDefH.lean; allocator marks are never cleared by the emit layer: SeqMutInjDefRA.lean), carries
    "a resolvable local's register lies in the set P of the mutable names' entry registers iff the local is mutable, P stays
    marked, a returned un-named register is outside P": a `def` names a fresh first-fit register (`farslot_fresh`: un-marked before)
    or aliases an IMMUTABLE source (`namelocal_mutinj`), so no new name ever holds a mutable name's register (`tf_mutinj_def_h`,
    `set_hside_def`). -/
theorem compile_correct_set_def (p : Program) (f0 : Frame) (rest : List Frame) (V : Array Value) (P : List JanetModel.Emit.KConst)
    (hP : P.length < 65536)
    (hK : ∀ i, i < P.length → (p.defs.getD f0.defIdx default).consts.getD i .nil = litOf V (P.getD i .nil))
    (FF : FloatFacts) (G : String → Prop) (b : Bool)
    (fuel : Nat) (x : String) (ve : Expr) (pp : Pos) (opts : Fopts) (c c' : CState) (slot : JSlot) (sc : Scope) (rs : List Scope)
    (pool : List JanetModel.Emit.KConst) (ps : List (List JanetModel.Emit.KConst)) (n : Nat) (cur : Pos) (env env' : Env) (s s' : SS) (v : Value)
    (ht : opts.tail = false) (hh : opts.hint = none)
    (hs : c.scopes = sc :: rs) (hp : c.pools = pool :: ps) (hl : c.lim ≤ 240) (htop : sc.top = false)
    (hm : c.map.length = c.buf.length) (hTv : TF G b ve) (hnd : NoBind x ve)
    (hcomp : cValue (fuel + 1) opts (.form [.sym "set", .sym x, ve] pp) c = some (slot, c'))
    (hsem : eval n cur env (.form [.sym "set", .sym x, ve] pp) s = .ok (v, env') s')
    (henv : EnvS G c.scopes env s.boxes.size sc.ra)
    (hmaxx : ∀ dest rx u l, lk c.scopes x = some (dest, u, l) → dest.k = .loc rx → rx ≤ sc.ra.max)
    (hmi : MutInj c.scopes) (hbi : BoxInj env s.boxes.size) :
    ∃ rx, SetOK p f0 rest V P G c c' slot rx sc rs pool ps env env' s s' v := by
  obtain ⟨n2, s1, a0, _, hev, _, _⟩ := eval_set_inv n cur env env' x ve pp s s' v hsem
  have hsame : lookupEnv env' x = lookupEnv env x :=
    nobind_env G b x n2 (posOf cur pp) env env' ve s s1 v henv.gfree hTv hnd hev
  have hA : AllocInv c.scopes := by
    rw [hs] at henv hmi ⊢
    exact EnvS.allocInv henv hmi
  exact compile_correct_set p f0 rest V P hP hK FF G b fuel x ve pp opts c c' slot sc rs pool ps n cur env env' s s' v ht hh hs hp hl htop hm
    hTv hcomp hsem henv hmaxx
    (set_hside_def G b fuel x ve c sc rs pool ps hs hp htop hm (by omega) hTv hnd henv.lkl hA
      (fun dest u l rx hlk hk => by
        obtain ⟨_, _, _, r', a, hk', _, _, _, hr⟩ := henv.found hlk
        rw [hk] at hk'
        simp only [Slot.loc.injEq] at hk'
        subst hk'
        exact hr))
    (fun a ha => by rw [hsame]; exact ha) hbi

/-- non-vacuity: the value `(upscope (def y 5) (tuple y x))` of `(set x …)` binds `y`, not `x`: `NoBind "x"` holds, `NoBind "y"` fails
    (so `compile_correct_set_nodef` does not apply), and it is in the fragment -/
example : NoBind "x" (.form [.sym "upscope", .form [.sym "def", .sym "y", .lit (.num 5)] {}, .form [.sym "tuple", .sym "y", .sym "x"] {}] {}) ∧
    ¬ NoBind "y" (.form [.sym "upscope", .form [.sym "def", .sym "y", .lit (.num 5)] {}, .form [.sym "tuple", .sym "y", .sym "x"] {}] {}) := by
  constructor
  · refine .form _ _ (fun e he => ?_) (fun y r h => by simp at h)
    simp only [List.mem_cons, List.not_mem_nil, or_false] at he
    rcases he with rfl | rfl | rfl
    · exact .sym _
    · refine .form _ _ (fun e he => ?_) (fun y r h => by
        simp only [List.cons.injEq, Expr.sym.injEq, true_and] at h; rw [← h.1]; decide)
      simp only [List.mem_cons, List.not_mem_nil, or_false] at he
      rcases he with rfl | rfl | rfl
      · exact .sym _
      · exact .sym _
      · exact .lit _
    · refine .form _ _ (fun e he => ?_) (fun y r h => by simp at h)
      simp only [List.mem_cons, List.not_mem_nil, or_false] at he
      rcases he with rfl | rfl | rfl <;> exact .sym _
  · intro h
    cases h with
    | form l p h1 h2 =>
      have := h1 (.form [.sym "def", .sym "y", .lit (.num 5)] {}) (by simp)
      cases this with
      | form l' p' h3 h4 => exact h4 "y" _ rfl rfl


/-- **`var` declarations**: `(var x e)` with `e` in the fragment `TF G b`, in a local scope, value used or dropped (no hint).
    `janetc_var` = the value, then `namelocal` with the MUTABLE flag: never an alias — always a fresh register and a copy — and the new
    name's slot is flagged mutable; `Lang/Sem` binds a fresh box, as for `def`.  Conclusion `Correct2 … false …` (value in the result
    slot, environment extended by `x`, invariants re-established).  This is the declaration half of `var` / `set`: nothing in the
    fragment writes the variable afterwards (`set` is not covered — see `compile_correct_partial` for what it needs). -/
theorem compile_correct_var (p : Program) (f0 : Frame) (rest : List Frame) (V : Array Value) (P : List JanetModel.Emit.KConst)
    (hP : P.length < 65536)
    (hK : ∀ i, i < P.length → (p.defs.getD f0.defIdx default).consts.getD i .nil = litOf V (P.getD i .nil))
    (FF : FloatFacts) (G : String → Prop)
    (fuel : Nat) (x : String) (ve : Expr) (pp : Pos) (opts : Fopts) (c c' : CState) (slot : JSlot) (sc : Scope) (rs : List Scope)
    (pool : List JanetModel.Emit.KConst) (ps : List (List JanetModel.Emit.KConst)) (n : Nat) (cur : Pos) (env env' : Env) (s s' : SS) (v : Value)
    (ht : opts.tail = false) (hh : opts.hint = none)
    (hs : c.scopes = sc :: rs) (hp : c.pools = pool :: ps) (hl : c.lim ≤ 240) (htop : sc.top = false)
    (hGx : ¬ G x) (b : Bool) (hfrag : TF G b ve) (hm : b = true → c.map.length = c.buf.length)
    (hcomp : cValue (fuel + 1) opts (.form [.sym "var", .sym x, ve] pp) c = some (slot, c'))
    (hsem : eval n cur env (.form [.sym "var", .sym x, ve] pp) s = .ok (v, env') s')
    (henv : EnvS G c.scopes env s.boxes.size sc.ra) :
    Correct2 p f0 rest V P G false c c' slot sc rs pool ps env env' s s' v := by
  rw [cValue_var_o fuel opts ht hh x ve pp c] at hcomp
  obtain ⟨q, hq⟩ := curAt_eq c pp
  cases hcc : cVar (cValue fuel) x ve (curAt c pp) with
  | none => rw [hcc] at hcomp; simp [fin] at hcomp
  | some res =>
    obtain ⟨slot0, cq⟩ := res
    rw [hcc] at hcomp
    simp only [fin, Option.some.injEq, Prod.mk.injEq] at hcomp
    obtain ⟨hsl, hc'⟩ := hcomp
    subst hsl hc'
    obtain ⟨n2, env1, s1, _, hev, henv', hs'⟩ := eval_var_inv n cur env env' x ve pp s s' v hsem
    subst henv' hs'
    rw [hq] at hcc
    exact Correct2.recur p f0 rest V P (q := q)
      (var_core p f0 rest V P hP hK G (TF G b) b fuel (tf_correct_b p f0 rest V P hP hK FF G b fuel) x ve hGx hfrag
        { c with cur := q } cq slot0 sc rs pool ps n2 (posOf cur pp) env env1 s s1 v hs hp hl htop hm hcc hev henv)

/-- **The error outcome, every form of the fragment `TF G b`** (error propagation; with `if` when `b = true`): if `Lang/Sem.eval` of the form is an ERROR
    `.err ev epos s'` — raised by a core function somewhere inside: in an operand at any depth, in the application itself, in a
    statement of a `do` / `upscope`, in the value of a `def`, in the condition or the taken branch of an `if` (jump path and
    folding path) — then the VM, started at the form's code, reaches a configuration in the
    world of `s'` (the effects up to the error happened, nothing after) whose NEXT STEP RAISES THE SAME ERROR VALUE AT THE SAME
    SOURCE POSITION (`ErrOK`).  Hypotheses as for the success case, plus: the mapping cursor agrees with `Lang/Sem`'s current
    position (`hcur`), the map is as long as the code, and — in `ErrOK` — the form's code segment sits in the function's code and
    its map segment in the function's source map (`MapAt`), pool / value table / frame size of the FINAL compile state.  The
    sub-forms before the failing one run by the success theorem; the failing one by induction; what is compiled after it is never
    executed and has no semantic run: that it only appends code, map (equal lengths) and pool and never lowers the allocator's
    `max` is compile-only (`tf_shapeM`, `tf_maxM`; `App`).  `Compile/SeqErrAllBase.lean` (`ErrOK.extend`, `.after`, `.block`),
    `Compile/SeqErrAll.lean` (`toSlots_err`, `call_err`, `doBody_err`, `tf_err_correct_gen`), `Compile/SeqErrIf.lean` /
    `SeqErrIfConst.lean` / `SeqErrIfCond.lean` (`if_jump_err`, `if_const_err`, `if_cond_err`, `tf_err_correct_b`). -/
theorem compile_correct_error (p : Program) (f0 : Frame) (rest : List Frame) (V : Array Value) (P : List JanetModel.Emit.KConst)
    (hP : P.length < 65536)
    (hK : ∀ i, i < P.length → (p.defs.getD f0.defIdx default).consts.getD i .nil = litOf V (P.getD i .nil))
    (FF : FloatFacts) (G : String → Prop)
    (fuel : Nat) (e : Expr) (opts : Fopts) (c c' : CState) (slot : JSlot) (sc : Scope) (rs : List Scope) (pool : List JanetModel.Emit.KConst)
    (ps : List (List JanetModel.Emit.KConst)) (n : Nat) (cur : Pos) (env : Env) (s s' : SS) (ev : Value) (epos : Pos)
    (ht : opts.tail = false) (hh : opts.hint = none)
    (hs : c.scopes = sc :: rs) (hp : c.pools = pool :: ps) (hl : c.lim ≤ 240) (htop : sc.top = false)
    (hm : c.map.length = c.buf.length) (hcur : c.cur = cur) (b : Bool) (hfrag : TF G b e)
    (hcomp : cValue fuel opts e c = some (slot, c')) (hsem : eval n cur env e s = .err ev epos s')
    (henv : EnvS G c.scopes env s.boxes.size sc.ra) :
    ErrOK p f0 rest V P c c' rs ps env s s' ev epos :=
  tf_err_correct_b p f0 rest V P hP hK FF G b b (tf_correct_b p f0 rest V P hP hK FF G b) fuel e opts c c' slot sc rs pool ps n cur env
    s s' ev epos ht hh hs hp hl htop hm hcur hfrag hcomp hsem henv

/-- non-vacuity of the error theorems: `(error :boom)` at line 3 is in the fragment (`G = {error}`) and `Lang/Sem` evaluates it to the
    error `:boom` attributed to line 3; nested in an operand, `(tuple 1 (error :boom))`, likewise -/
example : (match eval 10 {} [] (.form [.sym "error", .lit (.kw "boom")] { line := 3, col := 1 }) {} with
           | .err (.kw x) q _ => x == "boom" && q.line == 3 | _ => false) = true := by decide
example : (match eval 10 {} [] (.form [.sym "tuple", .lit (.kw "a"), .form [.sym "error", .lit (.kw "boom")] { line := 4, col := 2 }] { line := 3, col := 1 }) {} with
           | .err (.kw x) q _ => x == "boom" && q.line == 4 | _ => false) = true := by decide
example : TF (fun f => f = "error" ∨ f = "tuple") false
    (.form [.sym "tuple", .lit (.kw "a"), .form [.sym "error", .lit (.kw "boom")] { line := 4, col := 2 }] { line := 3, col := 1 }) := by
  refine .call "tuple" _ _ (by decide) (by decide) (Or.inr rfl) (fun a ha => ?_)
  simp only [List.mem_cons, List.not_mem_nil, or_false] at ha
  rcases ha with rfl | rfl
  · exact .lit _ trivial
  · exact .call "error" _ _ (by decide) (by decide) (Or.inl rfl) (fun a ha => by
      simp only [List.mem_cons, List.not_mem_nil, or_false] at ha; subst ha; exact .lit _ trivial)

/-- **A closed statement: the funcdef of a parameterless function without captured variables.**  `janetc_fn` pushes a function scope
    (`pushScope c true …`: fresh allocator, empty constant pool, `bytecode_start` = current code length), compiles the body with
    `fnBody`, and `janetc_pop_funcdef` cuts the funcdef out of the buffers: code = the buffer from `bytecode_start`, constants = the
    scope's pool, slot count = the allocator's `max` + 1 (`popFuncdef_fields`, Compile/SeqThunk.lean).  For a non-empty body of
    forms of `TF G b`, over enclosing scopes that bind nothing (no upvalue capture), with `Lang/Sem.evalSeq` in the EMPTY environment
    giving `v` / `s'`: for every program whose running funcdef has that code from pc 0, those constants and at least that many
    registers, the VM started at pc 0 with ANY register contents reaches a configuration whose next step is the return of `v` in the
    world of `s'`.  All the hypotheses the other theorems carry about the running function (`hK`, `CodeAt`, `PrefL`, frame size) and
    about the entry state (`EnvS`, `EnvD`, `NR`) are discharged here from what the compiler itself establishes.  The first conjunct
    is the shape `popFuncdef_fields` needs. -/
theorem compile_correct_thunk (p : Program) (f0 : Frame) (rest : List Frame) (V : Array Value)
    (FF : FloatFacts) (G : String → Prop) (b : Bool) (fuel : Nat)
    (c c5 : CState) (body : List Expr) (hT : ∀ e, e ∈ body → TF G b e) (hne : body ≠ [])
    (hm : c.map.length = c.buf.length) (hl : c.lim ≤ 240) (hclosed : ∀ x, lk c.scopes x = none)
    (hc : fnBody (cValue fuel) body (pushScope c true false false false) = some c5)
    (n : Nat) (cur : Pos) (env' : Env) (s s' : SS) (v : Value)
    (hsem : evalSeq n cur [] body s = .ok (v, env') s')
    (hV : PrefA c5.vals V)
    (hcode : CodeAt (p.defs.getD f0.defIdx default).code 0 (c5.buf.drop c.buf.length))
    (hP : (c5.pools.headD []).length < 65536)
    (hK : ∀ i, i < (c5.pools.headD []).length → (p.defs.getD f0.defIdx default).consts.getD i .nil = litOf V ((c5.pools.headD []).getD i .nil))
    (regs : Array Value) (hregs : (c5.scopes.headD default).ra.max + 1 ≤ regs.size) :
    (∃ sc5, c5.scopes = sc5 :: c.scopes ∧ sc5.fn = true ∧ sc5.start = c.buf.length ∧ c5.pools = c5.pools.headD [] :: c.pools) ∧
    ∃ (regs' A : Array Value) (pc' : Nat) (wa : World),
      Reach p (inj f0 rest { regs := regs, pc := 0, args := #[], w := s.st.world }) (inj f0 rest { regs := regs', pc := pc', args := A, w := wa }) ∧
      step p (inj f0 rest { regs := regs', pc := pc', args := A, w := wa }) =
        doReturn p (inj f0 rest { regs := regs', pc := pc', args := #[], w := s'.st.world }) v :=
  thunk_body_correct p f0 rest V FF G b fuel c c5 body hT hne hm hl hclosed hc n cur env' s s' v hsem hV hcode hP hK regs hregs

/-- **A closed statement for a function WITH symbol parameters** `(fn [a₁ … aₖ] body…)`, no captured variables: `janetc_fn`'s parameter
    loop hands out registers 0 … k−1 in order on the fresh allocator (`firstFit_eq`) and names them in the function scope
    (`params_loop`); `Lang/Sem.applyFn` binds one fresh box per parameter, in order, holding the argument (`bindParams`,
    `bindAll_syms`, `pushArgs`).  With the initial registers holding the arguments (`hargs`: what the frame set-up `mkRegs` does) the
    VM from pc 0 reaches the return of what `Lang/Sem.evalSeq` gives the body in the parameters' environment.  Otherwise as
    `compile_correct_thunk`.  Not covered: the self name (`LOAD_SELF`), `&`-parameters, the call of the closure itself (`applyFn`'s
    arity checks, the closure object in the heap). -/
theorem compile_correct_fn_params (p : Program) (f0 : Frame) (rest : List Frame) (V : Array Value)
    (FF : FloatFacts) (G : String → Prop) (b : Bool) (fuel : Nat)
    (c c3 c5 : CState) (names : List String) (hGn : ∀ nm, nm ∈ names → ¬ G nm)
    (body : List Expr) (hT : ∀ e, e ∈ body → TF G b e) (hne : body ≠ [])
    (hm : c.map.length = c.buf.length) (hl : c.lim ≤ 240) (hclosed : ∀ x, lk c.scopes x = none)
    (hpar : names.foldlM (fun (cc : CState) nm => do let (sl, cc') ← farslot cc; pure (nameslot cc' nm sl))
      (pushScope c true false false false) = some c3)
    (hc : fnBody (cValue fuel) body c3 = some c5)
    (n : Nat) (cur : Pos) (env' : Env) (s s' : SS) (v : Value) (nb0 : Nat) (hnb : nb0 + names.length ≤ s.boxes.size)
    (hsem : evalSeq n cur (bindParams names nb0 []) body s = .ok (v, env') s')
    (hV : PrefA c5.vals V)
    (hcode : CodeAt (p.defs.getD f0.defIdx default).code 0 (c5.buf.drop c.buf.length))
    (hP : (c5.pools.headD []).length < 65536)
    (hK : ∀ i, i < (c5.pools.headD []).length →
      (p.defs.getD f0.defIdx default).consts.getD i .nil = litOf V ((c5.pools.headD []).getD i .nil))
    (regs : Array Value) (hregs : (c5.scopes.headD default).ra.max + 1 ≤ regs.size)
    (hargs : ∀ i, i < names.length → regs.getD i .nil = readBox s (nb0 + i)) :
    (∃ sc5, c5.scopes = sc5 :: c.scopes ∧ sc5.fn = true ∧ sc5.start = c.buf.length ∧ c5.pools = c5.pools.headD [] :: c.pools) ∧
    ∃ (regs' A : Array Value) (pc' : Nat) (wa : World),
      Reach p (inj f0 rest { regs := regs, pc := 0, args := #[], w := s.st.world })
        (inj f0 rest { regs := regs', pc := pc', args := A, w := wa }) ∧
      step p (inj f0 rest { regs := regs', pc := pc', args := A, w := wa }) =
        doReturn p (inj f0 rest { regs := regs', pc := pc', args := #[], w := s'.st.world }) v :=
  fn_params_body_correct p f0 rest V FF G b fuel c c3 c5 names hGn body hT hne hm hl hclosed hpar hc n cur env' s s' v nb0 hnb hsem hV hcode
    hP hK regs hregs hargs

/-- **Blocks whose statements are fragment forms or loops**: a `do` block whose statements are forms of `TF G true` or `while` loops
    without `break` over it (`TFW`: `compile_correct_while`'s loops), in any order, value used or dropped.  No new induction: the
    lemmas of the statement induction are generic in the fragment predicate, and `CorrectAt` for `TFW` holds by cases
    (`tfw_correct`: `compile_correct_if` / `compile_correct_while`); compile-only map-length fact for loops: `while_ML`.
    (`Compile/SeqBlockLoops.lean`.)  Loops nested in loops: `compile_correct_nested_while`, `compile_correct_loops_any_depth`; loops inside
    `if` branches are still not covered. -/
theorem compile_correct_block_loops (p : Program) (f0 : Frame) (rest : List Frame) (V : Array Value) (P : List JanetModel.Emit.KConst)
    (hP : P.length < 65536)
    (hK : ∀ i, i < P.length → (p.defs.getD f0.defIdx default).consts.getD i .nil = litOf V (P.getD i .nil))
    (FF : FloatFacts) (G : String → Prop) (fuel : Nat) (body : List Expr) (hT : ∀ e, e ∈ body → TFW G true e)
    (opts : Fopts) (c c' : CState) (slot : JSlot) (sc : Scope) (rs : List Scope) (pool : List JanetModel.Emit.KConst)
    (ps : List (List JanetModel.Emit.KConst)) (n : Nat) (cur : Pos) (env envb : Env) (s s' : SS) (v : Value)
    (ht : opts.tail = false) (hh : opts.hint = none) (hs : c.scopes = sc :: rs) (hp : c.pools = pool :: ps) (hl : c.lim ≤ 240)
    (hm : c.map.length = c.buf.length)
    (hc : cDo (cValue fuel) opts body c = some (slot, c')) (hsem : evalSeq n cur env body s = .ok (v, envb) s')
    (hE : EnvS G c.scopes env s.boxes.size sc.ra) :
    Correct2 p f0 rest V P G opts.drop c c' slot sc rs pool ps env env s s' v :=
  do_loops_core p f0 rest V P hP hK FF G fuel body hT opts c c' slot sc rs pool ps n cur env envb s s' v ht hh hs hp hl hm hc hsem hE

/-- **Nested `while` loops (no `break`)**: an outer loop whose condition is in `TF G true` (`CondOK`) and whose body statements are
    fragment forms OR inner loops without `break` over the fragment (`TFW G true`), in any order.  `while_core` / `while_jump_core`
    generalised over the body predicate (`while_core_gen`, `while_jump_gen`: Compile/SeqNestJump.lean, SeqNestCore.lean): the VM
    side needs `CorrectAt` / `MLAt` for the body predicate (`tfw_correct`, `tfw_ML`); the compile-ONLY facts about code that is
    not executed in the last round / in a loop that runs zero times — append-only shape, `max` monotone, no break placeholder left
    (the inner loop's placeholder rewrite is the identity and leaves none: `NoBrkFrom.brkRewrite`) — are proved for a loop FORM
    (`while_form_facts`, SeqNestForm.lean) and lifted to statement lists (`StmtFacts`, `whileBody_facts`, SeqNest.lean); semantic
    side: a loop never ends with the `.brk` outcome (`whileLoop_nobrk`), so the outer body has none (`tfw_evalSeq_nbg`). -/
theorem compile_correct_nested_while (p : Program) (f0 : Frame) (rest : List Frame) (V : Array Value) (P : List JanetModel.Emit.KConst)
    (hP : P.length < 65536)
    (hK : ∀ i, i < P.length → (p.defs.getD f0.defIdx default).consts.getD i .nil = litOf V (P.getD i .nil))
    (FF : FloatFacts) (G : String → Prop)
    (fuel : Nat) (cnd : Expr) (body : List Expr) (pp : Pos) (opts : Fopts) (c c' : CState) (slot : JSlot) (sc : Scope) (rs : List Scope)
    (pool : List JanetModel.Emit.KConst) (ps : List (List JanetModel.Emit.KConst)) (n : Nat) (cur : Pos) (env env' : Env) (s s' : SS) (v : Value)
    (ht : opts.tail = false) (hh : opts.hint = none)
    (hs : c.scopes = sc :: rs) (hp : c.pools = pool :: ps) (hl : c.lim ≤ 240) (hm : c.map.length = c.buf.length)
    (hok : CondOK cnd) (hTc : TF G true cnd) (hTb : ∀ e, e ∈ body → TFW G true e)
    (hcomp : cValue (fuel + 1) opts (.form (.sym "while" :: cnd :: body) pp) c = some (slot, c'))
    (hsem : eval n cur env (.form (.sym "while" :: cnd :: body) pp) s = .ok (v, env') s')
    (henv : EnvS G c.scopes env s.boxes.size sc.ra) :
    Correct2 p f0 rest V P G opts.drop c c' slot sc rs pool ps env env' s s' v :=
  while_nested_core p f0 rest V P hP hK FF G fuel cnd body pp hTc hTb hok opts c c' slot sc rs pool ps n cur env env' s s' v
    ht hh hs hp hl hm hcomp hsem henv

/-- **Loops nested to ANY depth** (`TFWn G k`, Compile/SeqNestN.lean: a fragment form, or a loop without `break` with a fragment
    condition whose body statements are in `TFWn G (k−1)`): the loop IS now a constructor — of the statement level of loop bodies —
    by induction on the nesting depth over `while_core_gen`.  Same conclusion as every form of the fragment (`Correct2`).  Still
    outside: `break`, loops inside operands / `if` branches / `do` blocks that are themselves loop-body statements, a loop as a
    loop CONDITION, loops whose body creates a closure (the loop-as-function rewrite). -/
theorem compile_correct_loops_any_depth (p : Program) (f0 : Frame) (rest : List Frame) (V : Array Value) (P : List JanetModel.Emit.KConst)
    (hP : P.length < 65536)
    (hK : ∀ i, i < P.length → (p.defs.getD f0.defIdx default).consts.getD i .nil = litOf V (P.getD i .nil))
    (FF : FloatFacts) (G : String → Prop) (k fuel : Nat) (e : Expr) (hT : TFWn G k e)
    (opts : Fopts) (c c' : CState) (slot : JSlot) (sc : Scope) (rs : List Scope)
    (pool : List JanetModel.Emit.KConst) (ps : List (List JanetModel.Emit.KConst)) (n : Nat) (cur : Pos) (env env' : Env) (s s' : SS) (v : Value)
    (ht : opts.tail = false) (hh : opts.hint = none)
    (hs : c.scopes = sc :: rs) (hp : c.pools = pool :: ps) (hl : c.lim ≤ 240) (htop : sc.top = false) (hm : c.map.length = c.buf.length)
    (hcomp : cValue fuel opts e c = some (slot, c'))
    (hsem : eval n cur env e s = .ok (v, env') s')
    (henv : EnvS G c.scopes env s.boxes.size sc.ra) :
    Correct2 p f0 rest V P G opts.drop c c' slot sc rs pool ps env env' s s' v := by
  have h := tfwn_correct p f0 rest V P hP hK FF G k fuel e opts c c' slot sc rs pool ps n cur env env' s s' v ht hh hs hp hl htop
    (fun _ => hm) hT hcomp hsem henv
  rw [Bool.and_true] at h
  exact h

/-- **`do` blocks whose statements are fragment forms or loops nested to any depth** (`compile_correct_block_loops` for `TFWn G k`:
    `do_core` instantiated with `tfwn_correct` / `tfwn_ML`). -/
theorem compile_correct_block_nested_loops (p : Program) (f0 : Frame) (rest : List Frame) (V : Array Value) (P : List JanetModel.Emit.KConst)
    (hP : P.length < 65536)
    (hK : ∀ i, i < P.length → (p.defs.getD f0.defIdx default).consts.getD i .nil = litOf V (P.getD i .nil))
    (FF : FloatFacts) (G : String → Prop) (k fuel : Nat) (body : List Expr) (hT : ∀ e, e ∈ body → TFWn G k e)
    (opts : Fopts) (c c' : CState) (slot : JSlot) (sc : Scope) (rs : List Scope) (pool : List JanetModel.Emit.KConst)
    (ps : List (List JanetModel.Emit.KConst)) (n : Nat) (cur : Pos) (env envb : Env) (s s' : SS) (v : Value)
    (ht : opts.tail = false) (hh : opts.hint = none) (hs : c.scopes = sc :: rs) (hp : c.pools = pool :: ps) (hl : c.lim ≤ 240)
    (hm : c.map.length = c.buf.length)
    (hc : cDo (cValue fuel) opts body c = some (slot, c')) (hsem : evalSeq n cur env body s = .ok (v, envb) s')
    (hE : EnvS G c.scopes env s.boxes.size sc.ra) :
    Correct2 p f0 rest V P G opts.drop c c' slot sc rs pool ps env env s s' v := by
  have h := do_core p f0 rest V P G (TFWn G k) true fuel (tfwn_correct p f0 rest V P hP hK FF G k fuel) (tfwn_ML G k fuel) body hT
    opts c c' slot sc rs pool ps n cur env envb s s' v ht hh hs hp hl (fun _ => hm) hc hsem hE
  rw [Bool.and_true] at h
  exact h

/-- **A `while` loop WITH `break`** — the break-placeholder patch (gap (a)): `(while cnd pre… (break) post…)`, `CondOK cnd`, `TF G true cnd`,
    the statements of `pre` and `post` fragment forms or loops without `break` (`TFW G true`).  `janetc_break` in a while scope that is
    not a function scope emits the placeholder `0x80 | JOP_JUMP` (`cValue_break_o`); after the loop is compiled `janetc_while` rewrites
    every placeholder between the loop start and `:done` into `JUMP (done − i)`.  Here exactly one index holds the placeholder
    (`pre` / `post` / `cnd` emit none: `BodyNbr`, `tf_nobrk`), and the rewrite is NOT the identity: `brkRewrite_one` maps it to the jump
    and leaves every other instruction alone.  `Lang/Sem`: `cnd`, `pre`, then the `.brk` outcome ends the loop with nil; `post` and the
    `JUMP` back are dead code (compile-only shape / `max` facts).  The VM runs the condition's code, `JUMP_IF_NOT` not taken, `pre`'s
    code, and the rewritten jump lands exactly on the loop's end label; condition falsy at the first test: as without `break`;
    constant truthy condition (`while true`): no conditional jump (`while_break_inf`).  Compile/SeqBrk.lean, SeqBrkJump.lean,
    SeqBrkInf.lean, SeqBrkCore.lean.  `hrg`: the loop's code is at most 0x7FFFFF instructions — `janetc_while` checks the JUMP back
    (`labeljt − labelwt > 0x7FFFFF` is refused) but not the break jump `done − i`, which is one larger when `(break)` is the first
    instruction of a `while true` loop; the VM's 24-bit signed field holds at most 0x7FFFFF (see notes/C02.md "Session 4d").
    NOT proved: a conditional break `(if c (break))` in an iterating loop (semantic side only: `eval_ifbreak`, SeqBrkIf.lean), `break`
    with a value, `break` out of a loop compiled as a function. -/
theorem compile_correct_while_break (p : Program) (f0 : Frame) (rest : List Frame) (V : Array Value) (P : List JanetModel.Emit.KConst)
    (hP : P.length < 65536)
    (hK : ∀ i, i < P.length → (p.defs.getD f0.defIdx default).consts.getD i .nil = litOf V (P.getD i .nil))
    (FF : FloatFacts) (G : String → Prop)
    (fuel : Nat) (cnd : Expr) (pre post : List Expr) (bp pp : Pos) (opts : Fopts) (c c' : CState) (slot : JSlot) (sc : Scope) (rs : List Scope)
    (pool : List JanetModel.Emit.KConst) (ps : List (List JanetModel.Emit.KConst)) (n : Nat) (cur : Pos) (env env' : Env) (s s' : SS) (v : Value)
    (ht : opts.tail = false) (hh : opts.hint = none)
    (hs : c.scopes = sc :: rs) (hp : c.pools = pool :: ps) (hl : c.lim ≤ 240) (hm : c.map.length = c.buf.length)
    (hok : CondOK cnd) (hTc : TF G true cnd) (hTpre : ∀ e, e ∈ pre → TFW G true e) (hTpost : ∀ e, e ∈ post → TFW G true e)
    (hcomp : cValue (fuel + 1) opts (.form (.sym "while" :: cnd :: (pre ++ .form [.sym "break"] bp :: post)) pp) c = some (slot, c'))
    (hrg : c'.buf.length - c.buf.length ≤ 8388607)
    (hsem : eval n cur env (.form (.sym "while" :: cnd :: (pre ++ .form [.sym "break"] bp :: post)) pp) s = .ok (v, env') s')
    (henv : EnvS G c.scopes env s.boxes.size sc.ra) :
    Correct2 p f0 rest V P G opts.drop c c' slot sc rs pool ps env env' s s' v :=
  while_break_core p f0 rest V P hP hK FF G fuel cnd pre post bp pp hTc hTpre hTpost hok opts c c' slot sc rs pool ps n cur env env' s s' v
    ht hh hs hp hl hm hcomp hrg hsem henv

/-- non-vacuity: `Lang/Sem` runs `(do (def a (array :x :y)) (while (array/pop a) (emit :t) (break) (emit :dead)))`: one round, one
    effect, value nil — the loop ends by the `break`, `(emit :dead)` never runs, and `a` still holds one element -/
example : (match eval 30 {} [] (.form [.sym "do", .form [.sym "def", .sym "a", .form [.sym "array", .lit (.kw "x"), .lit (.kw "y")] {}] {},
            .form [.sym "while", .form [.sym "array/pop", .sym "a"] {}, .form [.sym "emit", .lit (.kw "t")] {}, .form [.sym "break"] {},
              .form [.sym "emit", .lit (.kw "dead")] {}] {}] {}) {} with
           | .ok (.nil, _) s => s.st.trace.size == 1 | _ => false) = true := by decide

/-- non-vacuity: `Lang/Sem` runs a doubly nested loop of the fragment to completion —
    `(do (def a (array :x :y)) (def b (array 1 2 3)) (while (array/pop a) (while (array/pop b) (emit :in)) (emit :out)))`:
    2 outer rounds, the inner loop runs 3 times in the first and 0 times in the second: 5 effects; and the loop is in `TFWn G 2` -/
example : (match eval 40 {} [] (.form [.sym "do", .form [.sym "def", .sym "a", .form [.sym "array", .lit (.kw "x"), .lit (.kw "y")] {}] {},
            .form [.sym "def", .sym "b", .form [.sym "array", .lit (.kw "p"), .lit (.kw "q"), .lit (.kw "r")] {}] {},
            .form [.sym "while", .form [.sym "array/pop", .sym "a"] {},
              .form [.sym "while", .form [.sym "array/pop", .sym "b"] {}, .form [.sym "emit", .lit (.kw "in")] {}] {},
              .form [.sym "emit", .lit (.kw "out")] {}] {}] {}) {} with
           | .ok (.nil, _) s => s.st.trace.size == 5 | _ => false) = true := by decide
example : TFWn (fun f => f = "array/pop" ∨ f = "emit") 2
    (.form [.sym "while", .form [.sym "array/pop", .sym "a"] {},
      .form [.sym "while", .form [.sym "array/pop", .sym "b"] {}, .form [.sym "emit", .lit (.kw "in")] {}] {},
      .form [.sym "emit", .lit (.kw "out")] {}] {}) := by
  have hpop : ∀ x : String, TF (fun f => f = "array/pop" ∨ f = "emit") true (.form [.sym "array/pop", .sym x] {}) := fun x =>
    .call "array/pop" _ {} (by decide) (by decide) (Or.inl rfl) (fun a ha => by
      simp only [List.mem_cons, List.not_mem_nil, or_false] at ha; subst ha; exact .sym x)
  have hemit : ∀ kw : String, TF (fun f => f = "array/pop" ∨ f = "emit") true (.form [.sym "emit", .lit (.kw kw)] {}) := fun kw =>
    .call "emit" _ {} (by decide) (by decide) (Or.inr rfl) (fun a ha => by
      simp only [List.mem_cons, List.not_mem_nil, or_false] at ha; subst ha; exact .lit _ trivial)
  have hok : ∀ x : String, CondOK (.form [.sym "array/pop", .sym x] {}) := fun x =>
    Or.inr (Or.inr (Or.inl ⟨"array/pop", _, {}, rfl, by decide⟩))
  refine Or.inr ⟨_, _, {}, rfl, hok "a", hpop "a", fun x hx => ?_⟩
  simp only [List.mem_cons, List.not_mem_nil, or_false] at hx
  rcases hx with rfl | rfl
  · exact Or.inr ⟨_, _, {}, rfl, hok "b", hpop "b", fun y hy => by
      simp only [List.mem_cons, List.not_mem_nil, or_false] at hy; subst hy; exact hemit "in"⟩
  · exact tfwn_of_tf _ 1 _ (hemit "out")

/-- **The error outcome of a function body** (and of a form in tail position): `fnBody` (`janetc_fn`'s body loop: every form but the
    last dropped, the last in TAIL position) over forms of the fragment `TF G b`, and `Lang/Sem.evalSeq` of the body is an
    ERROR `.err ev epos s'` — raised in a leading statement (non-tail: `compile_correct_error`) or in the last form (tail position:
    an operand raises, or the application raises AT THE TAILCALL, or a statement of a tail `do`, or the condition / taken branch of a
    tail `if` …: `ErrAtT`, an induction of its own, `Compile/SeqErrTail.lean`, `SeqErrTailCall.lean`, `SeqErrTailIf.lean`; the code after the failing form — including the `RETURN` — is never
    reached and is append-only / `max`-monotone compile-only: `tf_shapeT`, `tf_maxT`).  Then the VM, started at the body's code,
    reaches a configuration in the world of `s'` whose next step raises `ev` at `epos` (`ErrOK`).  With `compile_correct_fn_body`:
    a function body of the fragment returns what `Lang/Sem` returns and raises what `Lang/Sem` raises. -/
theorem compile_correct_fn_body_error (p : Program) (f0 : Frame) (rest : List Frame) (V : Array Value) (P : List JanetModel.Emit.KConst)
    (hP : P.length < 65536)
    (hK : ∀ i, i < P.length → (p.defs.getD f0.defIdx default).consts.getD i .nil = litOf V (P.getD i .nil))
    (FF : FloatFacts) (G : String → Prop)
    (fuel : Nat) (body : List Expr) (c c' : CState) (sc : Scope) (rs : List Scope) (pool : List JanetModel.Emit.KConst)
    (ps : List (List JanetModel.Emit.KConst)) (n : Nat) (cur : Pos) (env : Env) (s s' : SS) (ev : Value) (epos : Pos)
    (hs : c.scopes = sc :: rs) (hp : c.pools = pool :: ps) (hl : c.lim ≤ 240) (htop : sc.top = false)
    (hm : c.map.length = c.buf.length) (hcur : c.cur = cur) (b : Bool) (hbody : ∀ e, e ∈ body → TF G b e)
    (hcomp : fnBody (cValue fuel) body c = some c') (hsem : evalSeq n cur env body s = .err ev epos s')
    (henv : EnvS G c.scopes env s.boxes.size sc.ra) :
    ErrOK p f0 rest V P c c' rs ps env s s' ev epos :=
  fnBody_err p f0 rest V P G b b fuel (tf_correct_b p f0 rest V P hP hK FF G b fuel)
    (tf_err_correct_b p f0 rest V P hP hK FF G b b (tf_correct_b p f0 rest V P hP hK FF G b) fuel)
    (tf_errT_correct_b p f0 rest V P hP hK FF G b b (tf_correct_b p f0 rest V P hP hK FF G b) fuel)
    body hbody c c' sc rs pool ps n cur env s s' ev epos hs hp hl htop hm hcur hcomp hsem henv

/-- **Compile correctness, tail position (calls)**: a call `(f e₁ … eₙ)` of a global core function (`G f`, not `apply`, not a
    special form), operands in the fragment `TF G b` (either fragment; `hm` needed when `if` is among them), compiled with the TAIL flag in a scope that is not the top level
    (`janetc_call` with JANET_FOPTS_TAIL): the operands and the pushes are those of the non-tail case, then JOP_TAILCALL of the
    callee — no target register; the result slot carries JANET_SLOT_RETURNED, so `janetc_value` emits no RETURN after it.
    If `Lang/Sem.eval` gives the call the value `v` and state `s'`, the VM — from any configuration of the activation satisfying
    the run-time invariant, wherever the segment sits — reaches a configuration (pending arguments = the operand values) whose
    NEXT STEP IS `doReturn` OF `v` IN THE WORLD OF `s'`: the activation ends returning what the source means, with the effects
    the source means.  (Tail position of the other forms — RETURN after a literal / symbol / `def`, the tail flag passed into the
    last statement of `do` / the branches of `if` — is not proved yet; see `compile_correct_partial`.) -/
theorem compile_correct_tail_calls (p : Program) (f0 : Frame) (rest : List Frame) (V : Array Value) (P : List JanetModel.Emit.KConst)
    (hP : P.length < 65536)
    (hK : ∀ i, i < P.length → (p.defs.getD f0.defIdx default).consts.getD i .nil = litOf V (P.getD i .nil))
    (FF : FloatFacts) (G : String → Prop)
    (fuel : Nat) (f : String) (args : List Expr) (pp : Pos) (opts : Fopts) (c c' : CState) (slot : JSlot) (sc : Scope) (rs : List Scope)
    (pool : List JanetModel.Emit.KConst) (ps : List (List JanetModel.Emit.KConst)) (n : Nat) (cur : Pos) (env env' : Env) (s s' : SS) (v : Value)
    (ht : opts.tail = true) (hh : opts.hint = none)
    (hs : c.scopes = sc :: rs) (hp : c.pools = pool :: ps) (hl : c.lim ≤ 240) (htop : sc.top = false)
    (hf : specials.contains f = false) (hna : f ≠ "apply") (hG : G f)
    (b : Bool) (hargs : ∀ a, a ∈ args → TF G b a) (hm : b = true → c.map.length = c.buf.length)
    (hcomp : cValue (fuel + 1) opts (.form (.sym f :: args) pp) c = some (slot, c'))
    (hsem : eval n cur env (.form (.sym f :: args) pp) s = .ok (v, env') s')
    (henv : EnvS G c.scopes env s.boxes.size sc.ra) :
    slot.returned = true ∧
    ∃ (mx : Nat) (more : List JanetModel.Emit.KConst) (seg : List CI) (segm : List Pos),
      c'.buf = c.buf ++ seg ∧ c'.map = c.map ++ segm ∧ c'.pools = (pool ++ more) :: ps ∧ PrefA c.vals c'.vals ∧
      (∃ sc', c'.scopes = sc' :: rs ∧ sc'.ra.max = mx) ∧
      ∀ (k : Cfg), k.w = s.st.world → k.args = #[] → EnvD c.scopes env s k.regs →
        CodeAt (p.defs.getD f0.defIdx default).code k.pc seg → PrefL (pool ++ more) P → PrefA c'.vals V → mx < k.regs.size →
        ∃ (regs' A : Array Value) (pc' : Nat) (wa : World),
          Reach p (inj f0 rest k) (inj f0 rest { regs := regs', pc := pc', args := A, w := wa }) ∧ regs'.size = k.regs.size ∧
          step p (inj f0 rest { regs := regs', pc := pc', args := A, w := wa }) =
            doReturn p (inj f0 rest { regs := regs', pc := pc', args := #[], w := s'.st.world }) v := by
  rw [cValue_call_tail fuel opts ht hh f args pp c hf] at hcomp
  obtain ⟨q, hq⟩ := curAt_eq c pp
  cases hcc : cCall (cValue fuel) opts (.sym f) args (curAt c pp) with
  | none => rw [hcc] at hcomp; simp at hcomp
  | some res =>
    obtain ⟨ret, c1⟩ := res
    rw [hcc] at hcomp
    have hgl : lookupEnv env f = none := by
      rcases henv.2 f with ⟨_, h⟩ | ⟨sl, r, a', u, h, _⟩
      · exact h
      · rw [henv.1 f hG] at h; exact absurd h (by simp)
    obtain ⟨n2, vs, s_a, _, hsa, happ⟩ := eval_callN_inv n cur env env' f args pp s s' v hf hgl hsem
    rw [hq] at hcc
    obtain ⟨hret, mx, more, seg, segm, b1, b2, b3, b4, b5, vm⟩ :=
      tail_call_core p f0 rest V P hP hK FF G (TF G b) b fuel
        (tf_correct_b p f0 rest V P hP hK FF G b fuel)
        (tf_ML G b b fuel) (fun a h => h.notSplice)
        opts ht f args hna hG hargs { c with cur := q } c1 ret sc rs pool ps n2 (posOf cur pp) env env' s s_a s' vs v hs hp hl htop
        hm hcc hsa happ henv
    simp only [cReturn_returned c1 ret hret, Option.bind_some, Option.some.injEq, Prod.mk.injEq] at hcomp
    obtain ⟨e1, e2⟩ := hcomp
    subst e1 e2
    refine ⟨hret, mx, more, seg, segm, b1, b2, b3, b4, b5, fun k a1 a2 a3 a4 a5 a6 a7 => ?_⟩
    obtain ⟨regs', A, pc', r1, _, r3, r4⟩ := vm k a1 a2 a3 a4 a5 a6 a7
    exact ⟨regs', A, pc', s_a.st.world, r1, r3, r4⟩

/-- **Compile correctness, tail position, every form of the fragment `TF G b`**
    (`e ::= literal | symbol | (f e ...) | (do e ...) | (upscope e ...) | (def x e) | (if c e [e])`, `if` when `b = true`) compiled with the TAIL flag in a scope that is not the top
    level — what `janetc_fn` does with the last form of a function body.  `janetc_value` ends with `janetc_return`: nothing when the
    slot is already flagged RETURNED (a tail call; a `do` whose last statement returned), `RETURN_NIL` for the constant nil,
    `LDK t k; RETURN t` for another constant, `RETURN r` for a local; `do` / `upscope` pass the tail flag to their LAST statement
    only (the others are compiled dropped and freed, by the non-tail theorem), `def` compiles its value non-tail and returns its
    slot, a call becomes `TAILCALL`.  Conclusion `TailOK`: the result slot is flagged RETURNED; the compiler state changed as for
    any form (innermost allocator and symbols, pool / code / map appended, allocator monotone); and the VM, started at the form's
    code from any configuration of the activation satisfying the run-time invariant, reaches a configuration whose NEXT STEP IS
    `doReturn` OF THE VALUE `Lang/Sem` GIVES, IN THE WORLD `Lang/Sem` GIVES.  Hypotheses beyond the non-tail theorem: `NR c.scopes`
    (no resolvable name's slot carries the RETURNED flag — true at function entry; preserved by every non-tail compile, proved
    compile-only as `tf_NR`; without it the statement is false: `janetc_return` emits nothing for a flagged slot) and the
    map-length invariant.  By an induction of its own (`Compile/SeqTailAll.lean`: `tf_tail_correct_gen`).  `if` in tail position
    (`Compile/SeqTailIf.lean`: `tail_if_case`): no target register and no JUMP — both branches are compiled with the tail flag and
    return themselves; the condition is compiled non-tail; the constant-condition folding returns from the live branch (the
    `RETURN_NIL` that `janetc_value` appends after it is never reached); the branch not taken through the compile-only shape
    theorem for tail compiles (`tf_shapeT`). -/
theorem compile_correct_tail (p : Program) (f0 : Frame) (rest : List Frame) (V : Array Value) (P : List JanetModel.Emit.KConst)
    (hP : P.length < 65536)
    (hK : ∀ i, i < P.length → (p.defs.getD f0.defIdx default).consts.getD i .nil = litOf V (P.getD i .nil))
    (FF : FloatFacts) (G : String → Prop)
    (fuel : Nat) (e : Expr) (opts : Fopts) (c c' : CState) (slot : JSlot) (sc : Scope) (rs : List Scope) (pool : List JanetModel.Emit.KConst)
    (ps : List (List JanetModel.Emit.KConst)) (n : Nat) (cur : Pos) (env env' : Env) (s s' : SS) (v : Value)
    (ht : opts.tail = true) (hh : opts.hint = none)
    (hs : c.scopes = sc :: rs) (hp : c.pools = pool :: ps) (hl : c.lim ≤ 240) (htop : sc.top = false)
    (hm : c.map.length = c.buf.length) (b : Bool) (hfrag : TF G b e)
    (hcomp : cValue fuel opts e c = some (slot, c')) (hsem : eval n cur env e s = .ok (v, env') s')
    (henv : EnvS G c.scopes env s.boxes.size sc.ra) (hnr : NR c.scopes) :
    TailOK p f0 rest V P G c c' slot sc rs pool ps env s s' v :=
  tf_tail_correct_b p f0 rest V P hP hK FF G b fuel e opts c c' slot sc rs pool ps n cur env env' s s' v ht hh hs hp hl htop hm hfrag hcomp hsem
    henv hnr

/-- **The body of a function**: `janetc_fn` compiles the body forms in the function scope with `fnBody` — every form but the last
    with the drop flag (its slot is not freed), the last one in TAIL position.  For a non-empty body of forms of `TF G b`: if
    `Lang/Sem.evalSeq` (what `applyFn` runs for a closure's body) gives the value `v` and state `s'`, then the VM, started at the
    body's code from any configuration of the activation satisfying the run-time invariant, reaches a configuration whose next step
    is `doReturn` of `v` in the world of `s'` (`TailOK`; compile-side: code / map / pool appended, allocator monotone).  This is
    `compile_correct_nary_calls` for the leading statements chained with `compile_correct_tail` for the last one; it is the
    statement a proof about `fn` (closure creation, frame set-up, parameters) will have to connect to. -/
theorem compile_correct_fn_body (p : Program) (f0 : Frame) (rest : List Frame) (V : Array Value) (P : List JanetModel.Emit.KConst)
    (hP : P.length < 65536)
    (hK : ∀ i, i < P.length → (p.defs.getD f0.defIdx default).consts.getD i .nil = litOf V (P.getD i .nil))
    (FF : FloatFacts) (G : String → Prop)
    (fuel : Nat) (body : List Expr) (c c' : CState) (sc : Scope) (rs : List Scope) (pool : List JanetModel.Emit.KConst)
    (ps : List (List JanetModel.Emit.KConst)) (n : Nat) (cur : Pos) (env env' : Env) (s s' : SS) (v : Value)
    (hs : c.scopes = sc :: rs) (hp : c.pools = pool :: ps) (hl : c.lim ≤ 240) (htop : sc.top = false)
    (hm : c.map.length = c.buf.length) (b : Bool) (hbody : ∀ e, e ∈ body → TF G b e) (hne : body ≠ [])
    (hcomp : fnBody (cValue fuel) body c = some c') (hsem : evalSeq n cur env body s = .ok (v, env') s')
    (henv : EnvS G c.scopes env s.boxes.size sc.ra) (hnr : NR c.scopes) :
    ∃ slot, TailOK p f0 rest V P G c c' slot sc rs pool ps env s s' v :=
  fnBody_tail p f0 rest V P G (TF G b) b fuel
    (tf_correct_b p f0 rest V P hP hK FF G b fuel) (tf_ML G b true fuel) (tf_NR_b G b fuel)
    (tf_tail_correct_b p f0 rest V P hP hK FF G b fuel) body hbody hne c c' sc rs pool ps n cur env env' s s' v hs hp hl htop hm hcomp hsem henv hnr

/-- non-vacuity: at the entry of a function body without parameters no name is resolvable, so `NR` holds -/
example (scs : List Scope) (h : ∀ x, lk scs x = none) : NR scs := by
  intro x slot u l hx; rw [h x] at hx; exact absurd hx (by simp)

/-- non-vacuity: the option set of a function body's last form satisfies the hypotheses of `compile_correct_tail_calls` -/
example : ({ tail := true } : Fopts).tail = true ∧ ({ tail := true } : Fopts).hint = none := ⟨rfl, rfl⟩

/-- `compile_correct` for the rest of the modelled fragment is NOT proved.  Proved of it: `compile_correct_calls` above, and
    (this theorem) the two atomic cases for every option set without hint / tail: a literal and a global function symbol compile
    to a constant slot, emit no code and leave scopes and buffer untouched.
    Proved since: `compile_correct_statements` (`do`, `upscope`, `def` of a symbol in a local scope, sequencing, dropped values),
    `compile_correct_nary_calls` (calls of global core functions with any number of operands: PUSH / PUSH_2 / PUSH_3 grouping,
    operands held together), `compile_correct_local_calls` (calls through a local holding a core function),
    `compile_correct_if` (`if`, jump path), `compile_correct_tail_calls` (a call in tail position: TAILCALL, the next VM step is
    the return of the value), `compile_correct_call_error` / `compile_correct_error` (a raising core function, anywhere inside a form of the
    fragment: same error value at the same position, same effects), `compile_correct_tail` (every form in tail position),
    `compile_correct_fn_body` / `compile_correct_thunk` / `compile_correct_fn_params` (function bodies and their funcdefs),
    `compile_correct_var`, `compile_correct_set` (the `set` statement), `compile_correct_while`, `compile_correct_block_loops`.
    Missing, exactly: (1) calls whose callee is a closure or a computed head (needs closures in the VM relation); (2) `if` whose
    condition is a `do` / `upscope` / `def` form (its slot can be a constant whose value is known only through the run: needs a
    constant-value induction); `set` as a CONSTRUCTOR of the fragment (the statement `(set x e)` itself is proved: `compile_correct_set`): across a `set` the
    frame clause "every register allocated at entry keeps its content" and the prefix-stability of the boxes are false and must be
    restated relative to the mutable names a form reaches; the invariant needs injectivity of mutable names' registers and of
    boxes carried by `EnvS` (side conditions at ENTRY only since `compile_correct_set_def`: values may contain `def`s of other names); with `set` inside operands the n-ary call needs the side condition that no
    operand is a variable a later operand sets (janet reads operand registers when the call is made); loops whose body assigns, destructuring `def`, `break` in general (`.brk` is a third outcome of every form: an induction like the error outcome; the placeholder
    patch itself is proved for a loop with an unconditional `(break)` statement: `compile_correct_while_break`;
    a single `while` without `break` over the fragment is `compile_correct_while`; loops nested to any depth as loop-body statements:
    `compile_correct_nested_while`, `compile_correct_loops_any_depth`; a loop inside an operand / `if` branch / as a condition: not proved), `fn`: closure CREATION and calls of closures (heap relation between `Lang/Sem`'s lambdas and the VM's closure objects), the
    self name, `&`-parameters, upvalues (`janetc_popscope`'s `keep` reservations are modelled and compared word for word, not
    proved) — what a function's funcdef computes is proved (`compile_correct_thunk`, `compile_correct_fn_params`); (3) the
    top-level scope (`sc.top`: calls are never tail calls there, `def` makes globals); (4) far registers (`lim` > 0xF0: the
    `emit_*_correct` theorems cover the emit layer, not yet connected; first far-register theorems: `fn_moveargs_correct` /
    `fn_moveargs_allocated` — the entry moves of a function with > 240 parameters deliver every argument in its register).  Every construct outside these theorems stays
    translation-validated: model = real compiler word for word, real bytecode run by the Lean VM = real VM = `Lang/Sem`. -/
theorem compile_correct_partial (fuel : Nat) (opts : Fopts) (c : CState) (hopts : opts.tail = false ∧ opts.hint = none) :
    (∀ v : Value, (match v with | .nil | .bool _ | .num _ | .str _ | .kw _ | .sym _ | .cfun _ => True | _ => False) →
        cValue (fuel + 1) opts (.lit v) c = some ((constSlot c v).1, { (constSlot c v).2 with cur := c.cur }) ∧
        ((constSlot c v).2).buf = c.buf ∧ ((constSlot c v).2).scopes = c.scopes ∧ ((constSlot c v).1).cflag = true) ∧
    (∀ x : String, searchScopes x c.scopes 0 false true = none → c.globs x = some .cfun →
        cValue (fuel + 1) opts (.sym x) c = some ((constSlot c (.cfun x)).1, { (constSlot c (.cfun x)).2 with cur := c.cur })) := by
  obtain ⟨ht, hh⟩ := hopts
  refine ⟨fun v hv => ?_, fun x hs hg => ?_⟩
  · have hb : ((constSlot c v).2).buf = c.buf ∧ ((constSlot c v).2).scopes = c.scopes ∧ ((constSlot c v).1).cflag = true := by
      unfold constSlot kOf
      cases v <;> simp [cslot] <;> (repeat' split) <;> simp_all
    refine ⟨?_, hb⟩
    cases v <;> simp_all [cValue]
  · simp [cValue, resolve, hs, globalSlot, hg, ht, hh]

end Compile

/-! ## Operand-width bounds (session 4c)

Every place where compile.c / specials.c / emit.c / cfuns.c select a short instruction form or accept a value for an
operand field by comparing with a literal.  The numbers are `Gen/Compile.lean`'s: the literal AND the comparison
operator as written in the current source (`i <= 0x100` regenerates the exclusive bound 257), and the width of the
field from the cast / shift of the same statement.  The obligations say that what the Lean VM's decoder (`fC`, `fCS`,
`fES` of `Bytecode/Exec`) reads back from the instruction word is the value the compiler meant. -/
section OperandBounds
open JanetModel.Bytecode.Exec JanetModel.Gen.Compile

/-- `destructure()`: every pattern index `i` for which the compiler chooses `GET_INDEX dest src (uint8_t) i` is read back
by the VM as `i` (with the source's bound `i < 0x100`; an inclusive bound puts index 256 into the 8-bit field as 0). -/
theorem destructure_short_index_fits (op a b i : Nat) (hop : op < 256) (ha : a < 256) (hb : b < 256)
    (hi : i < destructureShortIndexBound) :
    i % 2 ^ destructureShortIndexBits = i ∧ destructureShortIndexBits = emit2sRestBits ∧
    fC (op + a * 256 + b * 65536 + (i % 2 ^ destructureShortIndexBits) * 16777216) = i := by
  have h1 : destructureShortIndexBound ≤ 2 ^ destructureShortIndexBits := by decide
  have h2 : (2 : Nat) ^ destructureShortIndexBits = 256 := by decide
  have h3 : i < 256 := by omega
  refine ⟨by rw [h2]; omega, by decide, ?_⟩
  rw [h2]; unfold fC; omega

/-- the short form is chosen for EVERY index the field can carry (tightness; not needed for correctness) -/
theorem destructure_short_index_tight : destructureShortIndexBound = 2 ^ destructureShortIndexBits := by decide

/-- `can_be_imm` (cfuns.c): an integer accepted for an `*_IMMEDIATE` form is read back by the VM (`fCS`, sign-extended
8-bit C field) unchanged. -/
theorem imm8_fits (op a b : Nat) (z : Int) (hop : op < 256) (ha : a < 256) (hb : b < 256) (hlo : immMin ≤ z) (hhi : z ≤ immMax) :
    fCS (op + a * 256 + b * 65536 + (z % 2 ^ immBits).toNat * 16777216) = z := by
  have h2 : ((2 : Int) ^ immBits) = 256 := by decide
  have hl : (-128 : Int) ≤ z := hlo
  have hh : z ≤ 127 := hhi
  rw [h2]
  have hm : (z % 256).toNat < 256 := by omega
  have hc : fC (op + a * 256 + b * 65536 + (z % 256).toNat * 16777216) = (z % 256).toNat := by unfold fC; omega
  unfold fCS sext; rw [hc]
  split <;> omega

/-- `janetc_loadconst`: a number accepted for `LOAD_INTEGER` is read back by the VM (`fES`, sign-extended 16-bit field)
unchanged. -/
theorem load_integer_fits (op a : Nat) (z : Int) (hop : op < 256) (ha : a < 256) (hlo : loadIntMin ≤ z) (hhi : z ≤ loadIntMax) :
    fES (op + a * 256 + (z % 2 ^ loadIntBits).toNat * 65536) = z := by
  have h2 : ((2 : Int) ^ loadIntBits) = 65536 := by decide
  have hl : (-32768 : Int) ≤ z := hlo
  have hh : z ≤ 32767 := hhi
  rw [h2]
  have hm : (z % 65536).toNat < 65536 := by omega
  have hc : fE (op + a * 256 + (z % 65536).toNat * 65536) = (z % 65536).toNat := by unfold fE; omega
  unfold fES sext; rw [hc]
  split <;> omega

/-- the remaining bounds: a register used as an 8-bit operand without a temporary, a hinted target, a captured local's
index, a far register, a constant index, and the jump offsets accepted by `janetc_emit_sl` / `janetc_if` /
`janetc_while` fit the fields (8 / 16 bits unsigned, 16 / 24 bits signed) they are stored in. -/
theorem operand_bounds_fit_fields :
    nearSlotBound ≤ 2 ^ 8 ∧ nearHintBound ≤ nearSlotBound ∧ upvalueIndexBound ≤ 2 ^ 8 ∧ farRegisterBound ≤ 2 ^ 16 ∧
    constIndexBound ≤ 2 ^ 16 ∧
    (-(2 ^ 15 : Int) ≤ labelJumpMin ∧ labelJumpMax < 2 ^ 15) ∧ ifCondJumpMax < 2 ^ 15 ∧ whileCondJumpMax < 2 ^ 15 ∧
    ifJumpMax < 2 ^ 23 ∧ whileJumpMax < 2 ^ 23 := by decide

/-- the longest jump `janetc_while` writes is that of a `break` at the top of the loop, `labeld − labelwt` (one more than the jump
back `labeljt − labelwt`): the bound regenerated from the range check of the current source — the literal, plus one when the check is
on the jump back — fits the VM's signed 24-bit field.  (False on the tree that checked `labeljt − labelwt > 0x7FFFFF`: bound 0x800000,
`compile_correct_while_break`'s hypothesis `hrg`; corpus scenario `bound-while-true-break-8388606`.) -/
theorem while_break_jump_fits : whileBreakJumpMax < 2 ^ 23 ∧ whileJumpMax ≤ whileBreakJumpMax := by decide

/-- non-vacuity: index 255 is carried by the short form and read back as 255; 127 / -128 and 32767 / -32768 likewise -/
example : fC (0x1D + 3 * 256 + 4 * 65536 + (255 % 2 ^ destructureShortIndexBits) * 16777216) = 255 :=
  (destructure_short_index_fits 0x1D 3 4 255 (by decide) (by decide) (by decide) (by decide)).2.2
example : fCS (7 + 1 * 256 + 2 * 65536 + ((-128 : Int) % 2 ^ immBits).toNat * 16777216) = -128 :=
  imm8_fits 7 1 2 (-128) (by decide) (by decide) (by decide) (by decide) (by decide)
example : fES (9 + 1 * 256 + ((32767 : Int) % 2 ^ loadIntBits).toNat * 65536) = 32767 :=
  load_integer_fits 9 1 32767 (by decide) (by decide) (by decide) (by decide)
/-- the defect the bound guards against: index 256 in the 8-bit field is read back as 0 -/
example : fC (0x1D + 3 * 256 + 4 * 65536 + (256 % 2 ^ 8) * 16777216) = 0 := by decide

end OperandBounds

/-! ## Functions with more than 240 parameters (session 4d): `janetc_fn_moveargs`, fix 71c4f8f

The VM puts argument k in stack slot k; `janetc_fn` allocates every parameter with `janetc_farslot`, and the allocator never
hands out the temporaries 0xF0–0xFF, so parameter k ≥ 0xF0 lives in register k + 16.  `Compile/Model.lean` mirrors the entry
moves (`fnMoveArgs`, `moveArgsCode`; model = real compiler word for word on the `many_params` family of compgen.py).  These are
the first theorems about FAR registers (gap (4) of `compile_correct_partial`): the emitted moves, run on the abstract machine of
Emit/Machine.lean (MOVE_NEAR / MOVE_FAR as `Bytecode/Exec` executes them: `vm_executes_emit_words`), deliver every argument in its
parameter's register — for EVERY number of parameters. -/
section MoveArgs
open JanetModel.Compile

/-- **The entry moves are correct** (all n, all register assignments the allocator can produce): `n > 0xF0` stack arguments,
    `reg k` = register of argument k with `reg k ≥ 0x100`, `reg k > k`, distinct registers; for `n > 0x100` the spare register
    `park` is no argument's stack slot and no argument's register.  After `moveArgsCode n reg park` — highest argument first;
    arguments ≥ 0x100 through temporary 0xFF, whose own argument is parked meanwhile — the register of every argument k ≥ 0xF0
    holds what stack slot k held at entry, registers below 0xF0 are unchanged, and nothing else of the machine changes. -/
theorem fn_moveargs_correct (lit : KConst → β) (F : Nat → List (RV β) → RV β) (m : M β) (n : Nat) (reg : Nat → Nat) (park : Nat)
    (hn : 0xF0 < n)
    (hge : ∀ k, 0xF0 ≤ k → k < n → 0x100 ≤ reg k ∧ k < reg k)
    (hinj : ∀ j k, 0xF0 ≤ j → j < n → 0xF0 ≤ k → k < n → reg j = reg k → j = k)
    (hpark : 0x100 < n → n ≤ park ∧ ∀ k, 0xF0 ≤ k → k < n → reg k ≠ park) :
    (∀ k, 0xF0 ≤ k → k < n → (run lit F m (moveArgsCode n reg park)).regs (reg k) = m.regs k) ∧
    (∀ r, r < 0xF0 → (run lit F m (moveArgsCode n reg park)).regs r = m.regs r) ∧
    SameRest (run lit F m (moveArgsCode n reg park)) m :=
  moveArgs_run lit F m n reg park hn hge hinj hpark

/-- **… with the registers the allocator gives** (`argReg k` = k below the temporaries, k + 16 from the 241st parameter on —
    `alloc1_param_far`: `janetc_regalloc_1` on the allocator the parameter loop has built returns k + 16 — and the spare register
    n + 16): every parameter's register holds its argument.  Compiler side: `fnMoveArgs` appends exactly `moveArgsCode`
    (`fnMoveArgs_code`) and changes nothing for ≤ 0xF0 parameters (`fnMoveArgs_near`: the case of `compile_correct_fn_params`). -/
theorem fn_moveargs_allocated (lit : KConst → β) (F : Nat → List (RV β) → RV β) (m : M β) (n : Nat) (hn : 0xF0 < n) :
    ((∀ k, k < n → (run lit F m (moveArgsCode n argReg (n + 16))).regs (argReg k) = m.regs k) ∧
      SameRest (run lit F m (moveArgsCode n argReg (n + 16))) m) ∧
    (∀ (ra : RA) (k : Nat), 0xF0 ≤ k → k + 16 < searchFuel →
      (∀ r, ra.alloc r = decide (r < 0xF0 ∨ (0x100 ≤ r ∧ r < k + 16))) → ra.alloc1.1 = argReg k) ∧
    (∀ (c c' : CState) (argregs : List Nat), 0xF0 < argregs.length → fnMoveArgs c argregs = some c' →
      ∃ park, c'.buf = c.buf ++ (moveArgsCode argregs.length (fun k => argregs.getD k 0) park).map CI.mi) ∧
    (∀ (c : CState) (argregs : List Nat), argregs.length ≤ 0xF0 → fnMoveArgs c argregs = some c) :=
  ⟨moveArgs_alloc lit F m n hn, fun ra k h1 h2 h3 => alloc1_param_far ra k h1 h2 h3,
   fun c c' a h1 h2 => fnMoveArgs_code c c' a h1 h2, fun c a h => fnMoveArgs_near c a h⟩

/-- **The function-entry code of the model compiler, any number of symbol parameters > 0xF0** (the two steps of `cValue`'s `fn`
    case after `janetc_scope`: parameter loop, `janetc_fn_moveargs`): on the fresh function scope the loop names parameter k in
    register `argReg k` (`params_loop_regs`: the whole loop, by `alloc1_par` — first fit skips 0xF0–0xFF), the code appended is
    `moveArgsCode n argReg (n + 16)` (the spare register is n + 16), and that code, run from the frame the VM sets up (argument k
    in stack slot k), leaves argument k in the register the scope names parameter k with — every k < n; nothing else of the
    machine changes.  The hypotheses are satisfiable for every n < 65503 (`fn_entry_total`: both steps succeed).  Compile/MoveArgsLoop.lean. -/
theorem compile_correct_fn_entry (lit : KConst → β) (F : Nat → List (RV β) → RV β) (m : M β)
    (c2 c3p c3 : CState) (sc : Scope) (rs : List Scope) (names : List String)
    (hs : c2.scopes = sc :: rs) (hfresh : ∀ r, sc.ra.alloc r = false) (hsy : sc.syms = [])
    (hn : 0xF0 < names.length) (hfu : names.length + 33 < searchFuel)
    (hpar : names.foldlM (fun (cc : CState) nm => do let (sl, cc') ← farslot cc; pure (nameslot cc' nm sl)) c2 = some c3p)
    (hmv : fnMoveArgs c3p ((c3p.scopes.headD default).syms.map (fun p => slotReg p.slot)) = some c3) :
    (∃ ra3, c3p.scopes = { sc with ra := ra3, syms := parSyms names 0 } :: rs) ∧
    c3.buf = c2.buf ++ (moveArgsCode names.length argReg (names.length + 16)).map CI.mi ∧
    (∀ k, k < names.length →
      (run lit F m (moveArgsCode names.length argReg (names.length + 16))).regs (argReg k) = m.regs k) ∧
    SameRest (run lit F m (moveArgsCode names.length argReg (names.length + 16))) m :=
  let h := fn_entry_code c2 c3p c3 sc rs names hs hfresh hsy hn hfu hpar hmv
  let r := moveArgs_alloc lit F m names.length hn
  ⟨h.1, h.2, r.1, r.2⟩

/-- non-vacuity: for 300 parameters both compile steps succeed on the scope `janetc_fn` pushes (`fn_entry_total`), and that scope
    satisfies `hs` / `hfresh` / `hsy` -/
example : ∃ c3p c3, (List.replicate 300 "p").foldlM (fun (cc : CState) nm => do let (sl, cc') ← farslot cc; pure (nameslot cc' nm sl))
      (pushScope {} true false false false) = some c3p ∧
    fnMoveArgs c3p ((c3p.scopes.headD default).syms.map (fun p => slotReg p.slot)) = some c3 :=
  fn_entry_total (List.replicate 300 "p") (by rw [List.length_replicate]; decide) (by rw [List.length_replicate]; decide)
example : ∃ sc, (pushScope ({} : CState) true false false false).scopes = [sc] ∧ (∀ r, sc.ra.alloc r = false) ∧ sc.syms = [] :=
  ⟨_, rfl, fun _ => rfl, rfl⟩

/-- non-vacuity: 300 parameters — parameter 240 (register 256) receives the argument of stack slot 240, parameter 299 (register
    315) that of slot 299, on a machine whose registers are all different -/
example : (run (fun _ => 0) (fun _ _ => .v 0) ⟨fun r => .v r, fun _ _ => .v 0, fun _ => .v 0, [], true⟩
    (moveArgsCode 300 argReg 316)).regs 256 = RV.v 240 := by
  have h := (fn_moveargs_allocated (β := Nat) (fun _ => 0) (fun _ _ => .v 0) ⟨fun r => .v r, fun _ _ => .v 0, fun _ => .v 0, [], true⟩ 300
    (by decide)).1.1 240 (by decide)
  simpa [argReg] using h
/-- the defect fix 71c4f8f removed: WITHOUT entry moves the register of parameter 240 holds the argument of stack slot 256 -/
example : (run (fun _ => 0) (fun _ _ => .v 0) (⟨fun r => .v r, fun _ _ => .v 0, fun _ => .v 0, [], true⟩ : M Nat) []).regs (argReg 240)
    = RV.v 256 := by simp [run, argReg]
/-- the shape of the code for 258 parameters: park 0xFF, two arguments through 0xFF, fifteen direct moves, unpark -/
example : moveArgsCode 258 argReg 274 =
    [.movf 0xFF 274, .movn 0xFF 257, .movf 0xFF 273, .movn 0xFF 256, .movf 0xFF 272] ++
    (List.range 15).map (fun j => MI.movf (0xFE - j) (0xFE - j + 16)) ++ [.movn 0xFF 274, .movf 0xFF 271] := by decide

end MoveArgs

end JanetModel.Props.C02
