/- C02: property theorems.  Level claimed for the property: translation validation (checks/C02.py); what is PROVED is
   (1) the emit layer: for every combination of slot kinds (near local, far local, upvalue, constant, ref) and every index,
       the instruction sequence emit.c produces around an operation has exactly the abstract three-address effect on the
       named slots and changes nothing but temporaries; the temporaries the allocator hands out are disjoint;
   (2) context independence of the Lean reference semantics (`sem_context_free`, Lang/Sem.lean).
   The emit model is compared word for word with the real emit.c / regalloc.c on every run (harness/C02/emit_wrap.c).
   No theorem is claimed for compile.c / specials.c. -/
import JanetModel.Emit.Proofs
import JanetModel.Bytecode.Exec
import JanetModel.Lang.SemProps
import JanetModel.Bytecode.ExecFrame
import JanetModel.Gen.FiberFrame
namespace JanetModel.Props.C02
open JanetModel.Emit

variable {β : Type}

/-- `janetc_emit_sss`.  `Sim T a b`: states equal except for the registers in `T`.  `s.avoids T`: a local slot is not one of
    the temporaries (allocator: `regtemp_disjoint`). -/
theorem emit_sss_correct (lit : KConst → β) (F : Nat → List (RV β) → RV β) (cidx : KConst → Nat) (m : M β) (op : Nat) (wr : Bool)
    (s1 s2 s3 : Slot) (t0 t1 t2 t5 : Nat) (h01 : t0 ≠ t1) (h02 : t0 ≠ t2) (h12 : t1 ≠ t2) (h50 : t5 ≠ t0)
    (a1 : s1.avoids [t0, t1, t2, t5]) (a2 : s2.avoids [t0, t1, t2, t5]) (a3 : s3.avoids [t0, t1, t2, t5])
    (hw : wr = true → ∀ k, s1 ≠ .const k) :
    Sim [t0, t1, t2, t5] (run lit F m (emitSSS cidx op wr s1 s2 s3 t0 t1 t2 t5))
      (if wr then writeSlot (logged m op [readSlot lit m s2, readSlot lit m s3]) s1 (F op [readSlot lit m s2, readSlot lit m s3])
       else logged m op [readSlot lit m s1, readSlot lit m s2, readSlot lit m s3]) :=
  JanetModel.Emit.emit_sss_correct lit F cidx m op wr s1 s2 s3 t0 t1 t2 t5 h01 h02 h12 h50 a1 a2 a3 hw

theorem emit_ssi_correct (lit : KConst → β) (F : Nat → List (RV β) → RV β) (cidx : KConst → Nat) (m : M β) (op : Nat) (wr : Bool)
    (s1 s2 : Slot) (imm : Nat) (t0 t1 t5 : Nat) (h01 : t0 ≠ t1) (h50 : t5 ≠ t0)
    (a1 : s1.avoids [t0, t1, t5]) (a2 : s2.avoids [t0, t1, t5]) (hw : wr = true → ∀ k, s1 ≠ .const k) :
    Sim [t0, t1, t5] (run lit F m (emitSSI cidx op wr s1 s2 imm t0 t1 t5))
      (if wr then writeSlot (logged m op [readSlot lit m s2]) s1 (F op [readSlot lit m s2])
       else logged m op [readSlot lit m s1, readSlot lit m s2]) :=
  JanetModel.Emit.emit_ssi_correct lit F cidx m op wr s1 s2 imm t0 t1 t5 h01 h50 a1 a2 hw

/-- `janetc_emit_ssu` is the same function (`emit2s`) with an unsigned immediate -/
theorem emit_ssu_correct (lit : KConst → β) (F : Nat → List (RV β) → RV β) (cidx : KConst → Nat) (m : M β) (op : Nat) (wr : Bool)
    (s1 s2 : Slot) (imm : Nat) (t0 t1 t5 : Nat) (h01 : t0 ≠ t1) (h50 : t5 ≠ t0)
    (a1 : s1.avoids [t0, t1, t5]) (a2 : s2.avoids [t0, t1, t5]) (hw : wr = true → ∀ k, s1 ≠ .const k) :
    Sim [t0, t1, t5] (run lit F m (emitSSI cidx op wr s1 s2 imm t0 t1 t5))
      (if wr then writeSlot (logged m op [readSlot lit m s2]) s1 (F op [readSlot lit m s2])
       else logged m op [readSlot lit m s1, readSlot lit m s2]) :=
  JanetModel.Emit.emit_ssi_correct lit F cidx m op wr s1 s2 imm t0 t1 t5 h01 h50 a1 a2 hw

theorem emit_ss_correct (lit : KConst → β) (F : Nat → List (RV β) → RV β) (cidx : KConst → Nat) (m : M β) (op : Nat) (wr : Bool)
    (s1 s2 : Slot) (t0 t1 fr t5 : Nat) (h01 : t0 ≠ t1) (h0f : t0 ≠ fr) (h50 : t5 ≠ t0)
    (a1 : s1.avoids [t0, t1, fr, t5]) (a2 : s2.avoids [t0, t1, fr, t5]) (hw : wr = true → ∀ k, s1 ≠ .const k) :
    Sim [t0, t1, fr, t5] (run lit F m (emitSS cidx op wr s1 s2 t0 t1 fr t5))
      (if wr then writeSlot (logged m op [readSlot lit m s2]) s1 (F op [readSlot lit m s2])
       else logged m op [readSlot lit m s1, readSlot lit m s2]) :=
  JanetModel.Emit.emit_ss_correct lit F cidx m op wr s1 s2 t0 t1 fr t5 h01 h0f h50 a1 a2 hw

theorem emit_si_correct (lit : KConst → β) (F : Nat → List (RV β) → RV β) (cidx : KConst → Nat) (m : M β) (op : Nat) (wr : Bool)
    (s : Slot) (imm : Nat) (t0 t5 : Nat) (h50 : t5 ≠ t0) (a1 : s.avoids [t0, t5]) (hw : wr = true → ∀ k, s ≠ .const k) :
    Sim [t0, t5] (run lit F m (emitSI cidx op wr s imm t0 t5))
      (if wr then writeSlot (logged m op []) s (F op []) else logged m op [readSlot lit m s]) :=
  JanetModel.Emit.emit_si_correct lit F cidx m op wr s imm t0 t5 h50 a1 hw

theorem emit_s_correct (lit : KConst → β) (F : Nat → List (RV β) → RV β) (cidx : KConst → Nat) (m : M β) (op : Nat) (wr : Bool)
    (s : Slot) (t0 fr t5 : Nat) (h50 : t5 ≠ t0) (h5f : t5 ≠ fr) (a1 : s.avoids [t0, fr, t5]) (hw : wr = true → ∀ k, s ≠ .const k) :
    Sim [t0, fr, t5] (run lit F m (emitS cidx op wr s t0 fr t5))
      (if wr then writeSlot (logged m op []) s (F op []) else logged m op [readSlot lit m s]) :=
  JanetModel.Emit.emit_s_correct lit F cidx m op wr s t0 fr t5 h50 h5f a1 hw

/-- `janetc_copy`, all 4 (writable) x 5 kind combinations -/
theorem copy_correct (lit : KConst → β) (F : Nat → List (RV β) → RV β) (cidx : KConst → Nat) (m : M β) (dest src : Slot) (t3 t5 : Nat)
    (h35 : t3 ≠ t5) (ad : dest.avoids [t3, t5]) (as : src.avoids [t3, t5]) (hc : ∀ k, dest ≠ .const k) :
    Sim [t3, t5] (run lit F m (copy cidx dest src t3 t5)) (writeSlot m dest (readSlot lit m src)) :=
  JanetModel.Emit.copy_correct lit F cidx m dest src t3 t5 h35 ad as hc

/-- temporaries for distinct tags held together are distinct near registers; each is a previously free register or a
    reserved one (0xF0+tag), which first-fit allocation never hands out -/
theorem regtemp_disjoint (ra : RA) (fuel tag1 tag2 : Nat) (ht : tag1 ≠ tag2) (h1 : tag1 < 8) (h2 : tag2 < 8)
    (hfree1 : ∃ k, k < fuel ∧ ra.taken k = false)
    (hfree2 : ∃ k, k < fuel ∧ ((regallocTemp ra fuel tag1).2).taken k = false) :
    let r1 := (regallocTemp ra fuel tag1).1
    let ra1 := (regallocTemp ra fuel tag1).2
    let r2 := (regallocTemp ra1 fuel tag2).1
    r1 ≠ r2 ∧ r1 ≤ 0xFF ∧ r2 ≤ 0xFF ∧ (ra.alloc r1 = false ∨ 0xF0 ≤ r1) ∧ (ra.alloc r2 = false ∨ 0xF0 ≤ r2) :=
  JanetModel.Emit.regtemp_disjoint ra fuel tag1 tag2 ht h1 h2 hfree1 hfree2

/-- the allocator function that is compared with regalloc.c returns what `regtemp_disjoint` talks about -/
theorem regtemp_model_eq (ra : RA) (tag : Nat) :
    (ra.allocTemp tag).1 = (regallocTemp ra searchFuel tag).1 ∧
    ∀ x, (ra.allocTemp tag).2.alloc x = (regallocTemp ra searchFuel tag).2.alloc x :=
  JanetModel.Emit.allocTemp_eq ra tag

/-! non-vacuity: > 255 live locals, far destination, upvalue and ref operands, reserved temporaries -/
def m0 : M Nat := { regs := fun r => .v (10 * r), up := fun e i => .v (1000 + e + i), cell := fun id => .v (7000 + id), log := [], ok := true }
def litN : KConst → Nat | .int n => n.toNat | _ => 0
def FN : Nat → List (RV Nat) → RV Nat := fun _ vs => .v (vs.foldl (fun a v => match v with | .v b => a + b | .ref _ => a) 0)

example : (emitSSS (fun _ => 0) 6 true (.loc 300) (.up 1 2) (.ref 3) 0xF0 0xF1 0xF2 0xF5).map MI.word =
    [(MI.movn 0xF0 300).word, (MI.ldu 0xF1 1 2).word, (MI.ldref 0xF2 0 3).word, (MI.geti0 0xF2 0xF2).word,
     (MI.pay 6 .sss true [0xF0, 0xF1, 0xF2] 0).word, (MI.movf 0xF0 300).word] := by decide
def valOf : RV Nat → Nat | .v x => x | .ref _ => 4000000000
example : valOf ((run litN FN m0 (emitSSS (fun _ => 0) 6 true (.loc 300) (.up 1 2) (.ref 3) 0xF0 0xF1 0xF2 0xF5)).regs 300) = 1003 + 7003 := by
  decide
example : valOf ((run litN FN m0 (emitSSS (fun _ => 0) 6 true (.ref 1) (.const (.int 70000)) (.loc 299) 0xF0 0xF1 0xF2 0xF5)).cell 1) = 70000 + 2990 := by
  decide
example : (Slot.loc 300).avoids [0xF0, 0xF1, 0xF2, 0xF5] := by intro i h; injection h with h; subst h; decide

/-! ### frame set-up (calls and tail calls) -/

/-- regenerated from fiber.c on every run: both `janet_fiber_funcframe` and `janet_fiber_funcframe_tail` check the arity,
    pack surplus arguments, and nil every slot that received no argument (normal call: old stack top .. new stack top; tail
    call: the gap before the vararg slot and the locals above the moved arguments).  This is what `Exec.mkRegs` assumes. -/
theorem frame_setup_shape :
    (JanetModel.Gen.FiberFrame.callArityChecks && JanetModel.Gen.FiberFrame.callNilFill && JanetModel.Gen.FiberFrame.callVarargPack &&
     JanetModel.Gen.FiberFrame.tailArityChecks && JanetModel.Gen.FiberFrame.tailNilFillBeforeVararg &&
     JanetModel.Gen.FiberFrame.tailNilFillLocals && JanetModel.Gen.FiberFrame.tailVarargPack &&
     JanetModel.Gen.FiberFrame.structPairsBounded) = true := by decide

/-- in the VM model an omitted optional parameter (any slot at or above the number of arguments) is nil -/
theorem mkRegs_omitted_nil (heap : Array JanetModel.Bytecode.Exec.HeapObj) (d : JanetModel.Bytecode.Exec.FuncDef)
    (args regs : Array JanetModel.Bytecode.Exec.Value) (hv : d.vararg = false)
    (h : JanetModel.Bytecode.Exec.mkRegs heap d args = some regs) (i : Nat) (hi : args.size ≤ i) :
    regs.getD i .nil = .nil :=
  JanetModel.Bytecode.Exec.mkRegs_omitted_nil heap d args regs hv h i hi

/-! ### the reference semantics is context independent -/
section Sem
open JanetModel.Lang JanetModel.Bytecode.Exec

/-- `sem_context_free`: for the embedding contexts of the property — value used in a new scope, value dropped, branch of a
    conditional, argument of a call (non-tail, used), spliced into the enclosing scope (top level), body of a function in
    tail position — evaluating `ctx e` is a fixed post-processing (`closeScope`, `dropValue`, identity, `fnResult`) of
    evaluating `e`: same value, same effect trace (part of the state), same error and error position.  Fuel offsets are the
    evaluation steps the wrapper itself takes.  The function context runs `e` in the state `withLam s env e`, i.e. with the
    closure object of the wrapper added to the heap, and turns a top-level `break` of `e` into the return value.
    Not proved here (tested by the `loop` / `fn_used` contexts of the check): loop body, non-tail function body. -/
theorem sem_context_free (n : Nat) (cur : Pos) (env : Env) (e : Expr) (s : SS)
    (hfree : lookupEnv env "identity" = none) (hsp : isSplice e = none) :
    eval (n + 2) cur env (ctxDoUsed e) s = closeScope env (eval n cur env e s) ∧
    eval (n + 4) cur env (ctxDropped e) s = dropValue env (eval (n + 2) cur env e s) ∧
    eval (n + 3) cur env (ctxBranch e) s = closeScope env (eval (n + 2) cur env e s) ∧
    eval (n + 3) cur env (ctxArg e) s = eval (n + 1) cur env e s ∧
    eval (n + 2) cur env (ctxUpscope e) s = eval n cur env e s ∧
    eval (n + 3) cur env (ctxFnTail e) s = fnResult env (eval n cur env e (withLam s env e)) :=
  ⟨ctx_do_used n cur env e s, ctx_dropped n cur env e s, ctx_branch n cur env e s, ctx_arg n cur env e s hfree hsp,
   ctx_upscope n cur env e s, ctx_fn_tail n cur env e s⟩

/-- non-vacuity: evaluation really runs: `(identity :v)` evaluates to `:v` -/
example : (match eval 10 {} [] (ctxArg (.lit (.kw "v"))) {} with | .ok (.kw x, _) _ => x == "v" | _ => false) = true := by
  decide

end Sem

end JanetModel.Props.C02
