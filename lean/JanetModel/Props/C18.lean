import JanetModel.Sandbox.Model
import JanetModel.Gen.Sandbox
/-
C18 - sandboxed capabilities stay disabled.

* `flags_monotone`, `spawn_inherits`, `thread_keeps_parent_flags`: no transition of the flag-word model clears a bit;
  a new thread starts with (a superset of) its parent's word.
* `checker_sound`: for EVERY graph and certificate accepted by `certOK`, every execution from an entry point that
  reaches an OS-level call `c` does so with a flag word in which no requirement group of `c` is completely disabled;
  `checker_sound_entry`: …in particular if the group was disabled when the core function was entered, `c` is not
  reached (the path ended in the panic of a `janet_sandbox_assert` before).
* `gen_certOK` etc.: the per-run obligations on the graph regenerated from the current tree, by kernel evaluation.
-/
namespace JanetModel.Props.C18
open JanetModel.Sandbox

/-! ### bit-mask lemmas -/

theorem subMask_iff {r f : Nat} : subMask r f = true ↔ r &&& f = r := by
  unfold subMask; exact beq_iff_eq

theorem subMask_refl (f : Nat) : subMask f f = true := by
  rw [subMask_iff]; exact Nat.and_self f

theorem subMask_trans {a b c : Nat} (h1 : subMask a b = true) (h2 : subMask b c = true) : subMask a c = true := by
  rw [subMask_iff] at *
  calc a &&& c = (a &&& b) &&& c := by rw [h1]
    _ = a &&& (b &&& c) := Nat.and_assoc a b c
    _ = a &&& b := by rw [h2]
    _ = a := h1

theorem subMask_zero (f : Nat) : subMask 0 f = true := by
  rw [subMask_iff]; exact Nat.zero_and f

theorem subMask_or_left (f x : Nat) : subMask f (f ||| x) = true := by
  rw [subMask_iff]
  apply Nat.eq_of_testBit_eq
  intro i
  simp only [Nat.testBit_and, Nat.testBit_or]
  cases f.testBit i <;> simp

/-- an assert of `m` that is passed shows that every group meeting `m` has an enabled capability -/
theorem assert_gives {f m g : Nat} (hp : assertPasses f m = true) (hg : (g &&& m != 0) = true) : subMask g f = false := by
  unfold assertPasses at hp
  have hp' : f &&& m = 0 := beq_iff_eq.mp hp
  cases hs : subMask g f with
  | false => rfl
  | true =>
    exfalso
    rw [subMask_iff] at hs
    have : g &&& m = 0 := by
      calc g &&& m = (g &&& f) &&& m := by rw [hs]
        _ = g &&& (f &&& m) := Nat.and_assoc g f m
        _ = 0 := by rw [hp']; exact Nat.and_zero g
    rw [this] at hg
    simp at hg

theorem holds_imp {ks : List Nat} {f g' : Nat} (hk : holds ks f) (hi : imp g' ks = true) : subMask g' f = false := by
  unfold imp at hi
  rw [List.any_eq_true] at hi
  obtain ⟨g, hg, hsub⟩ := hi
  cases hs : subMask g' f with
  | false => rfl
  | true =>
    have := subMask_trans hsub hs
    rw [hk g hg] at this
    cases this

theorem holds_impAll {ks gs : List Nat} {f : Nat} (hk : holds ks f) (hi : impAll gs ks = true) : holds gs f := by
  intro g' hg'
  unfold impAll at hi
  rw [List.all_eq_true] at hi
  exact holds_imp hk (hi g' hg')

theorem not_dead_of_holds {ks : List Nat} {f : Nat} (hk : holds ks f) : ks.contains 0 = false := by
  cases h : ks.contains 0 with
  | false => rfl
  | true =>
    have hm : 0 ∈ ks := by simpa using h
    have := hk 0 hm
    rw [subMask_zero] at this
    cases this

theorem holds_nil (f : Nat) : holds [] f := by
  intro g hg; cases hg

/-! ### the flag word never loses a bit -/

theorem sandboxOp_mono {fl f fl' : Nat} (h : sandboxOp fl f = some fl') : subMask fl fl' = true := by
  unfold sandboxOp at h
  split at h
  · cases h
  · cases h; exact subMask_or_left fl f

/-- the sandbox capability guards `sandbox` itself -/
theorem sandboxOp_guarded (fl f : Nat) (h : fl &&& capSandbox ≠ 0) : sandboxOp fl f = none := by
  unfold sandboxOp
  have : (fl &&& capSandbox != 0) = true := bne_iff_ne.mpr h
  rw [if_pos this]

theorem step_length_le (s : Sys) (o : SysOp) : s.length ≤ (s.step o).length := by
  cases o with
  | sandbox tid f =>
    simp only [Sys.step]
    split
    · split <;> simp
    · exact Nat.le_refl _
  | spawn tid =>
    simp only [Sys.step]
    split
    · simp
    · exact Nat.le_refl _
  | other tid => exact Nat.le_refl _

theorem step_monotone (s : Sys) (o : SysOp) (tid fl : Nat) (h : s[tid]? = some fl) :
    ∃ fl', (s.step o)[tid]? = some fl' ∧ subMask fl fl' = true := by
  have hlt : tid < s.length := by
    rcases List.getElem?_eq_some_iff.mp h with ⟨hl, _⟩
    exact hl
  cases o with
  | sandbox t f =>
    cases ht : s[t]? with
    | none => simp only [Sys.step, ht]; exact ⟨fl, h, subMask_refl fl⟩
    | some flt =>
      cases hso : sandboxOp flt f with
      | none => simp only [Sys.step, ht, hso]; exact ⟨fl, h, subMask_refl fl⟩
      | some flt' =>
        simp only [Sys.step, ht, hso]
        by_cases hEq : t = tid
        · subst hEq
          rw [h] at ht
          cases ht
          refine ⟨flt', ?_, sandboxOp_mono hso⟩
          simp [List.getElem?_set, hlt]
        · refine ⟨fl, ?_, subMask_refl fl⟩
          rw [List.getElem?_set_ne hEq]
          exact h
  | spawn t =>
    cases ht : s[t]? with
    | none => simp only [Sys.step, ht]; exact ⟨fl, h, subMask_refl fl⟩
    | some flt =>
      simp only [Sys.step, ht]
      refine ⟨fl, ?_, subMask_refl fl⟩
      rw [List.getElem?_append_left hlt]
      exact h
  | other t => exact ⟨fl, h, subMask_refl fl⟩

/-- ★ No sequence of operations, by any threads, clears a bit of any thread's flag word. -/
theorem flags_monotone (ops : List SysOp) : ∀ (s : Sys) (tid fl : Nat), s[tid]? = some fl →
    ∃ fl', (s.run ops)[tid]? = some fl' ∧ subMask fl fl' = true := by
  induction ops with
  | nil => intro s tid fl h; exact ⟨fl, h, subMask_refl fl⟩
  | cons o os ih =>
    intro s tid fl h
    obtain ⟨fl1, h1, hm1⟩ := step_monotone s o tid fl h
    obtain ⟨fl2, h2, hm2⟩ := ih (s.step o) tid fl1 h1
    exact ⟨fl2, h2, subMask_trans hm1 hm2⟩

/-- ★ A thread started by `tid` begins with exactly its parent's flag word … -/
theorem spawn_inherits (s : Sys) (tid fl : Nat) (h : s[tid]? = some fl) :
    (s.step (.spawn tid))[s.length]? = some fl := by
  simp only [Sys.step, h]
  simp

/-- … and therefore, whatever happens afterwards, always has at least the capabilities disabled that its parent had
    disabled when it was started. -/
theorem thread_keeps_parent_flags (s : Sys) (tid fl : Nat) (h : s[tid]? = some fl) (ops : List SysOp) :
    ∃ fl', ((s.step (.spawn tid)).run ops)[s.length]? = some fl' ∧ subMask fl fl' = true :=
  flags_monotone ops _ _ _ (spawn_inherits s tid fl h)

/-! ### soundness of the certificate checker -/

section sound
variable {need : String → String → List Nat} {G : Graph} {C : Cert}

theorem nodeOK_of_lt (h : certOK need G C = true) {n : Nat} (hn : n < G.size) : nodeOK need G C n = true := by
  unfold certOK at h
  rw [Bool.and_eq_true] at h
  have := h.1
  rw [List.all_eq_true] at this
  exact this n (List.mem_range.mpr hn)

/-- the four conjuncts of `nodeOK` -/
theorem nodeOK_parts {n : Nat} (h : nodeOK need G C n = true) :
    ((G.node n).succs.all (fun s => (G.node s).fn == (G.node n).fn) = true) ∧
    ((!C.isPure (G.node n).fn || (match (G.node n).op with
                       | .havoc => false
                       | .call g => C.isPure g
                       | _ => true)) = true) ∧
    ((match (G.node n).op with
       | .call g => (G.node (G.fnEntry g)).fn == g
       | _ => true) = true) ∧
    (((C.k n).contains 0 ||
      (match (G.node n).op with
       | .nop => (G.node n).succs.all (fun s => impAll (C.k s) (C.k n))
       | .libc fn nm => (G.node n).succs.all (fun s => impAll (C.k s) (C.k n)) && (need fn nm).all (fun r => imp r (C.k n))
       | .assert m => (G.node n).succs.all (fun s => (C.k s).all (fun g' => g' &&& m != 0 || imp g' (C.k n)))
       | .havoc => (G.node n).succs.all (fun s => (C.k s).isEmpty)
       | .call g => impAll (C.fpre g) (C.k n) && impAll (C.k (G.fnEntry g)) (C.fpre g) &&
           (G.node n).succs.all (fun s => (C.k s).all (fun g' => (C.isPure g && imp g' (C.k n)) || imp g' (C.fpost g)))
       | .ret => impAll (C.fpost (G.node n).fn) (C.k n))) = true) := by
  unfold nodeOK at h
  simp only [Bool.and_eq_true] at h
  exact ⟨h.1.1.1, h.1.1.2, h.1.2, h.2⟩

theorem succ_fn {n s : Nat} (h : nodeOK need G C n = true) (hs : s ∈ (G.node n).succs) : (G.node s).fn = (G.node n).fn := by
  have := (nodeOK_parts h).1
  rw [List.all_eq_true] at this
  exact beq_iff_eq.mp (this s hs)

/-- Invariant carried along an activation. -/
theorem reach_inv (h : certOK need G C = true) {n F n' F' : Nat} (hr : Reach G n F n' F') :
    holds (C.k n) F →
    holds (C.k n') F' ∧ (G.node n').fn = (G.node n).fn ∧ (C.isPure (G.node n).fn = true → F' = F) := by
  induction hr with
  | refl n F => intro hk; exact ⟨hk, rfl, fun _ => rfl⟩
  | @nop n F s n' F' hlt hop hs _ ih =>
    intro hk
    have hok := nodeOK_of_lt h hlt
    have hp := (nodeOK_parts hok).2.2.2
    rw [not_dead_of_holds hk, Bool.false_or, hop] at hp
    simp only [] at hp
    rw [List.all_eq_true] at hp
    obtain ⟨a, b, c⟩ := ih (holds_impAll hk (hp s hs))
    have hf := succ_fn hok hs
    exact ⟨a, by rw [b, hf], fun hpure => c (by rw [hf]; exact hpure)⟩
  | @libc n F s n' F' fn nm hlt hop hs _ ih =>
    intro hk
    have hok := nodeOK_of_lt h hlt
    have hp := (nodeOK_parts hok).2.2.2
    rw [not_dead_of_holds hk, Bool.false_or, hop] at hp
    simp only [Bool.and_eq_true] at hp
    have hp1 := hp.1
    rw [List.all_eq_true] at hp1
    obtain ⟨a, b, c⟩ := ih (holds_impAll hk (hp1 s hs))
    have hf := succ_fn hok hs
    exact ⟨a, by rw [b, hf], fun hpure => c (by rw [hf]; exact hpure)⟩
  | @assert n F s n' F' m hlt hop hpass hs _ ih =>
    intro hk
    have hok := nodeOK_of_lt h hlt
    have hp := (nodeOK_parts hok).2.2.2
    rw [not_dead_of_holds hk, Bool.false_or, hop] at hp
    simp only [] at hp
    rw [List.all_eq_true] at hp
    have hs' := hp s hs
    rw [List.all_eq_true] at hs'
    have hks : holds (C.k s) F := by
      intro g' hg'
      have := hs' g' hg'
      rw [Bool.or_eq_true] at this
      cases this with
      | inl hm => exact assert_gives hpass hm
      | inr hi => exact holds_imp hk hi
    obtain ⟨a, b, c⟩ := ih hks
    have hf := succ_fn hok hs
    exact ⟨a, by rw [b, hf], fun hpure => c (by rw [hf]; exact hpure)⟩
  | @havoc n F F1 s n' F' hlt hop _ hs _ ih =>
    intro hk
    have hok := nodeOK_of_lt h hlt
    have hp := (nodeOK_parts hok).2.2.2
    rw [not_dead_of_holds hk, Bool.false_or, hop] at hp
    simp only [] at hp
    rw [List.all_eq_true] at hp
    have hemp := hp s hs
    have hks : holds (C.k s) F1 := by
      intro g' hg'
      rw [List.isEmpty_iff] at hemp
      rw [hemp] at hg'
      cases hg'
    obtain ⟨a, b, _⟩ := ih hks
    have hf := succ_fn hok hs
    refine ⟨a, by rw [b, hf], fun hpure => ?_⟩
    have hpu := (nodeOK_parts hok).2.1
    rw [hpure, hop] at hpu
    simp at hpu
  | @call n F g r F1 s n' F' hlt hop _ hrlt hret hs _ ih1 ih2 =>
    intro hk
    have hok := nodeOK_of_lt h hlt
    have hparts := nodeOK_parts hok
    have hp := hparts.2.2.2
    rw [not_dead_of_holds hk, Bool.false_or, hop] at hp
    simp only [Bool.and_eq_true] at hp
    obtain ⟨⟨hpre, hentry⟩, hsucc⟩ := hp
    have hkpre := holds_impAll hk hpre
    have hkent := holds_impAll hkpre hentry
    obtain ⟨hkr, hfr, hpr⟩ := ih1 hkent
    -- at the return node
    have hokr : nodeOK need G C r = true := nodeOK_of_lt h hrlt
    have hpr2 := (nodeOK_parts hokr).2.2.2
    rw [not_dead_of_holds hkr, Bool.false_or, hret] at hpr2
    simp only [] at hpr2
    have hfg : (G.node (G.fnEntry g)).fn = g := by
      have := hparts.2.2.1
      rw [hop] at this
      exact beq_iff_eq.mp this
    rw [hfr, hfg] at hpr2
    have hkpost := holds_impAll hkr hpr2
    rw [List.all_eq_true] at hsucc
    have hs' := hsucc s hs
    rw [List.all_eq_true] at hs'
    have hks : holds (C.k s) F1 := by
      intro g' hg'
      have := hs' g' hg'
      rw [Bool.or_eq_true] at this
      cases this with
      | inl hm =>
        rw [Bool.and_eq_true] at hm
        have hF : F1 = F := hpr (by rw [hfg]; exact hm.1)
        rw [hF]
        exact holds_imp hk hm.2
      | inr hi => exact holds_imp hkpost hi
    obtain ⟨a, b, c⟩ := ih2 hks
    have hf := succ_fn hok hs
    refine ⟨a, by rw [b, hf], fun hpure => ?_⟩
    have hpu := hparts.2.1
    rw [hpure, hop] at hpu
    simp only [Bool.not_true, Bool.false_or] at hpu
    have hF1 : F1 = F := hpr (by rw [hfg]; exact hpu)
    rw [c (by rw [hf]; exact hpure), hF1]

theorem obs_inv (h : certOK need G C = true) {n F c F' : Nat} (ho : Obs G n F c F') :
    holds (C.k n) F → holds (C.k c) F' := by
  induction ho with
  | here hr => intro hk; exact (reach_inv h hr hk).1
  | @inside n F n1 F1 g c F' hr hlt1 hop _ ih =>
    intro hk
    have hk1 := (reach_inv h hr hk).1
    have hok : nodeOK need G C n1 = true := nodeOK_of_lt h hlt1
    have hp := (nodeOK_parts hok).2.2.2
    rw [not_dead_of_holds hk1, Bool.false_or, hop] at hp
    simp only [Bool.and_eq_true] at hp
    exact ih (holds_impAll (holds_impAll hk1 hp.1.1) hp.1.2)

/-- ★ Soundness, for every graph and certificate: an OS-level call reached from an entry point is reached with a flag
    word in which none of its requirement groups is completely disabled. -/
theorem checker_sound (need : String → String → List Nat) (G : Graph) (C : Cert) (h : certOK need G C = true)
    (f : Nat) (hf : f ∈ G.entries) (F0 c F : Nat) (fn nm : String)
    (hobs : Obs G (G.fnEntry f) F0 c F) (hlt : c < G.size) (hc : (G.node c).op = .libc fn nm)
    (R : Nat) (hR : R ∈ need fn nm) : subMask R F = false := by
  have hent : (C.k (G.fnEntry f)) = [] := by
    unfold certOK at h
    rw [Bool.and_eq_true] at h
    have := h.2
    rw [List.all_eq_true] at this
    exact List.isEmpty_iff.mp (this f hf)
  have hk0 : holds (C.k (G.fnEntry f)) F0 := by rw [hent]; exact holds_nil F0
  have hkc := obs_inv h hobs hk0
  have hok : nodeOK need G C c = true := nodeOK_of_lt h hlt
  have hp := (nodeOK_parts hok).2.2.2
  rw [not_dead_of_holds hkc, Bool.false_or, hc] at hp
  simp only [Bool.and_eq_true] at hp
  have hneed := hp.2
  rw [List.all_eq_true] at hneed
  exact holds_imp hkc (hneed R hR)

end sound

/-! ### executions never clear a bit either (semantics only, no certificate) -/

theorem reach_mono {G : Graph} {n F n' F' : Nat} (hr : Reach G n F n' F') : subMask F F' = true := by
  induction hr with
  | refl n F => exact subMask_refl F
  | nop _ _ _ _ ih => exact ih
  | libc _ _ _ _ ih => exact ih
  | assert _ _ _ _ _ ih => exact ih
  | havoc _ _ hg _ _ ih => exact subMask_trans hg ih
  | call _ _ _ _ _ _ _ ih1 ih2 => exact subMask_trans ih1 ih2

theorem obs_mono {G : Graph} {n F c F' : Nat} (ho : Obs G n F c F') : subMask F F' = true := by
  induction ho with
  | here hr => exact reach_mono hr
  | inside hr _ _ _ ih => exact subMask_trans (reach_mono hr) ih

/-- ★ In terms of the flag word at the moment the core function is entered: if a requirement group of `c` is
    completely disabled then, no execution from that entry point reaches `c` (every path ends in a sandbox panic, or
    never gets there). -/
theorem checker_sound_entry (need : String → String → List Nat) (G : Graph) (C : Cert) (h : certOK need G C = true)
    (f : Nat) (hf : f ∈ G.entries) (F0 c F : Nat) (fn nm : String) (hlt : c < G.size) (hc : (G.node c).op = .libc fn nm)
    (R : Nat) (hR : R ∈ need fn nm) (hdis : subMask R F0 = true) : ¬ Obs G (G.fnEntry f) F0 c F := by
  intro hobs
  have h1 := checker_sound need G C h f hf F0 c F fn nm hobs hlt hc R hR
  have h2 := subMask_trans hdis (obs_mono hobs)
  rw [h1] at h2
  cases h2

/-! ### non-vacuity -/

/-- a two-function graph: entry `f0` asserts fs-write then calls `f1`, which removes a file -/
def exNodes : Array Node := #[⟨0, .assert 32, [1]⟩, ⟨0, .call 1, [2]⟩, ⟨0, .ret, []⟩,
                      ⟨1, .libc "f1" "remove", [4]⟩, ⟨1, .ret, []⟩]
def exG : Graph := ⟨5, fun n => exNodes.getD n ⟨0, .nop, []⟩, fun f => #[0, 3].getD f 0, [0]⟩
def exC : Cert := ⟨fun n => #[[], [32], [32], [32], [32]].getD n [], fun f => #[[], [32]].getD f [], fun f => #[[32], [32]].getD f [],
  fun _ => true⟩
example : certOK need exG exC = true := by decide
/-- the call is really reachable when fs-write is enabled (flag word 64 = only fs-read disabled) -/
example : Obs exG 0 64 3 64 :=
  .inside (.assert (n := 0) (s := 1) (by decide) rfl (by decide) (by decide) (.refl 1 64)) (g := 1) (by decide) rfl (.here (.refl 3 64))
/-- without the assert the checker rejects: the shape of `os/rm` on the pinned tree -/
example : certOK need ⟨2, fun n => #[⟨0, .libc "os_remove" "remove", [1]⟩, ⟨0, .ret, []⟩].getD n ⟨0, .nop, []⟩, fun _ => 0, [0]⟩
    ⟨fun _ => [], fun _ => [], fun _ => [], fun _ => true⟩ = false := by
  decide
example : sandboxOp 0 96 = some 96 ∧ sandboxOp 1 96 = none := by decide

/-! ### per-run obligations on the regenerated graph -/

open JanetModel.Gen.Sandbox in
/-- ★ the certificate for the current tree is accepted -/
theorem gen_certOK : certOK need graph cert = true := by decide +kernel

open JanetModel.Gen.Sandbox in
theorem gen_classified : classifiedAll externals externalsIdx = true := by decide +kernel

open JanetModel.Gen.Sandbox in
theorem gen_tables : definesOK defines capTable = true ∧ tableEq options keywordTable = true ∧ flagWritesOK flagWrites = true := by
  decide +kernel

open JanetModel.Gen.Sandbox in
/-- the instance of `checker_sound_entry` for the program as it is now -/
theorem sandbox_enforced (f : Nat) (hf : f ∈ graph.entries) (F0 c F : Nat) (fn nm : String)
    (hlt : c < graph.size) (hc : (graph.node c).op = .libc fn nm) (R : Nat) (hR : R ∈ need fn nm) (hdis : subMask R F0 = true) :
    ¬ Obs graph (graph.fnEntry f) F0 c F :=
  checker_sound_entry need graph cert gen_certOK f hf F0 c F fn nm hlt hc R hR hdis

end JanetModel.Props.C18
