import JanetModel.Sandbox.Sound
import JanetModel.Gen.Sandbox
/-
C18 - sandboxed capabilities stay disabled.

* `flags_monotone`, `spawn_inherits`, `thread_keeps_parent_flags`: no transition of the flag-word model clears a bit;
  a new thread starts with (a superset of) its parent's word.
* `interp_sound`: for EVERY graph and certificate accepted by `certOK`: the interpreter may run any sequence of entry-point
  calls and `(sandbox …)` calls under one thread-global flag word, entry points re-entering the interpreter at their
  indirect calls to any depth (`Ex`, `Ob` in Model.lean); every OS-level call `c` that is reached is reached with a flag word
  in which no requirement group of `c` - for the open(2) access mode in force - is completely disabled.
  `checker_sound` is the special case of one entry-point call; `checker_sound_entry`: if the group was disabled when the run
  started, `c` is not reached (the path ended in the panic of a `janet_sandbox_assert` before).
* `gen_certOK` etc.: the per-run obligations on the graph regenerated from the current tree, by kernel evaluation.
-/
namespace JanetModel.Props.C18
open JanetModel.Sandbox

/-! ### the flag word (model of vm.c janet_sandbox / ev.c janet_go_thread_subr); proofs in Sandbox/Sound.lean -/

/-- ★ No sequence of operations, by any threads, clears a bit of any thread's flag word. -/
theorem flags_monotone (ops : List SysOp) (s : Sys) (tid fl : Nat) (h : s[tid]? = some fl) :
    ∃ fl', (s.run ops)[tid]? = some fl' ∧ subMask fl fl' = true :=
  Sound.flags_monotone ops s tid fl h

/-- ★ A thread started by `tid` begins with exactly its parent's flag word … -/
theorem spawn_inherits (s : Sys) (tid fl : Nat) (h : s[tid]? = some fl) :
    (s.step (.spawn tid))[s.length]? = some fl :=
  Sound.spawn_inherits s tid fl h

/-- … and whatever happens afterwards keeps at least the capabilities disabled that its parent had disabled then. -/
theorem thread_keeps_parent_flags (s : Sys) (tid fl : Nat) (h : s[tid]? = some fl) (ops : List SysOp) :
    ∃ fl', ((s.step (.spawn tid)).run ops)[s.length]? = some fl' ∧ subMask fl fl' = true :=
  Sound.thread_keeps_parent_flags s tid fl h ops

/-- the sandbox capability guards `sandbox` itself -/
theorem sandboxOp_guarded (fl f : Nat) (h : fl &&& capSandbox ≠ 0) : sandboxOp fl f = none :=
  Sound.sandboxOp_guarded fl f h

/-- ★ corelib.c `janet_core_sandbox` (`(sandbox :k1 :k2 …)`, model `sandboxCfun` over the keyword table): when it returns,
    every capability the table lists for every keyword given is disabled, nothing has been re-enabled, and the step is a
    `sandboxOp` (so the theorems above cover it). -/
theorem sandboxCfun_disables (tbl : List (String × Nat)) (fl fl' : Nat) (kws : List String)
    (h : sandboxCfun tbl fl kws = some fl') :
    subMask fl fl' = true ∧ (∀ k ∈ kws, ∃ mk, kwLookup tbl k = some mk ∧ subMask mk fl' = true) ∧
    ∃ m, sandboxMask tbl 0 kws = some m ∧ sandboxOp fl m = some fl' :=
  Sound.sandboxCfun_disables tbl fl fl' kws h

/-- an unknown keyword panics before anything changes -/
theorem sandboxCfun_unknown (tbl : List (String × Nat)) (fl : Nat) (kws : List String) (k : String) (hk : k ∈ kws)
    (hu : kwLookup tbl k = none) : sandboxCfun tbl fl kws = none :=
  Sound.sandboxCfun_unknown tbl fl kws k hk hu

/-! ### soundness of the certificate checker, for every graph and certificate -/

/-- ★ Soundness lifted through re-entrant calls: let the interpreter run ANY sequence of entry-point calls and
    `(sandbox …)` calls under one thread-global flag word, entry points re-entering the interpreter at their indirect calls
    to any depth (`Ex`/`Ob`, Model.lean).  Every OS-level call `c` that is reached is reached with a flag word in which none
    of its requirement groups (for the access mode in force at the call) is completely disabled. -/
theorem interp_sound (need : String → String → Nat → List Nat) (G : Graph) (C : Cert) (h : certOK need G C = true)
    (F0 c F md : Nat) (fn nm : String) (hobs : Ob G true 0 F0 0 c F md) (hlt : c < G.size)
    (hc : (G.node c).op = .libc fn nm) (R : Nat) (hR : R ∈ need fn nm md) : subMask R F = false :=
  Sound.interp_sound need G C h F0 c F md fn nm hobs hlt hc R hR

/-- ★ Same, for one call of one entry point. -/
theorem checker_sound (need : String → String → Nat → List Nat) (G : Graph) (C : Cert) (h : certOK need G C = true)
    (f : Nat) (hf : f ∈ G.entries) (F0 c F md : Nat) (fn nm : String)
    (hobs : Ob G false (G.fnEntry f) F0 0 c F md) (hlt : c < G.size) (hc : (G.node c).op = .libc fn nm)
    (R : Nat) (hR : R ∈ need fn nm md) : subMask R F = false :=
  Sound.checker_sound need G C h f hf F0 c F md fn nm hobs hlt hc R hR

/-- ★ In terms of the flag word when the run starts: if a requirement group of `c` is completely disabled, no execution
    reaches `c` (every path ends in a sandbox panic before, or never gets there). -/
theorem checker_sound_entry (need : String → String → Nat → List Nat) (G : Graph) (C : Cert) (h : certOK need G C = true)
    (F0 c F md : Nat) (fn nm : String) (hlt : c < G.size) (hc : (G.node c).op = .libc fn nm)
    (R : Nat) (hR : R ∈ need fn nm md) (hdis : subMask R F0 = true) : ¬ Ob G true 0 F0 0 c F md :=
  Sound.checker_sound_entry need G C h F0 c F md fn nm hlt hc R hR hdis

/-- ★ `interp_sound` with the entry points *defined* as "the functions of the slice whose address is taken anywhere in
    the program" (`addrEntries ids taken`) instead of the translator's entry list: whatever the interpreter / code outside
    the slice calls through a pointer is one of those.  The hypothesis `entriesCover` is discharged per run by `gen_entries`. -/
theorem interp_sound_addr (need : String → String → Nat → List Nat) (G : Graph) (C : Cert) (h : certOK need G C = true)
    (ids : List Nat) (taken : List Nat) (hcov : entriesCover ids G.entries taken = true)
    (F0 c F md : Nat) (fn nm : String) (hobs : Ob (G.withEntries (addrEntries ids taken)) true 0 F0 0 c F md)
    (hlt : c < G.size) (hc : (G.node c).op = .libc fn nm) (R : Nat) (hR : R ∈ need fn nm md) : subMask R F = false :=
  Sound.interp_sound_addr need G C h ids taken hcov F0 c F md fn nm hobs hlt hc R hR

/-- ★ The property end to end, same thread: once a requirement group `R` of the OS-level call `c` is disabled in thread
    `tid`, then after ANY sequence of operations of any threads an interpreter run of that thread never reaches `c`
    (`flags_monotone` composed with `checker_sound_entry`). -/
theorem stays_enforced (need : String → String → Nat → List Nat) (G : Graph) (C : Cert) (h : certOK need G C = true)
    (s : Sys) (tid fl : Nat) (hs : s[tid]? = some fl) (ops : List SysOp)
    (c F md : Nat) (fn nm : String) (hlt : c < G.size) (hc : (G.node c).op = .libc fn nm)
    (R : Nat) (hR : R ∈ need fn nm md) (hdis : subMask R fl = true) :
    ∃ fl', (s.run ops)[tid]? = some fl' ∧ ¬ Ob G true 0 fl' 0 c F md :=
  Sound.stays_enforced need G C h s tid fl hs ops c F md fn nm hlt hc R hR hdis

/-- ★ … and for a thread started later (`thread_keeps_parent_flags` composed with `checker_sound_entry`): an interpreter
    run of the NEW thread never reaches `c`, whatever any thread did in between. -/
theorem thread_enforced (need : String → String → Nat → List Nat) (G : Graph) (C : Cert) (h : certOK need G C = true)
    (s : Sys) (tid fl : Nat) (hs : s[tid]? = some fl) (ops : List SysOp)
    (c F md : Nat) (fn nm : String) (hlt : c < G.size) (hc : (G.node c).op = .libc fn nm)
    (R : Nat) (hR : R ∈ need fn nm md) (hdis : subMask R fl = true) :
    ∃ fl', ((s.step (.spawn tid)).run ops)[s.length]? = some fl' ∧ ¬ Ob G true 0 fl' 0 c F md :=
  Sound.thread_enforced need G C h s tid fl hs ops c F md fn nm hlt hc R hR hdis

/-- ★ an interpreter run never re-enables a capability (semantics of `Ex` alone, no certificate needed) -/
theorem run_never_reenables (G : Graph) (F F' : Nat) (h : Ex G true 0 F 0 0 F' 0) : subMask F F' = true :=
  Sound.ex_mono h

/-- non-vacuity: see the `example`s at the end of Sandbox/Sound.lean (a reachable guarded call; the shapes of the `os/rm`
    and `os/open :a` escapes are rejected) -/
example : certOK need Sound.exG Sound.exC = true := by decide

/-! ### per-run obligations on the regenerated graph -/

open JanetModel.Gen.Sandbox in
/-- ★ the certificate for the current tree is accepted -/
theorem gen_certOK : certOK need graph cert = true := by decide +kernel

open JanetModel.Gen.Sandbox in
/-- every node of the regenerated graph that reads or writes the tracked word touches exactly ONE variable's bit field
    (`Sound.upd_semantics`, `or_semantics`, `test_semantics`: such nodes are assignments to / tests of that variable and leave
    the other tracked variables alone) -/
theorem gen_fieldsOK : fieldsOK graph = true := by decide +kernel

open JanetModel.Gen.Sandbox in
/-- the clones of an out-parameter function (`janet_get_addrinfo` per value stored through `is_unix`) differ in nothing but the
    successor-less stores of the other values; every call of one is a fork over all of them, each arm assigning its value to
    the caller's guard variable; no clone is an entry point -/
theorem gen_outParams : outParamsOK graph outFamilies outSites = true := by decide +kernel

/-- ★ what a store of another value is in a clone: a `nop` without successors ends the activation's execution there -/
theorem stop_semantics {G : Graph} {n F md n' F' md' : Nat} (h : Ex G false n F md n' F' md')
    (hop : (G.node n).op = .nop) (hs : (G.node n).succs = []) : n' = n ∧ F' = F ∧ md' = md := by
  cases h <;> simp_all

/-- non-vacuity: the regenerated graph has such families, sites and successor-less stores, and a family in which a store is
    NOT cut off in a clone for another value is rejected -/
example : Gen.Sandbox.outFamilies ≠ [] ∧ Gen.Sandbox.outSites ≠ [] ∧
    outFamilyOK ⟨3, fun n => if n == 0 then ⟨0, .nop, []⟩ else if n == 1 then ⟨1, .nop, [2]⟩ else ⟨1, .ret, []⟩,
                 fun f => f, []⟩ (1, [(0, 0), (1, 256)], [(0, 0)]) = false ∧
    outFamilyOK ⟨2, fun n => ⟨n, .nop, []⟩, fun f => f, []⟩ (1, [(0, 0), (1, 256)], [(0, 0)]) = true := by decide

/-- ★ what `gen_fieldsOK` buys, restated: an accepted `modeUpd` is an assignment to one tracked variable -/
theorem upd_semantics (k o : Nat) (h : opFieldsOK (.modeUpd k o) = true) (md : Nat) :
    ∃ f ∈ fields, ((md &&& k) ||| o) &&& f = o ∧ ∀ g ∈ fields, g ≠ f → ((md &&& k) ||| o) &&& g = md &&& g :=
  Sound.upd_semantics k o h md

open JanetModel.Gen.Sandbox in
theorem gen_classified : classifiedAll externals externalsIdx = true := by decide +kernel

open JanetModel.Gen.Sandbox in
theorem gen_tables : definesOK defines capTable = true ∧ tableEq options keywordTable = true ∧ flagWritesOK flagWrites = true := by
  decide +kernel

open JanetModel.Gen.Sandbox in
theorem gen_entriesCover : entriesCover sliceIds graph.entries addressTaken = true := by decide +kernel

open JanetModel.Gen.Sandbox in
/-- ★ every address-taken function of the program (independent scan of the IR text: `Gen.Sandbox.addressTaken`, program
    ids) that lies in the slice is an entry point of the checked graph; functions only ever handed to a spawner are `call`
    targets at the hand-over site; the numbering agrees with the graph's name table. -/
theorem gen_entries :
    (∀ p ∈ addressTaken, ∀ i, sliceIds[i]? = some p → i ∈ graph.entries) ∧
    handoversOK graph sliceIds handovers = true ∧ namesAgree progFns sliceIds fnNames = true :=
  ⟨Sound.entriesCover_spec gen_entriesCover, by decide +kernel, by decide +kernel⟩

open JanetModel.Gen.Sandbox in
/-- non-vacuity of `gen_entries`: the entry points defined by the scan are many, and the scan is much larger than the slice -/
example : (addrEntries sliceIds addressTaken).length > 20 ∧ addressTaken.length > 300 := by decide +kernel

open JanetModel.Gen.Sandbox in
/-- ★ the program as it is now, entry points = address-taken functions of the slice (no translator-chosen entry list):
    if a requirement group of the OS-level call `c` is disabled when the interpreter run starts, `c` is never reached. -/
theorem sandbox_enforced_addr (F0 c F md : Nat) (fn nm : String)
    (hlt : c < graph.size) (hc : (graph.node c).op = .libc fn nm) (R : Nat) (hR : R ∈ need fn nm md) (hdis : subMask R F0 = true) :
    ¬ Ob (graph.withEntries (addrEntries sliceIds addressTaken)) true 0 F0 0 c F md :=
  Sound.checker_sound_entry_addr need graph cert gen_certOK sliceIds addressTaken gen_entriesCover F0 c F md fn nm hlt hc R hR hdis

open JanetModel.Gen.Sandbox in
/-- every `JANET_SANDBOX_*` capability of the header has a keyword of the regenerated `sandbox_options[]` that disables
    exactly it, and `:all` disables every one (a capability added to the header without a keyword fails here; one added
    without a line in `Cap.capTable` fails `gen_tables`) -/
theorem gen_keywords : keywordsCover options defines = true := by decide +kernel

open JanetModel.Gen.Sandbox in
/-- the regenerated data-flow shape of vm.c `janet_sandbox` and corelib.c `janet_core_sandbox` is the one `sandboxOp` /
    `sandboxCfun` model (assert of the sandbox capability, or-in; accumulator from 0 over `sandbox_options[]` flags, panic for
    an unknown keyword) -/
theorem gen_sandboxShape : sandboxShapeOK sandboxShape = true ∧ capSandbox = 1 := by decide +kernel

/-- non-vacuity: `flags = opt->flag` (assignment instead of or-in) is not the shape -/
example : sandboxShapeOK [("janet_sandbox", "janet_sandbox_assert(1); flags |= parameter"),
    ("janet_core_sandbox", "unrecognised: the mask local is assigned: %33 = load i32, i32* %32, align 8")] = false := by decide

open JanetModel.Gen.Sandbox in
/-- the translator's summary `mayGrow` is closed: certificate check by kernel evaluation -/
theorem gen_mayGrow : mayGrowOK mayGrowAt noGrowEdges benignCallees flagWriters = true := by decide +kernel

open JanetModel.Gen.Sandbox in
/-- ★ a call that the graph has NO node for (defined callee outside the slice, not `havoc`) cannot reach a store to the flag
    word through the call edges of the program -/
theorem benign_calls_keep_flags (g w : Nat) (hg : g ∈ benignCallees) (hp : CallPath noGrowEdges g w) : w ∉ flagWriters :=
  Sound.benign_never_writes gen_mayGrow hg hp

open JanetModel.Gen.Sandbox in
/-- non-vacuity: there are such callees and the decision tree agrees with the id list on the writers -/
example : benignCallees.length > 50 ∧ flagWriters.all (fun w => mayGrowIds.contains w) = true := by decide +kernel

open JanetModel.Gen.Sandbox in
/-- the regenerated shape of thread start is `SysOp.spawn` (child's word := parent's word, at every hand-over site, through
    the spawner's message copy and the thread body, into the subroutine's `janet_init(); flags := msg.argi`) -/
theorem gen_threadStart : threadStartOK threadStart = true := by decide +kernel

open JanetModel.Gen.Sandbox in
/-- ★ thread start of the current tree, followed step by step through the message (`spawnC` over the regenerated
    configuration), IS the model's `SysOp.spawn`: the new thread's word is its parent's word, whatever an unchecked step could
    have delivered (`junk`) -/
theorem gen_spawn_refines (s : Sys) (tid fl junk : Nat) (hs : s[tid]? = some fl) :
    (s.step (.spawn tid))[s.length]? = some (spawnC (threadCfgOf threadStart) fl junk) :=
  Sound.spawn_is_spawnC _ gen_threadStart s tid fl junk hs

/-- non-vacuity: a hand-over that does not pass the flag word is rejected; so is a spawner that patches the message -/
example : threadStartOK [("janet_go_thread_subr", "janet_init; flags := msg.argi"), ("cfun_ev_thread", "unverified hand-over via janet_ev_threaded_call"),
    ("janet_ev_threaded_await", "msg.argi := parameter argi; janet_ev_threaded_call(fp, msg)"),
    ("janet_ev_threaded_call", "init.msg := arguments; init.subr := fp; pthread_create(body, init)"),
    ("thread body", "msg := init.msg; subr := init.subr; subr(msg)")] = false := by decide
example : threadStartOK [("janet_go_thread_subr", "janet_init; flags := msg.argi"), ("cfun_ev_thread", "janet_ev_threaded_call: msg.argi := flags"),
    ("janet_ev_threaded_await", "msg.argi := parameter argi; janet_ev_threaded_call(fp, msg)"),
    ("janet_ev_threaded_call", "unrecognised message path: the message field of the init block is addressed 2 times")] = false := by decide

open JanetModel.Gen.Sandbox in
/-- ★ the whole property for the program as it is now (entry points = address-taken functions of the slice): a capability
    group disabled in a thread stays enforced in that thread and in every thread it starts later -/
theorem sandbox_enforced_threads (s : Sys) (tid fl : Nat) (hs : s[tid]? = some fl) (ops : List SysOp)
    (c F md : Nat) (fn nm : String) (hlt : c < graph.size) (hc : (graph.node c).op = .libc fn nm)
    (R : Nat) (hR : R ∈ need fn nm md) (hdis : subMask R fl = true) :
    (∃ fl', (s.run ops)[tid]? = some fl' ∧
      ¬ Ob (graph.withEntries (addrEntries sliceIds addressTaken)) true 0 fl' 0 c F md) ∧
    (∃ fl', ((s.step (.spawn tid)).run ops)[s.length]? = some fl' ∧
      ¬ Ob (graph.withEntries (addrEntries sliceIds addressTaken)) true 0 fl' 0 c F md) := by
  obtain ⟨f1, h1, m1⟩ := flags_monotone ops s tid fl hs
  obtain ⟨f2, h2, m2⟩ := thread_keeps_parent_flags s tid fl hs ops
  exact ⟨⟨f1, h1, sandbox_enforced_addr f1 c F md fn nm hlt hc R hR (Sound.subMask_trans hdis m1)⟩,
         ⟨f2, h2, sandbox_enforced_addr f2 c F md fn nm hlt hc R hR (Sound.subMask_trans hdis m2)⟩⟩

open JanetModel.Gen.Sandbox in
/-- the instance of `checker_sound_entry` for the program as it is now -/
theorem sandbox_enforced (F0 c F md : Nat) (fn nm : String)
    (hlt : c < graph.size) (hc : (graph.node c).op = .libc fn nm) (R : Nat) (hR : R ∈ need fn nm md) (hdis : subMask R F0 = true) :
    ¬ Ob graph true 0 F0 0 c F md :=
  checker_sound_entry need graph cert gen_certOK F0 c F md fn nm hlt hc R hR hdis

end JanetModel.Props.C18
