/-
C20 — programs end when work is done; pinned objects stay bounded.  Property theorems about `JanetModel.Loop`.

All statements quantify over every configuration and every event sequence (every schedule, completion order, cancel /
close / GC interleaving) the model can take from the initial state; proofs are by induction over the sequence.
-/
import JanetModel.Loop.Model

namespace JanetModel.Props.C20
open JanetModel.Loop

/-! ## tie to the source: the generated tables are the ones the model mirrors -/

/-- the loop-termination test is `!(run queue non-empty || tq_count || listener_count)` -/
theorem done_expr_match : Gen.Loop.doneTerms = doneSpec := by decide

/-- every site that increments / decrements listener_count is one the model has a transition for (same guards) -/
theorem counter_sites_match : Gen.Loop.counterSites = siteSpec Gen.Loop.selfpipeDecNeedsCb := by decide

/-- poll phase: entered and blocking under `tq_count || listener_count`; the stale-timeout drop loop has the shape modelled by
    `dropStale` -/
theorem poll_phase_match :
    Gen.Loop.pollGuard = pollGuardSpec ∧ Gen.Loop.pollGuard2 = pollGuardSpec ∧ Gen.Loop.staleLoop = staleLoopSpec :=
  ⟨rfl, rfl, rfl⟩

/-- root / unroot sites of event-loop operations (the release sites of the threaded-channel root are tree dependent and
    summarised by `Gen.Loop.tchanUnrootCb`) -/
theorem root_sites_match : Gen.Loop.rootSites.filter (fun x => !isTchanRelease x) = rootSpec := by decide

/-- janet_stream_close notifies the read-side and the write-side fiber as the model's `streamCloseEvents` says -/
theorem stream_close_match : Gen.Loop.streamCloseNotify = closeSpec Gen.Loop.closeNotifiesBoth := by decide

/-! ## invariants -/

/-- `listener_count` = suspended tasks + stream listeners + posted, undelivered events (+ NULL-callback events, whose
    increment the POSIX self-pipe reader never undoes) + outstanding helper threads -/
def CounterInv (s : St) : Prop :=
  s.lc = (s.susp.length : Int) + s.lis + s.posted + s.postedNull + s.nullStuck + s.calls

/-- every outstanding helper thread is an await, a fibre-less call or a process wait -/
def CallInv (s : St) : Prop := s.awaits + s.noFiber + s.procWaits = s.calls

/-- roots held by event-loop operations -/
def RootInv (s : St) : Prop :=
  s.roots = (s.lis : Int) + s.orphanStreams + s.awaits + 2 * s.procWaits + s.tchanPending + s.tchanLeaked

def Inv (s : St) : Prop := CounterInv s ∧ CallInv s ∧ RootInv s

theorem inv_init : Inv init := by
  simp [Inv, CounterInv, CallInv, RootInv, init]

private theorem len_erase {f : Fid} {l : List Fid} (h : f ∈ l) : ((l.erase f).length : Int) = (l.length : Int) - 1 := by
  have h1 := List.length_erase_of_mem h
  have h2 : 0 < l.length := List.length_pos_of_mem h
  omega

/-- each transition preserves all three invariants: every increment has exactly one matching decrement on every path -/
theorem step_inv (cfg : Cfg) {s s' : St} {e : Ev} (hi : Inv s) (h : step cfg s e = some s') : Inv s' := by
  obtain ⟨hc, hk, hr⟩ := hi
  unfold CounterInv at hc
  unfold CallInv at hk
  unfold RootInv at hr
  cases e with
  | sched f => simp [step] at h; subst h; exact ⟨hc, hk, hr⟩
  | pop f =>
    simp only [step] at h
    by_cases h1 : f ∈ s.runq
    · rw [if_pos h1] at h
      by_cases h2 : f ∈ s.susp
      · rw [if_pos h2] at h
        simp at h; subst h
        have := len_erase h2
        refine ⟨?_, hk, hr⟩
        simp only [CounterInv]; omega
      · rw [if_neg h2] at h
        simp at h; subst h; exact ⟨hc, hk, hr⟩
    · rw [if_neg h1] at h; simp at h
  | ran f b =>
    cases b with
    | false => simp [step] at h; subst h; exact ⟨hc, hk, hr⟩
    | true =>
      simp only [step] at h
      by_cases h2 : f ∈ s.susp
      · rw [if_pos h2] at h; simp at h
      · rw [if_neg h2] at h
        simp at h; subst h
        refine ⟨?_, hk, hr⟩
        simp only [CounterInv, List.length_cons]; omega
  | gcFiber f => simp [step] at h; subst h; exact ⟨hc, hk, hr⟩
  | astart =>
    simp [step] at h; subst h
    refine ⟨?_, hk, ?_⟩
    · simp only [CounterInv]; omega
    · simp only [RootInv]; omega
  | aend =>
    simp only [step] at h
    by_cases h1 : s.lis = 0
    · rw [if_pos h1] at h; simp at h
    · rw [if_neg h1] at h; simp at h; subst h
      refine ⟨?_, hk, ?_⟩
      · simp only [CounterInv]; omega
      · simp only [RootInv]; omega
  | gcListener =>
    simp only [step] at h
    by_cases h1 : s.lis = 0
    · rw [if_pos h1] at h; simp at h
    · rw [if_neg h1] at h; simp at h; subst h
      refine ⟨?_, hk, ?_⟩
      · simp only [CounterInv]; omega
      · simp only [RootInv]; omega
  | await =>
    simp [step] at h; subst h
    refine ⟨?_, ?_, ?_⟩
    · simp only [CounterInv]; omega
    · simp only [CallInv]; omega
    · simp only [RootInv]; omega
  | callNoFiber =>
    simp [step] at h; subst h
    refine ⟨?_, ?_, ?_⟩
    · simp only [CounterInv]; omega
    · simp only [CallInv]; omega
    · simp only [RootInv]; omega
  | procWait =>
    simp [step] at h; subst h
    refine ⟨?_, ?_, ?_⟩
    · simp only [CounterInv]; omega
    · simp only [CallInv]; omega
    · simp only [RootInv]; omega
  | deliverAwait =>
    simp only [step] at h
    by_cases h1 : s.awaits = 0 ∨ s.calls = 0
    · rw [if_pos h1] at h; simp at h
    · rw [if_neg h1] at h; simp at h; subst h
      refine ⟨?_, ?_, ?_⟩
      · simp only [CounterInv]; omega
      · simp only [CallInv]; omega
      · simp only [RootInv]; omega
  | deliverNoFiber =>
    simp only [step] at h
    by_cases h1 : s.noFiber = 0 ∨ s.calls = 0
    · rw [if_pos h1] at h; simp at h
    · rw [if_neg h1] at h; simp at h; subst h
      refine ⟨?_, ?_, ?_⟩
      · simp only [CounterInv]; omega
      · simp only [CallInv]; omega
      · simp only [RootInv]; omega
  | deliverProc =>
    simp only [step] at h
    by_cases h1 : s.procWaits = 0 ∨ s.calls = 0
    · rw [if_pos h1] at h; simp at h
    · rw [if_neg h1] at h; simp at h; subst h
      refine ⟨?_, ?_, ?_⟩
      · simp only [CounterInv]; omega
      · simp only [CallInv]; omega
      · simp only [RootInv]; omega
  | post b =>
    cases b with
    | false =>
      simp [step] at h; subst h
      refine ⟨?_, hk, hr⟩
      simp only [CounterInv]; omega
    | true =>
      simp [step] at h; subst h
      refine ⟨?_, hk, hr⟩
      simp only [CounterInv]; omega
  | deliverPosted =>
    simp only [step] at h
    by_cases h1 : s.posted = 0
    · rw [if_pos h1] at h; simp at h
    · rw [if_neg h1] at h; simp at h; subst h
      refine ⟨?_, hk, hr⟩
      simp only [CounterInv]; omega
  | deliverNull =>
    simp only [step] at h
    by_cases h1 : s.postedNull = 0
    · rw [if_pos h1] at h; simp at h
    · rw [if_neg h1] at h
      by_cases h2 : cfg.nullDec = true
      · rw [if_pos h2] at h; simp at h; subst h
        refine ⟨?_, hk, hr⟩
        simp only [CounterInv]; omega
      · rw [if_neg h2] at h; simp at h; subst h
        refine ⟨?_, hk, hr⟩
        simp only [CounterInv]; omega
  | tchanPend =>
    simp [step] at h; subst h
    refine ⟨hc, hk, ?_⟩
    simp only [RootInv]; omega
  | deliverChan =>
    simp only [step] at h
    by_cases h1 : s.posted = 0 ∨ s.tchanPending = 0
    · rw [if_pos h1] at h; simp at h
    · rw [if_neg h1] at h
      by_cases h2 : cfg.tchanUnroot = true
      · rw [if_pos h2] at h; simp at h; subst h
        refine ⟨?_, hk, ?_⟩
        · simp only [CounterInv]; omega
        · simp only [RootInv]; omega
      · rw [if_neg h2] at h; simp at h; subst h
        refine ⟨?_, hk, ?_⟩
        · simp only [CounterInv]; omega
        · simp only [RootInv]; omega
  | tchanDirect =>
    simp only [step] at h
    by_cases h1 : s.tchanPending = 0
    · rw [if_pos h1] at h; simp at h
    · rw [if_neg h1] at h; simp at h; subst h
      refine ⟨hc, hk, ?_⟩
      simp only [RootInv]; omega
  | tadd t => simp [step] at h; subst h; exact ⟨hc, hk, hr⟩
  | tpop t =>
    simp only [step] at h
    by_cases h1 : t ∈ s.timers
    · rw [if_pos h1] at h; simp at h; subst h; exact ⟨hc, hk, hr⟩
    · rw [if_neg h1] at h; simp at h
  | streamClosed n =>
    simp only [step] at h
    by_cases h1 : s.orphanLis + n ≤ s.lis
    · rw [if_pos h1] at h; simp at h; subst h; exact ⟨hc, hk, hr⟩
    · rw [if_neg h1] at h; simp at h

theorem run_inv (cfg : Cfg) : ∀ (evs : List Ev) {s s' : St}, Inv s → run cfg s evs = some s' → Inv s'
  | [], s, s', hi, h => by simp [run] at h; subst h; exact hi
  | e :: es, s, s', hi, h => by
    simp only [run] at h
    cases hs : step cfg s e with
    | none => rw [hs] at h; simp at h
    | some s1 =>
      rw [hs] at h
      exact run_inv cfg es (step_inv cfg hi hs) h

/-- ★ the pending-work counter counts exactly what is outstanding, after every event sequence from the start of the
    program (all schedules, cancel / close / error / GC paths included) -/
theorem listener_count_inv (cfg : Cfg) (evs : List Ev) {s : St} (h : run cfg init evs = some s) :
    s.lc = (s.susp.length : Int) + s.lis + s.posted + s.postedNull + s.nullStuck + s.calls :=
  (run_inv cfg evs inv_init h).1

private theorem loopDone_iff (s : St) : loopDone s = true ↔ s.runq = [] ∧ s.timers = [] ∧ s.lc = 0 := by
  unfold loopDone
  cases hq : s.runq <;> cases ht : s.timers <;> simp

/-- ★ the loop does not exit while anything is outstanding: a suspended task, a stream listener, an undelivered event, a
    helper thread (ev/thread, os/proc-wait, …), a timer or a runnable task -/
theorem no_premature_exit (cfg : Cfg) (evs : List Ev) {s : St} (h : run cfg init evs = some s) (hd : loopDone s = true) :
    s.runq = [] ∧ s.timers = [] ∧ s.susp = [] ∧ s.lis = 0 ∧ s.posted = 0 ∧ s.postedNull = 0 ∧ s.calls = 0 ∧
      s.awaits = 0 ∧ s.procWaits = 0 := by
  have hi := run_inv cfg evs inv_init h
  obtain ⟨hc, hk, _⟩ := hi
  unfold CounterInv at hc
  unfold CallInv at hk
  obtain ⟨hq, ht, hl⟩ := (loopDone_iff s).1 hd
  have hlen : s.susp.length = 0 := by omega
  refine ⟨hq, ht, List.eq_nil_of_length_eq_zero hlen, ?_, ?_, ?_, ?_, ?_, ?_⟩ <;> omega

/-- ★ the loop does not hang once everything has finished — provided no NULL-callback event was ever posted -/
theorem no_hang_when_idle (cfg : Cfg) (evs : List Ev) {s : St} (h : run cfg init evs = some s) (hidle : Idle s)
    (hnull : s.nullStuck = 0) : loopDone s = true := by
  have hc := (run_inv cfg evs inv_init h).1
  unfold CounterInv at hc
  obtain ⟨hq, ht, ho⟩ := hidle
  unfold outstanding at ho
  apply (loopDone_iff s).2
  refine ⟨hq, ht, ?_⟩
  omega

/-- exact characterisation: the loop is done iff idle and no NULL-callback event has been swallowed -/
theorem loopDone_iff_idle (cfg : Cfg) (evs : List Ev) {s : St} (h : run cfg init evs = some s) :
    loopDone s = true ↔ (Idle s ∧ s.nullStuck = 0) := by
  constructor
  · intro hd
    have hc := (run_inv cfg evs inv_init h).1
    unfold CounterInv at hc
    obtain ⟨hq, ht, hl⟩ := (loopDone_iff s).1 hd
    refine ⟨⟨hq, ht, ?_⟩, ?_⟩
    · unfold outstanding; omega
    · omega
  · intro ⟨hi, hn⟩
    exact no_hang_when_idle cfg evs h hi hn

/-- what the code really counts: an event posted with a NULL callback (`janet_loop1_interrupt`) is never un-counted by the
    POSIX self-pipe reader, so after it the loop can no longer finish although nothing is outstanding -/
theorem null_event_keeps_loop_alive (cfg : Cfg) (hcfg : cfg.nullDec = false) :
    ∃ s, run cfg init [.post true, .deliverNull] = some s ∧ Idle s ∧ loopDone s = false := by
  refine ⟨{ init with lc := 1, nullStuck := 1 }, ?_, ?_, ?_⟩
  · simp [run, step, init, hcfg]
  · simp [Idle, outstanding, init]
  · simp [loopDone, init]

/-- when the self-pipe reader decrements for every event (`Gen.Loop.selfpipeDecNeedsCb = false`) no count is ever stuck … -/
theorem nullStuck_zero (cfg : Cfg) (hcfg : cfg.nullDec = true) :
    ∀ (evs : List Ev) {s s' : St}, s.nullStuck = 0 → run cfg s evs = some s' → s'.nullStuck = 0
  | [], s, s', h0, h => by simp [run] at h; subst h; exact h0
  | e :: es, s, s', h0, h => by
    simp only [run] at h
    cases hs : step cfg s e with
    | none => rw [hs] at h; simp at h
    | some s1 =>
      rw [hs] at h
      refine nullStuck_zero cfg hcfg es ?_ h
      cases e <;> simp only [step] at hs
      case deliverNull =>
        by_cases h1 : s.postedNull = 0
        · rw [if_pos h1] at hs; simp at hs
        · rw [if_neg h1, if_pos hcfg] at hs; simp at hs; subst hs; exact h0
      case deliverChan =>
        by_cases h1 : s.posted = 0 ∨ s.tchanPending = 0
        · rw [if_pos h1] at hs; simp at hs
        · rw [if_neg h1] at hs
          by_cases h2 : cfg.tchanUnroot = true
          · rw [if_pos h2] at hs; simp at hs; subst hs; exact h0
          · rw [if_neg h2] at hs; simp at hs; subst hs; exact h0
      case pop f =>
        by_cases h1 : f ∈ s.runq
        · rw [if_pos h1] at hs
          by_cases h2 : f ∈ s.susp
          · rw [if_pos h2] at hs; simp at hs; subst hs; exact h0
          · rw [if_neg h2] at hs; simp at hs; subst hs; exact h0
        · rw [if_neg h1] at hs; simp at hs
      case ran f b =>
        cases b
        · simp at hs; subst hs; exact h0
        · by_cases h2 : f ∈ s.susp
          · simp [h2] at hs
          · simp [h2] at hs; subst hs; exact h0
      case post b => cases b <;> (simp at hs; subst hs; exact h0)
      all_goals first
        | (simp at hs; subst hs; exact h0)
        | (split at hs <;> simp at hs; subst hs; exact h0)

/-- ★ … and the loop is done exactly when the program is idle: no hang, no premature exit, no side condition -/
theorem loopDone_iff_idle_fixed (cfg : Cfg) (hcfg : cfg.nullDec = true) (evs : List Ev) {s : St}
    (h : run cfg init evs = some s) : loopDone s = true ↔ Idle s := by
  have hn := nullStuck_zero cfg hcfg evs (s := init) rfl h
  rw [loopDone_iff_idle cfg evs h]
  exact ⟨fun x => x.1, fun x => ⟨x, hn⟩⟩

/-- a suspended task that is garbage collected (deadlocked on an unreachable channel) keeps its count for ever: the collector
    only undoes the count of fibers with `ev_state` -/
theorem collected_suspended_task_keeps_count (cfg : Cfg) :
    ∃ s, run cfg init [.sched 1, .pop 1, .ran 1 true, .gcFiber 1] = some s ∧ s.lc = 1 ∧ loopDone s = false := by
  refine ⟨{ init with lc := 1, susp := [1] }, ?_, rfl, ?_⟩
  · simp [run, step, init]
  · simp [loopDone, init]

/-! ## listeners left behind by a close -/

/-- orphaned listeners are listeners -/
theorem orphan_le_lis (cfg : Cfg) : ∀ (evs : List Ev) {s s' : St}, s.orphanLis ≤ s.lis → run cfg s evs = some s' → s'.orphanLis ≤ s'.lis
  | [], s, s', h0, h => by simp [run] at h; subst h; exact h0
  | e :: es, s, s', h0, h => by
    simp only [run] at h
    cases hs : step cfg s e with
    | none => rw [hs] at h; simp at h
    | some s1 =>
      rw [hs] at h
      refine orphan_le_lis cfg es ?_ h
      cases e <;> simp only [step] at hs
      case aend =>
        by_cases h1 : s.lis = 0
        · rw [if_pos h1] at hs; simp at hs
        · rw [if_neg h1] at hs; simp at hs; subst hs; simp only; omega
      case gcListener =>
        by_cases h1 : s.lis = 0
        · rw [if_pos h1] at hs; simp at hs
        · rw [if_neg h1] at hs; simp at hs; subst hs; simp only; omega
      case astart => simp at hs; subst hs; simp only; omega
      case streamClosed n =>
        by_cases h1 : s.orphanLis + n ≤ s.lis
        · rw [if_pos h1] at hs; simp at hs; subst hs; simp only; omega
        · rw [if_neg h1] at hs; simp at hs
      case deliverChan =>
        by_cases h1 : s.posted = 0 ∨ s.tchanPending = 0
        · rw [if_pos h1] at hs; simp at hs
        · rw [if_neg h1] at hs
          by_cases h2 : cfg.tchanUnroot = true
          · rw [if_pos h2] at hs; simp at hs; subst hs; exact h0
          · rw [if_neg h2] at hs; simp at hs; subst hs; exact h0
      case deliverNull =>
        by_cases h1 : s.postedNull = 0
        · rw [if_pos h1] at hs; simp at hs
        · rw [if_neg h1] at hs
          by_cases h2 : cfg.nullDec = true
          · rw [if_pos h2] at hs; simp at hs; subst hs; exact h0
          · rw [if_neg h2] at hs; simp at hs; subst hs; exact h0
      case pop f =>
        by_cases h1 : f ∈ s.runq
        · rw [if_pos h1] at hs
          by_cases h2 : f ∈ s.susp
          · rw [if_pos h2] at hs; simp at hs; subst hs; exact h0
          · rw [if_neg h2] at hs; simp at hs; subst hs; exact h0
        · rw [if_neg h1] at hs; simp at hs
      case ran f b =>
        cases b
        · simp at hs; subst hs; exact h0
        · by_cases h2 : f ∈ s.susp
          · simp [h2] at hs
          · simp [h2] at hs; subst hs; exact h0
      case post b => cases b <;> (simp at hs; subst hs; exact h0)
      all_goals first
        | (simp at hs; subst hs; exact h0)
        | (split at hs <;> simp at hs; subst hs; exact h0)

/-- ★ when the close notifies both sides (`Gen.Loop.closeNotifiesBoth`), closing a stream with a parked reader and / or writer ends
    exactly those listeners and leaves nobody behind — for every combination of parked sides -/
theorem streamClose_releases_all (cfg : Cfg) (hcfg : cfg.closeBoth = true) (r w : Bool) {s s' : St}
    (hl : s.orphanLis + (if r then 1 else 0) + (if w then 1 else 0) ≤ s.lis)
    (h : run cfg s (streamCloseEvents cfg r w) = some s') :
    s'.orphanLis = s.orphanLis ∧ s'.lis + (if r then 1 else 0) + (if w then 1 else 0) = s.lis ∧
      s'.lc + (if r then 1 else 0) + (if w then 1 else 0) = s.lc := by
  unfold streamCloseEvents at h
  rw [if_pos hcfg] at h
  cases r <;> cases w
  · simp at hl
    simp [run, step, hl] at h
    subst h; simp
  · simp at hl
    have h1 : s.lis ≠ 0 := by omega
    have m1 : min s.orphanLis (s.lis - 1) ≤ s.lis - 1 := Nat.min_le_right _ _
    simp [run, step, h1, m1] at h
    subst h; simp; omega
  · simp at hl
    have h1 : s.lis ≠ 0 := by omega
    have m1 : min s.orphanLis (s.lis - 1) ≤ s.lis - 1 := Nat.min_le_right _ _
    simp [run, step, h1, m1] at h
    subst h; simp; omega
  · simp at hl
    have h1 : s.lis ≠ 0 := by omega
    have h2 : s.lis - 1 ≠ 0 := by omega
    have m3 : min s.orphanLis (s.lis - 1 - 1) ≤ s.lis - 1 - 1 := Nat.min_le_right _ _
    simp [run, step, h1, h2, m3] at h
    subst h; simp; omega

/-- an orphaned listener keeps the loop from ever finishing, and (when it is all that is left) nothing can wake the loop -/
theorem orphan_listener_never_done (cfg : Cfg) (evs : List Ev) {s : St} (h : run cfg init evs = some s) (ho : 0 < s.orphanLis) :
    loopDone s = false := by
  have hc := (run_inv cfg evs inv_init h).1
  unfold CounterInv at hc
  have hle := orphan_le_lis cfg evs (s := init) (by simp [init]) h
  cases hd : loopDone s with
  | false => rfl
  | true =>
    obtain ⟨_, _, hl⟩ := (loopDone_iff s).1 hd
    omega

/-- with `else if` (seeded change in janet_stream_close): reader and writer parked on one stream, a third task closes it —
    only the reader is released; the writer's listener stays, nothing can wake the loop, and the loop is never done -/
theorem close_with_two_listeners_orphans_writer (cfg : Cfg) (hcfg : cfg.closeBoth = false) :
    ∃ s, run cfg init ([.sched 1, .pop 1, .astart, .ran 1 true, .sched 2, .pop 2, .astart, .ran 2 true] ++
        streamCloseEvents cfg true true ++ [.sched 1, .pop 1, .ran 1 false]) = some s ∧
      s.orphanLis = 1 ∧ s.lis = 1 ∧ s.susp = [2] ∧ canWake s false = false ∧ loopDone s = false := by
  refine ⟨{ init with lc := 2, susp := [2], lis := 1, roots := 1, orphanLis := 1 }, ?_, rfl, rfl, rfl, ?_, ?_⟩
  · simp [run, step, init, streamCloseEvents, hcfg]
  · simp [canWake, init]
  · simp [loopDone, init]

/-! ## child reaping by the process-handle finaliser -/

/-- the generated flag is what the option string says -/
theorem proc_gc_match : Gen.Loop.procGcBlockingWait = decide (Gen.Loop.procGcWaitOptions = "0") := by decide

/-- ★ with a blocking wait the finaliser leaves no child behind, whatever state the children were in: dropping and collecting
    any number of un-waited handles leaves the number of children (running or zombie) unchanged -/
theorem finalizer_reaps_every_child : ∀ handles : List Child, leftBehind true handles = 0
  | [] => rfl
  | c :: cs => by
    have ih := finalizer_reaps_every_child cs
    unfold leftBehind at ih ⊢
    cases c <;> simpa [procGc] using ih

/-- with WNOHANG every handle whose child is still running at collection time leaves a zombie: one per cycle of
    "spawn, drop the handle, collect" -/
theorem nohang_finalizer_leaves_zombies (n : Nat) : leftBehind false (List.replicate n .running) = n := by
  induction n with
  | zero => rfl
  | succ k ih =>
    unfold leftBehind at ih ⊢
    simp [List.replicate_succ, procGc] at ih ⊢

/-! ## stale timers -/

theorem dropStale_all_stale (stale : Timer → Bool) : ∀ ts : List Timer, (∀ t ∈ ts, stale t = true) → dropStale stale ts = []
  | [], _ => rfl
  | t :: ts, h => by
    have ht : stale t = true := h t (by simp)
    simp only [dropStale, ht, if_true]
    exact dropStale_all_stale stale ts (fun u hu => h u (by simp [hu]))

theorem dropStale_head_live (stale : Timer → Bool) : ∀ ts : List Timer, ∀ t rest, dropStale stale ts = t :: rest → stale t = false
  | [], t, rest, h => by simp [dropStale] at h
  | u :: us, t, rest, h => by
    by_cases hu : stale u = true
    · simp only [dropStale, hu, if_true] at h
      exact dropStale_head_live stale us t rest h
    · simp only [dropStale, hu] at h
      simp at h
      obtain ⟨h1, _⟩ := h
      subst h1
      simpa using hu

/-- dropping never invents timers and keeps the live ones -/
theorem dropStale_sublist (stale : Timer → Bool) : ∀ ts : List Timer, ∀ t, t ∈ dropStale stale ts → t ∈ ts
  | [], t, h => by simp [dropStale] at h
  | u :: us, t, h => by
    by_cases hu : stale u = true
    · simp only [dropStale, hu, if_true] at h
      exact List.mem_cons_of_mem u (dropStale_sublist stale us t h)
    · simp only [dropStale, hu] at h
      simpa using h

/-- ★ stale timers cannot keep the loop alive: when only stale timeouts remain (their fibers were resumed, cancelled or are
    dead) and nothing else is outstanding, the poll phase empties the heap, does not block in the kernel, and the loop is
    done — whatever the timers' deadlines are -/
theorem stale_timers_cannot_keep_loop_alive (stale : Timer → Bool) (s : St)
    (hst : ∀ t ∈ s.timers, stale t = true) (hq : s.runq = []) (hl : s.lc = 0) :
    (pollPrelude stale s).timers = [] ∧ willPoll (pollPrelude stale s) = false ∧ loopDone (pollPrelude stale s) = true := by
  have hd := dropStale_all_stale stale s.timers hst
  unfold pollPrelude
  cases ht : s.timers with
  | nil =>
    simp [ht, hl, willPoll, loopDone, hq]
  | cons t ts =>
    rw [ht] at hd
    simp [hd, hl, willPoll, loopDone, hq]

/-- the poll phase changes nothing but the timer heap -/
theorem pollPrelude_counters (stale : Timer → Bool) (s : St) :
    (pollPrelude stale s).lc = s.lc ∧ (pollPrelude stale s).runq = s.runq ∧ (pollPrelude stale s).susp = s.susp := by
  unfold pollPrelude
  by_cases h : (!s.timers.isEmpty || s.lc != 0) = true
  · simp [h]
  · simp [h]

/-! ## the invariants through whole `janet_loop1` steps and `janet_loop` -/

private theorem inv_timers {s : St} (ts : List Timer) (h : Inv s) : Inv { s with timers := ts } := by
  obtain ⟨hc, hk, hr⟩ := h
  exact ⟨hc, hk, hr⟩

private theorem inv_pollPrelude (stale : Timer → Bool) {s : St} (h : Inv s) : Inv (pollPrelude stale s) := by
  unfold pollPrelude
  by_cases hg : (!s.timers.isEmpty || s.lc != 0) = true
  · rw [if_pos hg]; exact inv_timers _ h
  · rw [if_neg hg]; exact h

/-- ★ a whole event-loop step (expired timers, every popped task with whatever it does, stale-timer drop, poll deliveries)
    preserves the counter and root invariants -/
theorem loop1_inv (cfg : Cfg) {s s' : St} (i : StepIn) (hi : Inv s) (h : loop1 cfg s i = some s') : Inv s' := by
  unfold loop1 at h
  cases h1 : run cfg s (expireEvents i.expired ++ (i.tasks.map Task.events).flatten) with
  | none => rw [h1] at h; simp at h
  | some s1 =>
    rw [h1] at h
    have hi1 := run_inv cfg _ hi h1
    have hi2 := inv_pollPrelude i.stale hi1
    simp only at h
    by_cases hw : willPoll (pollPrelude i.stale s1) = true
    · rw [if_pos hw] at h; exact run_inv cfg _ hi2 h
    · rw [if_neg hw] at h; simp at h; subst h; exact hi2

theorem janetLoop_inv (cfg : Cfg) : ∀ (is : List StepIn) {s s' : St}, Inv s → janetLoop cfg s is = some s' → Inv s'
  | [], s, s', hi, h => by simp [janetLoop] at h; subst h; exact hi
  | i :: is, s, s', hi, h => by
    simp only [janetLoop] at h
    by_cases hd : loopDone s = true
    · rw [if_pos hd] at h; simp at h; subst h; exact hi
    · rw [if_neg hd] at h
      cases h1 : loop1 cfg s i with
      | none => rw [h1] at h; simp at h
      | some s1 =>
        rw [h1] at h
        exact janetLoop_inv cfg is (loop1_inv cfg i hi h1) h

/-- ★ whenever `janet_loop` returns (its `while (!janet_loop_done())` test fails) nothing is outstanding -/
theorem janetLoop_exit_nothing_outstanding (cfg : Cfg) (is : List StepIn) {s : St}
    (h : janetLoop cfg init is = some s) (hd : loopDone s = true) :
    s.runq = [] ∧ s.timers = [] ∧ s.susp = [] ∧ s.lis = 0 ∧ s.posted = 0 ∧ s.postedNull = 0 ∧ s.calls = 0 := by
  obtain ⟨hc, _, _⟩ := janetLoop_inv cfg is inv_init h
  unfold CounterInv at hc
  obtain ⟨hq, ht, hl⟩ := (loopDone_iff s).1 hd
  have hlen : s.susp.length = 0 := by omega
  refine ⟨hq, ht, List.eq_nil_of_length_eq_zero hlen, ?_, ?_, ?_, ?_⟩ <;> omega

/-! ## gc roots -/

/-- ★ every gcroot made by an operation has a matching gcunroot on every completion path: once nothing is outstanding,
    the only roots left are those of fibers still queued on threaded channels, of consumed queue entries whose root the
    tree does not release, and of streams orphaned by the collector's path -/
theorem roots_balanced (cfg : Cfg) (evs : List Ev) {s : St} (h : run cfg init evs = some s)
    (hl : s.lis = 0) (hcalls : s.calls = 0) :
    s.roots = (s.tchanPending : Int) + s.tchanLeaked + s.orphanStreams := by
  obtain ⟨_, hk, hr⟩ := run_inv cfg evs inv_init h
  unfold CallInv at hk
  unfold RootInv at hr
  omega

/-- no consumed entry keeps its root when the tree releases it in the callback -/
theorem tchanLeaked_zero (cfg : Cfg) (hcfg : cfg.tchanUnroot = true) :
    ∀ (evs : List Ev) {s s' : St}, s.tchanLeaked = 0 → run cfg s evs = some s' → s'.tchanLeaked = 0
  | [], s, s', h0, h => by simp [run] at h; subst h; exact h0
  | e :: es, s, s', h0, h => by
    simp only [run] at h
    cases hs : step cfg s e with
    | none => rw [hs] at h; simp at h
    | some s1 =>
      rw [hs] at h
      refine tchanLeaked_zero cfg hcfg es ?_ h
      cases e <;> simp only [step] at hs
      case deliverChan =>
        by_cases h1 : s.posted = 0 ∨ s.tchanPending = 0
        · rw [if_pos h1] at hs; simp at hs
        · rw [if_neg h1, if_pos hcfg] at hs; simp at hs; subst hs; exact h0
      case deliverNull =>
        by_cases h1 : s.postedNull = 0
        · rw [if_pos h1] at hs; simp at hs
        · rw [if_neg h1] at hs
          by_cases h2 : cfg.nullDec = true
          · rw [if_pos h2] at hs; simp at hs; subst hs; exact h0
          · rw [if_neg h2] at hs; simp at hs; subst hs; exact h0
      case pop f =>
        by_cases h1 : f ∈ s.runq
        · rw [if_pos h1] at hs
          by_cases h2 : f ∈ s.susp
          · rw [if_pos h2] at hs; simp at hs; subst hs; exact h0
          · rw [if_neg h2] at hs; simp at hs; subst hs; exact h0
        · rw [if_neg h1] at hs; simp at hs
      case ran f b =>
        cases b
        · simp at hs; subst hs; exact h0
        · by_cases h2 : f ∈ s.susp
          · simp [h2] at hs
          · simp [h2] at hs; subst hs; exact h0
      case post b => cases b <;> (simp at hs; subst hs; exact h0)
      all_goals first
        | (simp at hs; subst hs; exact h0)
        | (split at hs <;> simp at hs; subst hs; exact h0)

/-- ★ with the release in `janet_thread_chan_cb`: when the program is idle and no queue entry is left, no root is left
    (streams orphaned by the collector aside) -/
theorem roots_balanced_released (cfg : Cfg) (hcfg : cfg.tchanUnroot = true) (evs : List Ev) {s : St}
    (h : run cfg init evs = some s) (hl : s.lis = 0) (hcalls : s.calls = 0) (hp : s.tchanPending = 0)
    (ho : s.orphanStreams = 0) : s.roots = 0 := by
  have h1 := roots_balanced cfg evs h hl hcalls
  have h2 := tchanLeaked_zero cfg hcfg evs (s := init) rfl h
  omega

/-- without it (the pinned tree: `Gen.Loop.tchanUnrootCb = false`) one blocking take on a threaded channel pins the fiber
    for ever: the program is idle, nothing is queued, yet a root remains -/
theorem tchan_root_never_released (cfg : Cfg) (hcfg : cfg.tchanUnroot = false) :
    ∃ s, run cfg init [.tchanPend, .post false, .deliverChan] = some s ∧ Idle s ∧ s.tchanPending = 0 ∧ s.roots = 1 := by
  refine ⟨{ init with roots := 1, tchanLeaked := 1 }, ?_, ?_, rfl, rfl⟩
  · simp [run, step, init, hcfg]
  · simp [Idle, outstanding, init]

/-- the collector's path for a fiber that still has `ev_state` undoes the count but not the stream root -/
theorem gc_listener_leaves_stream_root (cfg : Cfg) :
    ∃ s, run cfg init [.astart, .gcListener] = some s ∧ s.lc = 0 ∧ s.lis = 0 ∧ s.roots = 1 := by
  refine ⟨{ init with roots := 1, orphanStreams := 1 }, ?_, rfl, rfl, rfl⟩
  simp [run, step, init]

/-! ## non-vacuity: a non-trivial reachable state (task suspended on a read, helper thread and process wait outstanding,
a timer armed, an event in the pipe) and a complete run back to idle -/

/-- summary of a state for the examples: (listener_count, outstanding, loop done?, idle?, roots) -/
def summary (s : St) : Int × Nat × Bool × Bool × Int :=
  (s.lc, outstanding s, loopDone s, decide (s.runq = [] ∧ s.timers = [] ∧ outstanding s = 0), s.roots)

example : (run Cfg.ofGen init
    [.sched 1, .pop 1, .astart, .tadd ⟨1, false⟩, .ran 1 true, .sched 2, .pop 2, .await, .ran 2 true,
     .sched 3, .pop 3, .procWait, .ran 3 true, .post false]).map summary = some (7, 7, false, false, 4) := by decide

example : (run Cfg.ofGen init
    [.sched 1, .pop 1, .astart, .tadd ⟨1, false⟩, .ran 1 true, .sched 2, .pop 2, .await, .ran 2 true,
     .deliverAwait, .sched 2, .pop 2, .ran 2 false, .aend, .sched 1, .tpop ⟨1, false⟩, .pop 1, .ran 1 false]).map summary
    = some (0, 0, true, true, 0) := by decide

/-- two full steps: main starts a sleeping task and returns; the timer fires; the loop is done -/
example : (janetLoop Cfg.ofGen { init with runq := [1] }
    [ { expired := [], tasks := [⟨1, false, [.sched 2], false⟩, ⟨2, false, [.tadd ⟨2, false⟩], true⟩], stale := fun _ => false, delivered := [] },
      { expired := [(⟨2, false⟩, some 2)], tasks := [⟨2, false, [], false⟩], stale := fun _ => false, delivered := [] } ]).map summary
    = some (0, 0, true, true, 0) := by decide

end JanetModel.Props.C20
