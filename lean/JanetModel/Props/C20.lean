/-
C20 — programs end when work is done; pinned objects stay bounded.  Property theorems about `JanetModel.Loop`.

All statements quantify over every configuration and every event sequence (every schedule, completion order, cancel /
close / GC interleaving) the model can take from the initial state; proofs are by induction over the sequence.
-/
import JanetModel.Loop.Model
import JanetModel.Loop.SelfPipe
import JanetModel.Loop.FdPaths
import JanetModel.Loop.RootPaths
import JanetModel.Loop.CounterPaths
import JanetModel.Loop.FdsSpawn
import JanetModel.Loop.Child

namespace JanetModel.Props.C20
open JanetModel.Loop

/-! ## tie to the source: the generated tables are the ones the model mirrors -/

/-- the loop-termination test is `!(run queue non-empty || tq_count || listener_count)` -/
theorem done_expr_match : Gen.Loop.doneTerms = doneSpec := by decide

/-- every site that increments / decrements listener_count is one the model has a transition for (file, function, sign, in source
    order).  The CONDITIONS under which each site is executed are checked path by path as Boolean formulas over the branches taken
    (`counter_paths_ok`, `counter_ops_match_model` below), no longer as the text of the enclosing conditions. -/
theorem counter_sites_match : Gen.Loop.counterSites.map (fun x => (x.1, x.2.1, x.2.2.1)) = siteSpec := by decide

/-- poll phase: entered and blocking under `tq_count || listener_count`; the stale-timeout drop loop has the shape modelled by
    `dropStale` -/
theorem poll_phase_match :
    Gen.Loop.pollGuard = pollGuardSpec ∧ Gen.Loop.pollGuard2 = pollGuardSpec ∧ Gen.Loop.staleLoop = staleLoopSpec :=
  ⟨rfl, rfl, rfl⟩

/-- root / unroot sites of event-loop operations (the release sites of the threaded-channel root are tree dependent and
    summarised by `Gen.Loop.tchanUnrootCb`) -/
theorem root_sites_match : Gen.Loop.rootSites.filter (fun x => !isTchanRelease x) = rootSpec := by decide

/-- janet_stream_close notifies the read-side and the write-side fiber as the model's `streamCloseEvents` says -/
theorem stream_close_match : Gen.Loop.streamCloseNotify = closeSpec Gen.Loop.closeNotifiesBoth := by decide

/-! ## invariants -/

/-- `listener_count` = suspended tasks + stream listeners + posted, undelivered events (+ NULL-callback events, whose
    increment the POSIX self-pipe reader never undoes) + outstanding helper threads -/
def CounterInv (s : St) : Prop :=
  s.lc = (s.susp.length : Int) + s.lis + s.posted + s.postedNull + s.nullStuck + s.calls

/-- every outstanding helper thread is an await, a fibre-less call or a process wait -/
def CallInv (s : St) : Prop := s.awaits + s.noFiber + s.procWaits = s.calls

/-- roots held by event-loop operations -/
def RootInv (s : St) : Prop :=
  s.roots = (s.lis : Int) + s.orphanStreams + s.awaits + 2 * s.procWaits + s.tchanPending + s.tchanLeaked
    + s.sigs.length + s.watching

def Inv (s : St) : Prop := CounterInv s ∧ CallInv s ∧ RootInv s

theorem inv_init : Inv init := by
  simp [Inv, CounterInv, CallInv, RootInv, init]

private theorem len_erase {f : Fid} {l : List Fid} (h : f ∈ l) : ((l.erase f).length : Int) = (l.length : Int) - 1 := by
  have h1 := List.length_erase_of_mem h
  have h2 : 0 < l.length := List.length_pos_of_mem h
  omega

/-- each transition preserves all three invariants: every increment has exactly one matching decrement on every path -/
theorem step_inv (cfg : Cfg) {s s' : St} {e : Ev} (hi : Inv s) (h : step cfg s e = some s') : Inv s' := by
  obtain ⟨hc, hk, hr⟩ := hi
  unfold CounterInv at hc
  unfold CallInv at hk
  unfold RootInv at hr
  cases e with
  | sched f => simp [step] at h; subst h; exact ⟨hc, hk, hr⟩
  | pop f =>
    simp only [step] at h
    by_cases h1 : f ∈ s.runq
    · rw [if_pos h1] at h
      by_cases h2 : f ∈ s.susp
      · rw [if_pos h2] at h
        simp at h; subst h
        have := len_erase h2
        refine ⟨?_, hk, hr⟩
        simp only [CounterInv]; omega
      · rw [if_neg h2] at h
        simp at h; subst h; exact ⟨hc, hk, hr⟩
    · rw [if_neg h1] at h; simp at h
  | ran f b =>
    cases b with
    | false => simp [step] at h; subst h; exact ⟨hc, hk, hr⟩
    | true =>
      simp only [step] at h
      by_cases h2 : f ∈ s.susp
      · rw [if_pos h2] at h; simp at h
      · rw [if_neg h2] at h
        simp at h; subst h
        refine ⟨?_, hk, hr⟩
        simp only [CounterInv, List.length_cons]; omega
  | gcFiber f => simp [step] at h; subst h; exact ⟨hc, hk, hr⟩
  | astart =>
    simp [step] at h; subst h
    refine ⟨?_, hk, ?_⟩
    · simp only [CounterInv]; omega
    · simp only [RootInv]; omega
  | aend =>
    simp only [step] at h
    by_cases h1 : s.lis = 0
    · rw [if_pos h1] at h; simp at h
    · rw [if_neg h1] at h; simp at h; subst h
      refine ⟨?_, hk, ?_⟩
      · simp only [CounterInv]; omega
      · simp only [RootInv]; omega
  | gcListener =>
    simp only [step] at h
    by_cases h1 : s.lis = 0
    · rw [if_pos h1] at h; simp at h
    · rw [if_neg h1] at h; simp at h; subst h
      refine ⟨?_, hk, ?_⟩
      · simp only [CounterInv]; omega
      · simp only [RootInv]; omega
  | await =>
    simp [step] at h; subst h
    refine ⟨?_, ?_, ?_⟩
    · simp only [CounterInv]; omega
    · simp only [CallInv]; omega
    · simp only [RootInv]; omega
  | callNoFiber =>
    simp [step] at h; subst h
    refine ⟨?_, ?_, ?_⟩
    · simp only [CounterInv]; omega
    · simp only [CallInv]; omega
    · simp only [RootInv]; omega
  | procWait =>
    simp [step] at h; subst h
    refine ⟨?_, ?_, ?_⟩
    · simp only [CounterInv]; omega
    · simp only [CallInv]; omega
    · simp only [RootInv]; omega
  | deliverAwait =>
    simp only [step] at h
    by_cases h1 : s.awaits = 0 ∨ s.calls = 0
    · rw [if_pos h1] at h; simp at h
    · rw [if_neg h1] at h; simp at h; subst h
      refine ⟨?_, ?_, ?_⟩
      · simp only [CounterInv]; omega
      · simp only [CallInv]; omega
      · simp only [RootInv]; omega
  | deliverNoFiber =>
    simp only [step] at h
    by_cases h1 : s.noFiber = 0 ∨ s.calls = 0
    · rw [if_pos h1] at h; simp at h
    · rw [if_neg h1] at h; simp at h; subst h
      refine ⟨?_, ?_, ?_⟩
      · simp only [CounterInv]; omega
      · simp only [CallInv]; omega
      · simp only [RootInv]; omega
  | deliverProc =>
    simp only [step] at h
    by_cases h1 : s.procWaits = 0 ∨ s.calls = 0
    · rw [if_pos h1] at h; simp at h
    · rw [if_neg h1] at h; simp at h; subst h
      refine ⟨?_, ?_, ?_⟩
      · simp only [CounterInv]; omega
      · simp only [CallInv]; omega
      · simp only [RootInv]; omega
  | post b =>
    cases b with
    | false =>
      simp [step] at h; subst h
      refine ⟨?_, hk, hr⟩
      simp only [CounterInv]; omega
    | true =>
      simp [step] at h; subst h
      refine ⟨?_, hk, hr⟩
      simp only [CounterInv]; omega
  | deliverPosted =>
    simp only [step] at h
    by_cases h1 : s.posted = 0
    · rw [if_pos h1] at h; simp at h
    · rw [if_neg h1] at h; simp at h; subst h
      refine ⟨?_, hk, hr⟩
      simp only [CounterInv]; omega
  | deliverNull =>
    simp only [step] at h
    by_cases h1 : s.postedNull = 0
    · rw [if_pos h1] at h; simp at h
    · rw [if_neg h1] at h
      by_cases h2 : cfg.nullDec = true
      · rw [if_pos h2] at h; simp at h; subst h
        refine ⟨?_, hk, hr⟩
        simp only [CounterInv]; omega
      · rw [if_neg h2] at h; simp at h; subst h
        refine ⟨?_, hk, hr⟩
        simp only [CounterInv]; omega
  | tchanPend =>
    simp [step] at h; subst h
    refine ⟨hc, hk, ?_⟩
    simp only [RootInv]; omega
  | deliverChan =>
    simp only [step] at h
    by_cases h1 : s.posted = 0 ∨ s.tchanPending = 0
    · rw [if_pos h1] at h; simp at h
    · rw [if_neg h1] at h
      by_cases h2 : cfg.tchanUnroot = true
      · rw [if_pos h2] at h; simp at h; subst h
        refine ⟨?_, hk, ?_⟩
        · simp only [CounterInv]; omega
        · simp only [RootInv]; omega
      · rw [if_neg h2] at h; simp at h; subst h
        refine ⟨?_, hk, ?_⟩
        · simp only [CounterInv]; omega
        · simp only [RootInv]; omega
  | tchanDirect =>
    simp only [step] at h
    by_cases h1 : s.tchanPending = 0
    · rw [if_pos h1] at h; simp at h
    · rw [if_neg h1] at h; simp at h; subst h
      refine ⟨hc, hk, ?_⟩
      simp only [RootInv]; omega
  | tadd t => simp [step] at h; subst h; exact ⟨hc, hk, hr⟩
  | tpop t =>
    simp only [step] at h
    by_cases h1 : t ∈ s.timers
    · rw [if_pos h1] at h; simp at h; subst h; exact ⟨hc, hk, hr⟩
    · rw [if_neg h1] at h; simp at h
  | streamClosed n =>
    simp only [step] at h
    by_cases h1 : s.orphanLis + n ≤ s.lis
    · rw [if_pos h1] at h; simp at h; subst h; exact ⟨hc, hk, hr⟩
    · rw [if_neg h1] at h; simp at h
  | sigaction sig install =>
    simp only [step] at h
    simp at h; subst h
    refine ⟨hc, hk, ?_⟩
    simp only [RootInv]
    have hlen := List.length_erase (a := sig) (l := s.sigs)
    by_cases hm : sig ∈ s.sigs
    · have hpos : 0 < s.sigs.length := List.length_pos_of_mem hm
      rw [if_pos hm] at hlen
      cases install <;> simp [hm, hlen] <;> omega
    · rw [if_neg hm] at hlen
      cases install <;> simp [hm, hlen] <;> omega
  | watchListen =>
    simp [step] at h; subst h
    refine ⟨hc, hk, ?_⟩
    simp only [RootInv]; omega
  | watchUnlisten =>
    simp only [step] at h
    by_cases h1 : s.watching = 0
    · rw [if_pos h1] at h; simp at h
    · rw [if_neg h1] at h; simp at h; subst h
      refine ⟨hc, hk, ?_⟩
      simp only [RootInv]; omega

theorem run_inv (cfg : Cfg) : ∀ (evs : List Ev) {s s' : St}, Inv s → run cfg s evs = some s' → Inv s'
  | [], s, s', hi, h => by simp [run] at h; subst h; exact hi
  | e :: es, s, s', hi, h => by
    simp only [run] at h
    cases hs : step cfg s e with
    | none => rw [hs] at h; simp at h
    | some s1 =>
      rw [hs] at h
      exact run_inv cfg es (step_inv cfg hi hs) h

/-- ★ the pending-work counter counts exactly what is outstanding, after every event sequence from the start of the
    program (all schedules, cancel / close / error / GC paths included) -/
theorem listener_count_inv (cfg : Cfg) (evs : List Ev) {s : St} (h : run cfg init evs = some s) :
    s.lc = (s.susp.length : Int) + s.lis + s.posted + s.postedNull + s.nullStuck + s.calls :=
  (run_inv cfg evs inv_init h).1

private theorem loopDone_iff (s : St) : loopDone s = true ↔ s.runq = [] ∧ s.timers = [] ∧ s.lc = 0 := by
  unfold loopDone
  cases hq : s.runq <;> cases ht : s.timers <;> simp

/-- ★ the loop does not exit while anything is outstanding: a suspended task, a stream listener, an undelivered event, a
    helper thread (ev/thread, os/proc-wait, …), a timer or a runnable task -/
theorem no_premature_exit (cfg : Cfg) (evs : List Ev) {s : St} (h : run cfg init evs = some s) (hd : loopDone s = true) :
    s.runq = [] ∧ s.timers = [] ∧ s.susp = [] ∧ s.lis = 0 ∧ s.posted = 0 ∧ s.postedNull = 0 ∧ s.calls = 0 ∧
      s.awaits = 0 ∧ s.procWaits = 0 := by
  have hi := run_inv cfg evs inv_init h
  obtain ⟨hc, hk, _⟩ := hi
  unfold CounterInv at hc
  unfold CallInv at hk
  obtain ⟨hq, ht, hl⟩ := (loopDone_iff s).1 hd
  have hlen : s.susp.length = 0 := by omega
  refine ⟨hq, ht, List.eq_nil_of_length_eq_zero hlen, ?_, ?_, ?_, ?_, ?_, ?_⟩ <;> omega

/-- ★ the loop does not hang once everything has finished — provided no NULL-callback event was ever posted -/
theorem no_hang_when_idle (cfg : Cfg) (evs : List Ev) {s : St} (h : run cfg init evs = some s) (hidle : Idle s)
    (hnull : s.nullStuck = 0) : loopDone s = true := by
  have hc := (run_inv cfg evs inv_init h).1
  unfold CounterInv at hc
  obtain ⟨hq, ht, ho⟩ := hidle
  unfold outstanding at ho
  apply (loopDone_iff s).2
  refine ⟨hq, ht, ?_⟩
  omega

/-- exact characterisation: the loop is done iff idle and no NULL-callback event has been swallowed -/
theorem loopDone_iff_idle (cfg : Cfg) (evs : List Ev) {s : St} (h : run cfg init evs = some s) :
    loopDone s = true ↔ (Idle s ∧ s.nullStuck = 0) := by
  constructor
  · intro hd
    have hc := (run_inv cfg evs inv_init h).1
    unfold CounterInv at hc
    obtain ⟨hq, ht, hl⟩ := (loopDone_iff s).1 hd
    refine ⟨⟨hq, ht, ?_⟩, ?_⟩
    · unfold outstanding; omega
    · omega
  · intro ⟨hi, hn⟩
    exact no_hang_when_idle cfg evs h hi hn

/-- what the code really counts: an event posted with a NULL callback (`janet_loop1_interrupt`) is never un-counted by the
    POSIX self-pipe reader, so after it the loop can no longer finish although nothing is outstanding -/
theorem null_event_keeps_loop_alive (cfg : Cfg) (hcfg : cfg.nullDec = false) :
    ∃ s, run cfg init [.post true, .deliverNull] = some s ∧ Idle s ∧ loopDone s = false := by
  refine ⟨{ init with lc := 1, nullStuck := 1 }, ?_, ?_, ?_⟩
  · simp [run, step, init, hcfg]
  · simp [Idle, outstanding, init]
  · simp [loopDone, init]

/-- when the self-pipe reader decrements for every event (`Gen.Loop.selfpipeDecNeedsCb = false`) no count is ever stuck … -/
theorem nullStuck_zero (cfg : Cfg) (hcfg : cfg.nullDec = true) :
    ∀ (evs : List Ev) {s s' : St}, s.nullStuck = 0 → run cfg s evs = some s' → s'.nullStuck = 0
  | [], s, s', h0, h => by simp [run] at h; subst h; exact h0
  | e :: es, s, s', h0, h => by
    simp only [run] at h
    cases hs : step cfg s e with
    | none => rw [hs] at h; simp at h
    | some s1 =>
      rw [hs] at h
      refine nullStuck_zero cfg hcfg es ?_ h
      cases e <;> simp only [step] at hs
      case deliverNull =>
        by_cases h1 : s.postedNull = 0
        · rw [if_pos h1] at hs; simp at hs
        · rw [if_neg h1, if_pos hcfg] at hs; simp at hs; subst hs; exact h0
      case deliverChan =>
        by_cases h1 : s.posted = 0 ∨ s.tchanPending = 0
        · rw [if_pos h1] at hs; simp at hs
        · rw [if_neg h1] at hs
          by_cases h2 : cfg.tchanUnroot = true
          · rw [if_pos h2] at hs; simp at hs; subst hs; exact h0
          · rw [if_neg h2] at hs; simp at hs; subst hs; exact h0
      case pop f =>
        by_cases h1 : f ∈ s.runq
        · rw [if_pos h1] at hs
          by_cases h2 : f ∈ s.susp
          · rw [if_pos h2] at hs; simp at hs; subst hs; exact h0
          · rw [if_neg h2] at hs; simp at hs; subst hs; exact h0
        · rw [if_neg h1] at hs; simp at hs
      case ran f b =>
        cases b
        · simp at hs; subst hs; exact h0
        · by_cases h2 : f ∈ s.susp
          · simp [h2] at hs
          · simp [h2] at hs; subst hs; exact h0
      case post b => cases b <;> (simp at hs; subst hs; exact h0)
      all_goals first
        | (simp at hs; subst hs; exact h0)
        | (split at hs <;> simp at hs; subst hs; exact h0)

/-- ★ … and the loop is done exactly when the program is idle: no hang, no premature exit, no side condition -/
theorem loopDone_iff_idle_fixed (cfg : Cfg) (hcfg : cfg.nullDec = true) (evs : List Ev) {s : St}
    (h : run cfg init evs = some s) : loopDone s = true ↔ Idle s := by
  have hn := nullStuck_zero cfg hcfg evs (s := init) rfl h
  rw [loopDone_iff_idle cfg evs h]
  exact ⟨fun x => x.1, fun x => ⟨x, hn⟩⟩

/-- a suspended task that is garbage collected (deadlocked on an unreachable channel) keeps its count for ever: the collector
    only undoes the count of fibers with `ev_state` -/
theorem collected_suspended_task_keeps_count (cfg : Cfg) :
    ∃ s, run cfg init [.sched 1, .pop 1, .ran 1 true, .gcFiber 1] = some s ∧ s.lc = 1 ∧ loopDone s = false := by
  refine ⟨{ init with lc := 1, susp := [1] }, ?_, rfl, ?_⟩
  · simp [run, step, init]
  · simp [loopDone, init]

/-! ## listeners left behind by a close -/

/-- orphaned listeners are listeners -/
theorem orphan_le_lis (cfg : Cfg) : ∀ (evs : List Ev) {s s' : St}, s.orphanLis ≤ s.lis → run cfg s evs = some s' → s'.orphanLis ≤ s'.lis
  | [], s, s', h0, h => by simp [run] at h; subst h; exact h0
  | e :: es, s, s', h0, h => by
    simp only [run] at h
    cases hs : step cfg s e with
    | none => rw [hs] at h; simp at h
    | some s1 =>
      rw [hs] at h
      refine orphan_le_lis cfg es ?_ h
      cases e <;> simp only [step] at hs
      case aend =>
        by_cases h1 : s.lis = 0
        · rw [if_pos h1] at hs; simp at hs
        · rw [if_neg h1] at hs; simp at hs; subst hs; simp only; omega
      case gcListener =>
        by_cases h1 : s.lis = 0
        · rw [if_pos h1] at hs; simp at hs
        · rw [if_neg h1] at hs; simp at hs; subst hs; simp only; omega
      case astart => simp at hs; subst hs; simp only; omega
      case streamClosed n =>
        by_cases h1 : s.orphanLis + n ≤ s.lis
        · rw [if_pos h1] at hs; simp at hs; subst hs; simp only; omega
        · rw [if_neg h1] at hs; simp at hs
      case deliverChan =>
        by_cases h1 : s.posted = 0 ∨ s.tchanPending = 0
        · rw [if_pos h1] at hs; simp at hs
        · rw [if_neg h1] at hs
          by_cases h2 : cfg.tchanUnroot = true
          · rw [if_pos h2] at hs; simp at hs; subst hs; exact h0
          · rw [if_neg h2] at hs; simp at hs; subst hs; exact h0
      case deliverNull =>
        by_cases h1 : s.postedNull = 0
        · rw [if_pos h1] at hs; simp at hs
        · rw [if_neg h1] at hs
          by_cases h2 : cfg.nullDec = true
          · rw [if_pos h2] at hs; simp at hs; subst hs; exact h0
          · rw [if_neg h2] at hs; simp at hs; subst hs; exact h0
      case pop f =>
        by_cases h1 : f ∈ s.runq
        · rw [if_pos h1] at hs
          by_cases h2 : f ∈ s.susp
          · rw [if_pos h2] at hs; simp at hs; subst hs; exact h0
          · rw [if_neg h2] at hs; simp at hs; subst hs; exact h0
        · rw [if_neg h1] at hs; simp at hs
      case ran f b =>
        cases b
        · simp at hs; subst hs; exact h0
        · by_cases h2 : f ∈ s.susp
          · simp [h2] at hs
          · simp [h2] at hs; subst hs; exact h0
      case post b => cases b <;> (simp at hs; subst hs; exact h0)
      all_goals first
        | (simp at hs; subst hs; exact h0)
        | (split at hs <;> simp at hs; subst hs; exact h0)

/-- ★ when the close notifies both sides (`Gen.Loop.closeNotifiesBoth`), closing a stream with a parked reader and / or writer ends
    exactly those listeners and leaves nobody behind — for every combination of parked sides -/
theorem streamClose_releases_all (cfg : Cfg) (hcfg : cfg.closeBoth = true) (r w : Bool) {s s' : St}
    (hl : s.orphanLis + (if r then 1 else 0) + (if w then 1 else 0) ≤ s.lis)
    (h : run cfg s (streamCloseEvents cfg r w) = some s') :
    s'.orphanLis = s.orphanLis ∧ s'.lis + (if r then 1 else 0) + (if w then 1 else 0) = s.lis ∧
      s'.lc + (if r then 1 else 0) + (if w then 1 else 0) = s.lc := by
  unfold streamCloseEvents at h
  rw [if_pos hcfg] at h
  cases r <;> cases w
  · simp at hl
    simp [run, step, hl] at h
    subst h; simp
  · simp at hl
    have h1 : s.lis ≠ 0 := by omega
    have m1 : min s.orphanLis (s.lis - 1) ≤ s.lis - 1 := Nat.min_le_right _ _
    simp [run, step, h1, m1] at h
    subst h; simp; omega
  · simp at hl
    have h1 : s.lis ≠ 0 := by omega
    have m1 : min s.orphanLis (s.lis - 1) ≤ s.lis - 1 := Nat.min_le_right _ _
    simp [run, step, h1, m1] at h
    subst h; simp; omega
  · simp at hl
    have h1 : s.lis ≠ 0 := by omega
    have h2 : s.lis - 1 ≠ 0 := by omega
    have m3 : min s.orphanLis (s.lis - 1 - 1) ≤ s.lis - 1 - 1 := Nat.min_le_right _ _
    simp [run, step, h1, h2, m3] at h
    subst h; simp; omega

/-- an orphaned listener keeps the loop from ever finishing, and (when it is all that is left) nothing can wake the loop -/
theorem orphan_listener_never_done (cfg : Cfg) (evs : List Ev) {s : St} (h : run cfg init evs = some s) (ho : 0 < s.orphanLis) :
    loopDone s = false := by
  have hc := (run_inv cfg evs inv_init h).1
  unfold CounterInv at hc
  have hle := orphan_le_lis cfg evs (s := init) (by simp [init]) h
  cases hd : loopDone s with
  | false => rfl
  | true =>
    obtain ⟨_, _, hl⟩ := (loopDone_iff s).1 hd
    omega

/-- with `else if` (seeded change in janet_stream_close): reader and writer parked on one stream, a third task closes it —
    only the reader is released; the writer's listener stays, nothing can wake the loop, and the loop is never done -/
theorem close_with_two_listeners_orphans_writer (cfg : Cfg) (hcfg : cfg.closeBoth = false) :
    ∃ s, run cfg init ([.sched 1, .pop 1, .astart, .ran 1 true, .sched 2, .pop 2, .astart, .ran 2 true] ++
        streamCloseEvents cfg true true ++ [.sched 1, .pop 1, .ran 1 false]) = some s ∧
      s.orphanLis = 1 ∧ s.lis = 1 ∧ s.susp = [2] ∧ canWake s false = false ∧ loopDone s = false := by
  refine ⟨{ init with lc := 2, susp := [2], lis := 1, roots := 1, orphanLis := 1 }, ?_, rfl, rfl, rfl, ?_, ?_⟩
  · simp [run, step, init, streamCloseEvents, hcfg]
  · simp [canWake, init]
  · simp [loopDone, init]

/-! ## child reaping by the process-handle finaliser -/

/-- the generated flag is what the option string says -/
theorem proc_gc_match : Gen.Loop.procGcBlockingWait = decide (Gen.Loop.procGcWaitOptions = "0") := by decide

/-- ★ with a blocking wait the finaliser leaves no child behind, whatever state the children were in: dropping and collecting
    any number of un-waited handles leaves the number of children (running or zombie) unchanged -/
theorem finalizer_reaps_every_child : ∀ handles : List Child, leftBehind true handles = 0
  | [] => rfl
  | c :: cs => by
    have ih := finalizer_reaps_every_child cs
    unfold leftBehind at ih ⊢
    cases c <;> simpa [procGc] using ih

/-- with WNOHANG every handle whose child is still running at collection time leaves a zombie: one per cycle of
    "spawn, drop the handle, collect" -/
theorem nohang_finalizer_leaves_zombies (n : Nat) : leftBehind false (List.replicate n .running) = n := by
  induction n with
  | zero => rfl
  | succ k ih =>
    unfold leftBehind at ih ⊢
    simp [List.replicate_succ, procGc] at ih ⊢

/-! ## stale timers -/

theorem dropStale_all_stale (stale : Timer → Bool) : ∀ ts : List Timer, (∀ t ∈ ts, stale t = true) → dropStale stale ts = []
  | [], _ => rfl
  | t :: ts, h => by
    have ht : stale t = true := h t (by simp)
    simp only [dropStale, ht, if_true]
    exact dropStale_all_stale stale ts (fun u hu => h u (by simp [hu]))

theorem dropStale_head_live (stale : Timer → Bool) : ∀ ts : List Timer, ∀ t rest, dropStale stale ts = t :: rest → stale t = false
  | [], t, rest, h => by simp [dropStale] at h
  | u :: us, t, rest, h => by
    by_cases hu : stale u = true
    · simp only [dropStale, hu, if_true] at h
      exact dropStale_head_live stale us t rest h
    · simp only [dropStale, hu] at h
      simp at h
      obtain ⟨h1, _⟩ := h
      subst h1
      simpa using hu

/-- dropping never invents timers and keeps the live ones -/
theorem dropStale_sublist (stale : Timer → Bool) : ∀ ts : List Timer, ∀ t, t ∈ dropStale stale ts → t ∈ ts
  | [], t, h => by simp [dropStale] at h
  | u :: us, t, h => by
    by_cases hu : stale u = true
    · simp only [dropStale, hu, if_true] at h
      exact List.mem_cons_of_mem u (dropStale_sublist stale us t h)
    · simp only [dropStale, hu] at h
      simpa using h

/-- ★ stale timers cannot keep the loop alive: when only stale timeouts remain (their fibers were resumed, cancelled or are
    dead) and nothing else is outstanding, the poll phase empties the heap, does not block in the kernel, and the loop is
    done — whatever the timers' deadlines are -/
theorem stale_timers_cannot_keep_loop_alive (stale : Timer → Bool) (s : St)
    (hst : ∀ t ∈ s.timers, stale t = true) (hq : s.runq = []) (hl : s.lc = 0) :
    (pollPrelude stale s).timers = [] ∧ willPoll (pollPrelude stale s) = false ∧ loopDone (pollPrelude stale s) = true := by
  have hd := dropStale_all_stale stale s.timers hst
  unfold pollPrelude
  cases ht : s.timers with
  | nil =>
    simp [ht, hl, willPoll, loopDone, hq]
  | cons t ts =>
    rw [ht] at hd
    simp [hd, hl, willPoll, loopDone, hq]

/-- the poll phase changes nothing but the timer heap -/
theorem pollPrelude_counters (stale : Timer → Bool) (s : St) :
    (pollPrelude stale s).lc = s.lc ∧ (pollPrelude stale s).runq = s.runq ∧ (pollPrelude stale s).susp = s.susp := by
  unfold pollPrelude
  by_cases h : (!s.timers.isEmpty || s.lc != 0) = true
  · simp [h]
  · simp [h]

/-! ## the invariants through whole `janet_loop1` steps and `janet_loop` -/

private theorem inv_timers {s : St} (ts : List Timer) (h : Inv s) : Inv { s with timers := ts } := by
  obtain ⟨hc, hk, hr⟩ := h
  exact ⟨hc, hk, hr⟩

private theorem inv_pollPrelude (stale : Timer → Bool) {s : St} (h : Inv s) : Inv (pollPrelude stale s) := by
  unfold pollPrelude
  by_cases hg : (!s.timers.isEmpty || s.lc != 0) = true
  · rw [if_pos hg]; exact inv_timers _ h
  · rw [if_neg hg]; exact h

/-- ★ a whole event-loop step (expired timers, every popped task with whatever it does, stale-timer drop, poll deliveries)
    preserves the counter and root invariants -/
theorem loop1_inv (cfg : Cfg) {s s' : St} (i : StepIn) (hi : Inv s) (h : loop1 cfg s i = some s') : Inv s' := by
  unfold loop1 at h
  cases h1 : run cfg s (expireEvents i.expired ++ (i.tasks.map Task.events).flatten) with
  | none => rw [h1] at h; simp at h
  | some s1 =>
    rw [h1] at h
    have hi1 := run_inv cfg _ hi h1
    have hi2 := inv_pollPrelude i.stale hi1
    simp only at h
    by_cases hw : willPoll (pollPrelude i.stale s1) = true
    · rw [if_pos hw] at h; exact run_inv cfg _ hi2 h
    · rw [if_neg hw] at h; simp at h; subst h; exact hi2

theorem janetLoop_inv (cfg : Cfg) : ∀ (is : List StepIn) {s s' : St}, Inv s → janetLoop cfg s is = some s' → Inv s'
  | [], s, s', hi, h => by simp [janetLoop] at h; subst h; exact hi
  | i :: is, s, s', hi, h => by
    simp only [janetLoop] at h
    by_cases hd : loopDone s = true
    · rw [if_pos hd] at h; simp at h; subst h; exact hi
    · rw [if_neg hd] at h
      cases h1 : loop1 cfg s i with
      | none => rw [h1] at h; simp at h
      | some s1 =>
        rw [h1] at h
        exact janetLoop_inv cfg is (loop1_inv cfg i hi h1) h

/-- ★ whenever `janet_loop` returns (its `while (!janet_loop_done())` test fails) nothing is outstanding -/
theorem janetLoop_exit_nothing_outstanding (cfg : Cfg) (is : List StepIn) {s : St}
    (h : janetLoop cfg init is = some s) (hd : loopDone s = true) :
    s.runq = [] ∧ s.timers = [] ∧ s.susp = [] ∧ s.lis = 0 ∧ s.posted = 0 ∧ s.postedNull = 0 ∧ s.calls = 0 := by
  obtain ⟨hc, _, _⟩ := janetLoop_inv cfg is inv_init h
  unfold CounterInv at hc
  obtain ⟨hq, ht, hl⟩ := (loopDone_iff s).1 hd
  have hlen : s.susp.length = 0 := by omega
  refine ⟨hq, ht, List.eq_nil_of_length_eq_zero hlen, ?_, ?_, ?_, ?_⟩ <;> omega

/-! ## gc roots -/

/-- ★ every gcroot made by an operation has a matching gcunroot on every completion path: once nothing is outstanding,
    the only roots left are those of fibers still queued on threaded channels, of consumed queue entries whose root the
    tree does not release, of streams orphaned by the collector's path, and (session 4: os/sigaction and filewatch are part of
    the model) of the signal handlers currently installed and the file watchers currently listening -/
theorem roots_balanced (cfg : Cfg) (evs : List Ev) {s : St} (h : run cfg init evs = some s)
    (hl : s.lis = 0) (hcalls : s.calls = 0) :
    s.roots = (s.tchanPending : Int) + s.tchanLeaked + s.orphanStreams + s.sigs.length + s.watching := by
  obtain ⟨_, hk, hr⟩ := run_inv cfg evs inv_init h
  unfold CallInv at hk
  unfold RootInv at hr
  omega

/-- no consumed entry keeps its root when the tree releases it in the callback -/
theorem tchanLeaked_zero (cfg : Cfg) (hcfg : cfg.tchanUnroot = true) :
    ∀ (evs : List Ev) {s s' : St}, s.tchanLeaked = 0 → run cfg s evs = some s' → s'.tchanLeaked = 0
  | [], s, s', h0, h => by simp [run] at h; subst h; exact h0
  | e :: es, s, s', h0, h => by
    simp only [run] at h
    cases hs : step cfg s e with
    | none => rw [hs] at h; simp at h
    | some s1 =>
      rw [hs] at h
      refine tchanLeaked_zero cfg hcfg es ?_ h
      cases e <;> simp only [step] at hs
      case deliverChan =>
        by_cases h1 : s.posted = 0 ∨ s.tchanPending = 0
        · rw [if_pos h1] at hs; simp at hs
        · rw [if_neg h1, if_pos hcfg] at hs; simp at hs; subst hs; exact h0
      case deliverNull =>
        by_cases h1 : s.postedNull = 0
        · rw [if_pos h1] at hs; simp at hs
        · rw [if_neg h1] at hs
          by_cases h2 : cfg.nullDec = true
          · rw [if_pos h2] at hs; simp at hs; subst hs; exact h0
          · rw [if_neg h2] at hs; simp at hs; subst hs; exact h0
      case pop f =>
        by_cases h1 : f ∈ s.runq
        · rw [if_pos h1] at hs
          by_cases h2 : f ∈ s.susp
          · rw [if_pos h2] at hs; simp at hs; subst hs; exact h0
          · rw [if_neg h2] at hs; simp at hs; subst hs; exact h0
        · rw [if_neg h1] at hs; simp at hs
      case ran f b =>
        cases b
        · simp at hs; subst hs; exact h0
        · by_cases h2 : f ∈ s.susp
          · simp [h2] at hs
          · simp [h2] at hs; subst hs; exact h0
      case post b => cases b <;> (simp at hs; subst hs; exact h0)
      all_goals first
        | (simp at hs; subst hs; exact h0)
        | (split at hs <;> simp at hs; subst hs; exact h0)

/-- ★ with the release in `janet_thread_chan_cb`: when the program is idle and no queue entry is left, no root is left
    (streams orphaned by the collector aside) -/
theorem roots_balanced_released (cfg : Cfg) (hcfg : cfg.tchanUnroot = true) (evs : List Ev) {s : St}
    (h : run cfg init evs = some s) (hl : s.lis = 0) (hcalls : s.calls = 0) (hp : s.tchanPending = 0)
    (ho : s.orphanStreams = 0) (hsig : s.sigs = []) (hw : s.watching = 0) : s.roots = 0 := by
  have h1 := roots_balanced cfg evs h hl hcalls
  have h2 := tchanLeaked_zero cfg hcfg evs (s := init) rfl h
  rw [hsig] at h1
  simp at h1
  omega

/-- without it (the pinned tree: `Gen.Loop.tchanUnrootCb = false`) one blocking take on a threaded channel pins the fiber
    for ever: the program is idle, nothing is queued, yet a root remains -/
theorem tchan_root_never_released (cfg : Cfg) (hcfg : cfg.tchanUnroot = false) :
    ∃ s, run cfg init [.tchanPend, .post false, .deliverChan] = some s ∧ Idle s ∧ s.tchanPending = 0 ∧ s.roots = 1 := by
  refine ⟨{ init with roots := 1, tchanLeaked := 1 }, ?_, ?_, rfl, rfl⟩
  · simp [run, step, init, hcfg]
  · simp [Idle, outstanding, init]

/-- the collector's path for a fiber that still has `ev_state` undoes the count but not the stream root -/
theorem gc_listener_leaves_stream_root (cfg : Cfg) :
    ∃ s, run cfg init [.astart, .gcListener] = some s ∧ s.lc = 0 ∧ s.lis = 0 ∧ s.roots = 1 := by
  refine ⟨{ init with roots := 1, orphanStreams := 1 }, ?_, rfl, rfl, rfl⟩
  simp [run, step, init]

/-! ## non-vacuity: a non-trivial reachable state (task suspended on a read, helper thread and process wait outstanding,
a timer armed, an event in the pipe) and a complete run back to idle -/

/-- summary of a state for the examples: (listener_count, outstanding, loop done?, idle?, roots) -/
def summary (s : St) : Int × Nat × Bool × Bool × Int :=
  (s.lc, outstanding s, loopDone s, decide (s.runq = [] ∧ s.timers = [] ∧ outstanding s = 0), s.roots)

example : (run Cfg.ofGen init
    [.sched 1, .pop 1, .astart, .tadd ⟨1, false⟩, .ran 1 true, .sched 2, .pop 2, .await, .ran 2 true,
     .sched 3, .pop 3, .procWait, .ran 3 true, .post false]).map summary = some (7, 7, false, false, 4) := by decide

example : (run Cfg.ofGen init
    [.sched 1, .pop 1, .astart, .tadd ⟨1, false⟩, .ran 1 true, .sched 2, .pop 2, .await, .ran 2 true,
     .deliverAwait, .sched 2, .pop 2, .ran 2 false, .aend, .sched 1, .tpop ⟨1, false⟩, .pop 1, .ran 1 false]).map summary
    = some (0, 0, true, true, 0) := by decide

/-- two full steps: main starts a sleeping task and returns; the timer fires; the loop is done -/
example : (janetLoop Cfg.ofGen { init with runq := [1] }
    [ { expired := [], tasks := [⟨1, false, [.sched 2], false⟩, ⟨2, false, [.tadd ⟨2, false⟩], true⟩], stale := fun _ => false, delivered := [] },
      { expired := [(⟨2, false⟩, some 2)], tasks := [⟨2, false, [], false⟩], stale := fun _ => false, delivered := [] } ]).map summary
    = some (0, 0, true, true, 0) := by decide

/-! ## path-level descriptor balance of the descriptor-creating C functions (session 4)

`Gen.FdPaths.paths`: every control-flow path of janet_make_pipe, get_file_for_stream (ev/to-file), janet_stream_marshal,
net_callback_accept, make_pipes, os_open, os_pipe, cfun_io_fopen (file/open), cfun_io_temp, janet_watcher_init (filewatch/new),
walked on the preprocessed source by tools/gen/fdpaths.py with its descriptor events.  Lean replays each path. -/

section FdPathsSec
open JanetModel.FdPaths (pathOk expectedHeld delta net tableKeys pathKeys pseudoKeys)

/-- every extracted path obeys the ownership discipline and leaves nothing in a C local at its exit (return, raise, end of
    function) - except the two ends a pipe constructor returns to its caller -/
theorem fd_paths_ok : Gen.FdPaths.paths.all pathOk = true := by decide

/-- the events of the paths are sites of the regenerated site table (`Gen.Fds.fdSites`) of the same function … -/
theorem fd_paths_sites_in_table :
    Gen.FdPaths.functions.all (fun fn => (pathKeys fn).all (fun k => (tableKeys fn).contains k || pseudoKeys.contains k)) = true := by
  decide

/-- … and every create / close / wrap site the table has for these functions lies on some extracted path -/
theorem fd_paths_cover_sites :
    Gen.FdPaths.functions.all (fun fn => (tableKeys fn).all (fun k => (pathKeys fn).contains k)) = true := by decide

private theorem len_erase_str {v : String} {l : List String} (h : v ∈ l) : ((l.erase v).length : Int) = (l.length : Int) - 1 := by
  have h1 := List.length_erase_of_mem h
  have h2 : 0 < l.length := List.length_pos_of_mem h
  omega

/-- the replay counts: descriptors held afterwards = held before + created − closed − handed to an owning object (for every
    event list, not only the generated ones) -/
theorem fd_run_count : ∀ (evs : List FdPaths.PEv) (held held' : List String), FdPaths.run held evs = some held' →
    (held'.length : Int) = held.length + net evs
  | [], held, held', h => by simp [FdPaths.run] at h; subst h; simp [net]
  | e :: es, held, held', h => by
    simp only [FdPaths.run] at h
    cases hs : FdPaths.step held e with
    | none => rw [hs] at h; simp at h
    | some h1 =>
      rw [hs] at h
      have ih := fd_run_count es h1 held' h
      have hd : (h1.length : Int) = held.length + delta e := by
        unfold FdPaths.step at hs
        unfold delta
        by_cases c1 : e.1 = "create"
        · simp only [c1, if_true] at hs ⊢
          by_cases m : e.2.1 ∈ held
          · simp [m] at hs
          · simp [m] at hs; subst hs; simp
        · simp only [c1, if_false] at hs ⊢
          by_cases c2 : e.1 = "close" ∨ e.1 = "wrap"
          · simp only [c2, if_true] at hs ⊢
            by_cases m : e.2.1 ∈ held
            · simp [m] at hs; subst hs; have := len_erase_str m; omega
            · simp [m] at hs
          · simp only [c2, if_false] at hs ⊢
            by_cases c3 : e.1 = "move"
            · simp only [c3, if_true] at hs
              by_cases m : e.2.1 ∈ held ∧ e.2.2.1 ∉ held.erase e.2.1
              · rw [if_pos m] at hs; simp at hs; subst hs
                have := len_erase_str m.1
                simp only [List.length_cons]; omega
              · rw [if_neg m] at hs; simp at hs
            · simp only [c3, if_false] at hs
              by_cases c4 : e.1 = "release"
              · simp [c4] at hs; subst hs; simp
              · simp [c4] at hs
      simp only [net]
      omega

/-- ★ on every extracted path that is not a pipe constructor's successful return, as many descriptors are closed or handed to an
    object with a finaliser as were opened - on error returns and raises as well as on success -/
theorem fd_paths_balanced (p : FdPaths.Path) (hp : p ∈ Gen.FdPaths.paths) (he : expectedHeld p = 0) : net p.2.2.2 = 0 := by
  have hall := List.all_eq_true.mp fd_paths_ok p hp
  unfold pathOk at hall
  cases hr : FdPaths.run [] p.2.2.2 with
  | none => rw [hr] at hall; simp at hall
  | some held =>
    rw [hr] at hall
    have hc := fd_run_count p.2.2.2 [] held hr
    rw [he] at hall
    simp at hall
    simp [hall] at hc
    omega

/-- the discipline rejects a path that leaves a local holding a descriptor (ev/to-file without the close on the failed-fdopen
    branch), a double close, and an overwritten local -/
example : pathOk ("get_file_for_stream", "return", "((void*)0)", [("create", "fd_dup", "", "dup($1->handle)")]) = false := by decide
example : pathOk ("f", "return", "", [("create", "fd", "", "k"), ("close", "fd", "", "k"), ("close", "fd", "", "k")]) = false := by decide
example : pathOk ("f", "return", "", [("create", "fd", "", "k"), ("create", "fd", "", "k"), ("close", "fd", "", "k")]) = false := by decide
example : Gen.FdPaths.paths.length ≥ 120 := by decide +kernel
/-- net/listen: a second socket() into a local that still holds the first one (the `close` before `continue` lost), the listen-failure
    path without its close, and get_stdio_for_handle returning NULL while it owns the pipe end are rejected -/
example : pathOk ("cfun_net_listen", "raise", "janet_panic",
    [("create", "sfd", "", "socket($2->ai_family)"), ("create", "sfd", "", "socket($2->ai_family)"), ("close", "sfd", "", "close($1)#3")]) = false := by decide
example : pathOk ("cfun_net_listen", "raise", "janet_panicf", [("create", "sfd", "", "socket(1)")]) = false := by decide
example : pathOk ("get_stdio_for_handle", "return", "((void*)0)", [("create", "handle", "", "entry:handle")]) = false := by decide
/-- os_execute_impl (one stdio slot at a time): a failed posix_spawn that does not close the parent's end of the pipe it made, and a close
    of that end under the wrong owner flag (executed in a slot that made no pipe), are rejected; the spawn-failure path of the tree is accepted -/
example : pathOk ("os_execute_impl", "raise", "janet_panicf",
    [("create", "new_in", "", "make_pipes(&$1)"), ("create", "pipe_in", "", "make_pipes(&$1)"), ("close", "pipe_in", "", "close($1)")]) = false := by decide
example : pathOk ("os_execute_impl", "raise", "janet_panicf", [("close", "new_in", "", "close($7)")]) = false := by decide
example : pathOk ("os_execute_impl", "raise", "janet_panicf",
    [("create", "new_in", "", "make_pipes(&$1)"), ("create", "pipe_in", "", "make_pipes(&$1)"), ("close", "pipe_in", "", "close($1)"),
     ("close", "new_in", "", "close($7)")]) = true := by decide
example : Gen.FdPaths.functions.contains "os_execute_impl" = true ∧ (Gen.FdPaths.paths.filter (fun p => p.1 == "os_execute_impl")).length ≥ 40 := by
  decide +kernel

end FdPathsSec

/-! ## path-level gcroot / gcunroot balance of the event-loop operations (session 4)

`Gen.RootPaths.paths`: every control-flow path of janet_async_start_fiber / janet_async_end, janet_ev_threaded_await /
janet_ev_default_threaded_callback, janet_thread_chan_cb, os_proc_wait_impl / janet_proc_wait_cb, janet_watcher_listen /
janet_watcher_unlisten with its janet_gcroot / janet_gcunroot calls and the branches it took. -/

section RootPathsSec

/-- every extracted path pins / releases exactly what its operation must, given the branches it took: the starting function pins
    on every path that does not raise (and nothing on one that does), the completing function releases each pinned object
    exactly once on every path - stale or cancelled waiter, error result, non-zero exit status included -/
theorem root_paths_ok : Gen.RootPaths.paths.all RootPaths.pathOk = true := by decide

/-- every function the walker was asked for has paths, and no path belongs to another function -/
theorem root_paths_functions :
    Gen.RootPaths.functions.all (fun fn => Gen.RootPaths.paths.any (fun p => p.1 == fn)) = true ∧
    Gen.RootPaths.paths.all (fun p => Gen.RootPaths.functions.contains p.1) = true := by decide

/-- ★ the root changes of the model's transitions are the ones the code performs on the corresponding paths: what `astart`,
    `await`, `procWait`, `watchListen` add to `roots` is what the starting function pins, and what `aend`, `deliverAwait`,
    `deliverProc`, `deliverChan`, `watchUnlisten` take away is what the completing function releases -/
theorem root_ops_match_model (cfg : Cfg) (s : St) :
    (step cfg s .astart).map (·.roots) = some (s.roots + RootPaths.net (RootPaths.expected (RootPaths.normal "janet_async_start_fiber" []))) ∧
    (step cfg s .await).map (·.roots) = some (s.roots + RootPaths.net (RootPaths.expected (RootPaths.normal "janet_ev_threaded_await" []))) ∧
    (step cfg s .procWait).map (·.roots) = some (s.roots + RootPaths.net (RootPaths.expected (RootPaths.normal "os_proc_wait_impl" []))) ∧
    (step cfg s .watchListen).map (·.roots) = some (s.roots + RootPaths.net (RootPaths.expected (RootPaths.normal "janet_watcher_listen" []))) ∧
    (s.lis ≠ 0 → (step cfg s .aend).map (·.roots) =
      some (s.roots + RootPaths.net (RootPaths.expected (RootPaths.normal "janet_async_end" [("assume:listening", "true")])))) ∧
    (s.awaits ≠ 0 → s.calls ≠ 0 → (step cfg s .deliverAwait).map (·.roots) =
      some (s.roots + RootPaths.net (RootPaths.expected (RootPaths.normal "janet_ev_default_threaded_callback" [("assume:no-fiber", "false")])))) ∧
    (s.noFiber ≠ 0 → s.calls ≠ 0 → (step cfg s .deliverNoFiber).map (·.roots) =
      some (s.roots + RootPaths.net (RootPaths.expected ("janet_ev_default_threaded_callback", "return", "", [("assume:no-fiber", "true")])))) ∧
    (s.procWaits ≠ 0 → s.calls ≠ 0 → (step cfg s .deliverProc).map (·.roots) =
      some (s.roots + RootPaths.net (RootPaths.expected (RootPaths.normal "janet_proc_wait_cb" [("assume:have-proc", "true")])))) ∧
    (cfg.tchanUnroot = true → s.posted ≠ 0 → s.tchanPending ≠ 0 → (step cfg s .deliverChan).map (·.roots) =
      some (s.roots + RootPaths.net (RootPaths.expected (RootPaths.normal "janet_thread_chan_cb" [])))) ∧
    (s.watching ≠ 0 → (step cfg s .watchUnlisten).map (·.roots) =
      some (s.roots + RootPaths.net (RootPaths.expected (RootPaths.normal "janet_watcher_unlisten" [("assume:not-watching", "false")])))) := by
  refine ⟨?_, ?_, ?_, ?_, ?_, ?_, ?_, ?_, ?_, ?_⟩
  · simp [step, RootPaths.expected, RootPaths.normal, RootPaths.raises, RootPaths.net]
  · simp [step, RootPaths.expected, RootPaths.normal, RootPaths.net]
  · simp [step, RootPaths.expected, RootPaths.normal, RootPaths.raises, RootPaths.net] <;> omega
  · simp [step, RootPaths.expected, RootPaths.normal, RootPaths.raises, RootPaths.net]
  · intro h; simp [step, h, RootPaths.expected, RootPaths.normal, RootPaths.assumed, RootPaths.net] <;> omega
  · intro h1 h2; simp [step, h1, h2, RootPaths.expected, RootPaths.normal, RootPaths.assumed, RootPaths.net] <;> omega
  · intro h1 h2; simp [step, h1, h2, RootPaths.expected, RootPaths.assumed, RootPaths.net]
  · intro h1 h2; simp [step, h1, h2, RootPaths.expected, RootPaths.normal, RootPaths.assumed, RootPaths.net] <;> omega
  · intro h0 h1 h2; simp [step, h0, h1, h2, RootPaths.expected, RootPaths.normal, RootPaths.net] <;> omega
  · intro h; simp [step, h, RootPaths.expected, RootPaths.normal, RootPaths.assumed, RootPaths.net] <;> omega

/-- the specification rejects an early return in front of the releases (seeded change C20-2), a release under a condition that
    is not the operation's own, and a raise after a pin -/
example : RootPaths.pathOk ("janet_proc_wait_cb", "return", "", [("assume:have-proc", "true")]) = false := by decide
example : RootPaths.pathOk ("janet_ev_default_threaded_callback", "end", "", [("assume:no-fiber", "false")]) = false := by decide
example : RootPaths.pathOk ("os_proc_wait_impl", "raise", "janet_panicf", [("root", "ABSTRACT:proc")]) = false := by decide
example : RootPaths.pathOk ("janet_proc_wait_cb", "end", "",
    [("assume:have-proc", "true"), ("unroot", "ABSTRACT:proc"), ("unroot", "FIBER:args.fiber")]) = true := by decide

end RootPathsSec

/-! ## path-level guards of the listener_count sites (session 4, second part)

`Gen.CounterPaths.paths`: every control-flow path (from the function entry or a loop head to the next loop head, return, raise) of
the seven functions that change `janet_vm.listener_count`, with the branches it took as literals over the vocabulary
`CounterPaths.vocab` and the sites it executed.  Replaces the literal comparison of guard chains: a behaviour-preserving rewrite
(`goto` loop → `for (;;) … break`, `if (a && b)` → nested ifs, negated comparisons, early exits) gives the same literals. -/

section CounterPathsSec
open JanetModel.CounterPaths (pathOk incN decN mask aendDec popDec ranInc deliverDec gcDec)

/-- the translator's vocabulary (atom numbers) is the one the guards are written in -/
theorem counter_vocab_match :
    Gen.CounterPaths.atoms = CounterPaths.vocab ∧ Gen.CounterPaths.functions = CounterPaths.vocab.map (·.1) := by decide

/-- ★ on every extracted path, under EVERY truth assignment of the function's atoms compatible with the branches the path took
    (truth table), listener_count is incremented / decremented exactly when the guard of the model's transition says so — once —
    and every path is satisfiable -/
theorem counter_paths_ok : Gen.CounterPaths.paths.all (pathOk Gen.Loop.selfpipeDecNeedsCb) = true := by decide +kernel

/-- the paths and the site table agree both ways: every site of `Gen.Loop.counterSites` lies on some path of its function with its
    sign; every increment / decrement on a path is a site of the table; the walked functions are exactly those of the table -/
theorem counter_paths_cover_sites :
    Gen.CounterPaths.functions.all CounterPaths.sitesCovered = true ∧
    Gen.CounterPaths.paths.all CounterPaths.eventsInTable = true ∧
    Gen.CounterPaths.paths.all (fun p => Gen.CounterPaths.functions.contains p.1) = true ∧
    Gen.Loop.counterSites.all (fun x => Gen.CounterPaths.functions.contains x.2.1) = true ∧
    Gen.CounterPaths.sites = Gen.CounterPaths.functions.map (fun fn => (fn, CounterPaths.tableSigns fn)) := by decide

private theorem inc_simple (nc : Bool) : incN nc "janet_async_start_fiber" 0 = 1 ∧ incN nc "janet_ev_post_event" 0 = 1 ∧
    incN nc "janet_ev_threaded_call" 0 = 1 := by cases nc <;> decide
private theorem dec_aend (nc : Bool) : decN nc "janet_async_end" (mask [true, false]) = 1 := by cases nc <;> decide
private theorem dec_gc (nc : Bool) : decN nc "janet_deinit_block" (mask [true, true, false]) = 1 := by cases nc <;> decide
private theorem dec_pipe (nc : Bool) : decN nc "janet_ev_handle_selfpipe" (mask [true, true]) = 1 := by cases nc <;> decide
private theorem dec_pipe_null (nc : Bool) : decN nc "janet_ev_handle_selfpipe" (mask [true, false]) = if nc then 0 else 1 := by
  cases nc <;> decide
private theorem dec_pop (nc w cur e y i : Bool) : decN nc "janet_loop1" (mask [true, false, w, cur, e, y, i]) = if w then 1 else 0 := by
  cases nc <;> cases w <;> cases cur <;> cases e <;> cases y <;> cases i <;> decide
private theorem inc_ran (nc w b : Bool) : incN nc "janet_loop1" (mask [true, false, w, true, b, false, false]) = if b then 1 else 0 := by
  cases nc <;> cases w <;> cases b <;> decide

/-- ★ the change of `lc` made by each transition of the event-loop model is the one the code path with the corresponding branches
    makes (`incN` / `decN` = the guards `counter_paths_ok` checks every path against) -/
theorem counter_ops_match_model (cfg : Cfg) (s s' : St) (nc : Bool) :
    (step cfg s .astart = some s' → s'.lc = s.lc + incN nc "janet_async_start_fiber" 0) ∧
    (step cfg s .aend = some s' → s'.lc = s.lc - decN nc "janet_async_end" (mask [true, false])) ∧
    (step cfg s .gcListener = some s' → s'.lc = s.lc - decN nc "janet_deinit_block" (mask [true, true, false])) ∧
    (∀ b, step cfg s (.post b) = some s' → s'.lc = s.lc + incN nc "janet_ev_post_event" 0) ∧
    (step cfg s .await = some s' → s'.lc = s.lc + incN nc "janet_ev_threaded_call" 0) ∧
    (step cfg s .callNoFiber = some s' → s'.lc = s.lc + incN nc "janet_ev_threaded_call" 0) ∧
    (step cfg s .procWait = some s' → s'.lc = s.lc + incN nc "janet_ev_threaded_call" 0) ∧
    (step cfg s .deliverAwait = some s' → s'.lc = s.lc - decN nc "janet_ev_handle_selfpipe" (mask [true, true])) ∧
    (step cfg s .deliverNoFiber = some s' → s'.lc = s.lc - decN nc "janet_ev_handle_selfpipe" (mask [true, true])) ∧
    (step cfg s .deliverProc = some s' → s'.lc = s.lc - decN nc "janet_ev_handle_selfpipe" (mask [true, true])) ∧
    (step cfg s .deliverPosted = some s' → s'.lc = s.lc - decN nc "janet_ev_handle_selfpipe" (mask [true, true])) ∧
    (step cfg s .deliverChan = some s' → s'.lc = s.lc - decN nc "janet_ev_handle_selfpipe" (mask [true, true])) ∧
    (step cfg s .deliverNull = some s' → s'.lc = s.lc - decN (!cfg.nullDec) "janet_ev_handle_selfpipe" (mask [true, false])) ∧
    (∀ f cur e y i, step cfg s (.pop f) = some s' →
      s'.lc = s.lc - decN nc "janet_loop1" (mask [true, false, decide (f ∈ s.susp), cur, e, y, i])) ∧
    (∀ f b w, step cfg s (.ran f b) = some s' → s'.lc = s.lc + incN nc "janet_loop1" (mask [true, false, w, true, b, false, false])) := by
  have hi := inc_simple nc
  refine ⟨?_, ?_, ?_, ?_, ?_, ?_, ?_, ?_, ?_, ?_, ?_, ?_, ?_, ?_, ?_⟩
  · intro h; rw [hi.1]; simp [step] at h; subst h; rfl
  · intro h; rw [dec_aend]
    by_cases h0 : s.lis = 0
    · simp [step, h0] at h
    · simp [step, h0] at h; subst h; rfl
  · intro h; rw [dec_gc]
    by_cases h0 : s.lis = 0
    · simp [step, h0] at h
    · simp [step, h0] at h; subst h; rfl
  · intro b h; rw [hi.2.1]; cases b <;> (simp [step] at h; subst h; rfl)
  · intro h; rw [hi.2.2]; simp [step] at h; subst h; rfl
  · intro h; rw [hi.2.2]; simp [step] at h; subst h; rfl
  · intro h; rw [hi.2.2]; simp [step] at h; subst h; rfl
  · intro h; rw [dec_pipe]
    by_cases h0 : s.awaits = 0 ∨ s.calls = 0
    · simp [step, h0] at h
    · simp only [step, if_neg h0] at h; simp at h; subst h; rfl
  · intro h; rw [dec_pipe]
    by_cases h0 : s.noFiber = 0 ∨ s.calls = 0
    · simp [step, h0] at h
    · simp only [step, if_neg h0] at h; simp at h; subst h; rfl
  · intro h; rw [dec_pipe]
    by_cases h0 : s.procWaits = 0 ∨ s.calls = 0
    · simp [step, h0] at h
    · simp only [step, if_neg h0] at h; simp at h; subst h; rfl
  · intro h; rw [dec_pipe]
    by_cases h0 : s.posted = 0
    · simp [step, h0] at h
    · simp only [step, if_neg h0] at h; simp at h; subst h; rfl
  · intro h; rw [dec_pipe]
    by_cases h0 : s.posted = 0 ∨ s.tchanPending = 0
    · simp [step, h0] at h
    · simp only [step, if_neg h0] at h
      cases ht : cfg.tchanUnroot <;> (simp [ht] at h; subst h; rfl)
  · intro h; rw [dec_pipe_null]
    by_cases h0 : s.postedNull = 0
    · simp [step, h0] at h
    · simp only [step, if_neg h0] at h
      cases hn : cfg.nullDec <;> (simp [hn] at h; subst h; simp)
  · intro f cur e y i h; rw [dec_pop]
    simp only [step] at h
    by_cases hr : f ∈ s.runq
    · by_cases hs : f ∈ s.susp
      · simp [hr, hs] at h; subst h; simp [hs]
      · simp [hr, hs] at h; subst h; simp [hs]
    · simp [hr] at h
  · intro f b w h; rw [inc_ran]
    cases b
    · simp [step] at h; subst h; simp
    · simp only [step] at h
      by_cases hs : f ∈ s.susp
      · simp [hs] at h
      · simp [hs] at h; subst h; simp

/-- a task that is popped but stale (`expected_sched_id != sched_id`) is not run and not counted again, whatever the other atoms say:
    `Task.events` has no `ran` event for it -/
theorem counter_stale_task_not_counted (nc w e y i : Bool) : incN nc "janet_loop1" (mask [true, false, w, false, e, y, i]) = 0 := by
  cases nc <;> cases w <;> cases e <;> cases y <;> cases i <;> decide

/-- the tree's configuration of the model (`Cfg.ofGen.nullDec`) is the guard the self-pipe paths were checked against -/
theorem counter_cfg_match : (!Cfg.ofGen.nullDec) = Gen.Loop.selfpipeDecNeedsCb := by decide

/-- the check rejects: a decrement that skips cancelled tasks (mutation m1: two paths with the same literals, one without the site), a
    threaded call that does not count, a second decrement on the cancel path, a self-pipe reader that un-counts only events with a
    callback when the model says every event; it accepts the `for (;;) … break` spelling of the self-pipe loop -/
example : pathOk false ("janet_loop1", "head", "loop", [.assume 0 true, .assume 1 false, .assume 2 true, .assume 3 false]) = false := by decide
example : pathOk false ("janet_ev_threaded_call", "entry", "end", []) = false := by decide
example : pathOk false ("janet_async_end", "entry", "end", [.assume 0 true, .assume 1 false, .dec 0, .dec 0]) = false := by decide
example : pathOk false ("janet_ev_handle_selfpipe", "head", "loop", [.assume 0 true, .assume 1 false]) = false := by decide
example : pathOk true ("janet_ev_handle_selfpipe", "head", "loop", [.assume 0 true, .assume 1 false]) = true := by decide
example : pathOk false ("janet_ev_handle_selfpipe", "head", "end", [.assume 0 false]) = true ∧
    pathOk false ("janet_ev_handle_selfpipe", "head", "loop", [.assume 0 true, .dec 0]) = true := by decide
example : pathOk false ("janet_loop1", "head", "loop", [.assume 0 true, .assume 0 false]) = false := by decide   -- unsatisfiable
example : Gen.CounterPaths.paths.length ≥ 50 := by decide

end CounterPathsSec

/-! ## the self pipe: every completion written by another thread is delivered (session 4)

Model `JanetModel.Loop.SelfPipe`: events in the pipe, the edge-triggered registration's "ready" bit, `janet_ev_handle_selfpipe`
as a loop of reads of `batch` events.  `Cfg.ofGen` is regenerated from the source. -/

section SelfPipeSec
open JanetModel.Loop.SelfPipe (handle reported stranded)

/-- tie: the handler in the tree reads again after every successful read and fetches at least one whole event per read -/
theorem selfpipe_cfg_drains : SelfPipe.Cfg.ofGen.recur = true ∧ 1 ≤ SelfPipe.Cfg.ofGen.batch := by decide

/-- the handler neither loses nor invents events -/
theorem selfpipe_handle_conserve (cfg : SelfPipe.Cfg) :
    ∀ fuel pipe d, (handle cfg fuel pipe d).1 + (handle cfg fuel pipe d).2 = pipe + d
  | 0, pipe, d => by simp [handle]
  | fuel + 1, pipe, d => by
    by_cases hp : pipe = 0
    · simp [handle, hp]
    · by_cases hr : cfg.recur = true
      · have ih := selfpipe_handle_conserve cfg fuel (pipe - min cfg.batch pipe) (d + min cfg.batch pipe)
        simp only [handle, if_neg hp, hr, if_true]
        omega
      · simp only [handle, if_neg hp, hr]
        simp
        omega

/-- a handler that reads again after every successful read (at least one event per read) returns with the pipe empty -/
theorem selfpipe_handle_drains (cfg : SelfPipe.Cfg) (hr : cfg.recur = true) (hb : 1 ≤ cfg.batch) :
    ∀ fuel pipe d, pipe ≤ fuel → (handle cfg fuel pipe d).1 = 0
  | 0, pipe, d, h => by
    have : pipe = 0 := by omega
    simp [handle, this]
  | fuel + 1, pipe, d, h => by
    by_cases hp : pipe = 0
    · simp [handle, hp]
    · simp only [handle, if_neg hp, hr, if_true]
      exact selfpipe_handle_drains cfg hr hb fuel _ _ (by omega)

private theorem sp_run_append (cfg : SelfPipe.Cfg) : ∀ (a b : List SelfPipe.Ev) (p : SelfPipe.P),
    SelfPipe.run cfg p (a ++ b) = SelfPipe.run cfg (SelfPipe.run cfg p a) b
  | [], b, p => rfl
  | e :: a, b, p => by simp only [List.cons_append, SelfPipe.run]; exact sp_run_append cfg a b _

/-- conservation, for every configuration and every interleaving of writes and polls: written = delivered + still in the pipe -/
theorem selfpipe_conservation (cfg : SelfPipe.Cfg) : ∀ (evs : List SelfPipe.Ev) (p : SelfPipe.P),
    p.written = p.delivered + p.pipe → (SelfPipe.run cfg p evs).written = (SelfPipe.run cfg p evs).delivered + (SelfPipe.run cfg p evs).pipe
  | [], p, h => h
  | e :: es, p, h => by
    simp only [SelfPipe.run]
    apply selfpipe_conservation cfg es
    cases e with
    | write => simp only [SelfPipe.step]; omega
    | poll =>
      simp only [SelfPipe.step]
      by_cases hrep : reported cfg p = true
      · rw [if_pos hrep]
        have := selfpipe_handle_conserve cfg p.pipe p.pipe p.delivered
        simp only
        omega
      · rw [if_neg hrep]; exact h

/-- "no event is stranded": the pipe is empty or its edge is still pending -/
def SpInv (p : SelfPipe.P) : Prop := p.pipe = 0 ∨ p.armed = true

private theorem sp_step_inv (cfg : SelfPipe.Cfg) (hr : cfg.recur = true) (hb : 1 ≤ cfg.batch) (p : SelfPipe.P) (e : SelfPipe.Ev)
    (h : SpInv p) : SpInv (SelfPipe.step cfg p e) := by
  cases e with
  | write => right; simp [SelfPipe.step]
  | poll =>
    simp only [SelfPipe.step]
    by_cases hrep : reported cfg p = true
    · rw [if_pos hrep]
      left
      exact selfpipe_handle_drains cfg hr hb p.pipe p.pipe p.delivered (Nat.le_refl _)
    · rw [if_neg hrep]; exact h

private theorem sp_run_inv (cfg : SelfPipe.Cfg) (hr : cfg.recur = true) (hb : 1 ≤ cfg.batch) :
    ∀ (evs : List SelfPipe.Ev) (p : SelfPipe.P), SpInv p → SpInv (SelfPipe.run cfg p evs)
  | [], p, h => h
  | e :: es, p, h => by
    simp only [SelfPipe.run]
    exact sp_run_inv cfg hr hb es _ (sp_step_inv cfg hr hb p e h)

/-- ★ with a draining handler no event is ever stranded: after ANY interleaving of writes by other threads and polls by the loop,
    whatever is in the pipe still has its edge pending, i.e. the next epoll_wait reports the pipe -/
theorem selfpipe_no_event_stranded (cfg : SelfPipe.Cfg) (hr : cfg.recur = true) (hb : 1 ≤ cfg.batch) (evs : List SelfPipe.Ev) :
    stranded (SelfPipe.run cfg SelfPipe.init evs) = false := by
  have h := sp_run_inv cfg hr hb evs SelfPipe.init (Or.inl rfl)
  unfold stranded
  rcases h with h | h
  · simp [h]
  · simp [h]

/-- ★ … and every poll delivers everything written before it: after any history that ends with a poll, delivered = written -/
theorem selfpipe_all_delivered_after_poll (cfg : SelfPipe.Cfg) (hr : cfg.recur = true) (hb : 1 ≤ cfg.batch) (evs : List SelfPipe.Ev) :
    (SelfPipe.run cfg SelfPipe.init (evs ++ [.poll])).pipe = 0 ∧
      (SelfPipe.run cfg SelfPipe.init (evs ++ [.poll])).delivered = (SelfPipe.run cfg SelfPipe.init (evs ++ [.poll])).written := by
  have hc := selfpipe_conservation cfg (evs ++ [.poll]) SelfPipe.init rfl
  have hi := sp_run_inv cfg hr hb evs SelfPipe.init (Or.inl rfl)
  have hp : (SelfPipe.run cfg SelfPipe.init (evs ++ [.poll])).pipe = 0 := by
    rw [sp_run_append]
    generalize SelfPipe.run cfg SelfPipe.init evs = p at hi
    simp only [SelfPipe.run, SelfPipe.step]
    by_cases hrep : reported cfg p = true
    · rw [if_pos hrep]
      exact selfpipe_handle_drains cfg hr hb p.pipe p.pipe p.delivered (Nat.le_refl _)
    · rw [if_neg hrep]
      rcases hi with hi | hi
      · exact hi
      · -- armed, yet not reported: only possible level-triggered with an empty pipe
        unfold reported at hrep
        by_cases he : cfg.edge = true
        · simp [he, hi] at hrep
        · simp [he] at hrep; exact hrep
  exact ⟨hp, by omega⟩

/-- the tree's handler (regenerated configuration) strands nothing -/
theorem selfpipe_gen_no_event_stranded (evs : List SelfPipe.Ev) :
    stranded (SelfPipe.run SelfPipe.Cfg.ofGen SelfPipe.init evs) = false :=
  selfpipe_no_event_stranded _ selfpipe_cfg_drains.1 selfpipe_cfg_drains.2 evs

private theorem sp_run_writes (cfg : SelfPipe.Cfg) : ∀ (k : Nat) (p : SelfPipe.P),
    SelfPipe.run cfg p (List.replicate (k + 1) .write) =
      { pipe := p.pipe + (k + 1), armed := true, written := p.written + (k + 1), delivered := p.delivered }
  | 0, p => by simp [SelfPipe.run, SelfPipe.step]
  | k + 1, p => by
    rw [List.replicate_succ]
    simp only [SelfPipe.run]
    rw [sp_run_writes cfg k]
    simp [SelfPipe.step]
    omega

private theorem sp_run_polls_unarmed (cfg : SelfPipe.Cfg) (he : cfg.edge = true) : ∀ (n : Nat) (p : SelfPipe.P), p.armed = false →
    SelfPipe.run cfg p (List.replicate n .poll) = p
  | 0, p, _ => rfl
  | n + 1, p, h => by
    rw [List.replicate_succ]
    simp only [SelfPipe.run, SelfPipe.step, reported, he, h, if_true]
    simp
    exact sp_run_polls_unarmed cfg he n p h

/-- a handler that reads a bounded batch ONCE per report (seeded change C20-4: `goto recur` lost, 16 events per read): when
    `b + 1` completions are queued at one report, `b` are delivered and the last one stays in the pipe for ever — however often
    the loop polls afterwards, it is never reported again (edge-triggered) and delivered stays below written -/
theorem bounded_read_strands_events (b n : Nat) :
    SelfPipe.run { batch := b, recur := false, edge := true } SelfPipe.init
        (List.replicate (b + 1) .write ++ List.replicate (n + 1) .poll) =
      { pipe := 1, armed := false, written := b + 1, delivered := b } := by
  rw [sp_run_append, sp_run_writes, List.replicate_succ]
  simp only [SelfPipe.run]
  have hm : min b (b + 1) = b := by omega
  have hstep : SelfPipe.step { batch := b, recur := false, edge := true }
      { pipe := SelfPipe.init.pipe + (b + 1), armed := true, written := SelfPipe.init.written + (b + 1), delivered := SelfPipe.init.delivered } .poll
      = { pipe := 1, armed := false, written := b + 1, delivered := b } := by
    simp [SelfPipe.step, reported, handle, SelfPipe.init, hm]
  rw [hstep]
  exact sp_run_polls_unarmed _ rfl n _ rfl

/-- non-vacuity / the seeded configuration on concrete numbers: 40 completions queued, batch 16, no re-read: 16 delivered, 24
    stranded after three polls; the tree's configuration delivers all 40 at the first poll -/
example : (SelfPipe.run { batch := 16, recur := false, edge := true } SelfPipe.init
    (List.replicate 40 .write ++ [.poll, .poll, .poll])) = { pipe := 24, armed := false, written := 40, delivered := 16 } := by decide
example : (SelfPipe.run SelfPipe.Cfg.ofGen SelfPipe.init (List.replicate 40 .write ++ [.poll])) =
    { pipe := 0, armed := false, written := 40, delivered := 40 } := by decide
example : stranded (SelfPipe.run { batch := 16, recur := false, edge := true } SelfPipe.init
    (List.replicate 17 .write ++ [.poll])) = true := by decide

end SelfPipeSec

/-! ## descriptors: every open descriptor has one responsible holder; no operation leaks or double-closes (session 3)

Model `JanetModel.Fds` (Loop/Fds.lean): kernel descriptor table + owning objects + the C locals of the running function; one
model function per C function that creates / closes descriptors (ev.c, net.c, os.c, io.c, filewatch.c), error paths included. -/

section Descriptors

/-- `function:key` of every create / close / wrap site the translator found in the five files -/
def fdGenKeys : List Fds.Site :=
  (Gen.Fds.fdSites.filter (fun x => x.2.2.1 != "raise")).map (fun x => (x.2.1, x.2.2.2.1))

/-- inputs under which the model functions, together, pass through every site they mirror -/
def fdCoverOps : List Fds.Op :=
  [.osPipe true true true 1 2, .osPipe true true false 1 2, .osOpen true true 1, .watcherInit true 1, .watcherUnlisten 1,
   .toFile true true true 1, .toFile true true false 1, .streamMarshal true true 1,
   .ioFopen true true true true true 1, .ioFopen true true true false false 1, .ioFopen true true true false true 1, .ioTemp true 1,
   .netAccept true 1, .netConnect true true true true false true 1, .netConnect true false true false true false 1,
   .netListen true true true false [] true true true 1, .netListen true false true true [.serverifyFail, .bindFail] true true true 1,
   .netListen true false true true [] true false true 1, .netListen true false true true [] true false false 1,
   .streamClose 1, .streamGc 1, .fileClose 1, .fileGc 1, .procClose (some 1) (some 2) (some 3),
   .osExecute true true true .pipeOk .pipeOk .pipeOk 1 2 3, .osExecute true true false .pipeOk .pipeOk .pipeOk 1 2 3,
   .osExecute true true true .pipeFailF .pipeOk .pipeOk 1 2 3, .osExecute true true true .pipeOk .pipeOk .pipeFailP 1 2 3, .osExecute true true true .tmpOk .tmpOk .tmpSetfdFail 1 2 3,
   .osExecute true true true .tmpOkFileDupOk .tmpOk .tmpOk 1 2 3,
   .osExecute true true true .fileDupFail .pipeOk .pipeOk 1 2 3, .osExecute true true true .none .fileDupFail .pipeOk 1 2 3,
   .evInit 1 2 3 4, .evDeinit 1 2 3 4]

/-- the call sites (innermost first, whole call chain) of the model's create / close / wrap operations -/
def fdModelSites : List Fds.Site :=
  (((Fds.progs Fds.Cfg.fixed fdCoverOps).filter (fun p => p.kind != "leave")).map Fds.Prim.site).flatten.eraseDups

/-- model-side names of hand-overs that are not calls: stores into `janet_vm` fields, the dup written into a marshalled message -/
def fdPseudoSites : List Fds.Site :=
  [("janet_stream_marshal", "janet_marshal_int"), ("janet_ev_setup_selfpipe", "janet_vm.selfpipe"), ("janet_ev_init", "janet_vm.epoll"),
   ("janet_ev_init", "janet_vm.timerfd")]

/-- sites the model does not pass through: the deferred close of a stream marked TOCLOSE (same `janet_stream_close`), the
    `janet_stream` → `janet_stream_ext` forwarding, unmarshalling a core/file (re-owns a descriptor that travelled in a message),
    the NOT_CLOSEABLE wrappers of stdin / stdout / stderr -/
def fdPassiveSites : List Fds.Site :=
  [("janet_stream_checktoclose", "janet_stream_close($1)"), ("janet_stream", "janet_stream_ext($1)"), ("io_file_unmarshal", "fdopen($1)"),
   ("janet_lib_io", "janet_makefile($1)"), ("janet_lib_io", "janet_makefile($2)"), ("janet_lib_io", "janet_makefile($3)")]

/-- ★ tie: every descriptor-creating / -closing / -wrapping call site in ev.c, net.c, os.c, io.c, filewatch.c is mirrored by a
    model operation (or is one of the six listed passive sites), and every site the model mirrors exists in the source.  A new
    `socket()` nobody models, or a `close()` deleted from an error path, makes this false and names the site. -/
theorem fd_sites_match :
    (fdGenKeys.filter (fun k => !(fdModelSites.contains k || fdPassiveSites.contains k))) = [] ∧
    (fdModelSites.filter (fun k => !(fdGenKeys.contains k || fdPseudoSites.contains k))) = [] ∧
    (fdPassiveSites.filter (fun k => !fdGenKeys.contains k)) = [] := by decide +kernel

/-- ★ tie: the order facts the model depends on, computed from the generated table: in os_execute_impl every call that can
    raise an argument error comes before the first make_pipes and a failed get_stdio_for_handle closes the unwrapped pipe
    ends; in cfun_io_fopen janet_optsize comes before fopen and a failed setvbuf closes the file; a failed net/connect closes
    through the stream -/
theorem fd_cfg_match : Fds.Cfg.ofGen = Fds.Cfg.fixed := by decide +kernel

/-- each model function keeps the ownership discipline for all inputs — see `Fds.op_ok`; here the two with the largest case
    analyses, for the record -/
theorem os_execute_no_leak (isSpawn argsOk spawnOk : Bool) (a b c : Fds.Slot) (oa ob oc : Fds.Oid) :
    Fds.check [] (Fds.osExecute Fds.Cfg.fixed isSpawn argsOk spawnOk a b c oa ob oc) = some [] := Fds.osExecute_ok isSpawn argsOk spawnOk a b c oa ob oc

theorem net_listen_no_leak (a b c d : Bool) (ts : List Fds.ListenTry) (f g h : Bool) (o : Fds.Oid) :
    Fds.check [] (Fds.netListen a b c d ts f g h o) = some [] := Fds.netListen_ok a b c d ts f g h o

/-- every operation, with any inputs (any failure pattern), keeps the discipline -/
theorem fd_op_ok (op : Fds.Op) : Fds.check [] (op.prog Fds.Cfg.fixed) = some [] := Fds.op_ok op

/-- the ownership invariant is preserved by every step that does not violate ownership -/
theorem fd_exec_inv (ext : List Fds.Fd) (ps : List Fds.Prim) {s s' : Fds.St} (hi : Fds.Inv ext s) (h : Fds.exec s ps = some s') : Fds.Inv ext s' :=
  Fds.exec_inv ext ps hi h

/-- ★ descriptors are balanced: for every sequence of operations (streams, files, pipes, sockets, accepts, watchers, subprocesses
    with any redirections, explicit closes, finalisers; every failure pattern of every libc call and every argument error)
    from a state where each open descriptor has a holder: no step violates ownership (nothing leaks, nothing is closed twice),
    no C local is left holding a descriptor, and #open descriptors − #open objects is unchanged -/
theorem fds_balanced (ext : List Fds.Fd) (ops : List Fds.Op) {s : Fds.St} (hi : Fds.Inv ext s) (hl : s.loose = []) :
    ∃ s', Fds.exec s (Fds.progs Fds.Cfg.fixed ops) = some s' ∧ s'.loose = [] ∧ Fds.Inv ext s' ∧
      s'.open.length + s.objs.length = s.open.length + s'.objs.length := by
  obtain ⟨s', h, hl', hi'⟩ := Fds.progs_run ext ops hi hl
  refine ⟨s', h, hl', hi', ?_⟩
  have c1 := Fds.inv_count hi
  have c2 := Fds.inv_count hi'
  rw [hl] at c1
  rw [hl'] at c2
  simp at c1 c2
  omega

/-- ★ a cycle that ends with all its handles closed or collected (as many open objects as before) ends with as many open
    descriptors as before -/
theorem fds_cycle_restores (ext : List Fds.Fd) (ops : List Fds.Op) {s s' : Fds.St} (hi : Fds.Inv ext s) (hl : s.loose = [])
    (h : Fds.exec s (Fds.progs Fds.Cfg.fixed ops) = some s') (hobjs : s'.objs.length = s.objs.length) : s'.open.length = s.open.length := by
  obtain ⟨s2, h2, _, _, hc⟩ := fds_balanced ext ops hi hl
  rw [h] at h2
  cases h2
  omega

/-- from program start (descriptors 0, 1, 2 open) -/
theorem fds_from_start (ops : List Fds.Op) :
    ∃ s', Fds.exec (Fds.St.init [0, 1, 2]) (Fds.progs Fds.Cfg.fixed ops) = some s' ∧ s'.open.length = 3 + s'.objs.length := by
  obtain ⟨s', h, _, _, hc⟩ := fds_balanced [0, 1, 2] ops (Fds.inv_init _) rfl
  refine ⟨s', h, ?_⟩
  simp [Fds.St.init] at hc
  omega

/-! witnesses: what the same model says about the trees before the fixes (defects found through these theorems) -/

/-- an argument error raised after the :pipe pipes exist (`(os/spawn ["true" 42] :p {:in :pipe})`): the function is left while
    `pipe_in` / `new_in` hold descriptors — two more open descriptors per call, for ever -/
theorem spawn_arg_error_leaks :
    Fds.exec (Fds.St.init [0, 1, 2]) (Fds.osExecute { Fds.Cfg.fixed with spawnChecksFirst := false } true false true .pipeOk .none .none 7 8 9) = none ∧
    (Fds.execRaw (Fds.St.init [0, 1, 2])
      (Fds.osExecute { Fds.Cfg.fixed with spawnChecksFirst := false } true false true .pipeOk .none .none 7 8 9)).open.length = 5 := by
  decide +kernel

/-- a failed dup of a core/file redirection leaves the not yet wrapped pipe ends open -/
theorem spawn_stdio_fail_leaks :
    Fds.exec (Fds.St.init [0, 1, 2]) (Fds.osExecute { Fds.Cfg.fixed with spawnStdioFailCloses := false } true true true .fileDupFail .pipeOk .none 7 8 9) = none ∧
    (Fds.execRaw (Fds.St.init [0, 1, 2])
      (Fds.osExecute { Fds.Cfg.fixed with spawnStdioFailCloses := false } true true true .fileDupFail .pipeOk .none 7 8 9)).open.length = 4 := by
  decide +kernel

/-- `(file/open path :r "bad")`: janet_optsize raises after fopen -/
theorem fopen_bad_size_leaks :
    Fds.exec (Fds.St.init [0, 1, 2]) (Fds.ioFopen { Fds.Cfg.fixed with fopenSizeFirst := false } true false true false true 7) = none ∧
    (Fds.execRaw (Fds.St.init [0, 1, 2]) (Fds.ioFopen { Fds.Cfg.fixed with fopenSizeFirst := false } true false true false true 7)).open.length = 4 := by
  decide +kernel

/-- a failed net/connect that closes the socket directly after the stream took it over closes a descriptor it does not
    hold (the stream's finaliser closes the — by then reused — number again) -/
theorem connect_fail_double_close :
    Fds.exec (Fds.St.init [0, 1, 2]) (Fds.netConnect { Fds.Cfg.fixed with connectFailViaStream := false } true false true false true false 7) = none := by
  decide +kernel

/-- the finite check over all slot states is not vacuous: it fails for each unfixed variant of os_execute_impl -/
theorem os_execute_check_detects :
    Fds.osExecuteAllOk { Fds.Cfg.fixed with spawnChecksFirst := false } = false ∧
    Fds.osExecuteAllOk { Fds.Cfg.fixed with spawnStdioFailCloses := false } = false := by
  decide +kernel

/-- non-vacuity: a VM start, a pipe, a TCP listener with two failed bind attempts, a subprocess with three :pipe redirections,
    a spawn that fails after creating pipes, a file; everything closed / collected again: 3 → 7 → … → back to 7 (VM) -/
example : ((Fds.exec (Fds.St.init [0, 1, 2]) (Fds.progs Fds.Cfg.fixed
    [.evInit 100 101 102 103, .osPipe true true true 1 2, .netListen true false true true [.bindFail, .serverifyFail] true false true 3,
     .osExecute true true true .pipeOk .pipeOk .pipeOk 4 5 6, .osExecute true true false .pipeOk .pipeOk .none 7 8 9,
     .ioFopen true true true false true 10])).map (fun s => (s.open.length, s.objs.length, s.loose.length))) = some (14, 11, 0) := by
  decide +kernel

example : ((Fds.exec (Fds.St.init [0, 1, 2]) (Fds.progs Fds.Cfg.fixed
    [.evInit 100 101 102 103, .osPipe true true true 1 2, .netListen true false true true [.bindFail, .serverifyFail] true false true 3,
     .osExecute true true true .pipeOk .pipeOk .pipeOk 4 5 6, .osExecute true true false .pipeOk .pipeOk .none 7 8 9,
     .ioFopen true true true false true 10,
     .procClose (some 4) (some 5) (some 6), .streamClose 1, .streamGc 2, .streamGc 3, .fileGc 10, .streamClose 1])).map
      (fun s => (s.open.length, s.objs.length, s.loose.length))) = some (7, 4, 0) := by
  decide +kernel

end Descriptors

/-! ## the full lifecycle of a subprocess handle: spawn → (wait | kill | close | gc) in every order (session 3) -/

section ChildLifecycle
open JanetModel.ChildLife (P)

/-- tie: the kill / waitpid / posix_spawn sites of os.c are the ones the lifecycle model mirrors -/
theorem child_sites_match : Gen.Fds.childSites = ChildLife.childSpec := by decide

/-- WAITED ⇒ reaped; a returned helper thread has reaped and its wait is still marked outstanding; the finaliser does not run
    while a wait is outstanding; a handle collected without `:d` leaves no child -/
def ChildInv (s : P) : Prop :=
  (s.waited = true → s.child = .reaped) ∧ (s.threadDone = true → s.child = .reaped ∧ s.waiting = true) ∧
  (s.collected = true → s.waiting = false) ∧ (s.collected = true → s.allowZombie = false → s.child = .reaped)

theorem child_step_inv {s s' : P} {e : ChildLife.Ev} (hi : ChildInv s) (h : ChildLife.step true s e = some s') : ChildInv s' := by
  obtain ⟨h1, h2, h3, h4⟩ := hi
  rcases s with ⟨child, waited, waiting, allowZombie, threadDone, collected, sk, er⟩
  cases e <;> simp only [ChildLife.step, ChildLife.waitStart] at h
  all_goals (cases child <;> cases waited <;> cases waiting <;> cases allowZombie <;> cases threadDone <;> cases collected <;>
    simp_all [ChildInv, Loop.procGc])
  all_goals (first | (subst h; simp_all) | (rename_i w; cases w <;> simp_all <;> subst h <;> simp_all))

theorem child_run_inv : ∀ (es : List ChildLife.Ev) {s s' : P}, ChildInv s → ChildLife.run true s es = some s' → ChildInv s'
  | [], s, s', hi, h => by simp [ChildLife.run] at h; subst h; exact hi
  | e :: es, s, s', hi, h => by
    simp only [ChildLife.run] at h
    cases hs : ChildLife.step true s e with
    | none => rw [hs] at h; simp at h
    | some s1 => rw [hs] at h; exact child_run_inv es (child_step_inv hi hs) h

/-- ★ no zombie accumulates: after ANY sequence of exits, waits (also by a second fiber: an error), cancelled waits, kills,
    closes and finally the finaliser, in any order — a handle that has been waited for, or that has been collected (not spawned
    with `:d`), has no process-table entry left -/
theorem no_zombie_accumulates (allowZombie : Bool) (es : List ChildLife.Ev) {s : P}
    (h : ChildLife.run true { allowZombie := allowZombie } es = some s)
    (hend : s.waited = true ∨ (s.collected = true ∧ s.allowZombie = false)) : s.child = .reaped := by
  have hi : ChildInv { allowZombie := allowZombie } := by simp [ChildInv]
  obtain ⟨h1, _, _, h4⟩ := child_run_inv es hi h
  rcases hend with hw | ⟨hc, ha⟩
  · exact h1 hw
  · exact h4 hc ha

/-- an outstanding wait always completes once the child has exited: the two remaining steps are enabled, whatever happened
    to the waiting fiber -/
theorem outstanding_wait_completes (s : P) (hw : s.waiting = true) (ht : s.threadDone = false) (hz : s.child = .zombie) :
    ∃ s', ChildLife.run true s [.threadReaps, .waitCb] = some s' ∧ s'.waited = true ∧ s'.waiting = false ∧ s'.child = .reaped := by
  rcases s with ⟨child, waited, waiting, allowZombie, threadDone, collected, sk, er⟩
  simp at hw ht hz
  subst hw ht hz
  exact ⟨_, rfl, rfl, rfl, rfl⟩

/-- observed through the model, not replayed (needs a kill in the window between the helper thread's waitpid and its
    callback): os/proc-kill tests only WAITED, so in that window it signals a pid that has already been reaped -/
theorem kill_in_callback_window_hits_reaped_pid :
    (ChildLife.run true {} [.waitStart, .exit, .threadReaps, .kill false]).map (·.staleKills) = some 1 := by decide

/-- non-vacuity: wait in one fiber, a second wait (error), cancelled waiter, kill, exit, completion, close, gc -/
example : (ChildLife.run true {} [.waitStart, .waitStart, .kill false, .exit, .threadReaps, .waitCb, .close, .gc]).map
    (fun s => (s.child, s.waited, s.collected, s.errors)) = some (.reaped, true, true, 1) := by decide

example : (ChildLife.run true {} [.kill false, .gc]).map (fun s => (s.child, s.collected)) = some (.reaped, true) := by decide

end ChildLifecycle

end JanetModel.Props.C20
